package tcplistener

// Test-only accessors added through the build overlay (never part of /repo): they expose the unexported
// multiLineReader exactly as runConnection constructs and drives it (newMultiLineReader, Read, Flush, FlushAll).

// VerifMultiLineReader wraps the real multiLineReader.
type VerifMultiLineReader struct {
	r *multiLineReader
}

// VerifNewMultiLineReader calls the real constructor with the same argument order as runConnection.
func VerifNewMultiLineReader(read func(p []byte) (int, error), test func(s []byte) bool, minBufferSize, softRecordLimit int,
	consume func(s []byte),
) *VerifMultiLineReader {
	return &VerifMultiLineReader{newMultiLineReader(read, test, minBufferSize, softRecordLimit, consume)}
}

// Read is multiLineReader.Read.
func (v *VerifMultiLineReader) Read() error { return v.r.Read() }

// Flush is multiLineReader.Flush.
func (v *VerifMultiLineReader) Flush() { v.r.Flush() }

// FlushAll is multiLineReader.FlushAll.
func (v *VerifMultiLineReader) FlushAll() { v.r.FlushAll() }

// Offsets returns (offsetSearch, offsetAppend, len(buffer)) for diagnostics.
func (v *VerifMultiLineReader) Offsets() (search, appendAt, size int) {
	return v.r.offsetSearch, v.r.offsetAppend, len(v.r.buffer)
}

// Reset puts the cursors back to the state of a freshly constructed reader (used to reuse the 4 MB production-size
// buffer between cases instead of allocating it again; the buffer content beyond the cursors is never meant to be read).
func (v *VerifMultiLineReader) Reset() {
	v.r.offsetSearch = 0
	v.r.offsetAppend = 0
}
