package baseoutput

import "github.com/relex/slog-agent/base"

// VerifConnectionOpener is a test-only accessor added through the build overlay (never part of /repo): it returns the
// EstablishConnectionFunc that an output's NewClientWorker (fluentdforward.NewClientWorker, datadog.NewClientWorker)
// handed to the common client worker, i.e. the real way this output opens its real connection type. The harness
// seq_conn drives the returned connections directly through the ClosableClientConnection interface.
// It returns nil if the consumer is not a *ClientWorker.
func VerifConnectionOpener(consumer base.ChunkConsumer) EstablishConnectionFunc {
	if w, ok := consumer.(*ClientWorker); ok {
		return w.openConn
	}
	return nil
}
