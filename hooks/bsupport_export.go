package bsupport

import "github.com/relex/slog-agent/base"

// Test-only accessors added through the build overlay (never part of /repo): they let a harness run the real
// LogProcessingWorker handlers on the calling goroutine instead of the worker's own goroutine, so that a panic in
// transform / serialize / pack can be recovered and attributed to the input that caused it.

// VerifOnInput is LogProcessingWorker.onInput (what the worker goroutine does for one received buffer).
func (worker *LogProcessingWorker) VerifOnInput(buffer []*base.LogRecord) { worker.onInput(buffer) }

// VerifOnStop is LogProcessingWorker.onStop (flush the pending chunk, update metrics), as done when the input channel closes.
func (worker *LogProcessingWorker) VerifOnStop() { worker.onStop() }

// VerifOnTick is LogProcessingWorker.onTick (what the worker goroutine does on its periodic ticker).
func (worker *LogProcessingWorker) VerifOnTick() { worker.onTick() }
