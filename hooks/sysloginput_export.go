package sysloginput

import "github.com/relex/slog-agent/base"

// Test-only accessor added through the build overlay (never part of /repo).

// VerifListenerOf returns the listener NewInput created.
func VerifListenerOf(in base.LogInput) base.LogListener {
	return in.(*input).listener
}
