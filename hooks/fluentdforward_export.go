package fluentdforward

// VerifSetChunkLimits is a test-only accessor added through the build overlay (never part of /repo): it sets the
// unexported package variables chunkMaxSizeBytes / chunkMaxRecords, which Config.NewChunkMaker reads when a chunk
// maker is created, and returns the previous values.
func VerifSetChunkLimits(maxSizeBytes, maxRecords int) (prevSizeBytes, prevRecords int) {
	prevSizeBytes, prevRecords = chunkMaxSizeBytes, chunkMaxRecords
	chunkMaxSizeBytes, chunkMaxRecords = maxSizeBytes, maxRecords
	return
}
