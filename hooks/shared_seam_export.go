package shared

// verifSeamSites is the number of `time.Now()` call sites of chunkidgen.go that harness/seq_chunks/overlay.sh redirected
// to the clock seam verifNow in the copy of the file that was compiled into this binary. The copy carries an appended
// `func init() { verifSeamSites = N }`; the value stays 0 when the copy was not made (the file no longer calls
// time.Now() textually) or was not compiled in. This is the STRUCTURAL half of the seam detection of seq_chunks: whether
// the seam exists is read from the build, not inferred from the text of a chunk ID.
var verifSeamSites int

// VerifSeamSites is a test-only accessor added through the build overlay (never part of /repo).
func VerifSeamSites() int { return verifSeamSites }
