package tcplistener

import "github.com/relex/slog-agent/base"

// Test-only accessors added through the build overlay (never part of /repo): the composed harness builds its input through the
// shipped sysloginput.Config.NewInput and drives the receiver NewInput wired into the listener, exactly as runConnection does.

// VerifReceiverOf returns the message receiver the listener hands every accepted connection to.
func VerifReceiverOf(l base.LogListener) base.MultiSinkMessageReceiver {
	return l.(*tcpLineListener).receiver
}

// VerifCloseSocket closes the listening socket of a listener that is never started.
func VerifCloseSocket(l base.LogListener) {
	l.(*tcpLineListener).socket.Close()
}
