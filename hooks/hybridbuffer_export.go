package hybridbuffer

import "github.com/relex/slog-agent/base"

// VerifQueueState is a test-only accessor added through the build overlay (never part of /repo): numbers of loaded
// chunks in the persistent queue, unloaded chunks there, and chunks in the in-memory output channel.
func VerifQueueState(b base.ChunkBufferer) (inLoaded, inUnloaded int64, out int) {
	buf := b.(*bufferer)
	return buf.metrics.queuedChunksTransient.Get(), buf.metrics.queuedChunksPersistent.Get(), len(buf.feeder.outputChannel)
}
