package shared

import "time"

// verifNow is the clock seam of the chunk ID generator. harness/seq_chunks/overlay.sh builds an overlay in which the
// current /repo/output/shared/chunkidgen.go is used with its `time.Now()` calls textually replaced by `verifNow()`;
// nothing else of the file is touched. Without that replacement this variable is simply unused.
var verifNow = time.Now

// VerifSetNow is a test-only accessor added through the build overlay (never part of /repo): it installs the clock read
// by the chunk ID generator; nil restores time.Now.
func VerifSetNow(f func() time.Time) {
	if f == nil {
		f = time.Now
	}
	verifNow = f
}
