package fluentdforward

// VerifSetChunkLimits is a test-only accessor added through the build overlay (never part of /repo): it scales the
// chunk limits down so that a handful of records makes several chunks. It returns the previous values.
func VerifSetChunkLimits(maxRecords, maxSizeBytes int) (int, int) {
	r, b := chunkMaxRecords, chunkMaxSizeBytes
	chunkMaxRecords, chunkMaxSizeBytes = maxRecords, maxSizeBytes
	return r, b
}
