package bconfig

// VerifAddOutputType is a test-only accessor added through the build overlay (never part of /repo): it registers an
// additional output type in the already registered constructor table, so that a harness-owned output (the real
// fluentdForward configuration with a scripted connection behind NewForwarder) is created by EVERY loader, including the
// one a configuration reload creates internally.
func VerifAddOutputType(name string, create func() LogOutputConfig) {
	getConfigConstructors[LogOutputConfig]()[name] = create
}
