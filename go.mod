module slogverif

go 1.22.0

toolchain go1.23.5

replace github.com/relex/slog-agent => /repo

require (
	github.com/c2h5oh/datasize v0.0.0-20231215233829-aa82cc1e6500
	github.com/gobwas/glob v0.2.3
	github.com/klauspost/compress v1.17.9
	github.com/pkg/xattr v0.4.9
	github.com/prometheus/client_golang v1.19.1
	github.com/prometheus/client_model v0.6.1
	github.com/puzpuzpuz/xsync v1.5.2
	github.com/relex/fluentlib v0.0.0-20240516105411-5529b575f355
	github.com/relex/gotils v1.1.1
	github.com/relex/slog-agent v0.0.0
	github.com/samber/lo v1.39.0
	github.com/sirupsen/logrus v1.9.3
	github.com/stretchr/testify v1.9.0
	github.com/vmihailenco/msgpack/v4 v4.3.13
	golang.org/x/exp v0.0.0-20240613232115-7f521ea00fb8
	golang.org/x/sys v0.29.0
	golang.org/x/tools v0.29.0
	gopkg.in/yaml.v3 v3.0.1
)

require (
	github.com/beorn7/perks v1.0.1 // indirect
	github.com/cespare/xxhash/v2 v2.3.0 // indirect
	github.com/davecgh/go-spew v1.1.2-0.20180830191138-d8f796af33cc // indirect
	github.com/fsnotify/fsnotify v1.7.0 // indirect
	github.com/golang/protobuf v1.5.4 // indirect
	github.com/hashicorp/hcl v1.0.0 // indirect
	github.com/iancoleman/strcase v0.3.0 // indirect
	github.com/inconshreveable/mousetrap v1.1.0 // indirect
	github.com/magiconair/properties v1.8.7 // indirect
	github.com/mitchellh/mapstructure v1.5.0 // indirect
	github.com/munnerz/goautoneg v0.0.0-20191010083416-a7dc8b61c822 // indirect
	github.com/pelletier/go-toml/v2 v2.2.2 // indirect
	github.com/pmezard/go-difflib v1.0.1-0.20181226105442-5d4384ee4fb2 // indirect
	github.com/prometheus/common v0.55.0 // indirect
	github.com/prometheus/procfs v0.15.1 // indirect
	github.com/sagikazarmark/locafero v0.6.0 // indirect
	github.com/sagikazarmark/slog-shim v0.1.0 // indirect
	github.com/sourcegraph/conc v0.3.0 // indirect
	github.com/spf13/afero v1.11.0 // indirect
	github.com/spf13/cast v1.6.0 // indirect
	github.com/spf13/cobra v1.8.1 // indirect
	github.com/spf13/pflag v1.0.5 // indirect
	github.com/spf13/viper v1.19.0 // indirect
	github.com/subosito/gotenv v1.6.0 // indirect
	github.com/vmihailenco/tagparser v0.1.2 // indirect
	go.uber.org/multierr v1.11.0 // indirect
	golang.org/x/mod v0.22.0 // indirect
	golang.org/x/sync v0.10.0 // indirect
	golang.org/x/term v0.21.0 // indirect
	golang.org/x/text v0.16.0 // indirect
	google.golang.org/appengine v1.6.8 // indirect
	google.golang.org/protobuf v1.34.2 // indirect
	gopkg.in/ini.v1 v1.67.0 // indirect
)
