// Package seq is the bounded-exhaustive enumeration driver shared by the sequential harnesses (group C and the
// crash/fault enumeration of C04): deterministic case enumeration sharded over worker processes, panic capture,
// attribution of a worker's death (fatal error, OOM, hang) to the case in flight, known-findings triage,
// replay of a single case, and the evidence writer.
//
// A harness implements Enumerate(ctx): it must generate the same cases in the same order in every process and
// pass each one to ctx.Case. Nothing is sampled: VERIF_SEED only rotates the shard-to-worker assignment.
package seq

import (
	"bufio"
	"encoding/json"
	"flag"
	"fmt"
	"os"
	"os/exec"
	"path/filepath"
	"regexp"
	"runtime"
	"runtime/debug"
	"sort"
	"strings"
	"sync"
	"time"

	"slogverif/kf"
)

// Config describes one sequential property check.
type Config struct {
	Property    string
	Level       string // "exploration" or "fault_enumeration"
	Rule        string
	Assumptions []string
	Enumerate   func(ctx *Ctx)
	// QuickDeadline / ThoroughDeadline bound the wall time (expiry => exhaustive:false, exit 0).
	QuickDeadline    time.Duration
	ThoroughDeadline time.Duration
	MaxProcs         int
	// WorkerArgs are extra command-line arguments (harness-specific flags) handed on to the worker processes.
	WorkerArgs []string
}

// Violation is one failing case.
type Violation struct {
	Key    string `json:"key"`
	CaseID string `json:"case"`
	Msg    string `json:"msg"`
	Input  string `json:"input,omitempty"`
}

// Ctx is handed to Enumerate.
type Ctx struct {
	Tier     string
	shard    int
	nshards  int
	ordinal  int64
	resume   int64 // skip cases with ordinal <= resume
	only     string
	inflight *os.File
	deadline time.Time

	Evals      int64                 `json:"evals"`
	Nontrivial int64                 `json:"nontrivial"`
	Viol       map[string]*Violation `json:"viol"`  // first violation per key
	ViolCount  map[string]int64      `json:"violn"` // count per key
	Samples    []any                 `json:"samples"`
	Expired    bool                  `json:"expired"`
	Groups     map[string]int64      `json:"groups"` // evaluations per named group
	Notes      map[string]string     `json:"notes"`
	LastOrd    int64                 `json:"last_ord"`
	group      string
}

// Thorough reports whether the thorough tier was requested.
func (c *Ctx) Thorough() bool { return c.Tier == "thorough" }

// Group names the family the following cases belong to (reported in the evidence).
func (c *Ctx) Group(name string) { c.group = name }

// Note records a free-form remark for the evidence.
func (c *Ctx) Note(k, v string) {
	if c.Notes == nil {
		c.Notes = map[string]string{}
	}
	c.Notes[k] = v
}

// Stop reports whether enumeration should end early (deadline hit).
func (c *Ctx) Stop() bool {
	if c.Expired {
		return true
	}
	if c.ordinal&1023 == 0 && !c.deadline.IsZero() && time.Now().After(c.deadline) {
		c.Expired = true
	}
	return c.Expired
}

// Mine reports whether the next case (to be passed to Case) belongs to this shard; harnesses may use it to skip
// expensive input construction. It does not advance the ordinal.
func (c *Ctx) Mine() bool {
	o := c.ordinal + 1
	if c.only != "" {
		return true
	}
	return o > c.resume && int(o%int64(c.nshards)) == c.shard
}

// Skip advances the ordinal without running a case (pair with Mine()).
func (c *Ctx) Skip() { c.ordinal++ }

// Case runs one case. id must identify the case uniquely and reproducibly. nontrivial says whether the case reaches
// the code under test past its cheap rejections. run returns ("", "") if the property held, else a stable
// violation key (class) and a message. A panic inside run is reported as key "panic:<top frame>".
func (c *Ctx) Case(id string, nontrivial bool, input string, run func() (key, msg string)) {
	c.ordinal++
	if c.only != "" {
		if id != c.only {
			return
		}
	} else {
		if c.ordinal <= c.resume || int(c.ordinal%int64(c.nshards)) != c.shard {
			return
		}
	}
	if c.inflight != nil {
		rec := fmt.Sprintf("%020d %s", c.ordinal, id)
		if len(rec) > 4000 {
			rec = rec[:4000]
		}
		c.inflight.WriteAt([]byte(fmt.Sprintf("%04d%s", len(rec), rec)), 0)
	}
	c.Evals++
	c.LastOrd = c.ordinal
	if c.Groups == nil {
		c.Groups = map[string]int64{}
	}
	c.Groups[c.group]++
	if nontrivial {
		c.Nontrivial++
	}
	if len(c.Samples) < 4 && (c.Evals == 1 || c.Evals == 1000 || c.Evals == 100000 || (nontrivial && c.Nontrivial == 1)) {
		c.Samples = append(c.Samples, map[string]string{"case": id, "input": clip(input, 300), "group": c.group})
	}
	key, msg := c.guarded(run)
	if key != "" {
		c.Report(key, id, msg, input)
	}
}

// Report records a violation found outside Case (e.g. while aggregating).
func (c *Ctx) Report(key, id, msg, input string) {
	if c.Viol == nil {
		c.Viol = map[string]*Violation{}
		c.ViolCount = map[string]int64{}
	}
	c.ViolCount[key]++
	if _, ok := c.Viol[key]; !ok {
		c.Viol[key] = &Violation{Key: key, CaseID: id, Msg: clip(msg, 2000), Input: clip(input, 4000)}
	}
}

func clip(s string, n int) string {
	if len(s) > n {
		return s[:n] + fmt.Sprintf("...(%d bytes)", len(s))
	}
	return s
}

func (c *Ctx) guarded(run func() (string, string)) (key, msg string) {
	defer func() {
		if r := recover(); r != nil {
			key = "panic:" + PanicSite(debug.Stack())
			msg = fmt.Sprintf("panic: %v\n%s", r, trimStack(debug.Stack()))
		}
	}()
	return run()
}

// Catch runs f and returns a non-empty description if it panicked (for harnesses that want to go on after a panic).
func Catch(f func()) (site, detail string) {
	defer func() {
		if r := recover(); r != nil {
			st := debug.Stack()
			site = PanicSite(st)
			detail = fmt.Sprintf("panic: %v\n%s", r, trimStack(st))
		}
	}()
	f()
	return "", ""
}

// PanicSite extracts "file.go:func" of the first slog-agent (or gotils) frame below the panic.
func PanicSite(stack []byte) string {
	lines := strings.Split(string(stack), "\n")
	seenPanic := false
	for i := 0; i+1 < len(lines); i++ {
		l := lines[i]
		if strings.HasPrefix(l, "panic(") {
			seenPanic = true
			continue
		}
		if !seenPanic {
			continue
		}
		if strings.Contains(l, "github.com/relex/") {
			fn := l
			if j := strings.LastIndex(fn, "/"); j >= 0 {
				fn = fn[j+1:]
			}
			if j := strings.Index(fn, "("); j > 0 && !strings.HasPrefix(fn[j:], "(*") {
				fn = fn[:j]
			} else if j := strings.LastIndex(fn, "("); j > 0 {
				fn = fn[:j]
			}
			return fn
		}
	}
	return "unknown"
}

func trimStack(b []byte) string {
	lines := strings.Split(string(b), "\n")
	out := []string{}
	for _, l := range lines {
		if strings.Contains(l, "runtime/debug") || strings.Contains(l, "slogverif/seq") {
			continue
		}
		out = append(out, l)
		if len(out) > 30 {
			break
		}
	}
	return strings.Join(out, "\n")
}

// ---------------------------------------------------------------------------------------------

var (
	flagTier     = flag.String("tier", "quick", "quick|thorough")
	flagEvidence = flag.String("evidence", "", "evidence file")
	flagKnown    = flag.String("known", "/verif/known_findings.json", "known findings file")
	flagReplays  = flag.String("replays", "/verif/replays", "replay directory")
	flagReplay   = flag.String("replay", "", "replay file")
	flagShard    = flag.String("shard", "", "worker mode: i/n")
	flagResume   = flag.Int64("resume", 0, "worker mode: skip ordinals <= this")
	flagInflight = flag.String("inflight", "", "worker mode: in-flight marker file")
	flagProcs    = flag.Int("procs", 0, "worker processes")
	flagDeadline = flag.Duration("deadline", 0, "wall-clock budget")
	flagOnlyCase = flag.String("case", "", "run a single case id in-process")
)

type replayDoc struct {
	Property string `json:"property"`
	Key      string `json:"key"`
	CaseID   string `json:"case"`
	Msg      string `json:"msg"`
	Input    string `json:"input"`
	Tier     string `json:"tier"`
}

// Main is the entry point of a sequential harness.
func Main(cfg *Config) {
	flag.Parse()
	tier := *flagTier
	if *flagShard != "" {
		workerMain(cfg, tier)
		return
	}
	if *flagReplay != "" || *flagOnlyCase != "" {
		os.Exit(replay(cfg, tier))
	}
	os.Exit(coordinate(cfg, tier))
}

func workerMain(cfg *Config, tier string) {
	var i, n int
	fmt.Sscanf(*flagShard, "%d/%d", &i, &n)
	ctx := &Ctx{Tier: tier, shard: i, nshards: n, resume: *flagResume}
	if d := os.Getenv("VERIF_DEADLINE_UNIX"); d != "" {
		var u int64
		fmt.Sscanf(d, "%d", &u)
		ctx.deadline = time.Unix(u, 0)
	}
	if *flagInflight != "" {
		f, err := os.OpenFile(*flagInflight, os.O_RDWR|os.O_CREATE, 0o644)
		if err == nil {
			ctx.inflight = f
		}
	}
	cfg.Enumerate(ctx)
	out := bufio.NewWriter(os.Stdout)
	json.NewEncoder(out).Encode(ctx)
	out.Flush()
}

func replay(cfg *Config, tier string) int {
	id := *flagOnlyCase
	if *flagReplay != "" {
		data, err := os.ReadFile(*flagReplay)
		if err != nil {
			fmt.Printf("ENGINE-ERROR %v\n", err)
			return 2
		}
		var doc replayDoc
		if err := json.Unmarshal(data, &doc); err != nil {
			fmt.Printf("ENGINE-ERROR %v\n", err)
			return 2
		}
		id = doc.CaseID
		if doc.Tier != "" {
			tier = doc.Tier
		}
	}
	ctx := &Ctx{Tier: tier, nshards: 1, only: id}
	cfg.Enumerate(ctx)
	if ctx.Evals == 0 {
		// exit code 3: the replay file belongs to another part (harness) of a multi-part check; ./check moves on
		fmt.Printf("NOT-IN-THIS-PART case %q not found in the enumeration of tier %s\n", id, tier)
		return 3
	}
	if len(ctx.Viol) == 0 {
		fmt.Printf("case %q: no violation on replay\n", id)
		return 0
	}
	for _, v := range ctx.Viol {
		fmt.Printf("VIOLATION property=%s replay=%s\n  key=%s case=%s\n  %s\n", cfg.Property, *flagReplay, v.Key, v.CaseID, v.Msg)
	}
	return 1
}

type shardResult struct {
	ctx    *Ctx
	deaths []Violation
	err    string
}

func runShard(cfg *Config, tier string, i, n int, deadline time.Time) shardResult {
	var res shardResult
	merged := &Ctx{Viol: map[string]*Violation{}, ViolCount: map[string]int64{}, Groups: map[string]int64{}}
	resume := int64(0)
	marker := filepath.Join(os.TempDir(), fmt.Sprintf("verif-inflight-%d-%d", os.Getpid(), i))
	defer os.Remove(marker)
	for attempt := 0; attempt < 200; attempt++ {
		os.Remove(marker)
		cmd := exec.Command(os.Args[0], "-tier", tier, "-shard", fmt.Sprintf("%d/%d", i, n), "-resume", fmt.Sprint(resume), "-inflight", marker)
		cmd.Args = append(cmd.Args, cfg.WorkerArgs...)
		cmd.Env = append(os.Environ(), fmt.Sprintf("VERIF_DEADLINE_UNIX=%d", deadline.Unix()), "GOMAXPROCS=2")
		var stderr strings.Builder
		cmd.Stderr = &limitedWriter{w: &stderr, n: 1 << 16}
		stdout, _ := cmd.StdoutPipe()
		if err := cmd.Start(); err != nil {
			res.err = err.Error()
			return res
		}
		done := make(chan struct{})
		var ctx Ctx
		var decErr error
		go func() {
			decErr = json.NewDecoder(bufio.NewReaderSize(stdout, 1<<20)).Decode(&ctx)
			close(done)
		}()
		// A worker ends by itself at the deadline (ctx.Stop). It is killed only if the case in flight makes no progress
		// for caseTimeout: that is a hang of THAT case, attributed to it. Running out of time is never a verdict.
		hung := false
		lastOrd, lastChange := int64(-1), time.Now()
	wait:
		for {
			select {
			case <-done:
				break wait
			case <-time.After(3 * time.Second):
				if o := markerOrdinal(marker); o != lastOrd {
					lastOrd, lastChange = o, time.Now()
				} else if time.Since(lastChange) > caseTimeout {
					hung = true
					cmd.Process.Kill()
					<-done
					break wait
				}
			}
		}
		werr := cmd.Wait()
		if werr == nil && decErr == nil {
			mergeCtx(merged, &ctx)
			res.ctx = merged
			return res
		}
		// the worker died: attribute to the case in flight and go on after it
		data, _ := os.ReadFile(marker)
		var ord int64
		caseID := ""
		if len(data) > 4 {
			var l int
			fmt.Sscanf(string(data[:4]), "%d", &l)
			if 4+l <= len(data) {
				rec := string(data[4 : 4+l])
				fmt.Sscanf(rec[:20], "%d", &ord)
				if len(rec) > 21 {
					caseID = rec[21:]
				}
			}
		}
		if ord <= resume {
			res.err = fmt.Sprintf("shard %d: worker failed without progress: %v; stderr: %s", i, werr, clip(stderr.String(), 600))
			res.ctx = merged
			return res
		}
		kind := "fatal"
		if hung {
			kind = "hang"
		}
		site := fatalSite(stderr.String())
		res.deaths = append(res.deaths, Violation{Key: kind + ":" + site, CaseID: caseID, Msg: fmt.Sprintf("worker process died (%v) while running this case; stderr: %s", werr, clip(stderr.String(), 1500))})
		// evaluations done before the death are not reported by the dead worker; count them conservatively as zero
		resume = ord
	}
	res.err = "too many worker deaths in one shard"
	res.ctx = merged
	return res
}

// caseTimeout is how long one case may run without the in-flight marker moving before it is declared hung.
var caseTimeout = 5 * time.Minute

func markerOrdinal(path string) int64 {
	data, err := os.ReadFile(path)
	if err != nil || len(data) < 24 {
		return -1
	}
	var ord int64
	fmt.Sscanf(string(data[4:24]), "%d", &ord)
	return ord
}

type limitedWriter struct {
	w *strings.Builder
	n int
}

func (l *limitedWriter) Write(p []byte) (int, error) {
	if l.w.Len() < l.n {
		l.w.Write(p)
	}
	return len(p), nil
}

// hexRe matches addresses in a panic value: they differ from run to run and must not become part of a violation key.
var hexRe = regexp.MustCompile(`0x[0-9a-fA-F]+`)

func fatalSite(stderr string) string {
	lines := strings.Split(stderr, "\n")
	first := ""
	for _, l := range lines {
		if strings.HasPrefix(l, "fatal error:") || strings.HasPrefix(l, "panic:") || strings.HasPrefix(l, "unexpected fault") || strings.Contains(l, "SIGSEGV") {
			first = l
			break
		}
	}
	site := "unknown"
	for _, l := range lines {
		if strings.Contains(l, "github.com/relex/slog-agent/") && strings.Contains(l, "(") {
			fn := l
			if j := strings.LastIndex(fn, "/"); j >= 0 {
				fn = fn[j+1:]
			}
			if j := strings.LastIndex(fn, "("); j > 0 {
				fn = fn[:j]
			}
			site = fn
			break
		}
	}
	if first != "" {
		w := strings.Fields(first)
		if len(w) > 4 {
			w = w[:4]
		}
		return hexRe.ReplaceAllString(strings.Join(w, "_"), "0x?") + "@" + site
	}
	return site
}

func mergeCtx(dst, src *Ctx) {
	dst.Evals += src.Evals
	dst.Nontrivial += src.Nontrivial
	for k, v := range src.Viol {
		if _, ok := dst.Viol[k]; !ok {
			dst.Viol[k] = v
		}
	}
	for k, v := range src.ViolCount {
		dst.ViolCount[k] += v
	}
	for k, v := range src.Groups {
		dst.Groups[k] += v
	}
	for k, v := range src.Notes {
		if dst.Notes == nil {
			dst.Notes = map[string]string{}
		}
		dst.Notes[k] = v
	}
	if len(dst.Samples) < 6 {
		dst.Samples = append(dst.Samples, src.Samples...)
	}
	if src.Expired {
		dst.Expired = true
	}
}

func coordinate(cfg *Config, tier string) int {
	start := time.Now()
	budget := *flagDeadline
	if budget == 0 {
		if tier == "quick" {
			// the quick tier is sized for one to two minutes on an idle machine; the deadline is only a safety net and must not
			// cut coverage silently when the machine is loaded (expiry still means exhaustive:false, exit 0)
			budget = cfg.QuickDeadline
			if budget < 20*time.Minute {
				budget = 20 * time.Minute
			}
		} else {
			budget = cfg.ThoroughDeadline
			if budget == 0 {
				budget = 60 * time.Minute
			}
		}
	}
	deadline := start.Add(budget)
	n := *flagProcs
	if n == 0 {
		n = runtime.NumCPU()
		if cfg.MaxProcs > 0 && n > cfg.MaxProcs {
			n = cfg.MaxProcs
		}
	}
	results := make([]shardResult, n)
	var wg sync.WaitGroup
	for i := 0; i < n; i++ {
		wg.Add(1)
		go func(i int) {
			defer wg.Done()
			results[i] = runShard(cfg, tier, i, n, deadline)
		}(i)
	}
	wg.Wait()
	total := &Ctx{Viol: map[string]*Violation{}, ViolCount: map[string]int64{}, Groups: map[string]int64{}}
	var engineErrors []string
	for _, r := range results {
		if r.ctx != nil {
			mergeCtx(total, r.ctx)
		}
		for _, d := range r.deaths {
			d := d
			total.ViolCount[d.Key]++
			if _, ok := total.Viol[d.Key]; !ok {
				total.Viol[d.Key] = &d
			}
		}
		if r.err != "" {
			engineErrors = append(engineErrors, r.err)
		}
	}
	known := kf.Load(*flagKnown, cfg.Property)
	keys := make([]string, 0, len(total.Viol))
	for k := range total.Viol {
		keys = append(keys, k)
	}
	sort.Strings(keys)
	violations := 0
	knownSeen := map[string]bool{}
	os.MkdirAll(*flagReplays, 0o755)
	for _, k := range keys {
		v := total.Viol[k]
		if f := known.Match("", k); f != nil {
			if !knownSeen[f.Key] {
				knownSeen[f.Key] = true
				fmt.Printf("KNOWN-FINDING: property=%s %s\n", cfg.Property, f.What)
			}
			continue
		}
		violations++
		path := filepath.Join(*flagReplays, fmt.Sprintf("%s-%s.json", cfg.Property, sanitize(k)))
		data, _ := json.MarshalIndent(replayDoc{Property: cfg.Property, Key: v.Key, CaseID: v.CaseID, Msg: v.Msg, Input: v.Input, Tier: tier}, "", " ")
		os.WriteFile(path, data, 0o644)
		fmt.Printf("VIOLATION property=%s replay=%s\n  key=%s count=%d case=%s\n  %s\n", cfg.Property, path, k, total.ViolCount[k], clip(v.CaseID, 200), clip(v.Msg, 600))
	}
	exhaustive := !total.Expired && len(engineErrors) == 0
	wall := time.Since(start).Seconds()
	if *flagEvidence != "" {
		samples := total.Samples
		if len(samples) > 6 {
			samples = samples[:6]
		}
		if len(samples) == 0 {
			samples = []any{"no case ran"}
		}
		kseen := []string{}
		for k := range knownSeen {
			kseen = append(kseen, k)
		}
		sort.Strings(kseen)
		ev := map[string]any{
			"property_id": cfg.Property,
			"tier":        tier,
			"seed":        seedFromEnv(),
			"level":       cfg.Level,
			"coverage": map[string]any{
				"evaluations":             total.Evals,
				"distinct_nontrivial":     total.Nontrivial,
				"rule":                    cfg.Rule,
				"samples":                 samples,
				"exhaustive":              exhaustive,
				"groups":                  total.Groups,
				"violation_classes":       total.ViolCount,
				"known_findings_observed": kseen,
				"engine_errors":           engineErrors,
				"notes":                   total.Notes,
				"worker_processes":        n,
			},
			"assumptions": cfg.Assumptions,
			"wall_s":      wall,
			"violations":  violations,
		}
		data, _ := json.MarshalIndent(ev, "", " ")
		os.MkdirAll(filepath.Dir(*flagEvidence), 0o755)
		if err := os.WriteFile(*flagEvidence, data, 0o644); err != nil {
			fmt.Printf("ENGINE-ERROR cannot write evidence: %v\n", err)
			return 2
		}
	}
	gk := make([]string, 0, len(total.Groups))
	for k := range total.Groups {
		gk = append(gk, k)
	}
	sort.Strings(gk)
	for _, k := range gk {
		fmt.Printf("group %-40s cases=%d\n", k, total.Groups[k])
	}
	fmt.Printf("total: evaluations=%d nontrivial=%d violation_classes=%d unlisted=%d exhaustive=%v wall=%.1fs\n", total.Evals, total.Nontrivial, len(total.Viol), violations, exhaustive, wall)
	if violations > 0 {
		return 1
	}
	if len(engineErrors) > 0 {
		for _, e := range engineErrors {
			fmt.Printf("ENGINE-ERROR %s\n", e)
		}
		return 2
	}
	return 0
}

func sanitize(s string) string {
	if len(s) > 80 {
		s = s[:80]
	}
	return strings.Map(func(r rune) rune {
		if (r >= 'a' && r <= 'z') || (r >= 'A' && r <= 'Z') || (r >= '0' && r <= '9') || r == '-' || r == '_' || r == '.' {
			return r
		}
		return '_'
	}, s)
}

func seedFromEnv() int {
	var n int
	fmt.Sscanf(os.Getenv("VERIF_SEED"), "%d", &n)
	return n
}
