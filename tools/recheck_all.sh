#!/bin/bash
# recheck_all.sh [pattern]: re-runs the current checks against every recorded property-breaking change under seeded/ (each applied
# to a scratch worktree of /repo's HEAD) and updates "our_check" in its meta.json. Prints one line per seed.
set -u
cd /verif
PAT=${1:-}
export GOFLAGS=-mod=mod GOPROXY=off GOSUMDB=off GOTOOLCHAIN=local
WT=/tmp/wt_recheck_$$
git -C /repo worktree remove --force $WT 2>/dev/null
git -C /repo worktree add --detach $WT HEAD -q || exit 2
for d in seeded/*${PAT}*/; do
  sid=$(basename $d)
  case $sid in red-*) [ "${2:-}" = blind ] && continue;; esac
  prop=$(python3 -c "import json;print(json.load(open('$d/meta.json'))['property'])")
  git -C $WT checkout -q -- . ; git -C $WT clean -fdq
  if ! git -C $WT apply "/verif/$d/patch.diff" 2>/dev/null; then
    if ! git -C $WT apply --3way "/verif/$d/patch.diff" 2>/dev/null; then echo "$sid PATCH-DOES-NOT-APPLY"; git -C $WT checkout -q -- . ; git -C $WT reset -q --hard; continue; fi
  fi
  VERIF_REPO=$WT ./check $prop --tier quick -evidence /tmp/ev_rc_$$.json -replays /tmp/rp_rc_$$ > /tmp/check_rc_$$.log 2>&1
  rc=$?
  keys=$(grep -a -o "key=[^ ]*" /tmp/check_rc_$$.log | sort -u | head -6 | tr '\n' ' ')
  python3 - "$d/meta.json" "$prop" "$rc" "$keys" <<'PY'
import json,sys
p,prop,rc,keys=sys.argv[1:5]
m=json.load(open(p))
m["our_check"]={"command":"VERIF_REPO=<worktree> ./check %s --tier quick"%prop,"exit":int(rc),"detected":int(rc)==1,"violation_keys":keys.split()}
json.dump(m,open(p,"w"),indent=1)
PY
  echo "$sid exit=$rc $keys"
  rm -rf /tmp/ev_rc_$$.json* /tmp/rp_rc_$$
done
git -C /repo worktree remove --force $WT
