#!/usr/bin/env python3
"""merge_evidence.py OUT part1.json part2.json ...: merges the evidence files written by several harness runs of one property."""
import json, sys
out, parts = sys.argv[1], [json.load(open(p)) for p in sys.argv[2:]]
ev = parts[0]
cov = ev["coverage"]
for p in parts[1:]:
    c = p["coverage"]
    for k in ("states", "transitions", "traces_validated_against_impl", "evaluations", "distinct_nontrivial", "pruned_branches"):
        if k in c:
            cov[k] = cov.get(k, 0) + c[k]
    for k in ("samples", "scenarios", "engine_errors", "known_findings_observed"):
        if k in c:
            cov[k] = (cov.get(k) or []) + (c[k] or [])
    for k in ("max_choice_points", "max_goroutines"):
        if k in c:
            cov[k] = max(cov.get(k, 0), c[k])
    for k, v in (c.get("statuses") or {}).items():
        cov.setdefault("statuses", {})[k] = cov.get("statuses", {}).get(k, 0) + v
    cov["exhaustive"] = bool(cov.get("exhaustive")) and bool(c.get("exhaustive"))
    cov["rule"] = cov.get("rule", "") + " || " + c.get("rule", "")
    ev["assumptions"] = list(dict.fromkeys((ev.get("assumptions") or []) + (p.get("assumptions") or [])))
    ev["wall_s"] = ev.get("wall_s", 0) + p.get("wall_s", 0)
    ev["violations"] = ev.get("violations", 0) + p.get("violations", 0)
cov["samples"] = cov.get("samples", [])[:8]
json.dump(ev, open(out, "w"), indent=1)
