#!/bin/bash
# confirm_seed.sh <worktree> <seed-id> <property> <demo-file-in-_seed> <dest-dir-relative> <go-test-pkg> <run-regex>
# Confirms a seeded property-breaking change in a scratch worktree (never /repo): suite passes with it, demonstration fails
# with it and passes without it, then runs our check against the worktree and stores everything under /verif/seeded/<id>/.
set -u
WT=$1; SID=$2; PROP=$3; DEMO=$4; DEST=$5; PKG=$6; RUN=$7
export GOFLAGS=-mod=mod GOPROXY=off GOSUMDB=off GOTOOLCHAIN=local
OUT=/verif/seeded/$SID
mkdir -p "$OUT"
cd "$WT" || exit 2
PATCH=$WT/_seed/patch.diff
# make sure the change is applied
git apply --check -R "$PATCH" 2>/dev/null || git apply "$PATCH" || { echo "cannot apply patch"; exit 2; }
suite=fail
for try in 1 2 3; do
  if go test -vet=off -count=1 ./... > /tmp/suite_$SID.log 2>&1; then suite=pass; break; fi
  # the suite has load-dependent flakes of its own (fixed port 5140 in ./test, timing in TestAgent / TestReloader /
  # TestNetConnWrapper, also on the untouched tree): retry when only those packages failed
  if grep "^FAIL" /tmp/suite_$SID.log | grep -v "slog-agent/test\|slog-agent/run\|slog-agent/util\s\|^FAIL$" | grep -q .; then break; fi
  sleep 5
done
echo "suite with change: $suite"
cp "$WT/_seed/$DEMO" "$WT/$DEST/"
go test -vet=off -count=1 -run "$RUN" "$PKG" > /tmp/demo_with_$SID.log 2>&1 && with=pass || with=fail
echo "demo with change: $with"
git apply -R "$PATCH"
go test -vet=off -count=1 -run "$RUN" "$PKG" > /tmp/demo_without_$SID.log 2>&1 && without=pass || without=fail
echo "demo without change: $without"
git apply "$PATCH"
rm -f "$WT/$DEST/$DEMO"
cd /verif
VERIF_REPO=$WT ./check $PROP --tier quick -evidence /tmp/ev_seed_$SID.json -replays /tmp/rp_seed_$SID > /tmp/check_$SID.log 2>&1
rc=$?
echo "check exit: $rc"
grep "VIOLATION\|key=" /tmp/check_$SID.log | head -4 | cut -c1-250
cp "$PATCH" "$OUT/patch.diff"
cp "$WT/_seed/$DEMO" "$OUT/"
[ -f "$WT/_seed/notes.md" ] && cp "$WT/_seed/notes.md" "$OUT/notes.md"
keys=$(grep -a -o "key=[^ ]*" /tmp/check_$SID.log | sort -u | head -6 | tr '\n' ' ')
python3 - "$OUT/meta.json" "$SID" "$PROP" "$suite" "$with" "$without" "$rc" "$keys" "$DEMO" "$DEST" "$PKG" "$RUN" <<'PY'
import json,sys
out,sid,prop,suite,w,wo,rc,keys,demo,dest,pkg,run=sys.argv[1:13]
json.dump({"seed":sid,"property":prop,"source":"fresh sub-agent given only the property text and a scratch worktree",
 "needs_to_manifest":"see notes.md",
 "confirmed":{"suite_with_change":suite,"demonstration_with_change":w,"demonstration_without_change":wo,
   "commands":["go test -vet=off -count=1 ./...","cp %s <worktree>/%s/ && go test -vet=off -count=1 -run '%s' %s"%(demo,dest,run,pkg),"git apply -R patch.diff && same demonstration"]},
 "our_check":{"command":"VERIF_REPO=<worktree> ./check %s --tier quick"%prop,"exit":int(rc),"detected":int(rc)==1,"violation_keys":keys.split()}},open(out,"w"),indent=1)
PY
cat "$OUT/meta.json" | head -30
