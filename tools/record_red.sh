#!/bin/bash
# record_red.sh <property> <diff-file> <worktree> [note]: a mutant written by a white-box red-team agent (it read the harness and
# looked for blind spots). Applies it in the scratch worktree, runs the repository suite and our check, stores
# seeded/red-<property>-<slug>/{patch.diff,meta.json}.
set -u
PROP=$1; DIFF=$2; WT=$3; NOTE=${4:-}
export GOFLAGS=-mod=mod GOPROXY=off GOSUMDB=off GOTOOLCHAIN=local
slug=$(basename "$DIFF" .diff | sed 's/^[0-9]*-//')
SID=red-$PROP-$slug
OUT=/verif/seeded/$SID
mkdir -p "$OUT"
git -C "$WT" checkout -q -- . ; git -C "$WT" apply "$DIFF" || { echo "cannot apply $DIFF"; exit 2; }
suite=fail
[ -n "${SKIP_SUITE:-}" ] && suite="pass (run by the red-team agent; not re-run here)"
for try in 1 2 3; do
  [ -n "${SKIP_SUITE:-}" ] && break
  if (cd "$WT" && go test -vet=off -count=1 ./... > /tmp/suite_$SID.log 2>&1); then suite=pass; break; fi
  if grep "^FAIL" /tmp/suite_$SID.log | grep -v "slog-agent/test\|slog-agent/run\|slog-agent/util\s\|slog-agent/buffer/hybridbuffer\|^FAIL$" | grep -q .; then break; fi
  sleep 3
done
cd /verif
VERIF_REPO=$WT ./check $PROP --tier quick -evidence /tmp/ev_$SID.json -replays /tmp/rp_$SID > /tmp/check_$SID.log 2>&1
rc=$?
keys=$(grep -a -o "key=[^ ]*" /tmp/check_$SID.log | sort -u | head -6 | tr '\n' ' ')
cp "$DIFF" "$OUT/patch.diff"
python3 - "$OUT/meta.json" "$SID" "$PROP" "$suite" "$rc" "$keys" "$NOTE" <<'PY'
import json,sys
out,sid,prop,suite,rc,keys,note=sys.argv[1:8]
json.dump({"seed":sid,"property":prop,"source":"white-box red-team sub-agent (read the harness, looked for blind spots; the first version of the check missed it)",
 "needs_to_manifest":note,"confirmed":{"suite_with_change":suite},
 "our_check":{"command":"VERIF_REPO=<worktree> ./check %s --tier quick"%prop,"exit":int(rc),"detected":int(rc)==1,"violation_keys":keys.split()}},open(out,"w"),indent=1)
PY
echo "$SID suite=$suite check-exit=$rc $keys"
git -C "$WT" checkout -q -- .
rm -rf /tmp/ev_$SID.json* /tmp/rp_$SID /tmp/check_$SID.log /tmp/suite_$SID.log
