#!/usr/bin/env python3
"""Regenerates /verif/MANIFEST.json from the table below (keeps the file valid at all times)."""
import json, os
SEQ = "bounded-exhaustive enumeration of inputs against an independent reference model"
MC = "stateless model checking of the instrumented implementation (controlled scheduler, DFS over schedules and environment answers, iterative deviation bounding)"
checks = {
 "C02": dict(cat="model_checking", engine="vsched+explore", tech=MC, ref="DESIGN.md §5 C02",
   text="every schedule of the real ClientWorker goroutines (sender, acknowledger, opener, stop aborter) and every scripted-upstream answer script within the deviation bound, for 1-3 chunks, ack window 1-2, ID and in-order ACK modes, stop at any point / no stop with a liveness horizon; oracles: confirmed only after own ACK on a connection that transmitted it, exactly-once resolution at stop, ascending transmission without skipping, bounded liveness",
   note="bounded: <=3 chunks, deviation bound 1-3 (see evidence per scenario); A-time timing assumption; a scripted connection stands for the network"),
 "C03": dict(cat="model_checking", engine="vsched+explore", tech=MC, ref="DESIGN.md §5 C03",
   text="every schedule of the real hybridbuffer (Accept/Destroy caller, feeder goroutine, scripted consumer) and every consumer behaviour script (confirm, keep + hand back, stall, finish early) within the deviation bound, on a real scratch directory, over 1-3 generations and a grid of memory window x queue capacity x size limit x usable/unusable directory; conservation ledger, FIFO order, non-blocking Accept (deadlock detection), memory and disk bounds",
   note="bounded: <=5 chunks per generation, <=3 generations, deviation bound 1-3; memory bound asserted only when every Accept was issued at quiescence"),
 "C15": dict(cat="exploration", engine="seq", tech=SEQ + " (independent reference interpreter for every transform and match operator)", ref="DESIGN.md §5 C15, Appendix A.4",
   text="every leaf transform with its parameter menu, every match operator x argument x carrier, systematic glob patterns x values, all ordered pairs of a 24-leaf menu, leaves under every control context to depth 2/3, all if/switch/block nestings over marker and drop leaves, sampling rates 1..99 x every prefix up to 300 matched records; oracle: fields, Unescaped flag, PASS/DROP and label counts equal the reference interpreter; second record through the same instance",
   note="nesting grammar at depth >=2 restricted in breadth (see harness/seq_transform/README.md); addFields pair order undefined, only order-independent pair sets; 4 known findings in the third-party glob matcher"),
 "C16": dict(cat="exploration", engine="seq", tech="exhaustive enumeration of (site x invalid-kind) configuration mutants and of a bounded grammar of valid configurations through the real loader, then full instantiation and a record menu", ref="DESIGN.md §5 C16",
   text="sample configuration + ~40 minimal base files; every YAML node naming a field/capture/template/pattern/bound/size/type/section is a site, every applicable invalid kind is applied; ParseConfigFile must return; accepted files are fully instantiated (parser with extractions, transforms, rewriters, serializers, chunk makers, real orchestrator with pipelines and hybrid buffers, inputs) and process a 38-record menu without panic; valid side: leaf transforms alone, in ordered pairs and nested to depth 2, orchestrators x outputs; role products: every subset of Fluentd field roles per field, and orchestration keys x metricKeys",
   note="silent acceptance of values that never panic (unknown hiddenFields entry, negative duration, empty output name) tolerated; see harness/seq_config/README.md"),
 "C17": dict(cat="model_checking", engine="vsched+explore", tech=MC, ref="DESIGN.md §5 C17",
   text="all interleavings within the preemption bound of two connection threads, the real SIGHUP goroutine of run.ReloadableOrchestrator and the moment(s) of SIGHUP, at the orchestrator API with recording downstream orchestrators: distinct and reused client numbers, reload succeeding and failing, two reloads; oracles: no record handed to a shut-down pipeline set, every accepted record delivered exactly once, no sink closed by another connection, no nil-sink panic, failed reload has no effect but the failure count",
   note="API level (the deciding level the property names); preemption bound 2 quick / 3 thorough; downstream orchestrators are recording fakes; configuration-file level of reload is exercised by run's own tests and the composed harness"),
 "C04": dict(cat="fault_enumeration", engine="seq+vfs", tech="exhaustive fault and crash-point enumeration over a syscall seam (every byte offset of the file write, every syscall boundary, every position of the affected chunk), restart and strict comparison with the produced bytes", ref="DESIGN.md §5 C04",
   text="for every chunk size in the menu, every position of the affected chunk, spill-at-Accept and save-at-shutdown: every k at which the write stops (short write, ENOSPC/EFBIG/EIO), errors at open/close/rename/fsync, process death before every syscall and after every k bytes of every write of the chunk file; the real hybridbuffer recovers the resulting directory; every forwarded chunk must be byte-identical, undamaged chunks recovered in order, the damaged one accounted",
   note="process-death model (page cache survives); faults injected at unix.*/os.Rename/os.Remove call sites of util and hybridbuffer via AST rewrite (seam-blind guard if the write path moves elsewhere); default schedule"),
 "C18": dict(cat="model_checking", engine="vsched+explore", tech=MC, ref="DESIGN.md §5 C18",
   text="real hybridbuffer + real ClientWorker over a scripted upstream; the stop request lands at every scheduling point (cost 1) under every upstream answer script within the bound (refuse, hang, reset, blocked write, silent, late ACK), small and large-chunk class, resend-after-failure start state; oracles: Destroy returns within BufferShutDownTimeout+IntermediateChannelTimeout of virtual time, feeder and client stopped, no BUG safety-net log, every unacknowledged chunk is a byte-identical file (none only in memory)",
   note="delay bounding (every departure from the default schedule costs 1) at bound 2-3 quick, +preemption bounding thorough; the listener/orchestrator part of shutdown is covered by the composed harness when built"),
 "C01": dict(cat="model_checking", engine="vsched+explore", tech=MC, ref="DESIGN.md §5 C01",
   text="composed real agent below the socket (parsing receiver sinks, byKeySet orchestrator, pipeline workers, hybrid buffers, ClientWorkers over scripted upstreams) over 2-3 generations of graceful stop + restart on the same queue directory; flush ticks, upstream answers (refuse, reset, blocked write, silent/late ACK), stop moments and schedules are explorer choices; oracle: at every stop each accepted unfiltered record is in an ACKed chunk or in a chunk file, at the end (healthy, drained) each is ACKed, delivered records are identical across deliveries, no safety-net BUG log",
   note="delay bounding, deviation bound 1 quick / 2 thorough; <=5 records, 2 key sets, <=2 connections, <=3 generations; connection layer of the output replaced by a scripted connection (NewConsumerOverride); socket/framer covered by C08"),
 "C05": dict(cat="model_checking", engine="vsched+explore", tech=MC, ref="DESIGN.md §5 C05",
   text="same composed executions as C01 plus a 2 connections x 2 key sets x 2 records ordering scenario with forced spill; oracle: per (connection, key set) the first complete deliveries appear in arrival order; within each upstream connection chunk IDs ascend (no older chunk skipped)",
   note="as C01; virtual clock strictly increasing (clock steps backwards are outside the quantifier)"),
 "C19": dict(cat="model_checking", engine="vsched+explore", tech=MC, ref="DESIGN.md §5 C19, Appendix A.5",
   text="same composed executions as C01 incl. the filter variant; after the stop of every generation the registries are gathered and the balance equations checked: input passed+dropped = lines (count and bytes), pipeline passed+dropped = input passed, dropped = filter matches = labelled{filtered}, per key set attribution, buffer input = consumed+leftover+dropped+pending, persistent gauge = files, leftover+pending = files, acknowledged = consumed, forwarded/acknowledged <= what the upstream saw",
   note="as C01; equations from metric help strings and DESIGN Appendix A.5"),
 "C06": dict(cat="exploration", engine="seq", tech=SEQ + " (all ordered pairs of key tuples over a 10-value alphabet incl. empty string and separators)", ref="DESIGN.md §5 C06",
   text="real byKeySet orchestrator with real pipelines and hybrid buffers on a scratch root and a capturing consumer; all tuples over {'', a, b, ab, ',', 'a,', '.', '/', NUL, e-acute} for 1-2 key fields (quick) / 3 (thorough); for every ordered pair of distinct tuples one record each, both arrival orders, one and two connections, 4 tag templates; then Shutdown and a second orchestrator through StartOrchestrator on the same root; oracles: different pipelines/chunks/queue directories, tag = reference expansion of the template on the record's own tuple, queued chunks reattached at startup to the pipeline of the tuple that produced them",
   note="buffer channel size and message limit scaled down for allocation cost only; tags need not be injective (compared with the reference expander); part 2 (agentmc -prop C06, cooperative scheduler): the composed agent fed with pooled-size records of two key sets over recycled input buffers, single-variable and multi-variable tag templates: tag, ID and queue directory of a pipeline must not change after the record that created it was released"),
 "C07": dict(cat="exploration", engine="seq", tech=SEQ + " (boundary-menu product, all one-edit neighbours, all short prefix strings; sentinels around every bad record)", ref="DESIGN.md §5 C07",
   text="record level on the real agent core built from the sample configuration (parsing receiver with extraction transforms, byKeySet orchestrator, real LogProcessingWorker handlers run inline via an overlay accessor, both serializers and chunk makers, capture + independent decoding), scaled and shipped limits: (A) full product of per-token boundary menus, (B) all one-edit neighbours (256 substitutions, deletion, 256 insertions per position) of five seed records, (C) all strings over {<,1,>,space,-,a} up to length 7/8 + valid-looking tail; each bad record between two sentinels; oracle: no panic / fatal / hang, sentinels delivered intact and in order, every line counted once, delivered = passed per output",
   note="record level + stream level (harness/seq_stream: S1, BAD, S2, S3 through the real multiLineReader at the shipped 1:4 limit/buffer proportion, 28 bad kinds, all 1-/2-cut fragmentations x flush ticks; S2 and S3 must come out byte-identical); listener level (harness/seq_listener: real tcplistener on loopback sockets, 14 bad stretches x {close, half-close, reset, cut mid-record} x 4 write fragmentations x {alone, second connection open}, a NEW connection must be accepted and served; plus 60 sequential clients per disconnect kind after which the process's open descriptors must not have grown; real threads, not under the scheduler); one known finding (record behind an over-limit line cut by the overflow handling)"),
 "C08": dict(cat="exploration", engine="seq", tech=SEQ + " (all 0-,1-,2-cut fragmentations x all flush placements against a line-based reference framer)", ref="DESIGN.md §5 C08, Appendix A.1",
   text="real tcplistener.multiLineReader with a scripted read function: every sequence of 2-3 (thorough 2-4) records over six kinds (single line, 1-2 continuation lines, garbage shaped like a head prefix, empty lines) x ALL 0/1/2-cut splits (3-cut for the shortest streams) x ALL 2^(#fragments) flush placements, at scaled sizes (limit 64 / buffer 192) and the shipped sizes, plus over-limit streams; oracle: without flushes identical records for every fragmentation; single-line streams identical under every flush placement; every head exactly once and in order; continuation attached unless a flush fell between",
   note="part 2 (seq_listener -prop C08, real loopback socket, real runConnection): a connection that outlived one read-deadline renewal receives a multi-line record of 1-3 continuation lines split at every line boundary into two segments 5 ms apart; it must come out as one unit (attempts whose measured window exceeded 3 s are repeated, never judged); over-limit records under the weaker byte-conservation oracle as documented"),
 "C09": dict(cat="exploration", engine="seq", tech=SEQ, ref="DESIGN.md §5 C09, Appendix A.2",
   text="all PRI 0..191 x level mappings x schemas, out-of-range PRI menu, full product of header token menus (8^6 quick / 12^6 thorough), message bodies around the message and record limits x rune classes, histories of mixed lines; oracle: reference parser, facility/level mapping, truncation prefix/UTF-8/overflow count, exact passed+dropped accounting (count and bytes)",
   note="limits scaled down in one variant and shipped limits in another; see harness/seq_parse/README.md for tolerances"),
 "C14": dict(cat="exploration", engine="seq", tech=SEQ, ref="DESIGN.md §5 C14, Appendix A.3",
   text="all strings over {a,1,.,@,/,-,space,e-acute} up to 7 symbols (quick) / 9 (thorough) plus planted-address menu at every position and adjacency; oracles: every byte of every core address inside a redacted span, only address-character spans containing '@' replaced, text without a supported address unchanged and uncounted",
   note="shapes outside the documented core (local part ending in . - _, empty labels) tolerated either way; see harness/seq_redact/README.md"),
 "C10": dict(cat="exploration", engine="seq", tech=SEQ + " (decode with vmihailenco/msgpack, independent of fastmsgpack)", ref="DESIGN.md §5 C10",
   text="real Fluentd event serializer; full product of schemas (3 and 16 fields: fixmap vs map16), per-field value length classes {0,1,15,16,31,32,255,256,65535,65536,65537} x content classes (ASCII, NUL, 0xFF, multi-byte, every escape, trailing/only backslashes), role assignments (plain, environment, hidden, rewritten) of two distinguished fields, rewriter chains (copy, unescape, inline->copy, inline->unescape), Unescaped flag both ways, timestamp menu; oracle: well-formed [EventTime, map], map = visible fields of the reference model with nested environment, rewritten fields = reference rewrite, no trailing bytes",
   note="long-lived serializer with its buffer poisoned before each case; record sizes within the configured limits (overflow of the fixed buffer belongs to C07)"),
 "C11": dict(cat="exploration", engine="seq", tech=SEQ + " (decode with fluentlib forwardprotocol / gzip+JSON)", ref="DESIGN.md §5 C11",
   text="real chunk makers: all sequences of up to 5 (quick) / 6 (thorough) record sizes around the scaled chunk limits x every placement of FlushBuffer (2^n) x Forward / PackedForward / CompressedPackedForward and the Datadog format x record and size limits incl. 0 = unlimited x clock frozen / advancing (chunk-ID clock seam) plus a production-limits group; oracle: every chunk decodes, tag, option.chunk = LogChunk.ID = storage name matching MatchChunkID and unique, option.size = entries, concatenation of all chunks = input sequence exactly, a limit is exceeded only by a single record, chunks not mutated after emission",
   note="fluentdforward limits scaled via an overlay accessor; the chunk-ID clock is controlled through a textual time.Now seam in an overlay copy of chunkidgen.go (skipped and reported if the file changes shape); a clock stepping backwards is outside the stated domain"),
 "C12": dict(cat="exploration", engine="seq", tech=SEQ + " (differential: each record alone on a fresh pipeline vs. after every sequence of other records on a long-lived one)", ref="DESIGN.md §5 C12",
   text="14 record shapes (short, pooled-size, optional fields absent, escaped, multi-line, truncate / mapValue / addFields / redactEmail triggers); all sequences with repetition of length <=3 (quick) / <=4 (thorough) on one long-lived pipeline vs each record alone on a fresh one; outputs fluentd, fluentd+fluentd, fluentd+datadog, datadog; three feeding modes incl. two connections alternating; pooling verified in effect by pointer identity (vacuity guard); oracle: decoded output per record identical in both runs for each output, and identical across identical outputs",
   note="the stage behind the parser sink repeats LogProcessingWorker.onInput rather than running the worker goroutine (the concurrent part is covered by the composed model-checking harness); contamination inside one record is invisible to the differential oracle; absolute guard next to it: the lines are fed from one reused read buffer and no field of an emitted record may point into it"),
 "C13": dict(cat="exploration", engine="seq", tech="bounded-exhaustive enumeration of inputs against an independent integer reference model (all fractions up to 6/9 digits, all offsets, all short strings over a 9-symbol alphabet, all one-edit neighbours)", ref="DESIGN.md §5 C13",
   text="complete enumeration of the stated finite input domains through the exported parseTime transform; exactness to the nanosecond against days-from-civil integer arithmetic; totality (no panic) and error+count+fallback for strings not shaped like a date-time",
   note="valid timestamps outside the enumerated date/offset/fraction grid are not covered; leap second and non-digit digit positions only checked for totality"),
}
na = []
order = ["C%02d" % i for i in range(1, 20)]
manifest = {
 "version": 1,
 "setup_cmd": "./setup.sh",
 "hooks": {
  "guard": "none: no source hooks in /repo; instrumentation and test-only accessors (hooks/*.go) are applied through `go build -overlay`, /repo is never modified by the machinery",
  "enable": "./check <id> runs bin/instr on /repo's working tree and builds the harness with -overlay <scratch>/overlay.json",
  "baseline_off_cmd": "cd /repo && GOFLAGS=-mod=mod go test -vet=off -count=1 ./...",
  "source_commits": [],
  "add_only": True,
 },
 "engines": [
  {"name": "vsched+explore", "path": "rt/vsched, instr, explore", "serves_properties": [k for k in order if k in checks and checks[k]["engine"] == "vsched+explore"],
   "kind_free_text": "stateless model checker for the real Go code: a type-aware AST instrumenter routes channel/select/go/sync/atomic/time/signal operations to a cooperative scheduler (real primitives kept, gates release an operation only when it cannot block); DFS over scheduler and environment choices with iterative deviation bounding, replay with divergence detection, 16 worker processes"},
  {"name": "seq+vfs", "path": "seq, rt/vfs, harness/crashfs", "serves_properties": ["C04"],
   "kind_free_text": "fault / crash-point enumerator: syscall seam (AST-rewritten unix.* calls) with fault plans and crash plans, two-generation runs of the real buffer under the deterministic cooperative scheduler"},
  {"name": "seq", "path": "seq, harness/seq_*", "serves_properties": [k for k in order if k in checks and checks[k]["engine"] == "seq"],
   "kind_free_text": "bounded-exhaustive enumerator: deterministic case enumeration sharded over 16 worker processes, panic capture and worker-death attribution to the case in flight, reference models as oracles, single-case replay"},
 ],
 "checks": [],
 "not_applicable": na,
 "notes": "exit 0 = held on everything explored (KNOWN-FINDING lines for listed findings), 1 = VIOLATION, 2 = ENGINE-ERROR (machinery failure, never disguised as a pass)",
}
for k in order:
    if k not in checks:
        continue
    c = checks[k]
    manifest["checks"].append({
        "property_id": k,
        "quick_cmd": "./check %s --tier quick" % k,
        "thorough_cmd": "./check %s --tier thorough" % k,
        "evidence_file": "evidence/%s.json" % k,
        "replay_cmd_template": "./check %s --replay {path}" % k,
        "engine": c["engine"],
        "level_claimed": {"category": c["cat"], "text": c["text"], "design_ref": c["ref"]},
        "level_note": c["note"],
        "technique": c["tech"],
    })
pending = [k for k in order if k not in checks]
for k in pending:
    na.append({"property_id": k, "reason": "check not built yet in this round (planned, see DESIGN.md §10); not claimed until its check exists"})
json.dump(manifest, open(os.path.join(os.path.dirname(__file__), "..", "MANIFEST.json"), "w"), indent=1)
print("checks:", [c["property_id"] for c in manifest["checks"]])
