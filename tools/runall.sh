#!/bin/bash
# runall.sh [tier]: runs every registered check on /repo, reports exit status, wall time and evidence validity.
cd "$(dirname "$0")/.."
TIER=${1:-quick}
for id in $(python3 -c "import json;print(' '.join(c['property_id'] for c in json.load(open('MANIFEST.json'))['checks']))"); do
  s=$(date +%s)
  ./check $id --tier $TIER > /tmp/runall_${TIER}_$id.log 2>&1
  rc=$?
  e=$(( $(date +%s) - s ))
  v=$(python3-vt -c "
import json,jsonschema,sys
try:
    jsonschema.validate(json.load(open('evidence/$id.json')),json.load(open('/root/.vp/EVIDENCE.schema.json'))); print('evidence-ok')
except Exception as ex: print('EVIDENCE-INVALID',str(ex)[:100])")
  echo "$id exit=$rc wall=${e}s $v $(grep -c '^KNOWN-FINDING' /tmp/runall_${TIER}_$id.log) known; $(tail -1 /tmp/runall_${TIER}_$id.log | cut -c1-150)"
done
