#!/bin/bash
# recheck_other.sh <seed-id> <property>: runs the check of ANOTHER property against a recorded change (a change filed under the
# property its author named can break a second one) and records the result under "other_checks" in its meta.json.
set -u
cd /verif
SID=$1; PROP=$2
export GOFLAGS=-mod=mod GOPROXY=off GOSUMDB=off GOTOOLCHAIN=local
WT=/tmp/wt_other_$$
git -C /repo worktree add --detach $WT HEAD -q || exit 2
if ! git -C $WT apply "/verif/seeded/$SID/patch.diff" 2>/dev/null && ! git -C $WT apply --3way "/verif/seeded/$SID/patch.diff" 2>/dev/null; then
  echo "$SID PATCH-DOES-NOT-APPLY"; git -C /repo worktree remove --force $WT; exit 2
fi
VERIF_REPO=$WT ./check $PROP --tier quick -evidence /tmp/ev_ro_$$.json -replays /tmp/rp_ro_$$ > /tmp/check_ro_$$.log 2>&1
rc=$?
keys=$(grep -a -o "key=[^ ]*" /tmp/check_ro_$$.log | sort -u | head -6 | tr '\n' ' ')
python3 - "seeded/$SID/meta.json" "$PROP" "$rc" "$keys" <<'PY'
import json,sys
p,prop,rc,keys=sys.argv[1:5]
m=json.load(open(p))
m.setdefault("other_checks",{})[prop]={"command":"VERIF_REPO=<worktree> ./check %s --tier quick"%prop,"exit":int(rc),"detected":int(rc)==1,"violation_keys":keys.split()}
json.dump(m,open(p,"w"),indent=1)
PY
echo "$SID via $PROP exit=$rc $keys"
rm -rf /tmp/ev_ro_$$.json* /tmp/rp_ro_$$ /tmp/check_ro_$$.log
git -C /repo worktree remove --force $WT
