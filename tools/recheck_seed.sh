#!/bin/bash
# recheck_seed.sh <worktree> <seed-id> <property> [history note]: re-runs our check against a scratch worktree that carries
# an already confirmed seeded change (after the check was strengthened) and updates our_check in seeded/<id>/meta.json.
set -u
WT=$1; SID=$2; PROP=$3; NOTE=${4:-}
cd /verif
VERIF_REPO=$WT ./check $PROP --tier quick -evidence /tmp/ev_seed_$SID.json -replays /tmp/rp_seed_$SID > /tmp/check_$SID.log 2>&1
rc=$?
echo "check exit: $rc"
grep "VIOLATION\|key=" /tmp/check_$SID.log | head -4 | cut -c1-250
keys=$(grep -a -o "key=[^ ]*" /tmp/check_$SID.log | sort -u | head -6 | tr '\n' ' ')
python3 - "seeded/$SID/meta.json" "$PROP" "$rc" "$keys" "$NOTE" <<'PY'
import json,sys
p,prop,rc,keys,note=sys.argv[1:6]
m=json.load(open(p))
old=m.get("our_check",{})
m["our_check"]={"command":"VERIF_REPO=<worktree> ./check %s --tier quick"%prop,"exit":int(rc),"detected":int(rc)==1,"violation_keys":keys.split()}
if note:
    m.setdefault("history",[]).append({"before":{"exit":old.get("exit"),"detected":old.get("detected")},"change":note})
json.dump(m,open(p,"w"),indent=1)
PY
rm -rf /tmp/ev_seed_$SID.json* /tmp/rp_seed_$SID
