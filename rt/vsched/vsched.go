// Package vsched is the cooperative scheduler runtime that instrumented slog-agent code runs on
// during model checking. Exactly one managed goroutine executes user code at any time; every
// visible operation (channel op, select, lock, wait group, atomic, timer) passes a gate which hands
// control to the explorer. All real primitives are kept: a gate releases an operation only when the
// real operation cannot block, then the original operation executes.
//
// With no session active every function performs the plain operation (pass-through mode).
package vsched

import (
	"fmt"
	"hash/fnv"
	"os"
	"os/signal"

	"github.com/puzpuzpuz/xsync"
	"reflect"
	"runtime"
	"runtime/debug"
	"sort"
	"strings"
	"sync"
	"sync/atomic"
	"time"
)

type opKind uint8

const (
	opNone opKind = iota
	opRun
	opSend
	opRecv
	opSelect
	opLock
	opRLock
	opWGWait
	opCond
	opIdle
	opLazy
)

var kindNames = [...]string{"none", "run", "send", "recv", "select", "lock", "rlock", "wgwait", "cond", "idle", "lazy"}

type chanRef struct {
	ptr  uintptr
	lenf func() int
	capn int
}

// Case is one communication clause of an instrumented select.
type Case struct {
	send bool
	ch   chanRef
	rch  reflect.Value
	val  reflect.Value
}

type pairRole uint8

const (
	pairNone pairRole = iota
	pairChosen
	pairPartner
)

// G is a managed goroutine.
type G struct {
	id         int
	name       string
	wake       chan struct{}
	kind       opKind
	ch         chanRef
	cases      []Case
	hasDefault bool
	obj        any
	cond       func() bool
	site       string
	selIdx     int
	pair       pairRole
	done       bool
	nops       int
	quiet      bool
	obsHash    uint64 // hash of this goroutine's observation history (for state keys)
}

type lockState struct {
	held    bool
	readers int
}

type vtimer struct {
	when   int64
	seq    int
	ch     chan time.Time
	period int64
	fn     func()
	active bool
	rt     *time.Timer
	rk     *time.Ticker
}

// ChoicePoint describes one scheduling decision with at least two alternatives.
type ChoicePoint struct {
	N      int
	Costs  []int    // cost of each alternative (alternative 0 always costs 0)
	Sig    uint64   // signature of the alternatives (for replay divergence detection)
	Labels []string // only when tracing
	Kind   string   // "sched" or "env:<label>"
	State  uint64   // state key at this point (0 unless Options.StateKeys)
}

// Options configures a session.
type Options struct {
	Choose    func(cp *ChoicePoint) int
	MaxSteps  int
	Trace     bool
	StateKeys bool
	StartTime int64 // virtual unix nanoseconds; 0 = default epoch
	NowStep   int64 // ns added per Now() call (default 1)
	EnvState  func() uint64
	// ForcedSwitchCost is charged for picking a goroutine other than the default one when the running goroutine
	// blocked or ended (0 = preemption bounding as in CHESS: such switches are free; 1 = delay bounding: every
	// departure from the default deterministic schedule costs one deviation).
	ForcedSwitchCost int
	// Exhausted, when set, tells that no deviation can be afforded any more: a pure scheduling point (Yield) then continues
	// the running goroutine without creating a choice point — every alternative there costs at least one deviation.
	Exhausted func() bool
}

// Result is the outcome of one execution.
type Result struct {
	Status     string // "ok", "crash", "deadlock", "steplimit"
	Detail     string
	Steps      int
	Choices    int
	TraceHash  uint64
	Trace      []string
	Goroutines int
	Leaked     int
	OpsPerG    []int
	GNames     []string
	VirtualNS  int64
}

// Sched is one exploration session (one execution).
type Sched struct {
	opts     Options
	gs       []*G
	running  *G
	closed   map[uintptr]bool
	locks    map[any]*lockState
	wgs      map[any]*int
	now      int64
	timers   []*vtimer
	timerSeq int
	sigs     []sigReg
	tmap     map[*time.Timer]*vtimer
	kmap     map[*time.Ticker]*vtimer

	teardown atomic.Bool
	finished chan struct{}
	finOnce  sync.Once
	pairDone chan struct{}
	live     sync.WaitGroup
	res      Result
	hash     uint64
	altbuf   []alt
	pools    map[*sync.Pool][]any
	pins     map[uintptr]any
	chq      map[uintptr][]uint64 // per channel: identities of the values in flight (sender id, sender op count)
	seqs     map[any]uint64       // per lock / atomic site: running hash of the access sequence
}

type sigReg struct {
	ch   chan<- os.Signal
	sigs []os.Signal
}

type alt struct {
	g       *G
	caseIdx int // select case (-1 default), else 0
	partner *G
	pcase   int
	cost    int
}

var cur atomic.Pointer[Sched]

const defaultEpoch = int64(1_700_000_000) * int64(time.Second)

// Active reports whether an exploration session is running.
func Active() bool { return cur.Load() != nil }

// Run executes body as managed goroutine 0 under the scheduler and returns when the execution is over
// (body returned, a managed goroutine panicked, deadlock, or step limit) and every managed goroutine
// has been torn down.
func Run(opts Options, body func()) *Result {
	if opts.MaxSteps == 0 {
		opts.MaxSteps = 200000
	}
	if opts.NowStep == 0 {
		opts.NowStep = 1
	}
	s := &Sched{
		opts:     opts,
		closed:   map[uintptr]bool{},
		locks:    map[any]*lockState{},
		wgs:      map[any]*int{},
		tmap:     map[*time.Timer]*vtimer{},
		kmap:     map[*time.Ticker]*vtimer{},
		pools:    map[*sync.Pool][]any{},
		chq:      map[uintptr][]uint64{},
		pins:     map[uintptr]any{},
		seqs:     map[any]uint64{},
		finished: make(chan struct{}),
		pairDone: make(chan struct{}, 1),
		now:      opts.StartTime,
		hash:     14695981039346656037,
	}
	if s.now == 0 {
		s.now = defaultEpoch
	}
	if !cur.CompareAndSwap(nil, s) {
		panic("vsched: session already active")
	}
	g0 := s.newG("driver")
	s.running = g0
	s.live.Add(1)
	go s.gmain(g0, body)
	g0.wake <- struct{}{}
	<-s.finished
	s.teardown.Store(true)
	for _, g := range s.gs {
		select {
		case g.wake <- struct{}{}:
		default:
		}
	}
	waitDone := make(chan struct{})
	go func() { s.live.Wait(); close(waitDone) }()
	select {
	case <-waitDone:
	case <-time.After(3 * time.Minute): // real time; generous, because on a heavily loaded machine goroutines take seconds to get a turn
		n := 0
		for _, g := range s.gs {
			if !g.done {
				n++
			}
		}
		s.res.Leaked = n
	}
	cur.Store(nil)
	s.res.TraceHash = s.hash
	s.res.Goroutines = len(s.gs)
	s.res.VirtualNS = s.now - s.startTime()
	for _, g := range s.gs {
		s.res.OpsPerG = append(s.res.OpsPerG, g.nops)
		s.res.GNames = append(s.res.GNames, g.name)
	}
	return &s.res
}

func (s *Sched) startTime() int64 {
	if s.opts.StartTime != 0 {
		return s.opts.StartTime
	}
	return defaultEpoch
}

func (s *Sched) newG(name string) *G {
	g := &G{id: len(s.gs), name: name, wake: make(chan struct{}, 1), kind: opRun, obsHash: 1469598103934665603}
	s.gs = append(s.gs, g)
	return g
}

func (s *Sched) gmain(g *G, f func()) {
	defer s.live.Done()
	defer func() {
		g.done = true
		if s.teardown.Load() {
			recover() //nolint
			return
		}
		if r := recover(); r != nil {
			s.finish("crash", fmt.Sprintf("goroutine %d (%s) panicked: %v\n%s", g.id, g.name, r, trimStack(debug.Stack())))
			return
		}
		// normal exit of a goroutine
		g.kind = opNone
		if g.id == 0 {
			s.finish("ok", "")
			return
		}
		s.handoff(g)
	}()
	<-g.wake
	if s.teardown.Load() {
		return
	}
	f()
}

func trimStack(b []byte) string {
	lines := strings.Split(string(b), "\n")
	out := []string{}
	for _, l := range lines {
		if strings.Contains(l, "zzverif/vsched") || strings.Contains(l, "runtime/") || strings.Contains(l, "panic(") {
			continue
		}
		out = append(out, l)
		if len(out) > 24 {
			break
		}
	}
	return strings.Join(out, "\n")
}

func (s *Sched) finish(status, detail string) {
	s.finOnce.Do(func() {
		s.res.Status = status
		s.res.Detail = detail
		close(s.finished)
	})
}

// enter returns the active session and the running goroutine, or nil in pass-through mode.
func enter() (*Sched, *G) {
	s := cur.Load()
	if s == nil {
		return nil, nil
	}
	if s.teardown.Load() {
		runtime.Goexit()
	}
	return s, s.running
}

func (s *Sched) mix(vals ...uint64) {
	h := s.hash
	for _, v := range vals {
		h ^= v
		h *= 1099511628211
	}
	s.hash = h
}

var siteHashes sync.Map

func strHash(str string) uint64 {
	if v, ok := siteHashes.Load(str); ok {
		return v.(uint64)
	}
	h := fnv.New64a()
	h.Write([]byte(str))
	x := h.Sum64()
	siteHashes.Store(str, x)
	return x
}

func (g *G) observe(vals ...uint64) {
	h := g.obsHash
	for _, v := range vals {
		h ^= v
		h *= 1099511628211
	}
	g.obsHash = h
}

// ---------------------------------------------------------------------------------------------
// enabledness

func (s *Sched) sendReady(c chanRef) bool {
	if c.ptr == 0 {
		return false
	}
	if s.closed[c.ptr] {
		return true // will panic, as the real operation does
	}
	return c.capn > 0 && c.lenf() < c.capn
}

func (s *Sched) recvReady(c chanRef) bool {
	if c.ptr == 0 {
		return false
	}
	if c.lenf() > 0 {
		return true
	}
	return s.closed[c.ptr]
}

// findPartners appends alternatives pairing g's unbuffered op (send==true: g sends) with each parked counterpart.
func (s *Sched) findPartners(g *G, caseIdx int, c chanRef, send bool, out []alt) []alt {
	if c.ptr == 0 || c.capn != 0 || s.closed[c.ptr] {
		return out
	}
	for _, p := range s.gs {
		if p == g || p.done {
			continue
		}
		switch p.kind {
		case opSend:
			if !send && p.ch.ptr == c.ptr {
				out = append(out, alt{g: g, caseIdx: caseIdx, partner: p})
			}
		case opRecv:
			if send && p.ch.ptr == c.ptr {
				out = append(out, alt{g: g, caseIdx: caseIdx, partner: p})
			}
		case opSelect:
			for i, pc := range p.cases {
				if pc.ch.ptr == c.ptr && pc.send != send {
					out = append(out, alt{g: g, caseIdx: caseIdx, partner: p, pcase: i})
					break
				}
			}
		}
	}
	return out
}

func (s *Sched) altsOf(g *G, out []alt) []alt {
	switch g.kind {
	case opRun:
		out = append(out, alt{g: g})
	case opSend:
		if s.sendReady(g.ch) {
			out = append(out, alt{g: g})
		} else {
			out = s.findPartners(g, 0, g.ch, true, out)
		}
	case opRecv:
		if s.recvReady(g.ch) {
			out = append(out, alt{g: g})
		} else {
			out = s.findPartners(g, 0, g.ch, false, out)
		}
	case opSelect:
		n := len(out)
		for i, c := range g.cases {
			if c.send {
				if s.sendReady(c.ch) {
					out = append(out, alt{g: g, caseIdx: i})
				} else {
					out = s.findPartners(g, i, c.ch, true, out)
				}
			} else {
				if s.recvReady(c.ch) {
					out = append(out, alt{g: g, caseIdx: i})
				} else {
					out = s.findPartners(g, i, c.ch, false, out)
				}
			}
		}
		if len(out) == n && g.hasDefault {
			out = append(out, alt{g: g, caseIdx: -1})
		}
	case opLock:
		ls := s.locks[g.obj]
		if ls == nil || (!ls.held && ls.readers == 0) {
			out = append(out, alt{g: g})
		}
	case opRLock:
		ls := s.locks[g.obj]
		if ls == nil || !ls.held {
			out = append(out, alt{g: g})
		}
	case opWGWait:
		c := s.wgs[g.obj]
		if c == nil || *c <= 0 {
			out = append(out, alt{g: g})
		}
	case opCond:
		if g.cond() {
			out = append(out, alt{g: g})
		}
	}
	return out
}

// enabled computes all alternatives in canonical order: the running goroutine first (if enabled),
// then ascending goroutine id; within a select ascending case index. Idle goroutines are offered only
// when nothing else is enabled.
func (s *Sched) enabled(self *G) []alt {
	out := s.altbuf[:0]
	selfEnabled := false
	if self != nil && !self.done && self.kind != opNone && self.kind != opIdle && self.kind != opLazy {
		out = s.altsOf(self, out)
		selfEnabled = len(out) > 0
	}
	nself := len(out)
	for _, g := range s.gs {
		if g == self || g.done || g.kind == opNone || g.kind == opIdle || g.kind == opLazy {
			continue
		}
		out = s.altsOf(g, out)
	}
	nlazy := -1
	for _, g := range s.gs {
		if !g.done && g.kind == opLazy {
			nlazy = len(out)
			g.quiet = len(out) == 0
			out = append(out, alt{g: g})
		}
	}
	if len(out) == 0 {
		for _, g := range s.gs {
			if !g.done && g.kind == opIdle {
				out = append(out, alt{g: g})
				break
			}
		}
	}
	// costs
	var prev *G
	for i := range out {
		a := &out[i]
		first := a.g != prev
		prev = a.g
		c := 0
		if i >= nself && selfEnabled {
			c = 1 // preemption
		} else if !selfEnabled && first && i > 0 {
			c = s.opts.ForcedSwitchCost
		}
		if !first {
			c++ // non-first ready case / partner of the same goroutine
		}
		if nlazy >= 0 && i >= nlazy {
			c = 1 // an environment event before the system is quiescent
		}
		if i == 0 {
			c = 0
		}
		a.cost = c
	}
	s.altbuf = out
	return out
}

// ---------------------------------------------------------------------------------------------
// scheduling core

// resched is called by the running goroutine `self` after it announced its next operation.
// It returns when self has been chosen to perform that operation (possibly as a rendezvous partner).
func (s *Sched) resched(self *G) {
	self.nops++
	for {
		s.res.Steps++
		if s.res.Steps > s.opts.MaxSteps {
			s.finish("steplimit", fmt.Sprintf("more than %d scheduling steps", s.opts.MaxSteps))
			runtime.Goexit()
		}
		alts := s.enabled(self)
		if len(alts) == 0 {
			if s.fireNextTimer() {
				continue
			}
			s.finish("deadlock", s.describeBlocked())
			runtime.Goexit()
		}
		idx := 0
		if len(alts) > 1 {
			idx = s.pick(alts, "sched")
		}
		a := alts[idx]
		if s.opts.Trace {
			s.res.Trace = append(s.res.Trace, s.describeAlt(a))
		}
		s.apply(a)
		s.mix(uint64(a.g.id), uint64(a.g.kind), uint64(a.caseIdx+1), strHash(a.g.site))
		if a.partner != nil {
			s.mix(uint64(a.partner.id)+1000, uint64(a.pcase))
		}
		s.running = a.g
		if a.g == self {
			if a.partner != nil {
				a.partner.wake <- struct{}{}
			}
			return
		}
		if a.partner == self {
			a.g.wake <- struct{}{}
			return // self proceeds as rendezvous partner; it will park in afterOp
		}
		a.g.wake <- struct{}{}
		if a.partner != nil {
			a.partner.wake <- struct{}{}
		}
		s.park(self)
		return
	}
}

// handoff is called when the running goroutine exits: pick somebody else.
func (s *Sched) handoff(self *G) {
	for {
		s.res.Steps++
		alts := s.enabled(nil)
		if len(alts) == 0 {
			if s.fireNextTimer() {
				continue
			}
			s.finish("deadlock", s.describeBlocked())
			return
		}
		idx := 0
		if len(alts) > 1 {
			idx = s.pick(alts, "sched")
		}
		a := alts[idx]
		if s.opts.Trace {
			s.res.Trace = append(s.res.Trace, s.describeAlt(a))
		}
		s.apply(a)
		s.mix(uint64(a.g.id), uint64(a.g.kind), uint64(a.caseIdx+1), strHash(a.g.site))
		s.running = a.g
		a.g.wake <- struct{}{}
		if a.partner != nil {
			a.partner.wake <- struct{}{}
		}
		return
	}
}

func (s *Sched) park(g *G) {
	<-g.wake
	if s.teardown.Load() {
		runtime.Goexit()
	}
}

func (s *Sched) apply(a alt) {
	g := a.g
	g.selIdx = a.caseIdx
	g.pair = pairNone
	if a.partner != nil {
		g.pair = pairChosen
		a.partner.pair = pairPartner
		a.partner.selIdx = a.pcase
		a.partner.observe(uint64(a.partner.kind), uint64(a.pcase), uint64(g.id))
		a.partner.kind = opNone
		g.observe(uint64(a.partner.id))
	}
	g.observe(uint64(g.kind), uint64(a.caseIdx+1))
	switch g.kind {
	case opLock:
		s.lockState(g.obj).held = true
		s.touchSeq(g, g.obj)
	case opRLock:
		s.lockState(g.obj).readers++
		s.touchSeq(g, g.obj)
	case opSend:
		s.chanMoved(g, g.ch, true)
	case opRecv:
		s.chanMoved(g, g.ch, false)
	case opSelect:
		if a.caseIdx >= 0 {
			c := g.cases[a.caseIdx]
			s.chanMoved(g, c.ch, c.send)
		}
	}
	if a.partner != nil {
		p := a.partner
		switch {
		case p.selIdx >= 0 && len(p.cases) > 0:
			c := p.cases[p.selIdx]
			s.chanMoved(p, c.ch, c.send)
		case p.ch.ptr != 0:
			s.chanMoved(p, p.ch, g.kind == opRecv || (g.kind == opSelect && a.caseIdx >= 0 && !g.cases[a.caseIdx].send))
		}
	}
	g.kind = opNone
}

// touchSeq makes the acquirer's history depend on the whole sequence of earlier accesses to obj.
func (s *Sched) touchSeq(g *G, obj any) {
	h := s.seqs[obj]
	g.observe(h)
	h ^= uint64(g.id)<<32 | uint64(g.nops)
	h *= 1099511628211
	s.seqs[obj] = h + 1
}

// chanMoved tracks value identities through channels: a receiver observes which send it received.
func (s *Sched) chanMoved(g *G, c chanRef, send bool) {
	if c.ptr == 0 {
		return
	}
	if send {
		s.chq[c.ptr] = append(s.chq[c.ptr], uint64(g.id)<<32|uint64(g.nops))
		return
	}
	q := s.chq[c.ptr]
	if len(q) == 0 {
		g.observe(0x5e)
		return
	}
	g.observe(q[0])
	s.chq[c.ptr] = q[1:]
}

func (s *Sched) lockState(obj any) *lockState {
	ls := s.locks[obj]
	if ls == nil {
		ls = &lockState{}
		s.locks[obj] = ls
	}
	return ls
}

func (s *Sched) pick(alts []alt, kind string) int {
	cp := &ChoicePoint{N: len(alts), Kind: kind}
	cp.Costs = make([]int, len(alts))
	sig := uint64(14695981039346656037)
	for i, a := range alts {
		cp.Costs[i] = a.cost
		sig ^= uint64(a.g.id)<<8 | uint64(a.g.kind)
		sig *= 1099511628211
		sig ^= uint64(a.caseIdx + 2)
		sig *= 1099511628211
		if a.partner != nil {
			sig ^= uint64(a.partner.id) + 77
			sig *= 1099511628211
		}
	}
	cp.Sig = sig
	if s.opts.Trace {
		for _, a := range alts {
			cp.Labels = append(cp.Labels, s.describeAlt(a))
		}
	}
	if s.opts.StateKeys {
		cp.State = s.stateKey()
	}
	s.res.Choices++
	idx := s.opts.Choose(cp)
	if idx < 0 || idx >= len(alts) {
		panic(fmt.Sprintf("vsched: chooser returned %d of %d", idx, len(alts)))
	}
	s.mix(uint64(idx), sig)
	return idx
}

func (s *Sched) describeAlt(a alt) string {
	g := a.g
	str := fmt.Sprintf("g%d(%s) %s", g.id, g.name, kindNames[g.kind])
	if g.kind == opNone {
		str = fmt.Sprintf("g%d(%s)", g.id, g.name)
	}
	if a.caseIdx != 0 {
		str += fmt.Sprintf(" case=%d", a.caseIdx)
	}
	if a.partner != nil {
		str += fmt.Sprintf(" pair=g%d", a.partner.id)
	}
	if g.site != "" {
		str += " @" + g.site
	}
	return str
}

func (s *Sched) describeBlocked() string {
	var b strings.Builder
	for _, g := range s.gs {
		if g.done {
			continue
		}
		fmt.Fprintf(&b, "g%d(%s) blocked in %s @%s\n", g.id, g.name, kindNames[g.kind], g.site)
	}
	return b.String()
}

// stateKey hashes the observation histories of all goroutines plus the synchronisation state.
func (s *Sched) stateKey() uint64 {
	h := uint64(14695981039346656037)
	mixin := func(v uint64) { h ^= v; h *= 1099511628211 }
	for _, g := range s.gs {
		if g.done {
			mixin(0xdead)
			continue
		}
		mixin(g.obsHash)
		mixin(uint64(g.kind))
		mixin(strHash(g.site))
	}
	mixin(uint64(s.now))
	for _, t := range s.timers {
		if t.active {
			mixin(uint64(t.when))
		}
	}
	if s.opts.EnvState != nil {
		mixin(s.opts.EnvState())
	}
	return h
}

// ---------------------------------------------------------------------------------------------
// gates used by instrumented code

func mkref(c any) chanRef {
	v := reflect.ValueOf(c)
	if !v.IsValid() || v.IsNil() {
		return chanRef{}
	}
	ptr := v.Pointer()
	// pin every channel seen during a session: its address keys the closed set and the value-identity queues, so it
	// must not be reused by a later allocation while the session lasts
	if s := cur.Load(); s != nil {
		if _, ok := s.pins[ptr]; !ok {
			s.pins[ptr] = c
		}
	}
	return chanRef{ptr: ptr, lenf: v.Len, capn: v.Cap()}
}

// Go starts f as a managed goroutine. Like every gate it is "before-style": the scheduling point comes first, then the
// operation executes atomically with the code that follows it up to the next gate.
func Go(site string, f func()) {
	s, g := enter()
	if s == nil {
		go f()
		return
	}
	g.kind = opRun
	g.site = site
	s.resched(g)
	ng := s.newG(site)
	ng.site = site
	s.live.Add(1)
	go s.gmain(ng, f)
	g.observe(uint64(ng.id) + 5000)
}

// Tok is returned by BeforeSend; Done must be called right after the real operation.
type Tok struct {
	s    *Sched
	g    *G
	role pairRole
}

func (t Tok) Done() {
	if t.s == nil {
		return
	}
	t.s.afterOp(t.g, t.role)
}

func (s *Sched) afterOp(g *G, role pairRole) {
	switch role {
	case pairPartner:
		g.kind = opRun
		s.pairDone <- struct{}{}
		s.park(g)
	case pairChosen:
		<-s.pairDone
	}
}

// BeforeSend gates `c <- v`.
func BeforeSend[T any](c chan<- T, site string) Tok {
	s, g := enter()
	if s == nil {
		return Tok{}
	}
	g.kind, g.ch, g.site = opSend, mkref(c), site
	s.resched(g)
	return Tok{s, g, g.pair}
}

// Recv gates `<-c`.
func Recv[T any](c <-chan T, site string) T {
	s, g := enter()
	if s == nil {
		return <-c
	}
	g.kind, g.ch, g.site = opRecv, mkref(c), site
	s.resched(g)
	role := g.pair
	v := <-c
	s.afterOp(g, role)
	return v
}

// Recv2 gates `v, ok := <-c`.
func Recv2[T any](c <-chan T, site string) (T, bool) {
	s, g := enter()
	if s == nil {
		v, ok := <-c
		return v, ok
	}
	g.kind, g.ch, g.site = opRecv, mkref(c), site
	s.resched(g)
	role := g.pair
	v, ok := <-c
	if ok {
		g.observe(1)
	} else {
		g.observe(2)
	}
	s.afterOp(g, role)
	return v, ok
}

// RecvCase / SendCase describe select clauses. As the language requires, channel operands and send values
// are evaluated once, in source order, on entering the select.
func RecvCase[T any](c <-chan T) Case {
	return Case{send: false, ch: mkref(c), rch: reflect.ValueOf(c)}
}

func SendCase[T any](c chan<- T, v any) Case {
	rch := reflect.ValueOf(c)
	et := rch.Type().Elem()
	rv := reflect.ValueOf(v)
	if !rv.IsValid() {
		rv = reflect.Zero(et)
	} else if !rv.Type().AssignableTo(et) {
		rv = rv.Convert(et)
	}
	return Case{send: true, ch: mkref(c), rch: rch, val: rv}
}

// Sel is the decision of an instrumented select; the chosen operation has already been performed.
type Sel struct {
	Index int
	val   reflect.Value
	ok    bool
}

// SelRecv returns the value received by the chosen receive clause (c only carries the element type).
func SelRecv[T any](sel *Sel, c <-chan T) T {
	v, _ := SelRecv2(sel, c)
	return v
}

func SelRecv2[T any](sel *Sel, c <-chan T) (T, bool) {
	var z T
	if !sel.val.IsValid() {
		return z, sel.ok
	}
	if x, ok := sel.val.Interface().(T); ok {
		return x, sel.ok
	}
	return z, sel.ok
}

func toReflectCases(cases []Case, hasDefault bool) []reflect.SelectCase {
	rc := make([]reflect.SelectCase, 0, len(cases)+1)
	for _, c := range cases {
		if c.send {
			rc = append(rc, reflect.SelectCase{Dir: reflect.SelectSend, Chan: c.rch, Send: c.val})
		} else {
			rc = append(rc, reflect.SelectCase{Dir: reflect.SelectRecv, Chan: c.rch})
		}
	}
	if hasDefault {
		rc = append(rc, reflect.SelectCase{Dir: reflect.SelectDefault})
	}
	return rc
}

// Select gates a select statement and performs the chosen operation. Index is the clause index in source
// order among communication clauses, or -1 for default.
func Select(site string, hasDefault bool, cases ...Case) Sel {
	s, g := enter()
	if s == nil {
		rc := toReflectCases(cases, hasDefault)
		i, v, ok := reflect.Select(rc)
		if hasDefault && i == len(cases) {
			return Sel{Index: -1}
		}
		return Sel{Index: i, val: v, ok: ok}
	}
	g.kind, g.cases, g.hasDefault, g.site = opSelect, cases, hasDefault, site
	s.resched(g)
	g.cases = nil
	idx, role := g.selIdx, g.pair
	if idx < 0 {
		return Sel{Index: -1}
	}
	rc := toReflectCases(cases[idx:idx+1], false)
	_, v, ok := reflect.Select(rc)
	if !cases[idx].send {
		if ok {
			g.observe(1)
		} else {
			g.observe(2)
		}
	}
	s.afterOp(g, role)
	return Sel{Index: idx, val: v, ok: ok}
}

// Close gates close(c).
func Close[T any](c chan<- T, site string) {
	s, g := enter()
	if s == nil {
		close(c)
		return
	}
	g.kind, g.site = opRun, site
	s.resched(g)
	ref := mkref(c)
	close(c)
	if ref.ptr != 0 {
		s.closed[ref.ptr] = true
	}
}

// Len gates len(c) for a channel operand.
func Len(c any, site string) int {
	s, g := enter()
	v := reflect.ValueOf(c)
	if s == nil {
		return v.Len()
	}
	g.kind, g.site = opRun, site
	s.resched(g)
	n := v.Len()
	g.observe(uint64(n) + 300)
	return n
}

// Yield is a pure scheduling point (atomics, unlock, wait-group add/done).
func Yield(site string) {
	s, g := enter()
	if s == nil {
		return
	}
	if s.opts.Exhausted != nil && s.opts.Exhausted() {
		s.res.Steps++
		if s.res.Steps > s.opts.MaxSteps {
			s.finish("steplimit", fmt.Sprintf("more than %d scheduling steps", s.opts.MaxSteps))
			runtime.Goexit()
		}
		return
	}
	s.touchSeq(g, site)
	g.kind, g.site = opRun, site
	s.resched(g)
}

// Atomic gates a value-returning sync/atomic operation: scheduling point first, then the operation.
func Atomic[T any](site string, f func() T) T {
	s, g := enter()
	if s == nil {
		return f()
	}
	g.kind, g.site = opRun, site
	s.resched(g)
	v := f()
	switch x := any(v).(type) {
	case bool:
		if x {
			g.observe(11)
		} else {
			g.observe(12)
		}
	case int32:
		g.observe(uint64(x))
	case int64:
		g.observe(uint64(x))
	case uint32:
		g.observe(uint64(x))
	case uint64:
		g.observe(x)
	default:
		rv := reflect.ValueOf(any(v))
		if rv.IsValid() && (rv.Kind() == reflect.Pointer || rv.Kind() == reflect.UnsafePointer) && rv.IsNil() {
			g.observe(13)
		} else {
			g.observe(14)
		}
	}
	s.touchSeq(g, site)
	return v
}

// AtomicV gates a sync/atomic operation without result (Store).
func AtomicV(site string, f func()) {
	s, g := enter()
	if s == nil {
		f()
		return
	}
	g.kind, g.site = opRun, site
	s.resched(g)
	f()
	s.touchSeq(g, site)
}

// After is a yield placed after an atomic operation that produces a value.
func After[T any](v T, site string) T {
	s, g := enter()
	if s == nil {
		return v
	}
	switch x := any(v).(type) {
	case bool:
		if x {
			g.observe(11)
		} else {
			g.observe(12)
		}
	case int32:
		g.observe(uint64(x))
	case int64:
		g.observe(uint64(x))
	case uint32:
		g.observe(uint64(x))
	case uint64:
		g.observe(x)
	default:
		rv := reflect.ValueOf(any(v))
		if rv.IsValid() && (rv.Kind() == reflect.Pointer || rv.Kind() == reflect.UnsafePointer) && rv.IsNil() {
			g.observe(13)
		} else {
			g.observe(14)
		}
	}
	s.touchSeq(g, site)
	g.kind, g.site = opRun, site
	s.resched(g)
	return v
}

// Lock / Unlock gate sync.Mutex and the write side of sync.RWMutex (anything implementing sync.Locker).
func Lock(l sync.Locker, site string) {
	s, g := enter()
	if s == nil {
		l.Lock()
		return
	}
	g.kind, g.obj, g.site = opLock, any(l), site
	s.resched(g)
	l.Lock()
}

func Unlock(l sync.Locker, site string) {
	s, g := enter()
	if s == nil {
		l.Unlock()
		return
	}
	g.kind, g.site = opRun, site
	s.resched(g)
	l.Unlock()
	s.lockState(any(l)).held = false
}

type rlocker interface {
	RLock()
	RUnlock()
}

func RLock(l rlocker, site string) {
	s, g := enter()
	if s == nil {
		l.RLock()
		return
	}
	g.kind, g.obj, g.site = opRLock, any(l), site
	s.resched(g)
	l.RLock()
}

func RUnlock(l rlocker, site string) {
	s, g := enter()
	if s == nil {
		l.RUnlock()
		return
	}
	g.kind, g.site = opRun, site
	s.resched(g)
	l.RUnlock()
	s.lockState(any(l)).readers--
}

// GateLock/GateRLock/Released* are used for lock types whose methods have other signatures (xsync.RBMutex):
// the instrumenter emits  vsched.GateRLock(m, site); tok := m.RLock()   and   m.RUnlock(tok); vsched.ReleasedR(m, site).
func GateLock(obj any, site string) {
	s, g := enter()
	if s == nil {
		return
	}
	g.kind, g.obj, g.site = opLock, obj, site
	s.resched(g)
}

func GateRLock(obj any, site string) {
	s, g := enter()
	if s == nil {
		return
	}
	g.kind, g.obj, g.site = opRLock, obj, site
	s.resched(g)
}

func ReleasedW(obj any, site string) {
	s, g := enter()
	if s == nil {
		return
	}
	s.lockState(obj).held = false
	_ = g
	_ = site
}

func ReleasedR(obj any, site string) {
	s, g := enter()
	if s == nil {
		return
	}
	s.lockState(obj).readers--
	_ = g
	_ = site
}

// Wait groups.
func WGAdd(wg *sync.WaitGroup, n int, site string) {
	s, g := enter()
	if s == nil {
		wg.Add(n)
		return
	}
	g.kind, g.site = opRun, site
	s.resched(g)
	c := s.wgs[wg]
	if c == nil {
		c = new(int)
		s.wgs[wg] = c
	}
	*c += n
	wg.Add(n)
}

func WGDone(wg *sync.WaitGroup, site string) { WGAdd(wg, -1, site) }

func WGWait(wg *sync.WaitGroup, site string) {
	s, g := enter()
	if s == nil {
		wg.Wait()
		return
	}
	g.kind, g.obj, g.site = opWGWait, wg, site
	s.resched(g)
	wg.Wait()
}

// ReflectSelect gates reflect.Select (receive cases only, as used by gotils Any/AllAwaitables).
func ReflectSelect(cases []reflect.SelectCase, site string) (int, reflect.Value, bool) {
	s, g := enter()
	if s == nil {
		return reflect.Select(cases)
	}
	cs := make([]Case, len(cases))
	hasDefault := false
	for _, c := range cases {
		if c.Chan.IsValid() && !c.Chan.IsNil() {
			if _, ok := s.pins[c.Chan.Pointer()]; !ok {
				s.pins[c.Chan.Pointer()] = c.Chan.Interface()
			}
		}
	}
	for i, c := range cases {
		switch c.Dir {
		case reflect.SelectRecv:
			cs[i] = Case{send: false, ch: chanRef{ptr: c.Chan.Pointer(), lenf: c.Chan.Len, capn: c.Chan.Cap()}, rch: c.Chan}
		case reflect.SelectSend:
			cs[i] = Case{send: true, ch: chanRef{ptr: c.Chan.Pointer(), lenf: c.Chan.Len, capn: c.Chan.Cap()}, rch: c.Chan, val: c.Send}
		default:
			hasDefault = true
		}
	}
	g.kind, g.cases, g.hasDefault, g.site = opSelect, cs, hasDefault, site
	s.resched(g)
	g.cases = nil
	idx, role := g.selIdx, g.pair
	if idx < 0 {
		for i, c := range cases {
			if c.Dir == reflect.SelectDefault {
				return i, reflect.Value{}, false
			}
		}
	}
	i, v, ok := reflect.Select(cases[idx : idx+1])
	s.afterOp(g, role)
	return idx + i, v, ok
}

// ---------------------------------------------------------------------------------------------
// virtual time

func (s *Sched) addTimer(d time.Duration, period int64, fn func()) *vtimer {
	s.timerSeq++
	t := &vtimer{when: s.now + int64(d), seq: s.timerSeq, period: period, fn: fn, active: true}
	if fn == nil {
		t.ch = make(chan time.Time, 1)
	}
	s.timers = append(s.timers, t)
	return t
}

func (s *Sched) nextTimer() *vtimer {
	var best *vtimer
	j := 0
	for _, t := range s.timers {
		if !t.active {
			continue
		}
		s.timers[j] = t
		j++
		if best == nil || t.when < best.when || (t.when == best.when && t.seq < best.seq) {
			best = t
		}
	}
	for k := j; k < len(s.timers); k++ {
		s.timers[k] = nil
	}
	s.timers = s.timers[:j]
	return best
}

func (s *Sched) fireNextTimer() bool {
	t := s.nextTimer()
	if t == nil {
		return false
	}
	if t.when > s.now {
		s.now = t.when
	}
	if t.period > 0 {
		t.when += t.period
	} else {
		t.active = false
	}
	s.mix(0x71, uint64(t.seq))
	if s.opts.Trace {
		s.res.Trace = append(s.res.Trace, fmt.Sprintf("timer#%d fires at +%v", t.seq, time.Duration(s.now-s.startTime())))
	}
	if t.fn != nil {
		ng := s.newG("afterfunc")
		s.live.Add(1)
		go s.gmain(ng, t.fn)
		return true
	}
	if t.ch != nil {
		select {
		case t.ch <- time.Unix(0, s.now):
		default:
		}
	}
	return true
}

func Now() time.Time {
	s, _ := enter()
	if s == nil {
		return time.Now()
	}
	s.now += s.opts.NowStep
	return time.Unix(0, s.now)
}

func Since(t time.Time) time.Duration { return Now().Sub(t) }
func Until(t time.Time) time.Duration { return t.Sub(Now()) }

func TimeAfter(d time.Duration) <-chan time.Time {
	s, _ := enter()
	if s == nil {
		return time.After(d)
	}
	return s.addTimer(d, 0, nil).ch
}

func Sleep(d time.Duration, site string) {
	s, _ := enter()
	if s == nil {
		time.Sleep(d)
		return
	}
	Recv(TimeAfter(d), site)
}

func NewTimer(d time.Duration) *time.Timer {
	s, _ := enter()
	if s == nil {
		return time.NewTimer(d)
	}
	vt := s.addTimer(d, 0, nil)
	rt := &time.Timer{C: vt.ch}
	vt.rt = rt
	s.tmap[rt] = vt
	return rt
}

func AfterFunc(d time.Duration, f func()) *time.Timer {
	s, _ := enter()
	if s == nil {
		return time.AfterFunc(d, f)
	}
	vt := s.addTimer(d, 0, f)
	rt := &time.Timer{}
	vt.rt = rt
	s.tmap[rt] = vt
	return rt
}

func NewTicker(d time.Duration) *time.Ticker {
	s, _ := enter()
	if s == nil {
		return time.NewTicker(d)
	}
	vt := s.addTimer(d, int64(d), nil)
	rk := &time.Ticker{C: vt.ch}
	vt.rk = rk
	s.kmap[rk] = vt
	return rk
}

func TimerStop(t *time.Timer) bool {
	if s := cur.Load(); s != nil {
		if s.teardown.Load() {
			runtime.Goexit()
		}
		if vt := s.tmap[t]; vt != nil {
			was := vt.active
			vt.active = false
			return was
		}
	}
	if isVirtualTimer(t) {
		return false
	}
	return t.Stop()
}

func TimerReset(t *time.Timer, d time.Duration) bool {
	if s := cur.Load(); s != nil {
		if s.teardown.Load() {
			runtime.Goexit()
		}
		if vt := s.tmap[t]; vt != nil {
			was := vt.active
			vt.active = true
			vt.when = s.now + int64(d)
			found := false
			for _, x := range s.timers {
				if x == vt {
					found = true
				}
			}
			if !found {
				s.timers = append(s.timers, vt)
			}
			return was
		}
	}
	if isVirtualTimer(t) {
		return false
	}
	return t.Reset(d)
}

func TickerStop(t *time.Ticker) {
	if s := cur.Load(); s != nil {
		if s.teardown.Load() {
			runtime.Goexit()
		}
		if vt := s.kmap[t]; vt != nil {
			vt.active = false
			return
		}
	}
	if isVirtualTicker(t) {
		return
	}
	t.Stop()
}

func TickerReset(t *time.Ticker, d time.Duration) {
	if s := cur.Load(); s != nil {
		if s.teardown.Load() {
			runtime.Goexit()
		}
		if vt := s.kmap[t]; vt != nil {
			vt.active = true
			vt.period = int64(d)
			vt.when = s.now + int64(d)
			return
		}
	}
	if isVirtualTicker(t) {
		return
	}
	t.Reset(d)
}

func isVirtualTimer(t *time.Timer) bool   { return false }
func isVirtualTicker(t *time.Ticker) bool { return false }

// ---------------------------------------------------------------------------------------------
// signals

func SignalNotify(c chan<- os.Signal, sigs ...os.Signal) {
	s, _ := enter()
	if s == nil {
		signal.Notify(c, sigs...)
		return
	}
	s.sigs = append(s.sigs, sigReg{c, sigs})
}

// Raise delivers sig to every channel registered through SignalNotify (non-blocking, like the runtime).
func Raise(sig os.Signal) int {
	s, _ := enter()
	if s == nil {
		return 0
	}
	n := 0
	for _, r := range s.sigs {
		for _, x := range r.sigs {
			if x == sig {
				select {
				case r.ch <- sig:
					n++
				default:
				}
			}
		}
	}
	return n
}

// ---------------------------------------------------------------------------------------------
// harness API

// Choose asks the explorer for an environment decision among n alternatives (0 = default, others cost 1).
func Choose(n int, label string) int {
	s, g := enter()
	if s == nil || n <= 1 {
		return 0
	}
	cp := &ChoicePoint{N: n, Kind: "env:" + label, Costs: make([]int, n), Sig: strHash(label) ^ uint64(n)}
	for i := 1; i < n; i++ {
		cp.Costs[i] = 1
	}
	if s.opts.Trace {
		for i := 0; i < n; i++ {
			cp.Labels = append(cp.Labels, fmt.Sprintf("%s=%d", label, i))
		}
	}
	if s.opts.StateKeys {
		cp.State = s.stateKey() ^ strHash(label)
	}
	s.res.Choices++
	idx := s.opts.Choose(cp)
	if idx < 0 || idx >= n {
		panic("vsched: env chooser out of range")
	}
	s.mix(0xe0, uint64(idx), cp.Sig)
	g.observe(0xe0, uint64(idx))
	if s.opts.Trace {
		s.res.Trace = append(s.res.Trace, fmt.Sprintf("env %s=%d", label, idx))
	}
	return idx
}

// ChooseCosts is Choose with explicit costs per alternative.
func ChooseCosts(label string, costs []int) int {
	s, g := enter()
	n := len(costs)
	if s == nil || n <= 1 {
		return 0
	}
	cp := &ChoicePoint{N: n, Kind: "env:" + label, Costs: append([]int(nil), costs...), Sig: strHash(label) ^ uint64(n)}
	cp.Costs[0] = 0
	if s.opts.Trace {
		for i := 0; i < n; i++ {
			cp.Labels = append(cp.Labels, fmt.Sprintf("%s=%d", label, i))
		}
	}
	if s.opts.StateKeys {
		cp.State = s.stateKey() ^ strHash(label)
	}
	s.res.Choices++
	idx := s.opts.Choose(cp)
	if idx < 0 || idx >= n {
		panic("vsched: env chooser out of range")
	}
	s.mix(0xe0, uint64(idx), cp.Sig)
	g.observe(0xe0, uint64(idx))
	if s.opts.Trace {
		s.res.Trace = append(s.res.Trace, fmt.Sprintf("env %s=%d", label, idx))
	}
	return idx
}

// Idle parks the calling (driver) goroutine until no other goroutine is enabled. It does not advance time.
func Idle() {
	s, g := enter()
	if s == nil {
		return
	}
	g.kind, g.site = opIdle, "idle"
	s.resched(g)
}

// Lazy parks the calling (driver) goroutine before an environment event. It is offered at every scheduling
// point at cost 1, and for free once nothing else is enabled. It returns true when the system was quiescent.
func Lazy(site string) bool {
	s, g := enter()
	if s == nil {
		return true
	}
	g.kind, g.site = opLazy, site
	s.resched(g)
	return g.quiet
}

// AdvanceClock fires the earliest pending timer (advancing virtual time) and reports whether there was one.
func AdvanceClock() bool {
	s, _ := enter()
	if s == nil {
		return false
	}
	return s.fireNextTimer()
}

// NextTimerIn returns the delay until the earliest pending timer, or -1.
func NextTimerIn() time.Duration {
	s, _ := enter()
	if s == nil {
		return -1
	}
	t := s.nextTimer()
	if t == nil {
		return -1
	}
	if t.when < s.now {
		return 0
	}
	return time.Duration(t.when - s.now)
}

// WaitUntil blocks the calling managed goroutine until cond() holds. If deadline is non-zero a wake-up is
// registered so that virtual time can advance to it; cond is expected to test the deadline itself.
func WaitUntil(site string, deadline time.Time, cond func() bool) {
	s, g := enter()
	if s == nil {
		panic("vsched.WaitUntil outside a session")
	}
	if !deadline.IsZero() {
		d := deadline.UnixNano() - s.now
		if d < 0 {
			d = 0
		}
		s.addTimer(time.Duration(d), 0, nil)
	}
	g.kind, g.cond, g.site = opCond, cond, site
	s.resched(g)
	g.cond = nil
}

// VNow returns the virtual time without advancing it.
func VNow() time.Time {
	s, _ := enter()
	if s == nil {
		return time.Now()
	}
	return time.Unix(0, s.now)
}

// Elapsed returns virtual time since session start.
func Elapsed() time.Duration {
	s, _ := enter()
	if s == nil {
		return 0
	}
	return time.Duration(s.now - s.startTime())
}

// Note adds a line to the trace (when tracing).
func Note(format string, args ...any) {
	s := cur.Load()
	if s == nil || !s.opts.Trace {
		return
	}
	s.res.Trace = append(s.res.Trace, "  # "+fmt.Sprintf(format, args...))
}

// Observe mixes a harness-side observation into the running goroutine's history (for state keys).
func Observe(v uint64) {
	s, g := enter()
	if s == nil {
		return
	}
	g.observe(v)
}

// SortedKeys returns the keys of m in sorted order (used by the instrumented map-range rewrite).
func SortedKeys[K ~string, V any](m map[K]V) []K {
	keys := make([]K, 0, len(m))
	for k := range m {
		keys = append(keys, k)
	}
	sort.Slice(keys, func(i, j int) bool { return keys[i] < keys[j] })
	return keys
}

// PoolGet / PoolPut replace sync.Pool inside a session by a deterministic LIFO store.
func PoolGet(p *sync.Pool) any {
	s := cur.Load()
	if s == nil || s.teardown.Load() {
		return p.Get()
	}
	st := s.pools[p]
	if n := len(st); n > 0 {
		x := st[n-1]
		s.pools[p] = st[:n-1]
		return x
	}
	if p.New != nil {
		return p.New()
	}
	return nil
}

func PoolPut(p *sync.Pool, x any) {
	s := cur.Load()
	if s == nil || s.teardown.Load() {
		p.Put(x)
		return
	}
	s.pools[p] = append(s.pools[p], x)
}

// xsync.RBMutex gates.
func RBLock(m *xsync.RBMutex, site string) {
	GateLock(m, site)
	m.Lock()
}

func RBUnlock(m *xsync.RBMutex, site string) {
	Yield(site)
	m.Unlock()
	ReleasedW(m, site)
}

func RBRLock(m *xsync.RBMutex, site string) *xsync.RToken {
	GateRLock(m, site)
	return m.RLock()
}

func RBRUnlock(m *xsync.RBMutex, t *xsync.RToken, site string) {
	Yield(site)
	m.RUnlock(t)
	ReleasedR(m, site)
}

// Self returns the id and name (spawn site) of the running managed goroutine.
func Self() (int, string) {
	s, g := enter()
	if s == nil || g == nil {
		return -1, ""
	}
	return g.id, g.name
}
