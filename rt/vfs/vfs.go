// Package vfs is the syscall seam of the chunk persistence path: the instrumenter rewrites unix.Openat / Write / Close /
// Read / Fstat / Fstatat / Unlinkat / Renameat / Fsync (and os.Rename / os.Remove) in slog-agent's util and hybridbuffer
// packages into calls of this package. Each call is logged, passes through to the real syscall on the scratch
// directory, and can be subjected to a fault plan (space/size limit reached after k bytes, error at open / close /
// rename) or a crash plan (process death at a syscall boundary or after k bytes of a write: the harness snapshots the
// directory at that instant — process death keeps the page cache, so the crash state is a prefix of the syscall log).
package vfs

import (
	"fmt"
	"os"
	"path/filepath"
	"sync"

	"golang.org/x/sys/unix"
)

// Call is one logged syscall.
type Call struct {
	Op    string
	Name  string // file name (relative to the directory fd), "" if unknown
	N     int    // bytes requested (write/read)
	Ret   int    // bytes done
	Err   string
	Index int // ordinal of this call in the log
}

// Plan describes what to inject. The zero Plan injects nothing.
type Plan struct {
	// File the plan applies to (base name of the FINAL chunk file; temp names derived from it also match if they
	// contain it).
	File string
	// LimitBytes >= 0: the file cannot grow beyond this many bytes: a write crossing the limit is short (k bytes, nil
	// error) and a write at the limit fails with LimitErrno. -1 = no limit.
	LimitBytes int
	LimitErrno unix.Errno
	// FailOp ("openat", "close", "renameat", "fsync", "unlinkat", "read") fails with FailErrno on the plan's file.
	FailOp    string
	FailErrno unix.Errno
	// Crash: die when the CrashAt-th syscall (0-based, counted among calls touching the plan's file) is about to be
	// issued (CrashBytes < 0) or, if that call is a write, after CrashBytes bytes of it reached the file.
	CrashAt    int
	CrashBytes int
	Crash      bool
	// ShortOnce > 0: the FIRST write to the plan's file is short (ShortOnce bytes, nil error); later writes are unrestricted
	// (a write interrupted by a signal, a file system that takes the data in pieces): the caller's continuation succeeds.
	ShortOnce int
	// MaxPerWrite > 0: every write to the plan's file takes at most this many bytes (nil error).
	MaxPerWrite int
	// CloseLosesData together with FailOp "close": the close fails BECAUSE buffered data could not be written (NFS, quota,
	// delayed allocation): the file keeps only its first CloseKeeps bytes. Otherwise the data is complete and only the error
	// is reported.
	CloseLosesData bool
	CloseKeeps     int
}

type state struct {
	mu      sync.Mutex
	active  bool
	plan    Plan
	log     []Call
	fdName  map[int]string
	fileOps int // calls touching the plan's file so far
	written map[string]int
	writes  map[string]int // number of write calls per file
	onCrash func()
	crashed bool
	// descriptor discipline: descriptors closed through the seam and not handed out again by it; a second close of such a
	// number hits whatever file another goroutine was given that number in between
	closed map[int]string
	misuse []string
}

var st = &state{fdName: map[int]string{}, written: map[string]int{}}

// Crashed is the panic value used to abandon the first generation at the crash point.
type Crashed struct{}

// Begin activates logging and the plan; onCrash is called at the crash instant (snapshot the directory there).
func Begin(p Plan, onCrash func()) {
	st.mu.Lock()
	defer st.mu.Unlock()
	st.active = true
	st.plan = p
	st.log = nil
	st.fdName = map[int]string{}
	st.writes = map[string]int{}
	st.fileOps = 0
	st.written = map[string]int{}
	st.onCrash = onCrash
	st.crashed = false
	st.closed = map[int]string{}
	st.misuse = nil
}

// Misuse returns the descriptor-discipline violations seen since Begin (a descriptor closed twice).
func Misuse() []string {
	st.mu.Lock()
	defer st.mu.Unlock()
	return append([]string(nil), st.misuse...)
}

// End deactivates the seam and returns the log.
func End() []Call {
	st.mu.Lock()
	defer st.mu.Unlock()
	st.active = false
	l := st.log
	st.log = nil
	return l
}

// HasCrashed reports whether the crash point was reached.
func HasCrashed() bool {
	st.mu.Lock()
	defer st.mu.Unlock()
	return st.crashed
}

// FileOps returns how many logged calls touched the plan's file.
func FileOps() int {
	st.mu.Lock()
	defer st.mu.Unlock()
	return st.fileOps
}

func (s *state) matches(name string) bool {
	if s.plan.File == "" || name == "" {
		return false
	}
	b := filepath.Base(name)
	if b == s.plan.File {
		return true
	}
	// temp files derived from the final name
	return len(b) > len(s.plan.File) && (contains(b, s.plan.File))
}

func contains(s, sub string) bool {
	for i := 0; i+len(sub) <= len(s); i++ {
		if s[i:i+len(sub)] == sub {
			return true
		}
	}
	return false
}

func (s *state) record(c Call) {
	c.Index = len(s.log)
	s.log = append(s.log, c)
}

// pre is called before a syscall on name; it returns true if the process "dies" here.
func (s *state) pre(op, name string) (ord int, die bool) {
	if !s.matches(name) {
		return -1, false
	}
	ord = s.fileOps
	s.fileOps++
	if s.plan.Crash && !s.crashed && ord == s.plan.CrashAt && (s.plan.CrashBytes < 0 || op != "write") {
		return ord, true
	}
	return ord, false
}

func (s *state) die() {
	s.crashed = true
	cb := s.onCrash
	s.mu.Unlock()
	if cb != nil {
		cb()
	}
	panic(Crashed{})
}

func errStr(err error) string {
	if err == nil {
		return ""
	}
	return err.Error()
}

func Openat(dirfd int, path string, flags int, mode uint32) (int, error) {
	st.mu.Lock()
	if !st.active {
		st.mu.Unlock()
		return unix.Openat(dirfd, path, flags, mode)
	}
	_, die := st.pre("openat", path)
	if die {
		st.die()
	}
	if st.matches(path) && st.plan.FailOp == "openat" && flags&(unix.O_WRONLY|unix.O_RDWR) != 0 {
		st.record(Call{Op: "openat", Name: path, Err: st.plan.FailErrno.Error()})
		st.mu.Unlock()
		return -1, st.plan.FailErrno
	}
	fd, err := unix.Openat(dirfd, path, flags, mode)
	if err == nil {
		delete(st.closed, fd)
		st.fdName[fd] = path
		if flags&unix.O_TRUNC != 0 {
			st.written[path] = 0
		}
	}
	st.record(Call{Op: "openat", Name: path, Ret: fd, Err: errStr(err)})
	st.mu.Unlock()
	return fd, err
}

func Write(fd int, p []byte) (int, error) {
	st.mu.Lock()
	if !st.active {
		st.mu.Unlock()
		return unix.Write(fd, p)
	}
	name := st.fdName[fd]
	ord, die := st.pre("write", name)
	if die {
		st.die()
	}
	if st.matches(name) {
		// crash after k bytes of this write
		if st.plan.Crash && !st.crashed && ord == st.plan.CrashAt && st.plan.CrashBytes >= 0 {
			k := st.plan.CrashBytes
			if k > len(p) {
				k = len(p)
			}
			if k > 0 {
				unix.Write(fd, p[:k])
			}
			st.record(Call{Op: "write", Name: name, N: len(p), Ret: k, Err: "CRASH"})
			st.die()
		}
		if st.plan.LimitBytes >= 0 {
			room := st.plan.LimitBytes - st.written[name]
			if room <= 0 {
				st.record(Call{Op: "write", Name: name, N: len(p), Ret: -1, Err: st.plan.LimitErrno.Error()})
				st.mu.Unlock()
				return -1, st.plan.LimitErrno
			}
			if room < len(p) {
				n, err := unix.Write(fd, p[:room])
				if n > 0 {
					st.written[name] += n
				}
				st.record(Call{Op: "write", Name: name, N: len(p), Ret: n, Err: errStr(err)})
				st.mu.Unlock()
				return n, err
			}
		}
	}
	q := p
	if st.matches(name) {
		if st.plan.ShortOnce > 0 && st.writes[name] == 0 && st.plan.ShortOnce < len(q) {
			q = q[:st.plan.ShortOnce]
		}
		if st.plan.MaxPerWrite > 0 && st.plan.MaxPerWrite < len(q) {
			q = q[:st.plan.MaxPerWrite]
		}
	}
	if st.writes == nil {
		st.writes = map[string]int{}
	}
	st.writes[name]++
	n, err := unix.Write(fd, q)
	if n > 0 {
		st.written[name] += n
	}
	st.record(Call{Op: "write", Name: name, N: len(p), Ret: n, Err: errStr(err)})
	st.mu.Unlock()
	return n, err
}

func Close(fd int) error {
	st.mu.Lock()
	if !st.active {
		st.mu.Unlock()
		return unix.Close(fd)
	}
	if was, twice := st.closed[fd]; twice {
		// the number is free (or already someone else's): the real close is not issued, it could hit an unrelated descriptor
		st.misuse = append(st.misuse, fmt.Sprintf("descriptor %d (opened for %q) is closed a second time", fd, was))
		st.record(Call{Op: "close", Name: was, Err: "EBADF (second close)"})
		st.mu.Unlock()
		return unix.EBADF
	}
	name := st.fdName[fd]
	_, die := st.pre("close", name)
	if die {
		st.die()
	}
	if st.matches(name) && st.plan.FailOp == "close" && st.plan.CloseLosesData {
		unix.Ftruncate(fd, int64(st.plan.CloseKeeps))
	}
	err := unix.Close(fd)
	if _, ours := st.fdName[fd]; ours {
		st.closed[fd] = name
	}
	delete(st.fdName, fd)
	if err == nil && st.matches(name) && st.plan.FailOp == "close" {
		err = st.plan.FailErrno
	}
	st.record(Call{Op: "close", Name: name, Err: errStr(err)})
	st.mu.Unlock()
	return err
}

func Read(fd int, p []byte) (int, error) {
	st.mu.Lock()
	if !st.active {
		st.mu.Unlock()
		return unix.Read(fd, p)
	}
	name := st.fdName[fd]
	if st.matches(name) && st.plan.FailOp == "read" {
		// the open succeeded, the read does not (medium error, a directory carrying a chunk name)
		st.record(Call{Op: "read", Name: name, N: len(p), Ret: -1, Err: st.plan.FailErrno.Error()})
		st.mu.Unlock()
		return -1, st.plan.FailErrno
	}
	n, err := unix.Read(fd, p)
	st.record(Call{Op: "read", Name: name, N: len(p), Ret: n, Err: errStr(err)})
	st.mu.Unlock()
	return n, err
}

func Fstat(fd int, stat *unix.Stat_t) error {
	return unix.Fstat(fd, stat)
}

func Fstatat(dirfd int, path string, stat *unix.Stat_t, flags int) error {
	return unix.Fstatat(dirfd, path, stat, flags)
}

func Fsync(fd int) error {
	st.mu.Lock()
	if !st.active {
		st.mu.Unlock()
		return unix.Fsync(fd)
	}
	name := st.fdName[fd]
	_, die := st.pre("fsync", name)
	if die {
		st.die()
	}
	err := unix.Fsync(fd)
	if err == nil && st.matches(name) && st.plan.FailOp == "fsync" {
		err = st.plan.FailErrno
	}
	st.record(Call{Op: "fsync", Name: name, Err: errStr(err)})
	st.mu.Unlock()
	return err
}

func Fdatasync(fd int) error { return Fsync(fd) }

func Unlinkat(dirfd int, path string, flags int) error {
	st.mu.Lock()
	if !st.active {
		st.mu.Unlock()
		return unix.Unlinkat(dirfd, path, flags)
	}
	_, die := st.pre("unlinkat", path)
	if die {
		st.die()
	}
	if st.matches(path) && st.plan.FailOp == "unlinkat" {
		st.record(Call{Op: "unlinkat", Name: path, Err: st.plan.FailErrno.Error()})
		st.mu.Unlock()
		return st.plan.FailErrno
	}
	err := unix.Unlinkat(dirfd, path, flags)
	st.record(Call{Op: "unlinkat", Name: path, Err: errStr(err)})
	st.mu.Unlock()
	return err
}

func Renameat(olddirfd int, oldpath string, newdirfd int, newpath string) error {
	st.mu.Lock()
	if !st.active {
		st.mu.Unlock()
		return unix.Renameat(olddirfd, oldpath, newdirfd, newpath)
	}
	name := newpath
	if !st.matches(name) {
		name = oldpath
	}
	_, die := st.pre("renameat", name)
	if die {
		st.die()
	}
	if st.matches(name) && st.plan.FailOp == "renameat" {
		st.record(Call{Op: "renameat", Name: oldpath + "->" + newpath, Err: st.plan.FailErrno.Error()})
		st.mu.Unlock()
		return st.plan.FailErrno
	}
	err := unix.Renameat(olddirfd, oldpath, newdirfd, newpath)
	if err == nil {
		st.written[newpath] = st.written[oldpath]
	}
	st.record(Call{Op: "renameat", Name: oldpath + "->" + newpath, Err: errStr(err)})
	st.mu.Unlock()
	return err
}

func Renameat2(olddirfd int, oldpath string, newdirfd int, newpath string, flags uint) error {
	if flags == 0 {
		return Renameat(olddirfd, oldpath, newdirfd, newpath)
	}
	return unix.Renameat2(olddirfd, oldpath, newdirfd, newpath, flags)
}

func Rename(oldpath, newpath string) error {
	st.mu.Lock()
	if !st.active {
		st.mu.Unlock()
		return os.Rename(oldpath, newpath)
	}
	name := newpath
	if !st.matches(name) {
		name = oldpath
	}
	_, die := st.pre("renameat", name)
	if die {
		st.die()
	}
	if st.matches(name) && st.plan.FailOp == "renameat" {
		st.record(Call{Op: "renameat", Name: oldpath + "->" + newpath, Err: st.plan.FailErrno.Error()})
		st.mu.Unlock()
		return &os.LinkError{Op: "rename", Old: oldpath, New: newpath, Err: st.plan.FailErrno}
	}
	err := os.Rename(oldpath, newpath)
	st.record(Call{Op: "renameat", Name: oldpath + "->" + newpath, Err: errStr(err)})
	st.mu.Unlock()
	return err
}

func Remove(path string) error {
	st.mu.Lock()
	if !st.active {
		st.mu.Unlock()
		return os.Remove(path)
	}
	_, die := st.pre("unlinkat", path)
	if die {
		st.die()
	}
	err := os.Remove(path)
	st.record(Call{Op: "unlinkat", Name: path, Err: errStr(err)})
	st.mu.Unlock()
	return err
}

// Describe renders the log compactly.
func Describe(log []Call) string {
	out := ""
	for _, c := range log {
		out += fmt.Sprintf("%s(%s", c.Op, c.Name)
		if c.Op == "write" || c.Op == "read" {
			out += fmt.Sprintf(",%d)=%d", c.N, c.Ret)
		} else {
			out += ")"
		}
		if c.Err != "" {
			out += "!" + c.Err
		}
		out += " "
	}
	return out
}

// WriteFile is os.WriteFile behind the seam: open (create, truncate), write until done, close — each step a syscall of
// the log, so a plan can fail it or let the process die between or inside the steps (an in-place rewrite is not atomic).
func WriteFile(name string, data []byte, perm os.FileMode) error {
	st.mu.Lock()
	active := st.active
	st.mu.Unlock()
	if !active {
		return os.WriteFile(name, data, perm)
	}
	fd, err := Openat(unix.AT_FDCWD, name, unix.O_WRONLY|unix.O_CREAT|unix.O_TRUNC|unix.O_CLOEXEC, uint32(perm.Perm()))
	if err != nil {
		return &os.PathError{Op: "open", Path: name, Err: err}
	}
	var werr error
	for off := 0; off < len(data); {
		n, err := Write(fd, data[off:])
		if err != nil {
			werr = &os.PathError{Op: "write", Path: name, Err: err}
			break
		}
		if n <= 0 {
			werr = &os.PathError{Op: "write", Path: name, Err: unix.EIO}
			break
		}
		off += n
	}
	if cerr := Close(fd); cerr != nil && werr == nil {
		werr = &os.PathError{Op: "close", Path: name, Err: cerr}
	}
	return werr
}
