// Package deps pins the module requirements the harnesses and the instrumenter need.
package deps

import (
	_ "github.com/relex/fluentlib/protocol/forwardprotocol"
	_ "github.com/relex/gotils/channels"
	_ "github.com/relex/gotils/promexporter/promext"
	_ "github.com/relex/slog-agent/run"
	_ "github.com/relex/slog-agent/test"
	_ "github.com/vmihailenco/msgpack/v4"
	_ "golang.org/x/tools/go/packages"
)
