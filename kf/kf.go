// Package kf reads /verif/known_findings.json: genuine defects that are recorded rather than repaired.
// The file is read-only at run time. A finding is identified by property + key (the specific failing
// input class, call site or history); a violation with any other key is still reported as VIOLATION.
package kf

import (
	"encoding/json"
	"os"
	"strings"
)

type Finding struct {
	Property string `json:"property"`
	Key      string `json:"key"`      // exact key, or a prefix ending in '*'
	Scenario string `json:"scenario"` // optional scenario-name prefix
	What     string `json:"what"`
}

type Fixed struct {
	Property string `json:"property"`
	Commit   string `json:"commit"`
	What     string `json:"what"`
}

type File struct {
	Findings []Finding `json:"findings"`
	Fixed    []Fixed   `json:"fixed"`
}

type Set struct {
	list []Finding
}

// Load returns the findings listed for one property (an absent file is an empty set).
func Load(path, property string) *Set {
	s := &Set{}
	data, err := os.ReadFile(path)
	if err != nil {
		return s
	}
	var f File
	if json.Unmarshal(data, &f) != nil {
		return s
	}
	for _, k := range f.Findings {
		if k.Property == property {
			s.list = append(s.list, k)
		}
	}
	return s
}

// Match returns the listed finding covering (scenario, key), or nil.
func (s *Set) Match(scenario, key string) *Finding {
	for i := range s.list {
		k := &s.list[i]
		if k.Scenario != "" && !strings.HasPrefix(scenario, k.Scenario) {
			continue
		}
		if k.Key == key || (strings.HasSuffix(k.Key, "*") && strings.HasPrefix(key, strings.TrimSuffix(k.Key, "*"))) {
			return k
		}
	}
	return nil
}
