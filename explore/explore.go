// Package explore is the stateless depth-first explorer with iterative deviation bounding, its
// multi-process job distribution, replay, and the evidence writer shared by all model-checking harnesses.
package explore

import (
	"bufio"
	"encoding/json"
	"flag"
	"fmt"
	"os"
	"os/exec"
	"path/filepath"
	"runtime"
	"runtime/pprof"
	"sort"
	"strings"
	"sync"
	"time"

	"slogverif/kf"
	"slogverif/rt/vsched"
)

// Verdict is what a scenario's oracle says about one execution.
type Verdict struct {
	Violation string // "" = the property held on this execution
	Key       string // stable class of the violation (matched against known_findings.json)
	Outcome   string // projection of the execution the oracle looked at (for distinct-outcome counting)
}

// RunFunc performs one execution of a scenario under the given chooser.
type RunFunc func(choose func(*vsched.ChoicePoint) int, trace bool) (Verdict, *vsched.Result)

// Scenario is one closed system (driver + real code + environment) to be explored.
type Scenario struct {
	Name  string
	Desc  string
	Bound map[string]int // tier -> deviation bound (-1 = unbounded)
	Run   RunFunc
	Prune bool // state-key pruning allowed for this scenario
	// SkipExhausted: once the deviation budget of the run is used up, pure scheduling points (vsched.Yield — the running
	// goroutine stays enabled there, so every alternative costs at least one deviation) are passed without creating a choice
	// point. Sound: the skipped points have no affordable alternative. Used by the statement-granularity scenarios, where
	// most points are of that kind. The budget is part of the replay file.
	SkipExhausted bool
	MinOutcomes   int // vacuity guard: fewer distinct outcomes than this is an ENGINE-ERROR (0 = no guard)
	Tiers         string
}

// Point is a recorded choice point of one execution.
type Point struct {
	N     int
	Costs []int
	Sig   uint64
	State uint64
	Kind  string
}

// Exec is one complete execution.
type Exec struct {
	Choices []int
	Points  []Point
	Verdict Verdict
	Res     *vsched.Result
}

// ReplayDivergence is raised when a recorded prefix does not fit the execution.
type ReplayDivergence struct{ Msg string }

func (e ReplayDivergence) Error() string { return e.Msg }

// RunOnce executes the scenario following prefix, then default choices.
func RunOnce(sc *Scenario, prefix []int, sigs []uint64, trace bool) (x *Exec, err error) {
	return RunOnceBudget(sc, prefix, sigs, trace, -1)
}

// exhaustedNow is consulted by the scenario's session (vsched.Options.Exhausted) through Exhausted().
var exhaustedNow func() bool

// Exhausted reports whether the running execution has used up its deviation budget (always false unless the scenario opted in).
func Exhausted() bool { return exhaustedNow != nil && exhaustedNow() }

// RunOnceBudget is RunOnce with the deviation budget known to the execution (budget < 0: unknown, nothing is skipped).
func RunOnceBudget(sc *Scenario, prefix []int, sigs []uint64, trace bool, budget int) (x *Exec, err error) {
	x = &Exec{}
	spent := 0
	exhaustedNow = nil
	if sc.SkipExhausted && budget >= 0 {
		exhaustedNow = func() bool { return spent >= budget }
	}
	defer func() { exhaustedNow = nil }()
	defer func() {
		if r := recover(); r != nil {
			if d, ok := r.(ReplayDivergence); ok {
				err = d
				return
			}
			panic(r)
		}
	}()
	var diverged *ReplayDivergence
	choose := func(cp *vsched.ChoicePoint) int {
		i := len(x.Points)
		x.Points = append(x.Points, Point{N: cp.N, Costs: cp.Costs, Sig: cp.Sig, State: cp.State, Kind: cp.Kind})
		c := 0
		if i < len(prefix) {
			c = prefix[i]
			if c >= cp.N || (sigs != nil && i < len(sigs) && sigs[i] != cp.Sig) {
				if diverged == nil {
					diverged = &ReplayDivergence{fmt.Sprintf("replay divergence at choice %d: want alt %d of sig %x, have %d alts sig %x (%s)", i, c, sigAt(sigs, i), cp.N, cp.Sig, cp.Kind)}
				}
				c = 0
			}
		}
		x.Choices = append(x.Choices, c)
		spent += cp.Costs[c]
		return c
	}
	v, res := sc.Run(choose, trace)
	x.Verdict, x.Res = v, res
	if diverged != nil {
		return x, *diverged
	}
	if len(x.Points) < len(prefix) {
		return x, ReplayDivergence{fmt.Sprintf("replay divergence: execution ended after %d choices, prefix has %d", len(x.Points), len(prefix))}
	}
	return x, nil
}

func sigAt(s []uint64, i int) uint64 {
	if i < len(s) {
		return s[i]
	}
	return 0
}

// Stats accumulates coverage numbers.
type Stats struct {
	Executions  int            `json:"executions"`
	Transitions int64          `json:"transitions"`
	States      int            `json:"states"`
	Pruned      int            `json:"pruned"`
	Outcomes    map[string]int `json:"outcomes"`
	Statuses    map[string]int `json:"statuses"`
	MaxChoices  int            `json:"max_choices"`
	MaxGoros    int            `json:"max_goroutines"`
	Leaked      int            `json:"leaked"`
	Divergences int            `json:"divergences"`
	VirtualMax  int64          `json:"virtual_ns_max"`
}

func newStats() *Stats { return &Stats{Outcomes: map[string]int{}, Statuses: map[string]int{}} }

func (s *Stats) add(o *Stats) {
	s.Executions += o.Executions
	s.Transitions += o.Transitions
	s.States += o.States
	s.Pruned += o.Pruned
	s.Leaked += o.Leaked
	s.Divergences += o.Divergences
	for k, v := range o.Outcomes {
		s.Outcomes[k] += v
	}
	for k, v := range o.Statuses {
		s.Statuses[k] += v
	}
	if o.MaxChoices > s.MaxChoices {
		s.MaxChoices = o.MaxChoices
	}
	if o.MaxGoros > s.MaxGoros {
		s.MaxGoros = o.MaxGoros
	}
	if o.VirtualMax > s.VirtualMax {
		s.VirtualMax = o.VirtualMax
	}
}

// Found is one violating execution.
type Found struct {
	Scenario  string   `json:"scenario"`
	Choices   []int    `json:"choices"`
	Sigs      []uint64 `json:"sigs"`
	Violation string   `json:"violation"`
	Key       string   `json:"key"`
	Cost      int      `json:"cost"`
	Hash      uint64   `json:"trace_hash"`
	Budget    int      `json:"budget"` // deviation budget of the run that found it (matters for SkipExhausted scenarios)
}

// Job is a unit of work handed to a worker process.
type Job struct {
	Scenario string `json:"scenario"`
	Prefix   []int  `json:"prefix"`
	Bound    int    `json:"bound"`
	Split    bool   `json:"split"`
	Prune    bool   `json:"prune"`
	MaxExec  int    `json:"max_exec"`
}

// JobResult is what a worker returns.
type JobResult struct {
	Stats    *Stats  `json:"stats"`
	Found    []Found `json:"found"`
	Children [][]int `json:"children"`
	Err      string  `json:"err"`
	Capped   bool    `json:"capped"`
	WasFull  bool    `json:"was_full"` // the job explored subtrees itself (its children are handed-back remainders)
	Sample   *Sample `json:"sample,omitempty"`
}

// Sample is a written-out execution for the evidence file.
type Sample struct {
	Scenario string   `json:"scenario"`
	Choices  []int    `json:"choices"`
	Status   string   `json:"status"`
	Outcome  string   `json:"outcome"`
	Trace    []string `json:"trace,omitempty"`
}

type walker struct {
	sc       *Scenario
	bound    int
	prune    bool
	maxExec  int
	stats    *Stats
	found    []Found
	seen     map[uint64]int // state key -> max remaining budget with which it was expanded
	states   map[uint64]struct{}
	keys     map[string]bool
	capped   bool
	deferred [][]int
	sample   *Sample
	err      string
}

func prefixCost(x *Exec, n int) int {
	c := 0
	for i := 0; i < n && i < len(x.Choices); i++ {
		c += x.Points[i].Costs[x.Choices[i]]
	}
	return c
}

func (w *walker) record(x *Exec) {
	st := w.stats
	st.Executions++
	st.Transitions += int64(x.Res.Steps)
	st.Outcomes[x.Verdict.Outcome]++
	st.Statuses[x.Res.Status]++
	if len(x.Points) > st.MaxChoices {
		st.MaxChoices = len(x.Points)
	}
	if x.Res.Goroutines > st.MaxGoros {
		st.MaxGoros = x.Res.Goroutines
	}
	if x.Res.VirtualNS > st.VirtualMax {
		st.VirtualMax = x.Res.VirtualNS
	}
	st.Leaked += x.Res.Leaked
	if x.Verdict.Violation != "" {
		k := x.Verdict.Key
		if !w.keys[k] || len(w.found) < 3 {
			if !w.keys[k] {
				w.keys[k] = true
				sigs := make([]uint64, len(x.Points))
				for i, p := range x.Points {
					sigs[i] = p.Sig
				}
				w.found = append(w.found, Found{Scenario: w.sc.Name, Choices: append([]int(nil), x.Choices...), Sigs: sigs,
					Violation: x.Verdict.Violation, Key: k, Cost: prefixCost(x, len(x.Choices)), Hash: x.Res.TraceHash, Budget: w.bound})
			}
		}
	}
}

// explore runs prefix and recursively all extensions within the bound. splitOnly: run once and return children.
func (w *walker) explore(prefix []int, sigs []uint64, splitOnly bool) (children [][]int) {
	if w.maxExec > 0 && w.stats.Executions >= w.maxExec && !splitOnly {
		// job budget used up: hand the unexplored subtree back to the coordinator as a job of its own (nothing is dropped)
		w.deferred = append(w.deferred, append([]int(nil), prefix...))
		return nil
	}
	x, err := RunOnceBudget(w.sc, prefix, sigs, false, w.bound)
	if err != nil {
		w.stats.Divergences++
		w.err = err.Error()
		return nil
	}
	w.record(x)
	if w.sample == nil {
		w.sample = &Sample{Scenario: w.sc.Name, Choices: x.Choices, Status: x.Res.Status, Outcome: x.Verdict.Outcome}
	}
	xs := make([]uint64, len(x.Points))
	for i, p := range x.Points {
		xs[i] = p.Sig
	}
	cost := prefixCost(x, len(prefix))
	for i := len(prefix); i < len(x.Points); i++ {
		p := x.Points[i]
		if p.State != 0 {
			w.states[p.State] = struct{}{}
		}
		if w.prune && p.State != 0 {
			remaining := 1 << 30
			if w.bound >= 0 {
				remaining = w.bound - cost
			}
			if prev, ok := w.seen[p.State]; ok && prev >= remaining {
				w.stats.Pruned++
				break // this state (and every later one on this path) was already expanded with at least this budget
			}
			w.seen[p.State] = remaining
		}
		for alt := 1; alt < p.N; alt++ {
			c := cost + p.Costs[alt]
			if w.bound >= 0 && c > w.bound {
				continue
			}
			child := append(append(make([]int, 0, i+1), x.Choices[:i]...), alt)
			if splitOnly {
				children = append(children, child)
			} else {
				w.explore(child, xs[:i+1], false)
			}
		}
		cost += p.Costs[x.Choices[i]]
	}
	return children
}

// ---------------------------------------------------------------------------------------------
// process-level driver

// Config describes a property check built on the explorer.
type Config struct {
	Property  string
	Level     string // evidence level
	Scenarios []*Scenario
	// Assumptions written into the evidence.
	Assumptions []string
	Rule        string
}

var (
	flagTier     = flag.String("tier", "quick", "quick|thorough")
	flagWorker   = flag.Bool("worker", false, "run as worker process")
	flagReplay   = flag.String("replay", "", "replay file")
	flagOnly     = flag.String("only", "", "comma-separated scenario name prefixes")
	flagBound    = flag.Int("bound", -99, "override deviation bound")
	flagProcs    = flag.Int("procs", 0, "worker processes (default: cores)")
	flagEvidence = flag.String("evidence", "", "evidence file to write")
	flagKnown    = flag.String("known", "/verif/known_findings.json", "known findings file")
	flagReplays  = flag.String("replays", "/verif/replays", "directory for replay files")
	flagDeadline = flag.Duration("deadline", 0, "wall-clock budget (0 = tier default)")
	flagTrace    = flag.Bool("trace", false, "print the trace of the first execution of each scenario")
	flagList     = flag.Bool("list", false, "list scenarios")
	flagNoPrune  = flag.Bool("noprune", false, "disable state-key pruning")
	flagPrune    = flag.Bool("prune", false, "force state-key pruning")
)

func findScenario(cfg *Config, name string) *Scenario {
	for _, s := range cfg.Scenarios {
		if s.Name == name {
			return s
		}
	}
	return nil
}

// Main is the entry point of every model-checking harness binary.
func Main(cfg *Config) {
	flag.Parse()
	if *flagWorker {
		if pf := os.Getenv("VERIF_CPUPROFILE"); pf != "" {
			if f, err := os.Create(fmt.Sprintf("%s.%d", pf, os.Getpid())); err == nil {
				pprof.StartCPUProfile(f)
				defer pprof.StopCPUProfile()
			}
		}
		workerLoop(cfg)
		return
	}
	if *flagList {
		for _, s := range cfg.Scenarios {
			fmt.Printf("%-40s %s\n", s.Name, s.Desc)
		}
		return
	}
	if *flagReplay != "" {
		os.Exit(replayFile(cfg, *flagReplay))
	}
	os.Exit(coordinate(cfg))
}

func workerLoop(cfg *Config) {
	in := bufio.NewReaderSize(os.Stdin, 1<<20)
	out := bufio.NewWriter(os.Stdout)
	enc := json.NewEncoder(out)
	for {
		line, err := in.ReadBytes('\n')
		if len(line) > 0 {
			var job Job
			if jerr := json.Unmarshal(line, &job); jerr != nil {
				enc.Encode(JobResult{Err: "bad job: " + jerr.Error()})
				out.Flush()
				continue
			}
			res := runJob(cfg, &job)
			enc.Encode(res)
			out.Flush()
		}
		if err != nil {
			return
		}
	}
}

func runJob(cfg *Config, job *Job) (res JobResult) {
	sc := findScenario(cfg, job.Scenario)
	if sc == nil {
		return JobResult{Err: "unknown scenario " + job.Scenario}
	}
	defer func() {
		if r := recover(); r != nil {
			res.Err = fmt.Sprintf("worker panic: %v", r)
		}
	}()
	w := &walker{sc: sc, bound: job.Bound, prune: job.Prune, maxExec: job.MaxExec, stats: newStats(), seen: map[uint64]int{}, states: map[uint64]struct{}{}, keys: map[string]bool{}}
	children := w.explore(job.Prefix, nil, job.Split)
	children = append(children, w.deferred...)
	w.stats.States = len(w.states)
	return JobResult{Stats: w.stats, Found: w.found, Children: children, Err: w.err, Capped: w.capped, Sample: w.sample, WasFull: !job.Split}
}

// jobWatchdog bounds one job; a job is a subtree of executions, normally well under a minute.
var jobWatchdog = 6 * time.Minute

// jobMaxExec bounds the executions of one job; the unexplored remainder is handed back to the coordinator as new jobs
// (load balancing, and the watchdog stays a hang detector).
var jobMaxExec = envInt("VERIF_JOB_MAX_EXEC", 2000)

func envInt(name string, def int) int {
	var n int
	if _, err := fmt.Sscanf(os.Getenv(name), "%d", &n); err == nil && n > 0 {
		return n
	}
	return def
}

type workerProc struct {
	cmd *exec.Cmd
	in  *bufio.Writer
	out *bufio.Reader
}

func startWorker() (*workerProc, error) {
	// workers get the same command line (scenario sets may depend on harness flags such as -prop) plus -worker
	args := append([]string{"-worker"}, os.Args[1:]...)
	cmd := exec.Command(os.Args[0], args...)
	cmd.Env = append(os.Environ(), "GOMAXPROCS=2")
	cmd.Stderr = os.Stderr
	stdin, err := cmd.StdinPipe()
	if err != nil {
		return nil, err
	}
	stdout, err := cmd.StdoutPipe()
	if err != nil {
		return nil, err
	}
	if err := cmd.Start(); err != nil {
		return nil, err
	}
	return &workerProc{cmd: cmd, in: bufio.NewWriter(stdin), out: bufio.NewReaderSize(stdout, 1<<20)}, nil
}

func (w *workerProc) do(job *Job) (*JobResult, error) {
	data, _ := json.Marshal(job)
	if _, err := w.in.Write(append(data, '\n')); err != nil {
		return nil, err
	}
	if err := w.in.Flush(); err != nil {
		return nil, err
	}
	type rd struct {
		line []byte
		err  error
	}
	ch := make(chan rd, 1)
	go func() {
		line, err := w.out.ReadBytes('\n')
		ch <- rd{line, err}
	}()
	var line []byte
	select {
	case r := <-ch:
		if r.err != nil {
			return nil, fmt.Errorf("worker died: %v", r.err)
		}
		line = r.line
	case <-time.After(jobWatchdog):
		return nil, fmt.Errorf("worker did not answer within %v (an execution blocked outside the scheduler's control)", jobWatchdog)
	}
	var res JobResult
	if err := json.Unmarshal(line, &res); err != nil {
		return nil, fmt.Errorf("bad worker reply: %v: %.200s", err, line)
	}
	return &res, nil
}

func (w *workerProc) stop() {
	w.cmd.Process.Kill()
	w.cmd.Wait()
}

type scenarioReport struct {
	Name       string         `json:"name"`
	Bound      int            `json:"bound"`
	Executions int            `json:"executions"`
	States     int            `json:"states"`
	Pruned     int            `json:"pruned"`
	Outcomes   int            `json:"distinct_outcomes"`
	Statuses   map[string]int `json:"statuses"`
	Exhaustive bool           `json:"exhaustive"`
	WallS      float64        `json:"wall_s"`
}

func coordinate(cfg *Config) int {
	start := time.Now()
	tier := *flagTier
	if t := os.Getenv("VERIF_TIER"); t != "" && !flagSet("tier") {
		tier = t
	}
	deadline := *flagDeadline
	if deadline == 0 {
		if tier == "quick" {
			deadline = 20 * time.Minute // a safety net only: the quick tier is sized for one to two minutes on an idle machine
		} else {
			deadline = 60 * time.Minute
		}
	}
	nproc := *flagProcs
	if nproc == 0 {
		nproc = runtime.NumCPU()
	}
	total := newStats()
	var reports []scenarioReport
	var allFound []Found
	var samples []*Sample
	engineErrors := []string{}
	exhaustive := true

	// a pool of worker processes shared by all scenarios
	workers := make(chan *workerProc, nproc)
	var all []*workerProc
	for i := 0; i < nproc; i++ {
		w, err := startWorker()
		if err != nil {
			fmt.Printf("ENGINE-ERROR cannot start worker: %v\n", err)
			return 2
		}
		all = append(all, w)
		workers <- w
	}
	defer func() {
		for _, w := range all {
			w.stop()
		}
	}()

	for _, sc := range cfg.Scenarios {
		if *flagOnly != "" {
			match := false
			for _, p := range strings.Split(*flagOnly, ",") {
				if strings.HasPrefix(sc.Name, p) {
					match = true
				}
			}
			if !match {
				continue
			}
		}
		bound, ok := sc.Bound[tier]
		if !ok {
			continue
		}
		if *flagBound != -99 {
			bound = *flagBound
		}
		scStart := time.Now()
		if *flagTrace {
			x, err := RunOnce(sc, nil, nil, true)
			fmt.Printf("--- trace of default execution of %s (status=%s outcome=%s err=%v)\n", sc.Name, x.Res.Status, x.Verdict.Outcome, err)
			for _, l := range x.Res.Trace {
				fmt.Println(l)
			}
			if x.Res.Detail != "" {
				fmt.Println(x.Res.Detail)
			}
		}
		prune := (sc.Prune || *flagPrune) && !*flagNoPrune
		st := newStats()
		scExh := true
		var mu sync.Mutex
		var wg sync.WaitGroup
		queue := []Job{{Scenario: sc.Name, Prefix: []int{}, Bound: bound, Split: true, Prune: prune, MaxExec: jobMaxExec}}
		pending := 0
		cond := sync.NewCond(&mu)
		var scFound []Found
		splitDepth := 2
		dispatch := func(job Job) {
			defer wg.Done()
			w := <-workers
			if time.Since(start) > deadline {
				// the budget ran out while this job waited for a worker: not explored (the tier reports exhaustive:false)
				workers <- w
				mu.Lock()
				scExh = false
				pending--
				cond.Broadcast()
				mu.Unlock()
				return
			}
			res, err := w.do(&job)
			if err != nil {
				// worker died: replace it, report
				w.stop()
				nw, serr := startWorker()
				if serr == nil {
					mu.Lock()
					all = append(all, nw)
					mu.Unlock()
					workers <- nw
				}
				mu.Lock()
				engineErrors = append(engineErrors, fmt.Sprintf("%s prefix=%v: %v", sc.Name, job.Prefix, err))
				pending--
				cond.Broadcast()
				mu.Unlock()
				return
			}
			workers <- w
			mu.Lock()
			defer mu.Unlock()
			if res.Err != "" {
				engineErrors = append(engineErrors, fmt.Sprintf("%s prefix=%v: %s", sc.Name, job.Prefix, res.Err))
			}
			if res.Stats != nil {
				st.add(res.Stats)
			}
			if res.Capped {
				scExh = false
			}
			if res.Sample != nil && len(job.Prefix) == 0 {
				samples = append(samples, res.Sample)
			}
			scFound = append(scFound, res.Found...)
			for _, c := range res.Children {
				queue = append(queue, Job{Scenario: sc.Name, Prefix: c, Bound: bound, Split: !res.WasFull && len(c) > 0 && depthOf(c) < splitDepth, Prune: prune, MaxExec: jobMaxExec})
			}
			pending--
			cond.Broadcast()
		}
		mu.Lock()
		for {
			for len(queue) > 0 {
				if time.Since(start) > deadline {
					scExh = false
					queue = nil
					break
				}
				job := queue[len(queue)-1]
				queue = queue[:len(queue)-1]
				pending++
				wg.Add(1)
				go dispatch(job)
			}
			if pending == 0 && len(queue) == 0 {
				break
			}
			cond.Wait()
		}
		mu.Unlock()
		wg.Wait()
		if !scExh {
			exhaustive = false
		}
		total.add(st)
		rep := scenarioReport{Name: sc.Name, Bound: bound, Executions: st.Executions, States: st.States, Pruned: st.Pruned,
			Outcomes: len(st.Outcomes), Statuses: st.Statuses, Exhaustive: scExh, WallS: time.Since(scStart).Seconds()}
		reports = append(reports, rep)
		fmt.Printf("scenario %-36s bound=%d exec=%d states=%d pruned=%d outcomes=%d statuses=%v exhaustive=%v %.1fs\n",
			sc.Name, bound, st.Executions, st.States, st.Pruned, len(st.Outcomes), st.Statuses, scExh, rep.WallS)
		if sc.MinOutcomes > 0 && len(st.Outcomes) < sc.MinOutcomes && scExh {
			engineErrors = append(engineErrors, fmt.Sprintf("%s: vacuous exploration: %d distinct outcomes, expected at least %d", sc.Name, len(st.Outcomes), sc.MinOutcomes))
		}
		// keep one finding per key, lowest cost first
		sort.Slice(scFound, func(i, j int) bool {
			if scFound[i].Cost != scFound[j].Cost {
				return scFound[i].Cost < scFound[j].Cost
			}
			return len(scFound[i].Choices) < len(scFound[j].Choices)
		})
		seenKey := map[string]bool{}
		for _, f := range scFound {
			if seenKey[f.Key] {
				continue
			}
			seenKey[f.Key] = true
			allFound = append(allFound, f)
		}
	}

	// triage: replay each finding 5 times, then compare with the known findings
	known := kf.Load(*flagKnown, cfg.Property)
	violations := 0
	knownSeen := map[string]bool{}
	for _, f := range allFound {
		sc := findScenario(cfg, f.Scenario)
		okReplay := true
		var last *Exec
		for i := 0; i < 5; i++ {
			x, err := RunOnceBudget(sc, f.Choices, f.Sigs, i == 0, f.Budget)
			if err != nil || x.Verdict.Key != f.Key || x.Res.TraceHash != f.Hash {
				okReplay = false
				engineErrors = append(engineErrors, fmt.Sprintf("%s: violation %q did not replay deterministically (run %d: err=%v key=%q hash=%x want %x)", f.Scenario, f.Key, i, err, x.Verdict.Key, x.Res.TraceHash, f.Hash))
				break
			}
			if i == 0 {
				last = x
			}
		}
		if !okReplay {
			continue
		}
		if kf := known.Match(f.Scenario, f.Key); kf != nil {
			if !knownSeen[kf.Key] {
				knownSeen[kf.Key] = true
				fmt.Printf("KNOWN-FINDING: property=%s %s\n", cfg.Property, kf.What)
			}
			continue
		}
		violations++
		path := writeReplay(cfg, &f, last)
		fmt.Printf("VIOLATION property=%s replay=%s\n", cfg.Property, path)
		fmt.Printf("  scenario=%s key=%s cost=%d: %s\n", f.Scenario, f.Key, f.Cost, f.Violation)
	}
	if total.Leaked > 0 {
		engineErrors = append(engineErrors, fmt.Sprintf("%d goroutines leaked past teardown", total.Leaked))
	}

	wall := time.Since(start).Seconds()
	if *flagEvidence != "" {
		sampleAny := []any{}
		for i, s := range samples {
			if i >= 6 {
				break
			}
			if len(s.Choices) > 200 || len(s.Trace) > 200 {
				// long executions (large backlogs): keep the evidence file small
				c := *s
				if len(c.Choices) > 200 {
					c.Outcome = fmt.Sprintf("%s [%d choices, first 200 kept]", c.Outcome, len(c.Choices))
					c.Choices = c.Choices[:200]
				}
				if len(c.Trace) > 200 {
					c.Trace = c.Trace[:200]
				}
				s = &c
			}
			sampleAny = append(sampleAny, s)
		}
		if len(sampleAny) == 0 {
			sampleAny = append(sampleAny, "no execution ran")
		}
		ev := map[string]any{
			"property_id": cfg.Property,
			"tier":        tier,
			"seed":        seedFromEnv(),
			"level":       cfg.Level,
			"coverage": map[string]any{
				"states":                        max(total.States, 1),
				"transitions":                   total.Transitions,
				"traces_validated_against_impl": total.Executions,
				"evaluations":                   total.Executions,
				"distinct_nontrivial":           len(total.Outcomes),
				"rule":                          cfg.Rule,
				"samples":                       sampleAny,
				"exhaustive":                    exhaustive && len(engineErrors) == 0,
				"scenarios":                     reports,
				"pruned_branches":               total.Pruned,
				"max_choice_points":             total.MaxChoices,
				"max_goroutines":                total.MaxGoros,
				"statuses":                      total.Statuses,
				"known_findings_observed":       keysOf(knownSeen),
				"engine_errors":                 engineErrors,
				"worker_processes":              nproc,
			},
			"assumptions": cfg.Assumptions,
			"wall_s":      wall,
			"violations":  violations,
		}
		data, _ := json.MarshalIndent(ev, "", " ")
		os.MkdirAll(filepath.Dir(*flagEvidence), 0o755)
		if err := os.WriteFile(*flagEvidence, data, 0o644); err != nil {
			fmt.Printf("ENGINE-ERROR cannot write evidence: %v\n", err)
			return 2
		}
	}
	fmt.Printf("total: executions=%d transitions=%d states=%d outcomes=%d violations=%d exhaustive=%v wall=%.1fs\n",
		total.Executions, total.Transitions, total.States, len(total.Outcomes), violations, exhaustive, wall)
	if violations > 0 {
		return 1
	}
	if len(engineErrors) > 0 {
		for _, e := range engineErrors {
			fmt.Printf("ENGINE-ERROR %s\n", e)
		}
		return 2
	}
	return 0
}

func keysOf(m map[string]bool) []string {
	out := []string{}
	for k := range m {
		out = append(out, k)
	}
	sort.Strings(out)
	return out
}

func depthOf(prefix []int) int {
	d := 0
	for _, c := range prefix {
		if c != 0 {
			d++
		}
	}
	return d
}

func flagSet(name string) bool {
	set := false
	flag.Visit(func(f *flag.Flag) {
		if f.Name == name {
			set = true
		}
	})
	return set
}

func seedFromEnv() int {
	var n int
	fmt.Sscanf(os.Getenv("VERIF_SEED"), "%d", &n)
	return n
}

type replayDoc struct {
	Property  string   `json:"property"`
	Scenario  string   `json:"scenario"`
	Choices   []int    `json:"choices"`
	Sigs      []uint64 `json:"sigs"`
	Violation string   `json:"violation"`
	Key       string   `json:"key"`
	Trace     []string `json:"trace"`
	Detail    string   `json:"detail"`
	Budget    *int     `json:"budget,omitempty"`
}

func writeReplay(cfg *Config, f *Found, x *Exec) string {
	os.MkdirAll(*flagReplays, 0o755)
	doc := replayDoc{Property: cfg.Property, Scenario: f.Scenario, Choices: f.Choices, Sigs: f.Sigs, Violation: f.Violation, Key: f.Key}
	if sc := findScenario(cfg, f.Scenario); sc != nil && sc.SkipExhausted {
		b := f.Budget
		doc.Budget = &b
	}
	if x != nil && x.Res != nil {
		doc.Trace = x.Res.Trace
		doc.Detail = x.Res.Detail
	}
	name := fmt.Sprintf("%s-%s-%x.json", cfg.Property, sanitize(f.Scenario), f.Hash&0xffffff)
	path := filepath.Join(*flagReplays, name)
	data, _ := json.MarshalIndent(doc, "", " ")
	os.WriteFile(path, data, 0o644)
	return path
}

func sanitize(s string) string {
	return strings.Map(func(r rune) rune {
		if (r >= 'a' && r <= 'z') || (r >= 'A' && r <= 'Z') || (r >= '0' && r <= '9') || r == '-' || r == '_' {
			return r
		}
		return '_'
	}, s)
}

func replayFile(cfg *Config, path string) int {
	data, err := os.ReadFile(path)
	if err != nil {
		fmt.Printf("ENGINE-ERROR %v\n", err)
		return 2
	}
	var doc replayDoc
	if err := json.Unmarshal(data, &doc); err != nil {
		fmt.Printf("ENGINE-ERROR %v\n", err)
		return 2
	}
	sc := findScenario(cfg, doc.Scenario)
	if sc == nil {
		// exit code 3: the replay file belongs to another part (harness) of a multi-part check; ./check moves on
		fmt.Printf("NOT-IN-THIS-PART unknown scenario %q\n", doc.Scenario)
		return 3
	}
	budget := -1
	if doc.Budget != nil {
		budget = *doc.Budget
	}
	x, err := RunOnceBudget(sc, doc.Choices, doc.Sigs, true, budget)
	for _, l := range x.Res.Trace {
		fmt.Println(l)
	}
	if x.Res.Detail != "" {
		fmt.Println(x.Res.Detail)
	}
	fmt.Printf("status=%s outcome=%s\n", x.Res.Status, x.Verdict.Outcome)
	if err != nil {
		fmt.Printf("ENGINE-ERROR %v\n", err)
		return 2
	}
	if x.Verdict.Violation != "" {
		fmt.Printf("VIOLATION property=%s replay=%s\n  %s\n", cfg.Property, path, x.Verdict.Violation)
		return 1
	}
	fmt.Println("no violation on replay")
	return 0
}
