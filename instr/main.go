// Command instr is the source instrumenter: it loads the current working tree of slog-agent (plus the gotils
// packages whose goroutines and channels take part in the protocols), rewrites every visible concurrency
// operation into a call of the vsched runtime and writes a `go build -overlay` file. /repo is never modified.
//
// usage: instr -out DIR [-pkgs pattern,...] [-extra file=replacement,...]
package main

import (
	"bytes"
	"encoding/json"
	"flag"
	"fmt"
	"go/ast"
	"go/format"
	"go/parser"
	"go/token"
	"go/types"
	"os"
	"path/filepath"
	"sort"
	"strconv"
	"strings"

	"golang.org/x/tools/go/ast/astutil"
	"golang.org/x/tools/go/packages"
)

const vschedPath = "slogverif/rt/vsched"

var (
	outDir   = flag.String("out", "", "output directory")
	pkgsFlag = flag.String("pkgs", "github.com/relex/slog-agent/...,github.com/relex/gotils/channels,github.com/relex/gotils/promexporter/promext", "package patterns")
	extra    = flag.String("extra", "", "extra overlay entries orig=replacement, comma separated")
	noAtomic = flag.String("noatomic", "github.com/relex/gotils/promexporter/promext", "packages whose atomics are not scheduling points")
	timeOnly = flag.String("timeonly", "github.com/relex/gotils/promexporter/promext", "packages where only time.* calls are rewritten (their channels and goroutines belong to uninstrumented callers such as the Prometheus registry)")
	skipPkgs = flag.String("skip", "github.com/relex/slog-agent/test,github.com/relex/slog-agent/cmd,github.com/relex/slog-agent", "packages left untouched")
	verbose  = flag.Bool("v", false, "verbose")
	vfsPkgs  = flag.String("vfs", "", "packages whose unix.* file syscalls go through the vfs seam (comma separated import paths)")
	finePkgs = flag.String("fine", "", "packages instrumented at statement granularity: a scheduling point before every statement, and every store to a non-local location split into compute / scheduling point / store (comma separated import paths; a trailing /... matches sub-packages)")
)

// fineFuncs: a pattern "import/path:Func1+Func2" restricts the statement-granularity rewrite to the named functions and
// methods of that package (loops over large tables elsewhere in the package would make executions too long).
var fineFuncs = map[string]map[string]bool{}

func fineMatch(path string) bool {
	for _, pat := range strings.Split(*finePkgs, ",") {
		if pat == "" {
			continue
		}
		if i := strings.IndexByte(pat, ':'); i > 0 {
			if pat[:i] != path {
				continue
			}
			m := map[string]bool{}
			for _, f := range strings.Split(pat[i+1:], "+") {
				m[f] = true
			}
			fineFuncs[path] = m
			return true
		}
		if strings.HasSuffix(pat, "/...") {
			if b := strings.TrimSuffix(pat, "/..."); path == b || strings.HasPrefix(path, b+"/") {
				return true
			}
		} else if path == pat {
			return true
		}
	}
	return false
}

const vfsPath = "slogverif/rt/vfs"

type stats struct {
	vfs, fineYields, fineSplits                                                                                     int
	files, sends, recvs, ranges, selects, closes, lens, gos, locks, wgs, atomics, times, signals, maps, pools, rsel int
}

var st stats

func fatalf(format string, args ...any) {
	fmt.Fprintf(os.Stderr, "ENGINE-ERROR instr: "+format+"\n", args...)
	os.Exit(2)
}

func main() {
	flag.Parse()
	if *outDir == "" {
		fatalf("-out required")
	}
	cfg := &packages.Config{
		Mode: packages.NeedName | packages.NeedFiles | packages.NeedCompiledGoFiles | packages.NeedSyntax |
			packages.NeedTypes | packages.NeedTypesInfo | packages.NeedImports | packages.NeedDeps,
		Tests: false,
	}
	pkgs, err := packages.Load(cfg, strings.Split(*pkgsFlag, ",")...)
	if err != nil {
		fatalf("load: %v", err)
	}
	nerr := 0
	for _, p := range pkgs {
		for _, e := range p.Errors {
			fmt.Fprintf(os.Stderr, "instr: %s: %v\n", p.PkgPath, e)
			nerr++
		}
	}
	if nerr > 0 {
		fatalf("%d load errors", nerr)
	}
	skip := map[string]bool{}
	for _, s := range strings.Split(*skipPkgs, ",") {
		skip[s] = true
	}
	vfsSet := map[string]bool{}
	for _, s := range strings.Split(*vfsPkgs, ",") {
		if s != "" {
			vfsSet[s] = true
		}
	}
	noat := map[string]bool{}
	for _, s := range strings.Split(*noAtomic, ",") {
		noat[s] = true
	}
	tonly := map[string]bool{}
	for _, s := range strings.Split(*timeOnly, ",") {
		tonly[s] = true
	}
	overlay := map[string]string{}
	sort.Slice(pkgs, func(i, j int) bool { return pkgs[i].PkgPath < pkgs[j].PkgPath })
	for _, p := range pkgs {
		if skip[p.PkgPath] {
			continue
		}
		for i, f := range p.Syntax {
			orig := p.CompiledGoFiles[i]
			if strings.HasSuffix(orig, "_test.go") {
				continue
			}
			r := &rewriter{pkg: p, file: f, fset: p.Fset, info: p.TypesInfo, noAtomic: noat[p.PkgPath], vfs: vfsSet[p.PkgPath], timeOnly: tonly[p.PkgPath], fine: fineMatch(p.PkgPath), fname: shortName(p.PkgPath, orig)}
			if !r.rewriteFile() {
				continue
			}
			var buf bytes.Buffer
			if err := format.Node(&buf, p.Fset, f); err != nil {
				fatalf("print %s: %v", orig, err)
			}
			dst := filepath.Join(*outDir, "src", p.PkgPath, filepath.Base(orig))
			if err := os.MkdirAll(filepath.Dir(dst), 0o755); err != nil {
				fatalf("%v", err)
			}
			if err := os.WriteFile(dst, buf.Bytes(), 0o644); err != nil {
				fatalf("%v", err)
			}
			overlay[orig] = dst
			st.files++
		}
	}
	if *extra != "" {
		for _, kv := range strings.Split(*extra, ",") {
			parts := strings.SplitN(kv, "=", 2)
			if len(parts) != 2 {
				fatalf("bad -extra entry %q", kv)
			}
			overlay[parts[0]] = parts[1]
		}
	}
	data, _ := json.MarshalIndent(map[string]any{"Replace": overlay}, "", " ")
	if err := os.WriteFile(filepath.Join(*outDir, "overlay.json"), data, 0o644); err != nil {
		fatalf("%v", err)
	}
	fmt.Printf("instr: files=%d send=%d recv=%d range=%d select=%d close=%d len=%d go=%d lock=%d wg=%d atomic=%d time=%d signal=%d maprange=%d pool=%d reflectselect=%d vfs=%d fine-yields=%d fine-splits=%d\n",
		st.files, st.sends, st.recvs, st.ranges, st.selects, st.closes, st.lens, st.gos, st.locks, st.wgs, st.atomics, st.times, st.signals, st.maps, st.pools, st.rsel, st.vfs, st.fineYields, st.fineSplits)
}

func shortName(pkgPath, file string) string {
	p := strings.TrimPrefix(pkgPath, "github.com/relex/slog-agent/")
	p = strings.TrimPrefix(p, "github.com/relex/")
	return p + "/" + filepath.Base(file)
}

type rewriter struct {
	pkg        *packages.Package
	file       *ast.File
	fset       *token.FileSet
	info       *types.Info
	fname      string
	noAtomic   bool
	vfs        bool
	timeOnly   bool
	fine       bool
	usedVfs    bool
	changed    bool
	tmpN       int
	skipRecv   map[ast.Expr]bool // receive expressions handled by their parent (select comm, v,ok := <-c)
	recv2      map[ast.Expr]bool
	keep       map[string]bool // import paths whose package name must be kept referenced
	labelFix   map[*ast.LabeledStmt][]ast.Stmt
	voidAtomic map[*ast.CallExpr]bool
}

func (r *rewriter) site(n ast.Node) *ast.BasicLit {
	pos := r.fset.Position(n.Pos())
	return &ast.BasicLit{Kind: token.STRING, Value: strconv.Quote(fmt.Sprintf("%s:%d", r.fname, pos.Line))}
}

func (r *rewriter) tmp(prefix string) *ast.Ident {
	r.tmpN++
	return ast.NewIdent(fmt.Sprintf("vs%s%d", prefix, r.tmpN))
}

func vs(name string) ast.Expr {
	return &ast.SelectorExpr{X: ast.NewIdent("vsched"), Sel: ast.NewIdent(name)}
}

func call(fn ast.Expr, args ...ast.Expr) *ast.CallExpr {
	return &ast.CallExpr{Fun: fn, Args: args}
}

func define(lhs ast.Expr, rhs ast.Expr) *ast.AssignStmt {
	return &ast.AssignStmt{Lhs: []ast.Expr{lhs}, Tok: token.DEFINE, Rhs: []ast.Expr{rhs}}
}

func (r *rewriter) isChan(e ast.Expr) bool {
	t := r.info.TypeOf(e)
	if t == nil {
		return false
	}
	_, ok := t.Underlying().(*types.Chan)
	if ok {
		return true
	}
	// type parameter whose core type is a channel
	if tp, ok2 := t.(*types.TypeParam); ok2 {
		if u, ok3 := tp.Constraint().Underlying().(*types.Interface); ok3 {
			_ = u
		}
	}
	return false
}

func (r *rewriter) isConst(e ast.Expr) bool {
	tv, ok := r.info.Types[e]
	return ok && tv.Value != nil
}

func isNilIdent(e ast.Expr) bool {
	id, ok := e.(*ast.Ident)
	return ok && id.Name == "nil"
}

// calleeFunc returns the package path and name of a called package-level function, or the receiver's named
// type (package path, type name) and method name for a method call.
func (r *rewriter) callee(c *ast.CallExpr) (pkg, recv, name string, sel *ast.SelectorExpr) {
	fun := c.Fun
	if ix, ok := fun.(*ast.IndexExpr); ok {
		fun = ix.X
	}
	se, ok := fun.(*ast.SelectorExpr)
	if !ok {
		return
	}
	if s := r.info.Selections[se]; s != nil && s.Kind() == types.MethodVal {
		f, ok := s.Obj().(*types.Func)
		if !ok {
			return
		}
		sig := f.Type().(*types.Signature)
		if sig.Recv() == nil {
			return
		}
		rt := sig.Recv().Type()
		if p, ok := rt.(*types.Pointer); ok {
			rt = p.Elem()
		}
		if n, ok := rt.(*types.Named); ok && n.Obj().Pkg() != nil {
			return n.Obj().Pkg().Path(), n.Obj().Name(), f.Name(), se
		}
		return
	}
	if obj, ok := r.info.Uses[se.Sel].(*types.Func); ok && obj.Pkg() != nil {
		if sig, ok := obj.Type().(*types.Signature); ok && sig.Recv() == nil {
			return obj.Pkg().Path(), "", obj.Name(), se
		}
	}
	return
}

// recvExpr returns an expression of pointer type designating the receiver object of a method call x.M(),
// following embedded fields (x.Lock() with an embedded sync.Mutex becomes &x.Mutex).
func (r *rewriter) recvPtr(se *ast.SelectorExpr) ast.Expr {
	s := r.info.Selections[se]
	x := se.X
	t := r.info.TypeOf(x)
	if s != nil && len(s.Index()) > 1 {
		// walk implicit embedded fields
		cur := t
		for _, idx := range s.Index()[:len(s.Index())-1] {
			if p, ok := cur.Underlying().(*types.Pointer); ok {
				cur = p.Elem()
			}
			stt, ok := cur.Underlying().(*types.Struct)
			if !ok {
				fatalf("%s: cannot resolve embedded receiver", r.fname)
			}
			f := stt.Field(idx)
			x = &ast.SelectorExpr{X: x, Sel: ast.NewIdent(f.Name())}
			cur = f.Type()
		}
		t = cur
	}
	if t != nil {
		if _, ok := t.Underlying().(*types.Pointer); ok {
			return x
		}
	}
	return &ast.UnaryExpr{Op: token.AND, X: x}
}

func (r *rewriter) rewriteFile() bool {
	r.skipRecv = map[ast.Expr]bool{}
	r.recv2 = map[ast.Expr]bool{}
	r.keep = map[string]bool{}
	r.labelFix = map[*ast.LabeledStmt][]ast.Stmt{}
	r.voidAtomic = map[*ast.CallExpr]bool{}
	astutil.Apply(r.file, r.pre, r.post)
	if r.fine {
		r.fineFile()
	}
	if !r.changed {
		return false
	}
	// drop comments (inserted nodes have no positions; stray comments could swallow code), keep directives
	var keepC []*ast.CommentGroup
	for _, cg := range r.file.Comments {
		if cg.End() < r.file.Package {
			keepC = append(keepC, cg)
		}
	}
	r.file.Comments = keepC
	ast.Inspect(r.file, func(n ast.Node) bool {
		switch d := n.(type) {
		case *ast.FuncDecl:
			if d.Doc != nil && !hasDirective(d.Doc) {
				d.Doc = nil
			}
		case *ast.GenDecl:
			if d.Doc != nil && !hasDirective(d.Doc) {
				d.Doc = nil
			}
		case *ast.Field:
			d.Doc, d.Comment = nil, nil
		case *ast.ValueSpec:
			d.Doc, d.Comment = nil, nil
		case *ast.TypeSpec:
			d.Doc, d.Comment = nil, nil
		case *ast.ImportSpec:
			d.Doc, d.Comment = nil, nil
		}
		return true
	})
	if r.usedVsched() {
		astutil.AddNamedImport(r.fset, r.file, "vsched", vschedPath)
	}
	if r.usedVfs {
		astutil.AddNamedImport(r.fset, r.file, "vfs", vfsPath)
	}
	// keep possibly orphaned imports referenced
	for path := range r.keep {
		name := ""
		for _, im := range r.file.Imports {
			p, _ := strconv.Unquote(im.Path.Value)
			if p == path {
				if im.Name != nil {
					name = im.Name.Name
				} else {
					name = filepath.Base(path)
				}
			}
		}
		if name == "" || name == "_" || name == "." {
			continue
		}
		var ref string
		switch path {
		case "time":
			ref = "Now"
		case "os/signal":
			ref = "Notify"
		case "reflect":
			ref = "Select"
		case "golang.org/x/sys/unix":
			ref = "Close"
		case "golang.org/x/exp/maps":
			ref = "Clear[map[string]int]"
		case "os":
			ref = "Getpid"
		default:
			continue
		}
		r.file.Decls = append(r.file.Decls, &ast.GenDecl{Tok: token.VAR, Specs: []ast.Spec{&ast.ValueSpec{
			Names:  []*ast.Ident{ast.NewIdent("_")},
			Values: []ast.Expr{&ast.SelectorExpr{X: ast.NewIdent(name), Sel: ast.NewIdent(ref)}},
		}}})
	}
	return true
}

// usedVsched reports whether the rewritten file references the vsched package.
func (r *rewriter) usedVsched() bool {
	used := false
	ast.Inspect(r.file, func(n ast.Node) bool {
		if se, ok := n.(*ast.SelectorExpr); ok {
			if id, ok := se.X.(*ast.Ident); ok && id.Name == "vsched" {
				used = true
			}
		}
		return !used
	})
	return used
}

func hasDirective(cg *ast.CommentGroup) bool {
	for _, c := range cg.List {
		if strings.HasPrefix(c.Text, "//go:") {
			return true
		}
	}
	return false
}

func (r *rewriter) pre(c *astutil.Cursor) bool {
	switch n := c.Node().(type) {
	case *ast.SelectStmt:
		for _, cl := range n.Body.List {
			cc := cl.(*ast.CommClause)
			switch s := cc.Comm.(type) {
			case *ast.ExprStmt:
				r.skipRecv[unparen(s.X)] = true
			case *ast.AssignStmt:
				r.skipRecv[unparen(s.Rhs[0])] = true
			}
		}
	case *ast.AssignStmt:
		if len(n.Lhs) == 2 && len(n.Rhs) == 1 {
			if u, ok := unparen(n.Rhs[0]).(*ast.UnaryExpr); ok && u.Op == token.ARROW {
				r.recv2[u] = true
			}
		}
	case *ast.ValueSpec:
		if len(n.Names) == 2 && len(n.Values) == 1 {
			if u, ok := unparen(n.Values[0]).(*ast.UnaryExpr); ok && u.Op == token.ARROW {
				r.recv2[u] = true
			}
		}
	}
	return true
}

func unparen(e ast.Expr) ast.Expr {
	for {
		p, ok := e.(*ast.ParenExpr)
		if !ok {
			return e
		}
		e = p.X
	}
}

func (r *rewriter) post(c *astutil.Cursor) bool {
	if r.timeOnly {
		if n, ok := c.Node().(*ast.CallExpr); ok {
			if pkg, recv, _, _ := r.callee(n); pkg == "time" && (recv == "" || recv == "Timer" || recv == "Ticker") {
				r.rewriteCall(c, n)
			}
		}
		return true
	}
	switch n := c.Node().(type) {
	case *ast.UnaryExpr:
		if n.Op == token.ARROW && !r.skipRecv[n] {
			fn := "Recv"
			if r.recv2[n] {
				fn = "Recv2"
			}
			c.Replace(call(vs(fn), n.X, r.site(n)))
			r.changed = true
			st.recvs++
		}
	case *ast.SendStmt:
		if _, inSelect := c.Parent().(*ast.CommClause); inSelect && c.Name() == "Comm" {
			return true
		}
		r.rewriteSend(c, n)
	case *ast.RangeStmt:
		r.rewriteRange(c, n)
	case *ast.SelectStmt:
		r.rewriteSelect(c, n)
	case *ast.ExprStmt:
		if ce, ok := n.X.(*ast.CallExpr); ok && r.voidAtomic[ce] {
			c.Replace(&ast.BlockStmt{List: []ast.Stmt{n, &ast.ExprStmt{X: call(vs("Yield"), r.site(n))}}})
		}
	case *ast.LabeledStmt:
		if stmts, ok := r.labelFix[n]; ok {
			c.Replace(&ast.BlockStmt{List: stmts})
		}
	case *ast.GoStmt:
		r.rewriteGo(c, n)
	case *ast.CallExpr:
		r.rewriteCall(c, n)
	}
	return true
}

func (r *rewriter) rewriteSend(c *astutil.Cursor, n *ast.SendStmt) {
	ch := r.tmp("c")
	tk := r.tmp("t")
	stmts := []ast.Stmt{define(ch, n.Chan)}
	val := n.Value
	if !r.simpleValue(val) {
		v := r.tmp("v")
		stmts = append(stmts, define(v, val))
		val = v
	}
	stmts = append(stmts,
		define(tk, call(vs("BeforeSend"), ch, r.site(n))),
		&ast.SendStmt{Chan: ch, Value: val},
		&ast.ExprStmt{X: call(&ast.SelectorExpr{X: tk, Sel: ast.NewIdent("Done")})},
	)
	r.replaceStmt(c, &ast.BlockStmt{List: stmts})
	r.changed = true
	st.sends++
}

// simpleValue reports whether evaluating e late (after the gate) cannot be observed: identifiers, literals,
// constants, selector chains and composite literals of those.
func (r *rewriter) simpleValue(e ast.Expr) bool {
	if r.isConst(e) || isNilIdent(e) {
		return true
	}
	switch x := e.(type) {
	case *ast.Ident, *ast.BasicLit:
		return true
	case *ast.SelectorExpr:
		return r.simpleValue(x.X)
	case *ast.ParenExpr:
		return r.simpleValue(x.X)
	case *ast.StarExpr:
		return r.simpleValue(x.X)
	case *ast.UnaryExpr:
		return x.Op != token.ARROW && r.simpleValue(x.X)
	case *ast.CompositeLit:
		for _, el := range x.Elts {
			if kv, ok := el.(*ast.KeyValueExpr); ok {
				el = kv.Value
			}
			if !r.simpleValue(el) {
				return false
			}
		}
		return true
	}
	return false
}

func (r *rewriter) replaceStmt(c *astutil.Cursor, s ast.Stmt) {
	c.Replace(s)
}

func (r *rewriter) rewriteRange(c *astutil.Cursor, n *ast.RangeStmt) {
	t := r.info.TypeOf(n.X)
	if t == nil {
		return
	}
	switch u := t.Underlying().(type) {
	case *types.Chan:
		ch := r.tmp("c")
		ok := r.tmp("ok")
		var recvStmt ast.Stmt
		rcall := call(vs("Recv2"), ch, r.site(n))
		var key ast.Expr = ast.NewIdent("_")
		if n.Key != nil {
			key = n.Key
		}
		if n.Tok == token.ASSIGN {
			recvStmt = &ast.BlockStmt{List: []ast.Stmt{}}
			// var ok bool; key, ok = Recv2(c)
			decl := &ast.DeclStmt{Decl: &ast.GenDecl{Tok: token.VAR, Specs: []ast.Spec{&ast.ValueSpec{Names: []*ast.Ident{ok}, Type: ast.NewIdent("bool")}}}}
			asg := &ast.AssignStmt{Lhs: []ast.Expr{key, ok}, Tok: token.ASSIGN, Rhs: []ast.Expr{rcall}}
			body := append([]ast.Stmt{decl, asg, breakIfNot(ok)}, n.Body.List...)
			c.Replace(&ast.ForStmt{Init: define(ch, n.X), Body: &ast.BlockStmt{List: body}})
		} else {
			recvStmt = &ast.AssignStmt{Lhs: []ast.Expr{key, ok}, Tok: token.DEFINE, Rhs: []ast.Expr{rcall}}
			body := append([]ast.Stmt{recvStmt, breakIfNot(ok)}, n.Body.List...)
			c.Replace(&ast.ForStmt{Init: define(ch, n.X), Body: &ast.BlockStmt{List: body}})
		}
		r.changed = true
		st.ranges++
	case *types.Map:
		if n.Tok != token.DEFINE {
			return
		}
		b, ok := u.Key().Underlying().(*types.Basic)
		if !ok || b.Kind() != types.String {
			return
		}
		if r.simpleValue(n.X) == false {
			return
		}
		var key *ast.Ident
		if id, ok := n.Key.(*ast.Ident); ok && id.Name != "_" {
			key = id
		} else {
			key = r.tmp("k")
		}
		var pre []ast.Stmt
		if n.Value != nil {
			if id, ok := n.Value.(*ast.Ident); !ok || id.Name != "_" {
				okv := r.tmp("ok")
				pre = append(pre,
					&ast.AssignStmt{Lhs: []ast.Expr{n.Value, okv}, Tok: token.DEFINE, Rhs: []ast.Expr{&ast.IndexExpr{X: n.X, Index: key}}},
					&ast.IfStmt{Cond: &ast.UnaryExpr{Op: token.NOT, X: okv}, Body: &ast.BlockStmt{List: []ast.Stmt{&ast.BranchStmt{Tok: token.CONTINUE}}}},
				)
			}
		}
		n.Key = ast.NewIdent("_")
		n.Value = key
		n.X = call(vs("SortedKeys"), n.X)
		n.Body.List = append(pre, n.Body.List...)
		r.changed = true
		st.maps++
	}
}

func breakIfNot(ok *ast.Ident) ast.Stmt {
	return &ast.IfStmt{Cond: &ast.UnaryExpr{Op: token.NOT, X: ok}, Body: &ast.BlockStmt{List: []ast.Stmt{&ast.BranchStmt{Tok: token.BREAK}}}}
}

func (r *rewriter) rewriteSelect(c *astutil.Cursor, n *ast.SelectStmt) {
	var pre []ast.Stmt
	var cases []ast.Expr
	hasDefault := false
	sel := r.tmp("sel")
	sw := &ast.SwitchStmt{Tag: &ast.SelectorExpr{X: sel, Sel: ast.NewIdent("Index")}, Body: &ast.BlockStmt{}}
	idx := 0
	for _, cl := range n.Body.List {
		cc := cl.(*ast.CommClause)
		if cc.Comm == nil {
			hasDefault = true
			sw.Body.List = append(sw.Body.List, &ast.CaseClause{List: nil, Body: cc.Body})
			continue
		}
		var body []ast.Stmt
		switch s := cc.Comm.(type) {
		case *ast.SendStmt:
			ch := r.tmp("c")
			pre = append(pre, define(ch, s.Chan))
			val := s.Value
			if !r.isConst(val) && !isNilIdent(val) {
				v := r.tmp("v")
				pre = append(pre, define(v, val))
				val = v
			}
			cases = append(cases, call(vs("SendCase"), ch, val))
		case *ast.ExprStmt:
			u := unparen(s.X).(*ast.UnaryExpr)
			ch := r.tmp("c")
			pre = append(pre, define(ch, u.X))
			cases = append(cases, call(vs("RecvCase"), ch))
		case *ast.AssignStmt:
			u := unparen(s.Rhs[0]).(*ast.UnaryExpr)
			ch := r.tmp("c")
			pre = append(pre, define(ch, u.X))
			cases = append(cases, call(vs("RecvCase"), ch))
			fn := "SelRecv"
			if len(s.Lhs) == 2 {
				fn = "SelRecv2"
			}
			body = append(body, &ast.AssignStmt{Lhs: s.Lhs, Tok: s.Tok, Rhs: []ast.Expr{
				call(vs(fn), &ast.UnaryExpr{Op: token.AND, X: sel}, ch),
			}})
		default:
			fatalf("%s: unsupported select comm clause %T", r.fname, cc.Comm)
		}
		body = append(body, cc.Body...)
		sw.Body.List = append(sw.Body.List, &ast.CaseClause{
			List: []ast.Expr{&ast.BasicLit{Kind: token.INT, Value: strconv.Itoa(idx)}},
			Body: body,
		})
		idx++
	}
	hd := "false"
	if hasDefault {
		hd = "true"
	} else {
		sw.Body.List = append(sw.Body.List, &ast.CaseClause{List: nil, Body: []ast.Stmt{
			&ast.ExprStmt{X: call(ast.NewIdent("panic"), &ast.BasicLit{Kind: token.STRING, Value: `"vsched: bad select index"`})},
		}})
	}
	args := append([]ast.Expr{r.site(n), ast.NewIdent(hd)}, cases...)
	pre = append(pre, define(sel, call(vs("Select"), args...)))
	// `_ = sel` in case no clause uses it by address (keeps the compiler quiet is unnecessary: Index is used)
	var swStmt ast.Stmt = sw
	if ls, ok := c.Parent().(*ast.LabeledStmt); ok {
		// keep the label on the switch so that `break L` still leaves it; the preamble goes in front of the label
		lbl := &ast.LabeledStmt{Label: ls.Label, Stmt: sw}
		r.labelFix[ls] = append(pre, lbl)
		r.changed = true
		st.selects++
		return
	}
	c.Replace(&ast.BlockStmt{List: append(pre, swStmt)})
	r.changed = true
	st.selects++
}

func (r *rewriter) rewriteGo(c *astutil.Cursor, n *ast.GoStmt) {
	var pre []ast.Stmt
	callx := n.Call
	fun := callx.Fun
	if fl, ok := fun.(*ast.FuncLit); ok && len(callx.Args) == 0 {
		r.replaceStmt(c, &ast.ExprStmt{X: call(vs("Go"), r.site(n), fl)})
		r.changed = true
		st.gos++
		return
	}
	if _, ok := fun.(*ast.FuncLit); !ok {
		f := r.tmp("f")
		pre = append(pre, define(f, fun))
		fun = f
	}
	args := make([]ast.Expr, len(callx.Args))
	for i, a := range callx.Args {
		if r.isConst(a) || isNilIdent(a) {
			args[i] = a
			continue
		}
		v := r.tmp("a")
		pre = append(pre, define(v, a))
		args[i] = v
	}
	inner := &ast.CallExpr{Fun: fun, Args: args, Ellipsis: callx.Ellipsis}
	if callx.Ellipsis != token.NoPos {
		inner.Ellipsis = 1
	}
	lit := &ast.FuncLit{Type: &ast.FuncType{Params: &ast.FieldList{}}, Body: &ast.BlockStmt{List: []ast.Stmt{&ast.ExprStmt{X: inner}}}}
	pre = append(pre, &ast.ExprStmt{X: call(vs("Go"), r.site(n), lit)})
	r.replaceStmt(c, &ast.BlockStmt{List: pre})
	r.changed = true
	st.gos++
}

func (r *rewriter) rewriteCall(c *astutil.Cursor, n *ast.CallExpr) {
	// builtins on channels
	if id, ok := n.Fun.(*ast.Ident); ok && len(n.Args) == 1 {
		if _, isBuiltin := r.info.Uses[id].(*types.Builtin); isBuiltin {
			switch id.Name {
			case "close":
				c.Replace(call(vs("Close"), n.Args[0], r.site(n)))
				r.changed = true
				st.closes++
				return
			case "len":
				if r.isChan(n.Args[0]) {
					c.Replace(call(vs("Len"), n.Args[0], r.site(n)))
					r.changed = true
					st.lens++
				}
				return
			}
		}
		return
	}
	pkg, recv, name, se := r.callee(n)
	if se == nil {
		return
	}
	siteLit := r.site(n)
	if r.vfs {
		vfsNames := map[string]bool{"Openat": true, "Write": true, "Close": true, "Read": true, "Fstat": true, "Fstatat": true,
			"Unlinkat": true, "Renameat": true, "Renameat2": true, "Fsync": true, "Fdatasync": true}
		if pkg == "golang.org/x/sys/unix" && recv == "" && vfsNames[name] {
			n.Fun = &ast.SelectorExpr{X: ast.NewIdent("vfs"), Sel: ast.NewIdent(name)}
			r.keep["golang.org/x/sys/unix"] = true
			r.changed, r.usedVfs = true, true
			st.vfs++
			return
		}
		if pkg == "os" && recv == "" && (name == "Rename" || name == "Remove" || name == "WriteFile") {
			n.Fun = &ast.SelectorExpr{X: ast.NewIdent("vfs"), Sel: ast.NewIdent(name)}
			r.keep["os"] = true
			r.changed, r.usedVfs = true, true
			st.vfs++
			return
		}
	}
	switch {
	case pkg == "golang.org/x/exp/maps" && recv == "" && name == "Keys" && len(n.Args) == 1:
		// deterministic order instead of Go's randomised map order
		if mt, ok := r.info.TypeOf(n.Args[0]).Underlying().(*types.Map); ok {
			if b, ok := mt.Key().Underlying().(*types.Basic); ok && b.Kind() == types.String {
				n.Fun = vs("SortedKeys")
				r.keep["golang.org/x/exp/maps"] = true
				r.changed = true
				st.maps++
			}
		}
	case pkg == "time" && recv == "":
		repl := map[string]string{"Now": "Now", "After": "TimeAfter", "NewTimer": "NewTimer", "NewTicker": "NewTicker",
			"Since": "Since", "Until": "Until", "AfterFunc": "AfterFunc"}
		if to, ok := repl[name]; ok {
			n.Fun = vs(to)
			r.keep["time"] = true
			r.changed = true
			st.times++
		} else if name == "Sleep" {
			n.Fun = vs("Sleep")
			n.Args = append(n.Args, siteLit)
			r.keep["time"] = true
			r.changed = true
			st.times++
		}
	case pkg == "time" && (recv == "Timer" || recv == "Ticker") && (name == "Stop" || name == "Reset"):
		n.Args = append([]ast.Expr{r.recvPtr(se)}, n.Args...)
		n.Fun = vs(recv + name)
		r.changed = true
		st.times++
	case pkg == "os/signal" && recv == "" && name == "Notify":
		n.Fun = vs("SignalNotify")
		r.keep["os/signal"] = true
		r.changed = true
		st.signals++
	case pkg == "reflect" && recv == "" && name == "Select":
		n.Fun = vs("ReflectSelect")
		n.Args = append(n.Args, siteLit)
		r.keep["reflect"] = true
		r.changed = true
		st.rsel++
	case pkg == "sync" && (recv == "Mutex" || recv == "RWMutex"):
		fn := map[string]string{"Lock": "Lock", "Unlock": "Unlock", "RLock": "RLock", "RUnlock": "RUnlock"}[name]
		if fn == "" {
			return
		}
		n.Args = []ast.Expr{r.recvPtr(se), siteLit}
		n.Fun = vs(fn)
		r.changed = true
		st.locks++
	case pkg == "sync" && recv == "WaitGroup":
		switch name {
		case "Add":
			n.Args = []ast.Expr{r.recvPtr(se), n.Args[0], siteLit}
			n.Fun = vs("WGAdd")
		case "Done":
			n.Args = []ast.Expr{r.recvPtr(se), siteLit}
			n.Fun = vs("WGDone")
		case "Wait":
			n.Args = []ast.Expr{r.recvPtr(se), siteLit}
			n.Fun = vs("WGWait")
		default:
			return
		}
		r.changed = true
		st.wgs++
	case pkg == "sync" && recv == "Pool" && (name == "Get" || name == "Put"):
		n.Args = append([]ast.Expr{r.recvPtr(se)}, n.Args...)
		n.Fun = vs("Pool" + name)
		r.changed = true
		st.pools++
	case pkg == "github.com/puzpuzpuz/xsync" && recv == "RBMutex":
		fn := map[string]string{"Lock": "RBLock", "Unlock": "RBUnlock", "RLock": "RBRLock", "RUnlock": "RBRUnlock"}[name]
		if fn == "" {
			return
		}
		n.Args = append(append([]ast.Expr{r.recvPtr(se)}, n.Args...), siteLit)
		n.Fun = vs(fn)
		r.changed = true
		st.locks++
	case pkg == "sync/atomic" && !r.noAtomic:
		// scheduling point before the atomic operation: vsched.Atomic(site, func() T { return call }) / AtomicV
		switch c.Parent().(type) {
		case *ast.DeferStmt, *ast.GoStmt:
			return
		}
		tv := r.info.Types[n]
		if tv.IsVoid() {
			lit := &ast.FuncLit{Type: &ast.FuncType{Params: &ast.FieldList{}}, Body: &ast.BlockStmt{List: []ast.Stmt{&ast.ExprStmt{X: n}}}}
			c.Replace(call(vs("AtomicV"), siteLit, lit))
			r.changed = true
			st.atomics++
			return
		}
		rt := r.typeExpr(tv.Type)
		if rt == nil {
			return
		}
		lit := &ast.FuncLit{
			Type: &ast.FuncType{Params: &ast.FieldList{}, Results: &ast.FieldList{List: []*ast.Field{{Type: rt}}}},
			Body: &ast.BlockStmt{List: []ast.Stmt{&ast.ReturnStmt{Results: []ast.Expr{n}}}},
		}
		c.Replace(call(vs("Atomic"), siteLit, lit))
		r.changed = true
		st.atomics++
	}
}

// typeExpr renders a result type of an atomic operation as an expression valid in the current file: basic types, and
// pointers to named/unnamed types via the qualifier of the file's imports. Returns nil if it cannot be expressed.
func (r *rewriter) typeExpr(t types.Type) ast.Expr {
	ok := true
	str := types.TypeString(t, func(p *types.Package) string {
		if p == r.pkg.Types {
			return ""
		}
		for _, im := range r.file.Imports {
			path, _ := strconv.Unquote(im.Path.Value)
			if path == p.Path() {
				if im.Name != nil {
					return im.Name.Name
				}
				return p.Name()
			}
		}
		ok = false
		return p.Name()
	})
	if !ok {
		return nil
	}
	e, err := parser.ParseExpr(str)
	if err != nil {
		return nil
	}
	return e
}

// ---- statement-granularity mode (-fine) ------------------------------------------------------------------------------
//
// Between two synchronisation operations code is atomic under the cooperative scheduler, so state that is shared WITHOUT a
// synchronisation operation in the exposed window (a scratch buffer hoisted to package level, an extractor shared by two
// connections, a counter updated with load-add-store) is invisible to the explorer. For the packages named by -fine every
// statement becomes a scheduling point, and a store to a location that can be shared (field, element, dereference,
// package-level variable) is split into  tmp := value ; scheduling point ; location = tmp  — exactly the decomposition the
// compiler makes, with the window made visible. Single-threaded meaning is unchanged (a Yield outside a session returns at once).

func (r *rewriter) fineYield(n ast.Node) ast.Stmt {
	pos := r.fset.Position(n.Pos())
	st.fineYields++
	r.changed = true
	return &ast.ExprStmt{X: call(vs("Yield"), &ast.BasicLit{Kind: token.STRING, Value: strconv.Quote(fmt.Sprintf("fine:%s:%d", r.fname, pos.Line))})}
}

func (r *rewriter) fineFile() {
	ast.Inspect(r.file, func(n ast.Node) bool {
		switch b := n.(type) {
		case *ast.FuncDecl:
			if b.Doc != nil && hasDirective(b.Doc) {
				return false // //go:nosplit and friends: leave alone
			}
			if only := fineFuncs[r.pkg.PkgPath]; only != nil && !only[b.Name.Name] {
				return false
			}
		case *ast.BlockStmt:
			b.List = r.fineList(b.List)
		case *ast.CaseClause:
			b.Body = r.fineList(b.Body)
		case *ast.CommClause:
			b.Body = r.fineList(b.Body)
		}
		return true
	})
}

func isVschedCall(s ast.Stmt) bool {
	es, ok := s.(*ast.ExprStmt)
	if !ok {
		return false
	}
	c, ok := es.X.(*ast.CallExpr)
	if !ok {
		return false
	}
	se, ok := c.Fun.(*ast.SelectorExpr)
	if !ok {
		return false
	}
	id, ok := se.X.(*ast.Ident)
	return ok && id.Name == "vsched" && se.Sel.Name == "Yield"
}

func (r *rewriter) fineList(list []ast.Stmt) []ast.Stmt {
	if len(list) == 0 {
		return list
	}
	for _, s := range list {
		if isVschedCall(s) {
			return list // already processed (a list can be reached twice through rewritten nodes)
		}
		switch s.(type) {
		case *ast.CaseClause, *ast.CommClause:
			return list // the body of a switch / select: its clauses are handled one by one
		}
	}
	out := make([]ast.Stmt, 0, 2*len(list))
	for _, s := range list {
		if _, ok := s.(*ast.EmptyStmt); ok {
			out = append(out, s)
			continue
		}
		out = append(out, r.fineYield(s))
		if sp := r.fineSplit(s); sp != nil {
			out = append(out, sp)
		} else {
			out = append(out, s)
		}
	}
	return out
}

// sharedLoc reports whether e designates a location other goroutines may reach (not a plain local variable) and is free of
// calls, receives and function literals, so that evaluating it twice is harmless.
func (r *rewriter) sharedLoc(e ast.Expr) bool {
	pure := true
	ast.Inspect(e, func(n ast.Node) bool {
		switch x := n.(type) {
		case *ast.CallExpr, *ast.FuncLit:
			pure = false
		case *ast.UnaryExpr:
			if x.Op == token.ARROW {
				pure = false
			}
		}
		return pure
	})
	if !pure {
		return false
	}
	switch x := unparen(e).(type) {
	case *ast.SelectorExpr, *ast.StarExpr:
		return true
	case *ast.IndexExpr:
		// an element of a map is not addressable but assignable; fine either way
		return true
	case *ast.Ident:
		if obj, ok := r.info.Uses[x].(*types.Var); ok && obj.Pkg() != nil && obj.Parent() == obj.Pkg().Scope() {
			return true
		}
	}
	return false
}

func (r *rewriter) fineSplit(s ast.Stmt) ast.Stmt {
	switch x := s.(type) {
	case *ast.IncDecStmt:
		if !r.sharedLoc(x.X) || r.info.TypeOf(x.X) == nil {
			return nil
		}
		op := token.ADD
		if x.Tok == token.DEC {
			op = token.SUB
		}
		t := r.tmp("f")
		st.fineSplits++
		return &ast.BlockStmt{List: []ast.Stmt{
			define(t, x.X),
			r.fineYield(s),
			&ast.AssignStmt{Lhs: []ast.Expr{x.X}, Tok: token.ASSIGN, Rhs: []ast.Expr{&ast.BinaryExpr{X: t, Op: op, Y: &ast.BasicLit{Kind: token.INT, Value: "1"}}}},
		}}
	case *ast.AssignStmt:
		if len(x.Lhs) != 1 || len(x.Rhs) != 1 || !r.sharedLoc(x.Lhs[0]) {
			return nil
		}
		lt := r.info.TypeOf(x.Lhs[0])
		if lt == nil {
			return nil
		}
		if x.Tok == token.ASSIGN {
			// plain store: only when the value is computed from memory or by a call and has exactly the type of the location
			switch unparen(x.Rhs[0]).(type) {
			case *ast.BasicLit, *ast.Ident, *ast.FuncLit, *ast.CompositeLit:
				return nil
			}
			rt := r.info.TypeOf(x.Rhs[0])
			if rt == nil || !types.Identical(lt, rt) {
				return nil
			}
			if tv, ok := r.info.Types[x.Rhs[0]]; ok && tv.Value != nil {
				return nil
			}
			if _, ok := rt.(*types.Tuple); ok {
				return nil
			}
			t := r.tmp("f")
			st.fineSplits++
			return &ast.BlockStmt{List: []ast.Stmt{
				define(t, x.Rhs[0]),
				r.fineYield(s),
				&ast.AssignStmt{Lhs: []ast.Expr{x.Lhs[0]}, Tok: token.ASSIGN, Rhs: []ast.Expr{t}},
			}}
		}
		var op token.Token
		switch x.Tok {
		case token.ADD_ASSIGN:
			op = token.ADD
		case token.SUB_ASSIGN:
			op = token.SUB
		case token.MUL_ASSIGN:
			op = token.MUL
		case token.QUO_ASSIGN:
			op = token.QUO
		case token.REM_ASSIGN:
			op = token.REM
		case token.AND_ASSIGN:
			op = token.AND
		case token.OR_ASSIGN:
			op = token.OR
		case token.XOR_ASSIGN:
			op = token.XOR
		case token.SHL_ASSIGN:
			op = token.SHL
		case token.SHR_ASSIGN:
			op = token.SHR
		case token.AND_NOT_ASSIGN:
			op = token.AND_NOT
		default:
			return nil
		}
		t := r.tmp("f")
		st.fineSplits++
		return &ast.BlockStmt{List: []ast.Stmt{
			define(t, x.Lhs[0]),
			r.fineYield(s),
			&ast.AssignStmt{Lhs: []ast.Expr{x.Lhs[0]}, Tok: token.ASSIGN, Rhs: []ast.Expr{&ast.BinaryExpr{X: t, Op: op, Y: &ast.ParenExpr{X: x.Rhs[0]}}}},
		}}
	}
	return nil
}
