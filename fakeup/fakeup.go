// Package fakeup is the scripted upstream shared by the composed model-checking harnesses: a
// baseoutput.ClosableClientConnection whose every answer (connect, send, ping, ACK read) is an explorer choice with a
// healthy default, plus the ledger the oracles read (what was completely transmitted and acknowledged on which
// connection). It reproduces the error values util.IsNetworkError distinguishes (closed, timeout, reset, refused).
package fakeup

import (
	"errors"
	"fmt"
	"net"
	"os"
	"syscall"
	"time"

	"github.com/relex/gotils/logger"
	"github.com/relex/slog-agent/base"
	"github.com/relex/slog-agent/defs"
	"github.com/relex/slog-agent/output/baseoutput"

	"slogverif/rt/vsched"
)

// Options selects the answer menus (1 = only the healthy default).
type Options struct {
	InOrder    bool
	ConnectAlt int // 1 ok, 2 +refused, 3 +hang until timeout
	SendAlt    int // 1 ok, 2 +reset, 3 +block until Close/deadline
	PingAlt    int // 1 ok, 2 +reset
	AckAlt     int // 1 own ID, 2 +reset, 3 +silent, 4 +late, 5 +unknown ID, 6 +out of order
	LateDelay  time.Duration
	Name       string
	// FirstAckReset scripts the first ACK read of the first connection to fail with a reset (not a choice, no cost):
	// scenarios that start from "one session already failed, leftovers are being resent".
	FirstAckReset bool
	// AlwaysRefuse scripts every connection attempt to be refused (an upstream that is down for the whole generation).
	AlwaysRefuse bool
}

// Env is one scripted upstream endpoint (all connection attempts of one client).
type Env struct {
	Opt   Options
	Conns []*Conn
	Note  func(format string, args ...any)
	// OnTransmit is called for every chunk completely transmitted (harness-side decoding / ledger).
	OnTransmit func(c *Conn, chunk base.LogChunk)
	// BeforeSend is called at every SendChunk call (before the answer is chosen).
	BeforeSend func(c *Conn, chunk base.LogChunk)
	Faults     int // non-default answers given so far

	scriptedDone bool
}

// Conn is one established connection.
type Conn struct {
	env     *Env
	K       int
	Closed  bool
	SentOK  []string
	Pending []string
	Acked   []string
	Tried   []string
	log     logger.Logger
}

type netErr struct {
	msg     string
	timeout bool
}

func (n netErr) Error() string   { return n.msg }
func (n netErr) Timeout() bool   { return n.timeout }
func (n netErr) Temporary() bool { return n.timeout }

func closedErr(op string) error {
	return &net.OpError{Op: op, Net: "tcp", Err: errors.New("use of closed network connection")}
}

func timeoutErr(op string) error {
	return &net.OpError{Op: op, Net: "tcp", Err: netErr{"i/o timeout", true}}
}

func resetErr(op string) error {
	return &net.OpError{Op: op, Net: "tcp", Err: os.NewSyscallError(op, syscall.ECONNRESET)}
}

func (e *Env) note(format string, args ...any) {
	if e.Note != nil {
		e.Note(e.Opt.Name+format, args...)
	} else {
		vsched.Note(e.Opt.Name+format, args...)
	}
}

func (e *Env) choose(n int, label string) int {
	if n <= 1 {
		return 0
	}
	a := vsched.Choose(n, e.Opt.Name+label)
	if a != 0 {
		e.Faults++
	}
	return a
}

// Open is the EstablishConnectionFunc.
func (e *Env) Open() (baseoutput.ClosableClientConnection, error) {
	k := len(e.Conns)
	if e.Opt.AlwaysRefuse {
		e.note("connect attempt: refused (scripted, upstream down)")
		return nil, &net.OpError{Op: "dial", Net: "tcp", Err: os.NewSyscallError("connect", syscall.ECONNREFUSED)}
	}
	switch e.choose(e.Opt.ConnectAlt, "connect") {
	case 1:
		e.note("connect attempt: refused")
		return nil, &net.OpError{Op: "dial", Net: "tcp", Err: os.NewSyscallError("connect", syscall.ECONNREFUSED)}
	case 2:
		dl := vsched.VNow().Add(defs.ForwarderConnectionTimeout)
		e.note("connect attempt: hangs until timeout")
		vsched.WaitUntil("fake.connect-hang", dl, func() bool { return !vsched.VNow().Before(dl) })
		return nil, timeoutErr("dial")
	}
	c := &Conn{env: e, K: k, log: logger.WithField("conn", k)}
	e.Conns = append(e.Conns, c)
	e.note("connect attempt: conn%d established", k)
	return c, nil
}

func (c *Conn) Logger() logger.Logger { return c.log }

func (c *Conn) Close() {
	if !c.Closed {
		c.env.note("conn%d closed", c.K)
	}
	c.Closed = true
}

func (c *Conn) SendChunk(chunk base.LogChunk, deadline time.Time) error {
	e := c.env
	c.Tried = append(c.Tried, chunk.ID)
	if e.BeforeSend != nil {
		e.BeforeSend(c, chunk)
	}
	if c.Closed {
		return closedErr("write")
	}
	switch e.choose(e.Opt.SendAlt, "send") {
	case 1:
		e.note("conn%d send %s: reset", c.K, chunk.ID)
		return resetErr("write")
	case 2:
		e.note("conn%d send %s: blocks (deadline in %v)", c.K, chunk.ID, deadline.Sub(vsched.VNow()).Round(time.Second))
		vsched.WaitUntil("fake.send-block", deadline, func() bool { return c.Closed || !vsched.VNow().Before(deadline) })
		if c.Closed {
			return closedErr("write")
		}
		return timeoutErr("write")
	}
	c.SentOK = append(c.SentOK, chunk.ID)
	c.Pending = append(c.Pending, chunk.ID)
	e.note("conn%d send %s: ok", c.K, chunk.ID)
	if e.OnTransmit != nil {
		e.OnTransmit(c, chunk)
	}
	return nil
}

func (c *Conn) SendPing(deadline time.Time) error {
	e := c.env
	if c.Closed {
		return closedErr("write")
	}
	if e.choose(e.Opt.PingAlt, "ping") == 1 {
		e.note("conn%d ping: reset", c.K)
		return resetErr("write")
	}
	e.note("conn%d ping: ok", c.K)
	return nil
}

func (c *Conn) ReadChunkAck(deadline time.Time) (string, error) {
	e := c.env
	expired := func() bool { return !vsched.VNow().Before(deadline) }
	if !c.Closed && len(c.Pending) == 0 {
		vsched.WaitUntil("fake.ack-idle", deadline, func() bool { return c.Closed || len(c.Pending) > 0 || expired() })
	}
	if c.Closed {
		return "", closedErr("read")
	}
	if len(c.Pending) == 0 {
		return "", timeoutErr("read")
	}
	ackOldest := func() (string, error) {
		id := c.Pending[0]
		c.Pending = c.Pending[1:]
		c.Acked = append(c.Acked, id)
		e.note("conn%d ack %s", c.K, id)
		if e.Opt.InOrder {
			return "", nil
		}
		return id, nil
	}
	if e.Opt.FirstAckReset && c.K == 0 && !e.scriptedDone {
		e.scriptedDone = true
		e.note("conn%d ack-read: reset (scripted)", c.K)
		return "", resetErr("read")
	}
	switch e.choose(e.Opt.AckAlt, "ack") {
	case 1:
		e.note("conn%d ack-read: reset", c.K)
		return "", resetErr("read")
	case 2:
		e.note("conn%d ack-read: silent", c.K)
		vsched.WaitUntil("fake.ack-silent", deadline, func() bool { return c.Closed || expired() })
		if c.Closed {
			return "", closedErr("read")
		}
		return "", timeoutErr("read")
	case 3:
		at := vsched.VNow().Add(e.Opt.LateDelay)
		e.note("conn%d ack-read: late by %v", c.K, e.Opt.LateDelay)
		vsched.WaitUntil("fake.ack-late", at, func() bool { return c.Closed || !vsched.VNow().Before(at) || expired() })
		if c.Closed {
			return "", closedErr("read")
		}
		if expired() && vsched.VNow().Before(at) {
			return "", timeoutErr("read")
		}
		return ackOldest()
	case 4:
		if e.Opt.InOrder {
			return "", resetErr("read")
		}
		e.note("conn%d ack unknown id", c.K)
		return "bogus-id", nil
	case 5:
		if e.Opt.InOrder || len(c.Pending) < 2 {
			return ackOldest()
		}
		id := c.Pending[1]
		c.Pending = append(c.Pending[:1:1], c.Pending[2:]...)
		c.Acked = append(c.Acked, id)
		e.note("conn%d ack %s (out of order)", c.K, id)
		return id, nil
	}
	return ackOldest()
}

// AckedAndSent reports whether some connection both transmitted id completely and acknowledged it.
func (e *Env) AckedAndSent(id string) bool {
	for _, c := range e.Conns {
		sent, acked := false, false
		for _, s := range c.SentOK {
			if s == id {
				sent = true
			}
		}
		for _, a := range c.Acked {
			if a == id {
				acked = true
			}
		}
		if sent && acked {
			return true
		}
	}
	return false
}

// Hash summarises the upstream state for state keys.
func (e *Env) Hash() uint64 {
	h := uint64(1469598103934665603)
	mix := func(s string) {
		for i := 0; i < len(s); i++ {
			h ^= uint64(s[i])
			h *= 1099511628211
		}
		h ^= 0xff
		h *= 1099511628211
	}
	for _, c := range e.Conns {
		mix(fmt.Sprint(c.Closed, c.SentOK, c.Pending, c.Acked, c.Tried))
	}
	return h
}
