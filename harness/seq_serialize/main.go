// Command seq_serialize decides C10: serialized Fluentd events decode to exactly the record's visible fields.
//
// The real event serializer (output/fluentdforward, built through Config.VerifyConfig + Config.NewSerializer with the real
// copy / unescape / inline rewriters) is run on a bounded-exhaustive product of schemas, role assignments, rewriter
// chains, field values, the Unescaped flag and timestamps. The produced bytes are decoded with vmihailenco/msgpack
// (independent of output/fastmsgpack), once by hand (token by token, so duplicated keys, trailing bytes and wrong
// counts are visible) and once through fluentlib's reference EventEntry, and compared with a reference model of the
// record's visible fields written from the documentation.
package main

import (
	"bytes"
	"fmt"
	"io"
	"runtime/debug"
	"strings"
	"time"

	"github.com/relex/fluentlib/protocol/forwardprotocol"
	"github.com/relex/gotils/logger"
	"github.com/relex/slog-agent/base"
	"github.com/relex/slog-agent/base/bconfig"
	"github.com/relex/slog-agent/defs"
	"github.com/relex/slog-agent/output/fluentdforward"
	"github.com/relex/slog-agent/rewrite/rcopy"
	"github.com/relex/slog-agent/rewrite/rinline"
	"github.com/relex/slog-agent/rewrite/runescape"
	"github.com/vmihailenco/msgpack/v4"
	"github.com/vmihailenco/msgpack/v4/codes"

	"slogverif/seq"
)

// ---------------------------------------------------------------------------------------------------------------
// value domain

var lengthClasses = []int{0, 1, 15, 16, 31, 32, 255, 256, 65535, 65536, 65537}

type contentClass struct {
	name string
	gen  func(n int) string
}

const asciiAlphabet = "abcdefghijklmnopqrstuvwxyz0123456789 ABCDEFGHIJKLMNOPQRSTUVWXYZ"

func repeatTo(pattern string, n int) string {
	if n == 0 {
		return ""
	}
	return strings.Repeat(pattern, n/len(pattern)+1)[:n]
}

func ascii(n int) string { return repeatTo(asciiAlphabet, n) }

// escape second bytes: the five documented ones, the escape char itself, and characters that are NOT escapes
var quickEscapes = []byte{'b', 'f', 'n', 'r', 't', '\\', 'x'}
var moreUnknownEscapes = []byte{'0', '"', 'u', '/', ' ', 0x00, 0xFF, 'N'}

func contentClasses(thorough bool) []contentClass {
	cs := []contentClass{
		{"ascii", ascii},
		{"nul", func(n int) string { return repeatTo("\x00", n) }},
		{"ff", func(n int) string { return repeatTo("\xff", n) }},
		{"multibyte", func(n int) string { return repeatTo("é漢\U0001F600", n) }}, // may end mid-rune: bytes are bytes
	}
	escs := append([]byte{}, quickEscapes...)
	if thorough {
		escs = append(escs, moreUnknownEscapes...)
	}
	for _, e := range escs {
		e := e
		pat := string([]byte{'\\', e, 'z'})
		cs = append(cs, contentClass{fmt.Sprintf("dense-esc-%02x", e), func(n int) string { return repeatTo(pat, n) }})
	}
	cs = append(cs,
		contentClass{"trailing-backslash", func(n int) string {
			if n == 0 {
				return ""
			}
			return ascii(n-1) + `\`
		}},
		contentClass{"only-backslashes", func(n int) string { return repeatTo(`\`, n) }},
		contentClass{"mixed", func(n int) string { return repeatTo(`a\\nb\\\tc\x\\`, n) }},
	)
	if thorough {
		// a single escape at the start / in the middle / at the very end: the rewritten length differs from the reserved
		// length by exactly one (65536 -> 65535 crosses the str16/str32 boundary after the header was reserved)
		for _, e := range quickEscapes {
			e := e
			esc := string([]byte{'\\', e})
			cs = append(cs,
				contentClass{fmt.Sprintf("one-esc-%02x-start", e), func(n int) string {
					if n < 2 {
						return repeatTo(`\`, n)
					}
					return esc + ascii(n-2)
				}},
				contentClass{fmt.Sprintf("one-esc-%02x-mid", e), func(n int) string {
					if n < 2 {
						return repeatTo(`\`, n)
					}
					h := (n - 2) / 2
					return ascii(h) + esc + ascii(n-2-h)
				}},
				contentClass{fmt.Sprintf("one-esc-%02x-end", e), func(n int) string {
					if n < 2 {
						return repeatTo(`\`, n)
					}
					return ascii(n-2) + esc
				}},
			)
		}
	}
	return cs
}

type value struct {
	li, ci int
	s      string
	un     string // reference unescaping of s
}

func buildValues(classes []contentClass) []value {
	vs := make([]value, 0, len(lengthClasses)*len(classes))
	for li, n := range lengthClasses {
		for ci, c := range classes {
			s := c.gen(n)
			if len(s) != n {
				panic(fmt.Sprintf("harness bug: content class %s produced %d bytes for length %d", c.name, len(s), n))
			}
			vs = append(vs, value{li, ci, s, refUnescape(s)})
		}
	}
	return vs
}

// ---------------------------------------------------------------------------------------------------------------
// configuration domain

type role int

const (
	rPlain role = iota
	rEnv
	rHidden
	rCopy           // rewritten: [copy]
	rUnescape       // rewritten: [unescape]
	rInlineCopy     // rewritten: [inline other, copy]
	rInlineUnescape // rewritten: [inline other, unescape]
	numRoles
	// overlapping roles: the field is listed as environment / hidden field AND has a rewriter chain. The documentation gives
	// masking the say: a hidden field is not output, an environment field is nested with its raw value; the chain is unused.
	rEnvCopy
	rEnvUnescape
	rEnvInlineCopy
	rHiddenCopy
	rHiddenUnescape
	rHiddenInlineUnescape
	numAllRoles
)

var roleNames = []string{"plain", "env", "hidden", "rw-copy", "rw-unescape", "rw-inline-copy", "rw-inline-unescape", "",
	"env+rw-copy", "env+rw-unescape", "env+rw-inline-copy", "hidden+rw-copy", "hidden+rw-unescape", "hidden+rw-inline-unescape"}

// base is the role that decides where (and whether) the field is output
func (r role) base() role {
	switch r {
	case rEnvCopy, rEnvUnescape, rEnvInlineCopy:
		return rEnv
	case rHiddenCopy, rHiddenUnescape, rHiddenInlineUnescape:
		return rHidden
	}
	return r
}

// chain is the role whose rewriter chain is configured for the field
func (r role) chain() role {
	switch r {
	case rEnvCopy, rHiddenCopy:
		return rCopy
	case rEnvUnescape, rHiddenUnescape:
		return rUnescape
	case rEnvInlineCopy:
		return rInlineCopy
	case rHiddenInlineUnescape:
		return rInlineUnescape
	}
	return r
}

func (r role) overlapped() bool { return r > numRoles }
func (r role) rewritten() bool  { return r >= rCopy && r < numRoles }
func (r role) inlines() bool    { return r == rInlineCopy || r == rInlineUnescape }
func (r role) unescapes() bool  { return r == rUnescape || r == rInlineUnescape }

// filler describes one non-distinguished field of the 16-field layout (index >= 2)
type filler struct {
	name  string
	role  role // plain, env or hidden only
	value string
}

func padName(prefix string, n int) string { return repeatTo(prefix+"_abcdefghijklmnopqrstuvwxyz", n) }

// fillers: a fixed spread of key lengths (fixstr / str16 keys), value lengths on both sides of the fixstr boundary,
// empty and non-empty environment / hidden / plain fields, raw bytes and escapes that must NOT be touched in a plain field
var fillers = []filler{
	{"host", rEnv, "h"},
	{"vhost", rEnv, ""},
	{"task", rHidden, "hidden-task"},
	{"pnum", rHidden, ""},
	{"empty", rPlain, ""},
	{padName("k15", 15), rPlain, ascii(15)},
	{padName("k16", 16), rPlain, ascii(16)},
	{padName("k31", 31), rPlain, ascii(31)},
	{padName("k32", 32), rPlain, ascii(32)},
	{padName("k255", 255), rPlain, repeatTo("\xff", 255)},
	{padName("k256", 256), rPlain, repeatTo("é漢", 256)},
	{"app", rEnv, ascii(16)},
	{"nul", rPlain, "\x00"},
	{"raw", rPlain, `a\nb\\c\`},
}

const nameA, nameB = "log", "class"

type layout struct {
	nfields  int  // named fields
	reserved int  // extra unnamed slots at the end of LogRecord.Fields (schema maxFields - nfields), filled with junk
	dense    bool // every filler is a non-empty plain field, except "host" (one environment field is mandatory): largest record map
}

func (l layout) String() string {
	if l.dense {
		return fmt.Sprintf("s%d+%ddense", l.nfields, l.reserved)
	}
	return fmt.Sprintf("s%d+%d", l.nfields, l.reserved)
}

type setup struct {
	lay      layout
	roleA    role
	roleB    role
	schema   base.LogSchema
	names    []string
	roles    []role
	cfg      *fluentdforward.Config
	envOrder []string
	fill     []string           // values of all slots; [0], [1] are overwritten per case
	keyBytes int                // total length of all field names
	ser      base.LogSerializer // created on first use, lives as long as the setup (one setup at a time per process)
}

func holder(v bconfig.LogRewriterConfig) bconfig.LogRewriterConfigHolder {
	return bconfig.LogRewriterConfigHolder{Location: "harness", Value: v}
}

func chainFor(r role, other string) []bconfig.LogRewriterConfigHolder {
	switch r {
	case rCopy:
		return []bconfig.LogRewriterConfigHolder{holder(&rcopy.Config{})}
	case rUnescape:
		return []bconfig.LogRewriterConfigHolder{holder(&runescape.Config{})}
	case rInlineCopy:
		return []bconfig.LogRewriterConfigHolder{holder(&rinline.Config{Field: other}), holder(&rcopy.Config{})}
	case rInlineUnescape:
		return []bconfig.LogRewriterConfigHolder{holder(&rinline.Config{Field: other}), holder(&runescape.Config{})}
	}
	return nil
}

func newSetup(lay layout, roleA, roleB role) *setup {
	st := &setup{lay: lay, roleA: roleA, roleB: roleB}
	st.names = []string{nameA, nameB}
	st.roles = []role{roleA, roleB}
	for i := 0; len(st.names) < lay.nfields && i < len(fillers); i++ {
		st.names = append(st.names, fillers[i].name)
		if lay.dense && i > 0 {
			st.roles = append(st.roles, rPlain)
		} else {
			st.roles = append(st.roles, fillers[i].role)
		}
	}
	for i := 0; len(st.names) < lay.nfields; i++ { // layouts larger than 16: extra environment fields
		st.names = append(st.names, fmt.Sprintf("env%02d", i))
		st.roles = append(st.roles, rEnv)
	}
	schema, err := base.NewLogSchema(st.names, lay.nfields+lay.reserved)
	if err != nil {
		panic(err)
	}
	st.schema = schema
	ser := fluentdforward.SerializationConfig{RewriteFields: map[string][]bconfig.LogRewriterConfigHolder{}}
	// environment and hidden lists in REVERSE schema order: the output must not depend on the order of these lists
	for i := len(st.names) - 1; i >= 0; i-- {
		switch st.roles[i].base() {
		case rEnv:
			ser.EnvironmentFields = append(ser.EnvironmentFields, st.names[i])
		case rHidden:
			ser.HiddenFields = append(ser.HiddenFields, st.names[i])
		}
	}
	st.envOrder = ser.EnvironmentFields
	if c := chainFor(roleA.chain(), nameB); c != nil {
		ser.RewriteFields[nameA] = c
	}
	if c := chainFor(roleB.chain(), nameA); c != nil {
		ser.RewriteFields[nameB] = c
	}
	st.cfg = &fluentdforward.Config{
		Serialization: ser,
		MessageMode:   forwardprotocol.ModeCompressedPackedForward,
		Upstream:      fluentdforward.UpstreamConfig{Address: "localhost:24224", MaxDuration: time.Minute},
	}
	if err := st.cfg.VerifyConfig(schema); err != nil {
		panic(fmt.Sprintf("harness bug: configuration rejected: %v", err))
	}
	st.fill = make([]string, lay.nfields+lay.reserved)
	for i := 2; i < lay.nfields; i++ {
		st.fill[i] = st.fillerValue(i)
		if lay.dense && st.fill[i] == "" {
			st.fill[i] = fmt.Sprintf("v%d", i)
		}
	}
	for i := lay.nfields; i < len(st.fill); i++ {
		st.fill[i] = fmt.Sprintf("RESERVED-SLOT-%d-must-not-be-emitted", i)
	}
	for _, n := range st.names {
		st.keyBytes += len(n)
	}
	return st
}

// poisonBytes is 0xC1 repeated: the one code MessagePack never uses, so stale buffer contents cannot pass for data.
var poisonBytes = strings.Repeat("\xc1", 600*1024)

// prepare returns the setup's serializer with its buffer in a state that is a function of the case alone: the first n
// bytes (and a short deterministic header) are overwritten by serializing a record whose only non-empty field is the
// environment field "host" = 0xC1 x n. The serializer object itself is long-lived, as in the agent.
func (st *setup) prepare(n int) base.LogSerializer {
	if st.ser == nil {
		st.ser = st.cfg.NewSerializer(logger.Root(), st.schema, "tag")
	}
	fields := make(base.LogFields, len(st.fill))
	fields[2] = poisonBytes[:n]
	out := st.ser.SerializeRecord(&base.LogRecord{Fields: fields, RawLength: n, Timestamp: time.Unix(0, 0)})
	if len(out) < n {
		panic("harness bug: poison record was not serialized")
	}
	return st.ser
}

func (st *setup) fillerValue(i int) string {
	if i-2 < len(fillers) {
		return fillers[i-2].value
	}
	// extra environment fields: alternate empty / short / 16 bytes
	switch i % 3 {
	case 0:
		return ""
	case 1:
		return fmt.Sprintf("e%d", i)
	}
	return ascii(16)
}

// ---------------------------------------------------------------------------------------------------------------
// timestamps

type stamp struct {
	name     string
	sec, ns  int64
	zoneEast int // seconds east of UTC of the time.Time's location (must not matter)
}

func stamps(thorough bool) []stamp {
	ts := []stamp{
		{"epoch", 0, 0, 0},
		{"ns0", 1600000000, 0, 0},
		{"ns1", 1600000000, 1, 0},
		{"ns999999999", 1600000000, 999999999, 0},
		{"2038-last", 2147483647, 999999999, 0},
		{"2038-first", 2147483648, 0, 0},
	}
	if thorough {
		ts = append(ts,
			stamp{"ns1+03:00", 1600000000, 1, 3 * 3600},
			stamp{"u32-last", 4294967295, 999999999, 0},
		)
	}
	return ts
}

func (s stamp) time() time.Time {
	t := time.Unix(s.sec, s.ns)
	if s.zoneEast != 0 {
		return t.In(time.FixedZone("z", s.zoneEast))
	}
	return t.UTC()
}

// ---------------------------------------------------------------------------------------------------------------
// reference model (from the documentation)

// refUnescape: "\b \f \n \r \t" (as in Java) and the doubled escape char map to their byte, any other "\x" stays two
// bytes, a trailing lone backslash stays.
func refUnescape(s string) string {
	if !strings.Contains(s, `\`) {
		return s
	}
	out := make([]byte, 0, len(s))
	for i := 0; i < len(s); i++ {
		c := s[i]
		if c != '\\' || i+1 == len(s) {
			out = append(out, c)
			continue
		}
		n := s[i+1]
		i++
		switch n {
		case 'b':
			out = append(out, '\b')
		case 'f':
			out = append(out, '\f')
		case 'n':
			out = append(out, '\n')
		case 'r':
			out = append(out, '\r')
		case 't':
			out = append(out, '\t')
		case '\\':
			out = append(out, '\\')
		default:
			out = append(out, '\\', n)
		}
	}
	return string(out)
}

// parts is a value given as the concatenation of its parts (so that 64 KiB values need not be copied to be compared)
type parts []string

func (p parts) size() int {
	n := 0
	for _, s := range p {
		n += len(s)
	}
	return n
}

func (p parts) equal(got []byte) bool {
	if len(got) != p.size() {
		return false
	}
	off := 0
	for _, s := range p {
		if string(got[off:off+len(s)]) != s { // no allocation: the compiler compares in place
			return false
		}
		off += len(s)
	}
	return true
}

func (p parts) join() string { return strings.Join(p, "") }

type expectation struct {
	top   map[string][]parts // key -> acceptable values (more than one only where the documentation is silent)
	env   map[string]string
	secs  uint32
	nanos uint32
}

// expected computes the visible fields of a record: non-empty, non-hidden, non-environment fields at the top level (a
// rewritten field holds its rewrite), all environment fields nested, empty ones included. unesc[i] is the reference
// unescaping of fields[i] for the two distinguished fields.
func (st *setup) expected(fields []string, unesc [2]string, unescaped bool, ts stamp) *expectation {
	ex := &expectation{top: make(map[string][]parts, len(st.names)), env: make(map[string]string, 4), secs: uint32(ts.sec), nanos: uint32(ts.ns)}
	for i, name := range st.names {
		v := fields[i]
		switch r := st.roles[i].base(); {
		case r == rEnv:
			ex.env[name] = v
		case r == rHidden:
		case v == "":
		case !r.rewritten():
			ex.top[name] = []parts{{v}}
		default:
			body := v
			if r.unescapes() && !unescaped {
				body = unesc[i]
			}
			other := 1 - i // A inlines B, B inlines A
			if r.inlines() && fields[other] != "" {
				acc := []parts{{st.names[other], "=", fields[other], " ", body}}
				if r.unescapes() && !unescaped && unesc[other] != fields[other] {
					// the documentation does not say whether a later "unescape" step also applies to the inlined prefix
					acc = append(acc, parts{st.names[other], "=", unesc[other], " ", body})
				}
				ex.top[name] = acc
			} else {
				ex.top[name] = []parts{{body}}
			}
		}
	}
	return ex
}

// ---------------------------------------------------------------------------------------------------------------
// independent decoding

type kv struct {
	k string
	v []byte // aliases the stream
}

type decodedEvent struct {
	extType  int8
	extLen   int
	secs     uint32
	nanos    uint32
	top      []kv
	envCount int // number of "environment" keys seen at top level
	env      []kv
	consumed int
}

func isStrOrBin(c codes.Code) bool { return codes.IsString(c) || codes.IsBin(c) }
func isMap(c codes.Code) bool      { return codes.IsFixedMap(c) || c == codes.Map16 || c == codes.Map32 }

type eventReader struct {
	b []byte
	r *bytes.Reader
	d *msgpack.Decoder
}

// str reads one str/bin value: the header through the msgpack library, the payload as a slice of the stream
func (er *eventReader) str(what string) ([]byte, string, string) {
	c, err := er.d.PeekCode()
	if err != nil {
		return nil, "malformed:" + what, fmt.Sprintf("%s: %v", what, err)
	}
	if !isStrOrBin(c) {
		return nil, "shape:" + what + "-type", fmt.Sprintf("%s has code 0x%02x, want a string", what, byte(c))
	}
	n, err := er.d.DecodeBytesLen()
	if err != nil {
		return nil, "malformed:" + what, fmt.Sprintf("%s header: %v", what, err)
	}
	off := len(er.b) - er.r.Len()
	if n < 0 || off+n > len(er.b) {
		return nil, "malformed:" + what, fmt.Sprintf("%s announces %d bytes at offset %d but the stream ends at %d", what, n, off, len(er.b))
	}
	er.r.Seek(int64(n), io.SeekCurrent)
	return er.b[off : off+n], "", ""
}

func decodeEvent(b []byte) (*decodedEvent, string, string) {
	r := bytes.NewReader(b)
	d := msgpack.NewDecoder(r) // *bytes.Reader is used unbuffered, so r.Len() tells the bytes consumed
	er := &eventReader{b, r, d}
	ev := &decodedEvent{}
	n, err := d.DecodeArrayLen()
	if err != nil {
		return nil, "malformed:root-array", fmt.Sprintf("root array header: %v", err)
	}
	if n != 2 {
		return nil, "shape:root-array-len", fmt.Sprintf("root array has %d elements, want 2 [time, record]", n)
	}
	c, err := d.PeekCode()
	if err != nil {
		return nil, "malformed:time", fmt.Sprintf("time: %v", err)
	}
	if !codes.IsExt(c) {
		return nil, "shape:time-not-ext", fmt.Sprintf("time is not an ext value (code 0x%02x)", byte(c))
	}
	ev.extType, ev.extLen, err = d.DecodeExtHeader()
	if err != nil {
		return nil, "malformed:time", fmt.Sprintf("time ext header: %v", err)
	}
	if ev.extType != 0 || ev.extLen != 8 {
		return nil, "shape:time-ext-header", fmt.Sprintf("time ext type=%d len=%d, want EventTime type 0 len 8", ev.extType, ev.extLen)
	}
	var tb [8]byte
	if _, err := io.ReadFull(r, tb[:]); err != nil {
		return nil, "malformed:time", fmt.Sprintf("time ext payload: %v", err)
	}
	ev.secs = uint32(tb[0])<<24 | uint32(tb[1])<<16 | uint32(tb[2])<<8 | uint32(tb[3])
	ev.nanos = uint32(tb[4])<<24 | uint32(tb[5])<<16 | uint32(tb[6])<<8 | uint32(tb[7])
	c, err = d.PeekCode()
	if err != nil {
		return nil, "malformed:record-map", fmt.Sprintf("record: %v", err)
	}
	if !isMap(c) {
		return nil, "shape:record-not-map", fmt.Sprintf("record is not a map (code 0x%02x)", byte(c))
	}
	m, err := d.DecodeMapLen()
	if err != nil {
		return nil, "malformed:record-map", fmt.Sprintf("record map header: %v", err)
	}
	for i := 0; i < m; i++ {
		kb, key, msg := er.str("record-key")
		if key != "" {
			return nil, key, fmt.Sprintf("entry %d of %d: %s", i, m, msg)
		}
		k := string(kb)
		if k == "environment" {
			ev.envCount++
			c, err := d.PeekCode()
			if err != nil {
				return nil, "malformed:environment", fmt.Sprintf("environment: %v", err)
			}
			if !isMap(c) {
				return nil, "shape:environment-not-map", fmt.Sprintf("environment is not a map (code 0x%02x)", byte(c))
			}
			em, err := d.DecodeMapLen()
			if err != nil {
				return nil, "malformed:environment", fmt.Sprintf("environment map header: %v", err)
			}
			for j := 0; j < em; j++ {
				ekb, key, msg := er.str("environment-key")
				if key != "" {
					return nil, key, fmt.Sprintf("environment entry %d of %d: %s", j, em, msg)
				}
				evb, key, msg := er.str("environment-value")
				if key != "" {
					return nil, key, fmt.Sprintf("environment[%q]: %s", clipS(string(ekb)), msg)
				}
				ev.env = append(ev.env, kv{string(ekb), evb})
			}
			continue
		}
		vb, key, msg := er.str("record-value")
		if key != "" {
			return nil, key, fmt.Sprintf("record[%q]: %s", clipS(k), msg)
		}
		ev.top = append(ev.top, kv{k, vb})
	}
	ev.consumed = len(b) - r.Len()
	return ev, "", ""
}

func clipS(s string) string {
	if len(s) > 48 {
		return fmt.Sprintf("%s...(%d bytes)", s[:48], len(s))
	}
	return s
}

func describeDiff(got, want string) string {
	i := 0
	for i < len(got) && i < len(want) && got[i] == want[i] {
		i++
	}
	win := func(s string) string {
		lo, hi := i-8, i+16
		if lo < 0 {
			lo = 0
		}
		if hi > len(s) {
			hi = len(s)
		}
		return fmt.Sprintf("%q", s[lo:hi])
	}
	return fmt.Sprintf("got %d bytes, want %d bytes; first difference at offset %d: got ...%s, want ...%s", len(got), len(want), i, win(got), win(want))
}

func matchAny(acc []parts, got []byte) bool {
	for _, a := range acc {
		if a.equal(got) {
			return true
		}
	}
	return false
}

// ---------------------------------------------------------------------------------------------------------------
// one case

func (st *setup) roleOf(name string) string {
	for i, n := range st.names {
		if n == name {
			if i == 0 {
				return "A:" + roleNames[st.roles[i]]
			}
			if i == 1 {
				return "B:" + roleNames[st.roles[i]]
			}
			return "filler:" + roleNames[st.roles[i]]
		}
	}
	return "unknown-key"
}

func (st *setup) check(ctx *seq.Ctx, a, b *value, unescaped bool, ts stamp) (string, string) {
	va, vb := a.s, b.s
	unesc := [2]string{a.un, b.un}
	nslots := st.lay.nfields + st.lay.reserved
	fieldStrings := make([]string, nslots)
	copy(fieldStrings, st.fill)
	fieldStrings[0], fieldStrings[1] = va, vb
	fields := make(base.LogFields, nslots)
	raw := 0
	for i, s := range fieldStrings {
		fields[i] = s
		raw += len(s)
	}
	if raw > defs.InputLogMaxRecordBytes {
		panic("harness bug: record larger than the configured record limit")
	}
	ex := st.expected(fieldStrings, unesc, unescaped, ts)

	// long-lived serializer whose buffer is first overwritten with 0xC1 beyond anything this case can produce; fresh record
	bound := raw + 2*st.keyBytes + 8*len(st.names) + 256
	for i := 0; i < 2; i++ {
		if st.roles[i].inlines() {
			bound += len(fieldStrings[1-i]) + len(st.names[1-i]) + 2
		}
	}
	serializer := st.prepare(bound)
	record := &base.LogRecord{Fields: fields, RawLength: raw, Timestamp: ts.time(), Unescaped: unescaped}
	out := []byte(serializer.SerializeRecord(record))

	cover := func(name string) { ctx.Groups["cover:"+name]++ }
	if len(out) == 0 {
		return "empty-output", "SerializeRecord returned an empty stream for a record within the configured limits"
	}
	if len(out) > bound {
		return "harness:poison-bound", fmt.Sprintf("output of %d bytes exceeds the harness's bound %d", len(out), bound)
	}
	ev, key, msg := decodeEvent(out)
	if key != "" {
		return key, fmt.Sprintf("%s (stream of %d bytes, head % x)", msg, len(out), out[:min(len(out), 24)])
	}
	if ev.consumed != len(out) {
		return "trailing-bytes", fmt.Sprintf("the event ends after %d bytes but the stream has %d", ev.consumed, len(out))
	}
	if ev.secs != ex.secs || ev.nanos != ex.nanos {
		return "time:mismatch", fmt.Sprintf("EventTime decodes to %d.%09d, the record's timestamp is %d.%09d", ev.secs, ev.nanos, ex.secs, ex.nanos)
	}
	// top-level fields
	seen := make(map[string]bool, len(ev.top))
	for _, p := range ev.top {
		if seen[p.k] {
			return "fields:duplicate-key", fmt.Sprintf("key %q appears twice in the record map", clipS(p.k))
		}
		seen[p.k] = true
		acc, ok := ex.top[p.k]
		if !ok {
			return "fields:unexpected:" + st.roleOf(p.k), fmt.Sprintf("key %q (%d-byte value) is emitted but is not a visible field of the record", clipS(p.k), len(p.v))
		}
		if !matchAny(acc, p.v) {
			role := st.roleOf(p.k)
			k := "value:" + role
			idx := 0
			if p.k == nameB {
				idx = 1
			}
			if (p.k == nameA || p.k == nameB) && st.roles[idx].unescapes() && !unescaped {
				// classify: the field was copied escaped although the record was not marked unescaped
				if matchAny(st.expected(fieldStrings, unesc, true, ts).top[p.k], p.v) {
					k = "value:unescape-skipped:" + role
					if idx == 1 && st.roles[0].unescapes() && va != "" {
						k = "value:unescape-skipped-after-earlier-unescape-field"
					}
				}
			}
			return k, fmt.Sprintf("field %q: %s", p.k, describeDiff(string(p.v), acc[0].join()))
		}
	}
	for k := range ex.top {
		if !seen[k] {
			return "fields:missing:" + st.roleOf(k), fmt.Sprintf("visible field %q (%d bytes expected) is missing from the record map", clipS(k), ex.top[k][0].size())
		}
	}
	// environment
	if ev.envCount != 1 {
		return "env:count", fmt.Sprintf("the record map has %d \"environment\" entries, want exactly 1", ev.envCount)
	}
	seenEnv := make(map[string]bool, len(ev.env))
	for _, p := range ev.env {
		if seenEnv[p.k] {
			return "env:duplicate-key", fmt.Sprintf("environment key %q appears twice", clipS(p.k))
		}
		seenEnv[p.k] = true
		want, ok := ex.env[p.k]
		if !ok {
			return "env:unexpected:" + st.roleOf(p.k), fmt.Sprintf("environment key %q is not an environment field", clipS(p.k))
		}
		if want != string(p.v) {
			return "env:value:" + st.roleOf(p.k), fmt.Sprintf("environment field %q: %s", p.k, describeDiff(string(p.v), want))
		}
	}
	for k := range ex.env {
		if !seenEnv[k] {
			return "env:missing:" + st.roleOf(k), fmt.Sprintf("environment field %q (value of %d bytes) is missing from the nested map", clipS(k), len(ex.env[k]))
		}
	}
	// second, fully independent reading: fluentlib's reference EventEntry (what the Fluentd test server decodes)
	var entry forwardprotocol.EventEntry
	if err := msgpack.Unmarshal(out, &entry); err != nil {
		return "fluentlib:decode-error", fmt.Sprintf("forwardprotocol.EventEntry cannot decode the event: %v", err)
	}
	if entry.Time.Unix() != int64(ex.secs) || int64(entry.Time.Nanosecond()) != int64(ex.nanos) {
		return "fluentlib:time", fmt.Sprintf("EventEntry.Time = %d.%09d, want %d.%09d", entry.Time.Unix(), entry.Time.Nanosecond(), ex.secs, ex.nanos)
	}
	if len(entry.Record) != len(ex.top)+1 {
		return "fluentlib:record-size", fmt.Sprintf("EventEntry.Record has %d keys, want %d", len(entry.Record), len(ex.top)+1)
	}
	for k, acc := range ex.top {
		got, _ := entry.Record[k].(string)
		if !matchAny(acc, []byte(got)) {
			return "fluentlib:value", fmt.Sprintf("EventEntry.Record[%q]: %s", clipS(k), describeDiff(got, acc[0].join()))
		}
	}
	envMap, ok := entry.Record["environment"].(map[string]interface{})
	if !ok || len(envMap) != len(ex.env) {
		return "fluentlib:environment", fmt.Sprintf("EventEntry.Record[environment] = %T with %d keys, want a map with %d keys", entry.Record["environment"], len(envMap), len(ex.env))
	}
	for k, want := range ex.env {
		if got, _ := envMap[k].(string); got != want {
			return "fluentlib:environment", fmt.Sprintf("environment[%q]: %s", clipS(k), describeDiff(got, want))
		}
	}

	// vacuity counters: which branches of the encoder did this case reach
	if len(st.names)+1 < 16 {
		cover("root-fixmap")
	} else {
		cover("root-map16")
	}
	if len(ex.env) < 16 {
		cover("env-fixmap")
	} else {
		cover("env-map16")
	}
	for i := 0; i < 2; i++ {
		r := st.roles[i]
		v := fieldStrings[i]
		if !r.rewritten() || v == "" {
			continue
		}
		reserved := len(v)
		if r.inlines() && fieldStrings[1-i] != "" {
			reserved += len(st.names[1-i]) + 2 + len(fieldStrings[1-i])
			cover("inline-prefix-present")
		} else if r.inlines() {
			cover("inline-prefix-absent")
		}
		actual := ex.top[st.names[i]][0].size()
		switch {
		case reserved >= 65536 && actual < 65536:
			cover("rewrite-reserved-str32-actual<65536")
		case reserved >= 65536:
			cover("rewrite-reserved-str32")
		case actual != reserved:
			cover("rewrite-str16-shrunk")
		default:
			cover("rewrite-str16-same-length")
		}
		if r.unescapes() && unescaped {
			cover("unescape-skipped-by-flag")
		}
	}
	return "", ""
}

func min(a, b int) int {
	if a < b {
		return a
	}
	return b
}

// ---------------------------------------------------------------------------------------------------------------

func enumerate(ctx *seq.Ctx) {
	thorough := ctx.Thorough()
	classes := contentClasses(thorough)
	values := buildValues(classes)
	tss := stamps(thorough)
	// layouts in three classes (the cheap ones first so that a deadline cannot starve them):
	//   class 0: 3+2, 16+2 (reserved slots), 14/15/16 dense   class 1: 14, 15   class 2: 3, 16
	type classedLayout struct {
		layout
		class int
	}
	layouts := []classedLayout{{layout{3, 2, false}, 0}, {layout{16, 2, false}, 0}, {layout{14, 0, true}, 0}, {layout{15, 0, true}, 0}, {layout{16, 0, true}, 0},
		{layout{14, 0, false}, 1}, {layout{15, 0, false}, 1}, {layout{3, 0, false}, 2}, {layout{16, 0, false}, 2}}
	// value sets: "listed" = the 11 lengths x 14 content classes named in the plan; "all" adds the thorough-only classes;
	// "small" = lengths {0,1,16,65536} x {ascii, mixed}
	listedClass := func(ci int) bool {
		name := classes[ci].name
		for _, c := range contentClasses(false) {
			if c.name == name {
				return true
			}
		}
		return false
	}
	isListed := make([]bool, len(values))
	isSmall := make([]bool, len(values))
	for i, v := range values {
		isListed[i] = listedClass(v.ci)
		n := lengthClasses[v.li]
		isSmall[i] = (n == 0 || n == 1 || n == 16 || n == 65536) && (classes[v.ci].name == "ascii" || classes[v.ci].name == "mixed")
	}
	// timestamps of the big value product: ns=999999999 and the first second after the 2038 boundary
	valueStamps := map[string]bool{"ns999999999": true, "2038-first": true}
	ctx.Note("domain", fmt.Sprintf("%d layouts x %d x %d roles x 2 flags; %d timestamps; %d lengths x %d content classes", len(layouts), numRoles, numRoles, len(tss), len(lengthClasses), len(classes)))

	// pairOK decides which (A value, B value) pairs are crossed with a timestamp on a layout. With V = the two value
	// timestamps, O = the other timestamps:
	//   level 0: small x small at every timestamp
	//   level 1: V: listed x listed;                 O: small x small
	//   level 2: V: all x listed U listed x all;     O: listed x listed   (contains the full planned product)
	// quick: layout classes 0,1 -> level 0, class 2 -> level 1.  thorough: class 0 -> level 1, classes 1,2 -> level 2.
	pairOK := func(class int, ts stamp, ai, bi int) bool {
		level := 0
		switch {
		case thorough && class >= 1:
			level = 2
		case thorough || class == 2:
			level = 1
		}
		v := valueStamps[ts.name]
		switch {
		case level == 2 && v:
			return isListed[ai] || isListed[bi]
		case level == 2, level == 1 && v:
			return isListed[ai] && isListed[bi]
		}
		return isSmall[ai] && isSmall[bi]
	}

	// ---- environment maps on both sides of the fixmap boundary (15 / 16 / 17 environment fields): layouts of 17-21 named
	// fields whose extra fields are all environment fields; reduced value set for A and B (lengths 0, 1, 16, 65536)
	small := []value{}
	for i, v := range values {
		if isSmall[i] {
			small = append(small, v)
		}
	}
	for _, nf := range []int{27, 28, 29, 30} { // 3 environment fillers among the first 16 + (nf-16) extra ones = 14..17, +1 for each of A, B that is an environment field
		for _, ra := range []role{rPlain, rEnv, rInlineUnescape} {
			for _, rb := range []role{rPlain, rEnv, rHidden} {
				if ctx.Stop() {
					return
				}
				st := newSetup(layout{nf, 0, false}, ra, rb)
				nenv := 0
				for _, r := range st.roles {
					if r == rEnv {
						nenv++
					}
				}
				ctx.Group(fmt.Sprintf("envmap/%d-environment-fields", nenv))
				for ui := 0; ui < 2; ui++ {
					for ai := range small {
						for bi := range small {
							a, b := &small[ai], &small[bi]
							id := fmt.Sprintf("envmap/s%d/A=%s:%d:%s/B=%s:%d:%s/u%d", nf, roleNames[ra], lengthClasses[a.li], classes[a.ci].name,
								roleNames[rb], lengthClasses[b.li], classes[b.ci].name, ui)
							unescaped := ui == 1
							ctx.Case(id, true, id, func() (string, string) { return st.check(ctx, a, b, unescaped, tss[3]) })
						}
					}
				}
			}
		}
	}

	// ---- overlapping roles: a field listed as environment / hidden field that ALSO has a rewriter chain, against every role of
	// the other field; layouts 3 and 16 (+2 reserved), small value set
	for _, cl := range layouts[:2] {
		lay := cl.layout
		for ra := role(0); ra < numAllRoles; ra++ {
			for rb := role(0); rb < numAllRoles; rb++ {
				if ra == numRoles || rb == numRoles || !(ra.overlapped() || rb.overlapped()) {
					continue
				}
				if ctx.Stop() {
					return
				}
				st := newSetup(lay, ra, rb)
				ctx.Group("overlap/" + lay.String())
				for ui := 0; ui < 2; ui++ {
					for ai := range small {
						for bi := range small {
							if !ctx.Mine() {
								ctx.Skip()
								continue
							}
							a, b := &small[ai], &small[bi]
							id := fmt.Sprintf("overlap/%s/A=%s:%d:%s/B=%s:%d:%s/u%d", lay, roleNames[ra], lengthClasses[a.li], classes[a.ci].name,
								roleNames[rb], lengthClasses[b.li], classes[b.ci].name, ui)
							nontrivial := a.s != "" || b.s != ""
							unescaped := ui == 1
							ctx.Case(id, nontrivial, id, func() (string, string) { return st.check(ctx, a, b, unescaped, tss[3]) })
						}
					}
				}
			}
		}
	}

	// ---- main product
	for _, cl := range layouts {
		lay := cl.layout
		for ra := role(0); ra < numRoles; ra++ {
			for rb := role(0); rb < numRoles; rb++ {
				if ctx.Stop() {
					return
				}
				st := newSetup(lay, ra, rb)
				ctx.Group(fmt.Sprintf("%s/A=%s", lay, roleNames[ra]))
				for ui := 0; ui < 2; ui++ {
					for ti, ts := range tss {
						for ai := range values {
							if ctx.Stop() {
								return
							}
							for bi := range values {
								if !pairOK(cl.class, ts, ai, bi) {
									continue
								}
								if !ctx.Mine() {
									ctx.Skip()
									continue
								}
								a, b := &values[ai], &values[bi]
								id := fmt.Sprintf("%s/A=%s:%d:%s/B=%s:%d:%s/u%d/t%d", lay, roleNames[ra], lengthClasses[a.li], classes[a.ci].name,
									roleNames[rb], lengthClasses[b.li], classes[b.ci].name, ui, ti)
								nontrivial := (a.s != "" && ra != rHidden) || (b.s != "" && rb != rHidden)
								unescaped, ts := ui == 1, ts
								ctx.Case(id, nontrivial, id, func() (string, string) { return st.check(ctx, a, b, unescaped, ts) })
							}
						}
					}
				}
			}
		}
	}
}

func main() {
	debug.SetGCPercent(400)
	logger.SetLogLevel(logger.ErrorLevel)
	// defs limits stay at their production defaults (record limit 1 MiB + 256, serializer buffer twice that); the largest
	// enumerated record is 2 x 65537 bytes + fillers, far inside the limit (overflow is property C07's concern).
	seq.Main(&seq.Config{
		Property: "C10",
		Level:    "exploration",
		Rule: "bounded-exhaustive product through fluentdforward Config.VerifyConfig+NewSerializer+SerializeRecord with the real copy/unescape/inline rewriters: " +
			"layouts {3,16 named fields; 14, 15, 3+2 reserved, 16+2 reserved unnamed slots, 14/15/16 dense = all fillers visible} x role of field A x role of field B, each from {plain, environment, hidden, " +
			"rewritten[copy], rewritten[unescape], rewritten[inline other,copy], rewritten[inline other,unescape]} x record.Unescaped {false,true} x timestamps " +
			"{epoch, ns 0/1/999999999, 2^31-1.999999999, 2^31} (thorough adds a non-UTC location and 2^32-1) x value of A x value of B, each value from lengths " +
			"{0,1,15,16,31,32,255,256,65535,65536,65537} x content classes {ASCII, 0x00, 0xFF, multi-byte, dense \\b \\f \\n \\r \\t \\\\ \\x, trailing backslash, only backslashes, mixed} " +
			"(thorough adds 8 more non-escape second bytes and a single escape at start/middle/end). Quick crosses listed x listed values with timestamps {ns 999999999, 2^31} on layouts 3 and 16 and " +
			"small x small values (lengths 0,1,16,65536 x ASCII, mixed) with every other timestamp and layout; thorough crosses (all x listed U listed x all) values with those two timestamps and listed x listed with every other timestamp on layouts 3, 16, 14, 15 " +
			"(a superset of the full planned product) and gives the remaining layouts what quick gives layouts 3 and 16. 16-field layouts carry 14 fixed filler fields (empty and non-empty environment/hidden/plain, " +
			"keys of 15/16/31/32/255/256 bytes, values of 15/16/31/32/255/256 bytes, raw escapes in a plain field); plus 14-19 environment fields for the nested map header. " +
			"Each case: serializer buffer poisoned with 0xC1, fresh record; output decoded token by token with vmihailenco/msgpack and again as fluentlib forwardprotocol.EventEntry; " +
			"non-trivial = at least one of A, B is non-empty and not hidden",
		Assumptions: []string{
			"defs limits at production defaults; every generated record (<= 2 x 65537 bytes + ~1.5 KB of fillers) is within the record limit, buffer overflow is C07",
			"the serializer object is long-lived (one per configuration, as in the agent); before each case its buffer is overwritten with 0xC1 bytes (never valid MessagePack) past the largest possible output of the case, so the pre-state is a function of the case alone",
			"field values may be encoded with any str/bin header width (MessagePack does not require the shortest form); map entry order is not compared",
			"documentation is silent on whether an 'unescape' step after 'inline' also unescapes the inlined prefix: both results are accepted; the inlined prefix is otherwise the other field's raw value",
			"a rewritten field whose own value is empty is not emitted even when the inlined field is non-empty (statement: exactly the non-empty fields)",
			"a field has exactly one role; timestamps are within the EventTime range (uint32 seconds); each SerializeRecord call gets a fresh record (a second serialization of the same record is C12)",
		},
		Enumerate:        enumerate,
		QuickDeadline:    300 * time.Second,
		ThoroughDeadline: 45 * time.Minute,
	})
}
