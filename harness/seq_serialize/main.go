// Command seq_serialize decides C10: serialized Fluentd events decode to exactly the record's visible fields.
//
// The real event serializer (output/fluentdforward, built through Config.VerifyConfig + Config.NewSerializer with the real
// copy / unescape / inline rewriters) is run on a bounded-exhaustive product of schemas, role assignments, rewriter
// chains, field values, the Unescaped flag and timestamps. The produced bytes are decoded with vmihailenco/msgpack
// (independent of output/fastmsgpack), once by hand (token by token, so duplicated keys, trailing bytes and wrong
// counts are visible) and once through fluentlib's reference EventEntry, and compared with a reference model of the
// record's visible fields written from the documentation.
//
// Besides the big product of lengths x contents x roles the enumeration has one group per further dimension: every byte
// value at every role position of a value (sweep), rewriter chains of up to three / four steps on any field (chains),
// sequences of records through one serializer without any reset between them (history), things that happen between the
// call and the reading of the stream - the record's buffer recycled, other serializers at work (alias), records at the
// documented record limit (limit), schemas of 31..66 (..300) fields (wide) and rewritten lengths that reach 65535/65536
// only as a sum (inline-sum).
package main

import (
	"bytes"
	"fmt"
	"io"
	"runtime/debug"
	"strings"
	"time"
	"unsafe"

	"github.com/relex/fluentlib/protocol/forwardprotocol"
	"github.com/relex/gotils/logger"
	"github.com/relex/slog-agent/base"
	"github.com/relex/slog-agent/base/bconfig"
	"github.com/relex/slog-agent/defs"
	"github.com/relex/slog-agent/output/fluentdforward"
	"github.com/relex/slog-agent/rewrite/rcopy"
	"github.com/relex/slog-agent/rewrite/rinline"
	"github.com/relex/slog-agent/rewrite/runescape"
	"github.com/vmihailenco/msgpack/v4"
	"github.com/vmihailenco/msgpack/v4/codes"

	"slogverif/seq"
)

// ---------------------------------------------------------------------------------------------------------------
// value domain

var lengthClasses = []int{0, 1, 15, 16, 31, 32, 255, 256, 65535, 65536, 65537}

type contentClass struct {
	name string
	gen  func(n int) string
}

const asciiAlphabet = "abcdefghijklmnopqrstuvwxyz0123456789 ABCDEFGHIJKLMNOPQRSTUVWXYZ"

func repeatTo(pattern string, n int) string {
	if n == 0 {
		return ""
	}
	return strings.Repeat(pattern, n/len(pattern)+1)[:n]
}

func ascii(n int) string { return repeatTo(asciiAlphabet, n) }

// escape second bytes of the big product: the five documented ones, the escape char itself, and characters that are NOT
// escapes (all 256 second bytes are enumerated by the sweep group)
var quickEscapes = []byte{'b', 'f', 'n', 'r', 't', '\\', 'x'}
var moreUnknownEscapes = []byte{'0', '"', 'u', '/', ' ', 0x00, 0xFF, 'N'}

func contentClasses(thorough bool) []contentClass {
	cs := []contentClass{
		{"ascii", ascii},
		{"nul", func(n int) string { return repeatTo("\x00", n) }},
		{"ff", func(n int) string { return repeatTo("\xff", n) }},
		{"multibyte", func(n int) string { return repeatTo("é漢\U0001F600", n) }}, // may end mid-rune: bytes are bytes
	}
	escs := append([]byte{}, quickEscapes...)
	if thorough {
		escs = append(escs, moreUnknownEscapes...)
	}
	for _, e := range escs {
		e := e
		pat := string([]byte{'\\', e, 'z'})
		cs = append(cs, contentClass{fmt.Sprintf("dense-esc-%02x", e), func(n int) string { return repeatTo(pat, n) }})
	}
	cs = append(cs,
		contentClass{"trailing-backslash", func(n int) string {
			if n == 0 {
				return ""
			}
			return ascii(n-1) + `\`
		}},
		contentClass{"only-backslashes", func(n int) string { return repeatTo(`\`, n) }},
		contentClass{"mixed", func(n int) string { return repeatTo(`a\\nb\\\tc\x\\`, n) }},
	)
	if thorough {
		// a single escape at the start / in the middle / at the very end: the rewritten length differs from the reserved
		// length by exactly one (65536 -> 65535 crosses the str16/str32 boundary after the header was reserved)
		for _, e := range quickEscapes {
			e := e
			esc := string([]byte{'\\', e})
			cs = append(cs,
				contentClass{fmt.Sprintf("one-esc-%02x-start", e), func(n int) string {
					if n < 2 {
						return repeatTo(`\`, n)
					}
					return esc + ascii(n-2)
				}},
				contentClass{fmt.Sprintf("one-esc-%02x-mid", e), func(n int) string {
					if n < 2 {
						return repeatTo(`\`, n)
					}
					h := (n - 2) / 2
					return ascii(h) + esc + ascii(n-2-h)
				}},
				contentClass{fmt.Sprintf("one-esc-%02x-end", e), func(n int) string {
					if n < 2 {
						return repeatTo(`\`, n)
					}
					return ascii(n-2) + esc
				}},
			)
		}
	}
	return cs
}

// value is one field value with its reference unescaping
type value struct {
	name   string // "<length>:<content class>", used in case ids
	s      string
	un     string // reference unescaping of s
	listed bool   // length x content class named in the plan (the quick product)
	small  bool   // lengths {0,1,16,65536} x {ascii, mixed}
}

func mkValue(name, s string) *value { return &value{name: name, s: s, un: refUnescape(s)} }

func buildValues(classes []contentClass) []*value {
	listedNames := map[string]bool{}
	for _, c := range contentClasses(false) {
		listedNames[c.name] = true
	}
	vs := make([]*value, 0, len(lengthClasses)*len(classes))
	for _, n := range lengthClasses {
		for _, c := range classes {
			s := c.gen(n)
			if len(s) != n {
				panic(fmt.Sprintf("harness bug: content class %s produced %d bytes for length %d", c.name, len(s), n))
			}
			v := mkValue(fmt.Sprintf("%d:%s", n, c.name), s)
			v.listed = listedNames[c.name]
			v.small = (n == 0 || n == 1 || n == 16 || n == 65536) && (c.name == "ascii" || c.name == "mixed")
			vs = append(vs, v)
		}
	}
	return vs
}

// ---- byte sweep: every byte value at every role position of the value grammar (ordinary content, second byte of an
// escape sequence, second byte of the escape sequence that ends the value)

type sweepPattern struct {
	name     string
	thorough bool
	gen      func(b string, n int) string // b = the swept byte (or multi-byte character), n = length of the value
}

var sweepPatterns = []sweepPattern{
	{"raw", false, func(b string, n int) string { return repeatTo(b+"z", n) }},
	{"esc", false, func(b string, n int) string { return repeatTo(`\`+b+"z", n) }},
	{"esc-end", false, func(b string, n int) string {
		if n < 1+len(b) {
			return repeatTo(`\`+b, n)
		}
		return ascii(n-1-len(b)) + `\` + b
	}},
	{"esc-start", true, func(b string, n int) string {
		if n < 1+len(b) {
			return repeatTo(`\`+b, n)
		}
		return `\` + b + ascii(n-1-len(b))
	}},
	{"esc-pair", true, func(b string, n int) string { return repeatTo(`\`+b+`\`+b, n) }}, // escapes back to back, no ordinary byte between
}

type sweepSubject struct {
	name string
	b    string
}

func sweepSubjects() []sweepSubject {
	ss := make([]sweepSubject, 0, 262)
	for b := 0; b < 256; b++ {
		ss = append(ss, sweepSubject{fmt.Sprintf("%02x", b), string([]byte{byte(b)})})
	}
	// whole multi-byte characters behind a backslash (lead bytes 0xC3, 0xE2, 0xE6, 0xF0 followed by their continuation bytes)
	for _, r := range []string{"é", "€", "…", "漢", "\U0001F600"} {
		ss = append(ss, sweepSubject{fmt.Sprintf("u+%04x", []rune(r)[0]), r})
	}
	return ss
}

// ---------------------------------------------------------------------------------------------------------------
// configuration domain

type role int

const (
	rPlain role = iota
	rEnv
	rHidden
	rCopy           // rewritten: [copy]
	rUnescape       // rewritten: [unescape]
	rInlineCopy     // rewritten: [inline other, copy]
	rInlineUnescape // rewritten: [inline other, unescape]
	numRoles
	// overlapping roles: the field is listed as environment / hidden field AND has a rewriter chain. The documentation gives
	// masking the say: a hidden field is not output, an environment field is nested with its raw value; the chain is unused.
	rEnvCopy
	rEnvUnescape
	rEnvInlineCopy
	rHiddenCopy
	rHiddenUnescape
	rHiddenInlineUnescape
	// listed as environment field AND as hidden field: never at the top level; the documentation does not say which list
	// wins inside the nested map, so the field may be nested (with its raw value) or absent
	rEnvHidden
	numAllRoles
)

var roleNames = []string{"plain", "env", "hidden", "rw-copy", "rw-unescape", "rw-inline-copy", "rw-inline-unescape", "",
	"env+rw-copy", "env+rw-unescape", "env+rw-inline-copy", "hidden+rw-copy", "hidden+rw-unescape", "hidden+rw-inline-unescape", "env+hidden"}

// base is the role that decides where (and whether) the field is output
func (r role) base() role {
	switch r {
	case rEnvCopy, rEnvUnescape, rEnvInlineCopy:
		return rEnv
	case rHiddenCopy, rHiddenUnescape, rHiddenInlineUnescape:
		return rHidden
	case rEnvHidden:
		return rEnvHidden
	case rCopy, rUnescape, rInlineCopy, rInlineUnescape:
		return rPlain
	}
	return r
}

// chain is the role whose rewriter chain is configured for the field
func (r role) chain() role {
	switch r {
	case rEnvCopy, rHiddenCopy:
		return rCopy
	case rEnvUnescape, rHiddenUnescape:
		return rUnescape
	case rEnvInlineCopy:
		return rInlineCopy
	case rHiddenInlineUnescape:
		return rInlineUnescape
	case rEnvHidden:
		return rPlain
	}
	return r
}

func (r role) overlapped() bool { return r > numRoles }

// chainSpec is a rewriter chain: any number of "inline" steps and the terminating "copy" or "unescape" (the only
// shape Config.VerifyConfig accepts)
type chainSpec struct {
	inl  []int // schema indices of the inlined fields, in configuration order
	term role  // rCopy or rUnescape
}

func chainOf(r role, other int) *chainSpec {
	switch r {
	case rCopy:
		return &chainSpec{nil, rCopy}
	case rUnescape:
		return &chainSpec{nil, rUnescape}
	case rInlineCopy:
		return &chainSpec{[]int{other}, rCopy}
	case rInlineUnescape:
		return &chainSpec{[]int{other}, rUnescape}
	}
	return nil
}

func chainLabel(c *chainSpec) string {
	if c.term == rCopy {
		return "rw-" + strings.Repeat("inline-", len(c.inl)) + "copy"
	}
	return "rw-" + strings.Repeat("inline-", len(c.inl)) + "unescape"
}

// fieldSpec is one named field of a setup
type fieldSpec struct {
	name  string
	base  role       // rPlain, rEnv, rHidden or rEnvHidden: where (and whether) the field is output
	chain *chainSpec // nil: no rewriter chain configured
	label string     // role label used in violation keys ("A:rw-copy", "filler:plain", ...)
	value string     // value in every record unless the case overrides it (distinguished fields, "host" in histories)
}

// filler describes one non-distinguished field of the 16-field layout
type filler struct {
	name  string
	role  role // plain, env or hidden only
	value string
}

func padName(prefix string, n int) string { return repeatTo(prefix+"_abcdefghijklmnopqrstuvwxyz", n) }

// fillers: a fixed spread of key lengths (fixstr / str16 keys), value lengths on both sides of the fixstr boundary,
// empty and non-empty environment / hidden / plain fields, raw bytes and escapes that must NOT be touched in a plain field
var fillers = []filler{
	{"host", rEnv, "h"},
	{"vhost", rEnv, ""},
	{"task", rHidden, "hidden-task"},
	{"pnum", rHidden, ""},
	{"empty", rPlain, ""},
	{padName("k15", 15), rPlain, ascii(15)},
	{padName("k16", 16), rPlain, ascii(16)},
	{padName("k31", 31), rPlain, ascii(31)},
	{padName("k32", 32), rPlain, ascii(32)},
	{padName("k255", 255), rPlain, repeatTo("\xff", 255)},
	{padName("k256", 256), rPlain, repeatTo("é漢", 256)},
	{"app", rEnv, ascii(16)},
	{"nul", rPlain, "\x00"},
	{"raw", rPlain, `a\nb\\c\`},
}

const nameA, nameB = "log", "class"

type layout struct {
	nfields  int  // named fields
	reserved int  // extra unnamed slots at the end of LogRecord.Fields (schema maxFields - nfields), filled with junk
	dense    bool // every filler is a non-empty plain field, except "host" (one environment field is mandatory): largest record map
	tail     bool // the distinguished fields A, B are the LAST two fields; the fillers before them repeat the 14 fixed fillers cyclically
}

func (l layout) String() string {
	switch {
	case l.dense:
		return fmt.Sprintf("s%d+%ddense", l.nfields, l.reserved)
	case l.tail:
		return fmt.Sprintf("s%d+%dtail", l.nfields, l.reserved)
	}
	return fmt.Sprintf("s%d+%d", l.nfields, l.reserved)
}

type setup struct {
	lay        layout
	specs      []fieldSpec
	idxA, idxB int // schema indices of the distinguished fields
	hostIdx    int // schema index of the environment field "host" (carries the poison, varies in histories)
	schema     base.LogSchema
	names      []string
	index      map[string]int
	cfg        *fluentdforward.Config
	fill       []string           // values of all slots; [idxA], [idxB] are overwritten per case
	fillUn     []string           // their reference unescaping
	keyBytes   int                // total length of all field names
	freshSer   bool               // a new serializer for every case (limit group: the output is larger than any legal poison record)
	ser        base.LogSerializer // created on first use, lives as long as the setup
	ser2       base.LogSerializer // a second instance of the same configuration (alias group)
}

func holder(v bconfig.LogRewriterConfig) bconfig.LogRewriterConfigHolder {
	return bconfig.LogRewriterConfigHolder{Location: "harness", Value: v}
}

func extraEnvValue(slot int) string {
	// extra environment fields: alternate empty / short / 16 bytes
	switch slot % 3 {
	case 0:
		return ""
	case 1:
		return fmt.Sprintf("e%d", slot)
	}
	return ascii(16)
}

func newSetup(lay layout, roleA, roleB role) *setup { return newSetupWith(lay, roleA, roleB, nil) }

// newSetupWith builds the field list of a layout; mod (optional) may change roles, chains and values of any field before
// the configuration is built (the chains group uses it)
func newSetupWith(lay layout, roleA, roleB role, mod func(specs []fieldSpec, idxA, idxB int)) *setup {
	nfill := lay.nfields - 2
	fill := make([]fieldSpec, 0, nfill)
	for i := 0; i < nfill; i++ {
		var f fieldSpec
		if i < len(fillers) || lay.tail {
			fl := fillers[i%len(fillers)]
			f = fieldSpec{name: fl.name, base: fl.role, value: fl.value}
			if i >= len(fillers) {
				f.name = fmt.Sprintf("%s~%d", fl.name, i/len(fillers))
			}
			if lay.dense && i > 0 {
				f.base = rPlain
				if f.value == "" {
					f.value = fmt.Sprintf("v%d", i+2)
				}
			}
		} else { // layouts larger than 16 fields: extra environment fields
			f = fieldSpec{name: fmt.Sprintf("env%02d", i-len(fillers)), base: rEnv, value: extraEnvValue(i + 2)}
		}
		f.label = "filler:" + roleNames[f.base]
		fill = append(fill, f)
	}
	idxA, idxB := 0, 1
	if lay.tail {
		idxA, idxB = nfill, nfill+1
	}
	a := fieldSpec{name: nameA, base: roleA.base(), chain: chainOf(roleA.chain(), idxB), label: "A:" + roleNames[roleA]}
	b := fieldSpec{name: nameB, base: roleB.base(), chain: chainOf(roleB.chain(), idxA), label: "B:" + roleNames[roleB]}
	var specs []fieldSpec
	if lay.tail {
		specs = append(append(specs, fill...), a, b)
	} else {
		specs = append(append(specs, a, b), fill...)
	}
	if mod != nil {
		mod(specs, idxA, idxB)
	}
	return buildSetup(lay, specs, idxA, idxB)
}

func buildSetup(lay layout, specs []fieldSpec, idxA, idxB int) *setup {
	st := &setup{lay: lay, specs: specs, idxA: idxA, idxB: idxB, hostIdx: -1, index: make(map[string]int, len(specs))}
	for i, f := range specs {
		st.names = append(st.names, f.name)
		st.index[f.name] = i
		st.keyBytes += len(f.name)
		if f.name == "host" {
			st.hostIdx = i
		}
	}
	if st.hostIdx < 0 || specs[st.hostIdx].base != rEnv {
		panic("harness bug: every layout has the environment field \"host\"")
	}
	schema, err := base.NewLogSchema(st.names, len(specs)+lay.reserved)
	if err != nil {
		panic(err)
	}
	st.schema = schema
	ser := fluentdforward.SerializationConfig{RewriteFields: map[string][]bconfig.LogRewriterConfigHolder{}}
	// environment and hidden lists in REVERSE schema order: the output must not depend on the order of these lists
	for i := len(specs) - 1; i >= 0; i-- {
		switch specs[i].base {
		case rEnv:
			ser.EnvironmentFields = append(ser.EnvironmentFields, specs[i].name)
		case rHidden:
			ser.HiddenFields = append(ser.HiddenFields, specs[i].name)
		case rEnvHidden:
			ser.EnvironmentFields = append(ser.EnvironmentFields, specs[i].name)
			ser.HiddenFields = append(ser.HiddenFields, specs[i].name)
		}
		if c := specs[i].chain; c != nil {
			var hs []bconfig.LogRewriterConfigHolder
			for _, j := range c.inl {
				hs = append(hs, holder(&rinline.Config{Field: specs[j].name}))
			}
			if c.term == rCopy {
				hs = append(hs, holder(&rcopy.Config{}))
			} else {
				hs = append(hs, holder(&runescape.Config{}))
			}
			ser.RewriteFields[specs[i].name] = hs
		}
	}
	st.cfg = &fluentdforward.Config{
		Serialization: ser,
		MessageMode:   forwardprotocol.ModeCompressedPackedForward,
		Upstream:      fluentdforward.UpstreamConfig{Address: "localhost:24224", MaxDuration: time.Minute},
	}
	if err := st.cfg.VerifyConfig(schema); err != nil {
		panic(fmt.Sprintf("harness bug: configuration rejected: %v", err))
	}
	n := len(specs) + lay.reserved
	st.fill = make([]string, n)
	st.fillUn = make([]string, n)
	for i, f := range specs {
		st.fill[i] = f.value
	}
	for i := len(specs); i < n; i++ {
		st.fill[i] = fmt.Sprintf("RESERVED-SLOT-%d-must-not-be-emitted", i)
	}
	for i, s := range st.fill {
		st.fillUn[i] = refUnescape(s)
	}
	return st
}

// poisonBytes is 0xC1 repeated: the one code MessagePack never uses, so stale buffer contents cannot pass for data.
// It is as long as the largest legal record.
var poisonBytes = strings.Repeat("\xc1", defs.InputLogMaxRecordBytes)

func (st *setup) newSerializer() base.LogSerializer {
	return st.cfg.NewSerializer(logger.Root(), st.schema, "tag")
}

// poisonRecord is a record whose only non-empty field is the environment field "host" = 0xC1 x n (a legal record)
func (st *setup) poisonRecord(n int) *base.LogRecord {
	if n > len(poisonBytes) {
		n = len(poisonBytes)
	}
	fields := make(base.LogFields, len(st.fill))
	fields[st.hostIdx] = poisonBytes[:n]
	return &base.LogRecord{Fields: fields, RawLength: n, Timestamp: time.Unix(0, 0)}
}

// prepare returns the setup's serializer with its buffer in a state that is a function of the case alone: the first n
// bytes (and a short deterministic header) are overwritten by serializing the poison record. The serializer object
// itself is long-lived, as in the agent (except in the limit group, where no legal record could overwrite all that the
// case will write: there every case gets a new serializer).
func (st *setup) prepare(n int) base.LogSerializer {
	if st.ser == nil || st.freshSer {
		st.ser = st.newSerializer()
	}
	rec := st.poisonRecord(n)
	out := st.ser.SerializeRecord(rec)
	if len(out) < rec.RawLength {
		panic("harness bug: poison record was not serialized")
	}
	return st.ser
}

// ---------------------------------------------------------------------------------------------------------------
// timestamps

type stamp struct {
	name     string
	sec, ns  int64
	zoneEast int // seconds east of UTC of the time.Time's location (must not matter)
}

func stamps(thorough bool) []stamp {
	ts := []stamp{
		{"epoch", 0, 0, 0},
		{"ns0", 1600000000, 0, 0},
		{"ns1", 1600000000, 1, 0},
		{"ns999999999", 1600000000, 999999999, 0},
		{"2038-last", 2147483647, 999999999, 0},
		{"2038-first", 2147483648, 0, 0},
	}
	if thorough {
		ts = append(ts,
			stamp{"ns1+03:00", 1600000000, 1, 3 * 3600},
			stamp{"u32-last", 4294967295, 999999999, 0},
		)
	}
	return ts
}

// historyStamps: timestamps of consecutive records that share the second, the millisecond, the microsecond, or only the
// sub-second part with each other
var historyStamps = []stamp{
	{"s0.123456000", 1600000000, 123456000, 0},
	{"s0.123999000", 1600000000, 123999000, 0}, // same millisecond
	{"s0.123456789", 1600000000, 123456789, 0}, // same microsecond
	{"s0.999999999", 1600000000, 999999999, 0}, // same second
	{"s1.123456000", 1600000001, 123456000, 0}, // next second, same nanoseconds
}

func (s stamp) time() time.Time {
	t := time.Unix(s.sec, s.ns)
	if s.zoneEast != 0 {
		return t.In(time.FixedZone("z", s.zoneEast))
	}
	return t.UTC()
}

// ---------------------------------------------------------------------------------------------------------------
// reference model (from the documentation)

// refUnescape: "\b \f \n \r \t" (as in Java) and the doubled escape char map to their byte, any other "\x" stays two
// bytes, a trailing lone backslash stays.
func refUnescape(s string) string {
	if !strings.Contains(s, `\`) {
		return s
	}
	out := make([]byte, 0, len(s))
	for i := 0; i < len(s); i++ {
		c := s[i]
		if c != '\\' || i+1 == len(s) {
			out = append(out, c)
			continue
		}
		n := s[i+1]
		i++
		switch n {
		case 'b':
			out = append(out, '\b')
		case 'f':
			out = append(out, '\f')
		case 'n':
			out = append(out, '\n')
		case 'r':
			out = append(out, '\r')
		case 't':
			out = append(out, '\t')
		case '\\':
			out = append(out, '\\')
		default:
			out = append(out, '\\', n)
		}
	}
	return string(out)
}

// parts is a value given as the concatenation of its parts (so that 64 KiB values need not be copied to be compared)
type parts []string

func (p parts) size() int {
	n := 0
	for _, s := range p {
		n += len(s)
	}
	return n
}

func (p parts) equal(got []byte) bool {
	if len(got) != p.size() {
		return false
	}
	off := 0
	for _, s := range p {
		if string(got[off:off+len(s)]) != s { // no allocation: the compiler compares in place
			return false
		}
		off += len(s)
	}
	return true
}

func (p parts) join() string { return strings.Join(p, "") }

type expectation struct {
	top    map[string][]parts // key -> acceptable values (more than one only where the documentation is silent)
	env    map[string]string
	envOpt map[string]string // environment fields that are also hidden: nested with this value, or absent
	secs   uint32
	nanos  uint32
}

// expected computes the visible fields of a record: non-empty, non-hidden, non-environment fields at the top level (a
// rewritten field holds its rewrite), all environment fields nested, empty ones included. un[i] is the reference
// unescaping of fields[i].
func (st *setup) expected(fields, un []string, unescaped bool, ts stamp) *expectation {
	ex := &expectation{top: make(map[string][]parts, len(st.names)), env: make(map[string]string, 4), secs: uint32(ts.sec), nanos: uint32(ts.ns)}
	for i := range st.specs {
		f := &st.specs[i]
		v := fields[i]
		switch {
		case f.base == rEnv:
			ex.env[f.name] = v
		case f.base == rEnvHidden:
			if ex.envOpt == nil {
				ex.envOpt = map[string]string{}
			}
			ex.envOpt[f.name] = v
		case f.base == rHidden:
		case v == "":
		case f.chain == nil:
			ex.top[f.name] = []parts{{v}}
		default:
			ex.top[f.name] = st.rewritten(f.chain, i, fields, un, unescaped)
		}
	}
	return ex
}

// rewritten lists the acceptable results of a rewriter chain on field i: "inline: insert a field to the beginning if
// present (not empty), e.g. class=MyClass1 Original log message"; "unescape: ... Skipped if a log is marked by input as
// unescaped". The first result is the preferred one (used in messages).
func (st *setup) rewritten(c *chainSpec, i int, fields, un []string, unescaped bool) []parts {
	body := fields[i]
	unescapes := c.term == rUnescape && !unescaped
	if unescapes {
		body = un[i]
	}
	var present []int
	prefixEscaped := false
	for _, j := range c.inl {
		if fields[j] != "" {
			present = append(present, j)
			if un[j] != fields[j] {
				prefixEscaped = true
			}
		}
	}
	if len(present) == 0 {
		return []parts{{body}}
	}
	build := func(order []int, vals []string) parts {
		p := make(parts, 0, 4*len(order)+1)
		for _, j := range order {
			p = append(p, st.names[j], "=", vals[j], " ")
		}
		return append(p, body)
	}
	acc := []parts{build(present, fields)}
	if unescapes && prefixEscaped {
		// the documentation does not say whether a later "unescape" step also applies to the inlined prefixes
		acc = append(acc, build(present, un))
	}
	if len(present) > 1 {
		// nor whether the first or the last "inline" step of a chain ends up in front: both orders are accepted
		rev := make([]int, len(present))
		same := true
		for k, j := range present {
			rev[len(present)-1-k] = j
		}
		for k := range rev {
			same = same && rev[k] == present[k]
		}
		if !same {
			acc = append(acc, build(rev, fields))
			if unescapes && prefixEscaped {
				acc = append(acc, build(rev, un))
			}
		}
	}
	return acc
}

// ---------------------------------------------------------------------------------------------------------------
// independent decoding

type kv struct {
	k string
	v []byte // aliases the stream
}

type decodedEvent struct {
	extType  int8
	extLen   int
	secs     uint32
	nanos    uint32
	top      []kv
	envCount int // number of "environment" keys seen at top level
	env      []kv
	consumed int
}

func isStrOrBin(c codes.Code) bool { return codes.IsString(c) || codes.IsBin(c) }
func isMap(c codes.Code) bool      { return codes.IsFixedMap(c) || c == codes.Map16 || c == codes.Map32 }

type eventReader struct {
	b []byte
	r *bytes.Reader
	d *msgpack.Decoder
}

// str reads one str/bin value: the header through the msgpack library, the payload as a slice of the stream
func (er *eventReader) str(what string) ([]byte, string, string) {
	c, err := er.d.PeekCode()
	if err != nil {
		return nil, "malformed:" + what, fmt.Sprintf("%s: %v", what, err)
	}
	if !isStrOrBin(c) {
		return nil, "shape:" + what + "-type", fmt.Sprintf("%s has code 0x%02x, want a string", what, byte(c))
	}
	n, err := er.d.DecodeBytesLen()
	if err != nil {
		return nil, "malformed:" + what, fmt.Sprintf("%s header: %v", what, err)
	}
	off := len(er.b) - er.r.Len()
	if n < 0 || off+n > len(er.b) {
		return nil, "malformed:" + what, fmt.Sprintf("%s announces %d bytes at offset %d but the stream ends at %d", what, n, off, len(er.b))
	}
	er.r.Seek(int64(n), io.SeekCurrent)
	return er.b[off : off+n], "", ""
}

func decodeEvent(b []byte) (*decodedEvent, string, string) {
	r := bytes.NewReader(b)
	d := msgpack.NewDecoder(r) // *bytes.Reader is used unbuffered, so r.Len() tells the bytes consumed
	er := &eventReader{b, r, d}
	ev := &decodedEvent{}
	n, err := d.DecodeArrayLen()
	if err != nil {
		return nil, "malformed:root-array", fmt.Sprintf("root array header: %v", err)
	}
	if n != 2 {
		return nil, "shape:root-array-len", fmt.Sprintf("root array has %d elements, want 2 [time, record]", n)
	}
	c, err := d.PeekCode()
	if err != nil {
		return nil, "malformed:time", fmt.Sprintf("time: %v", err)
	}
	if !codes.IsExt(c) {
		return nil, "shape:time-not-ext", fmt.Sprintf("time is not an ext value (code 0x%02x)", byte(c))
	}
	ev.extType, ev.extLen, err = d.DecodeExtHeader()
	if err != nil {
		return nil, "malformed:time", fmt.Sprintf("time ext header: %v", err)
	}
	if ev.extType != 0 || ev.extLen != 8 {
		return nil, "shape:time-ext-header", fmt.Sprintf("time ext type=%d len=%d, want EventTime type 0 len 8", ev.extType, ev.extLen)
	}
	var tb [8]byte
	if _, err := io.ReadFull(r, tb[:]); err != nil {
		return nil, "malformed:time", fmt.Sprintf("time ext payload: %v", err)
	}
	ev.secs = uint32(tb[0])<<24 | uint32(tb[1])<<16 | uint32(tb[2])<<8 | uint32(tb[3])
	ev.nanos = uint32(tb[4])<<24 | uint32(tb[5])<<16 | uint32(tb[6])<<8 | uint32(tb[7])
	c, err = d.PeekCode()
	if err != nil {
		return nil, "malformed:record-map", fmt.Sprintf("record: %v", err)
	}
	if !isMap(c) {
		return nil, "shape:record-not-map", fmt.Sprintf("record is not a map (code 0x%02x)", byte(c))
	}
	m, err := d.DecodeMapLen()
	if err != nil {
		return nil, "malformed:record-map", fmt.Sprintf("record map header: %v", err)
	}
	for i := 0; i < m; i++ {
		kb, key, msg := er.str("record-key")
		if key != "" {
			return nil, key, fmt.Sprintf("entry %d of %d: %s", i, m, msg)
		}
		k := string(kb)
		if k == "environment" {
			ev.envCount++
			c, err := d.PeekCode()
			if err != nil {
				return nil, "malformed:environment", fmt.Sprintf("environment: %v", err)
			}
			if !isMap(c) {
				return nil, "shape:environment-not-map", fmt.Sprintf("environment is not a map (code 0x%02x)", byte(c))
			}
			em, err := d.DecodeMapLen()
			if err != nil {
				return nil, "malformed:environment", fmt.Sprintf("environment map header: %v", err)
			}
			for j := 0; j < em; j++ {
				ekb, key, msg := er.str("environment-key")
				if key != "" {
					return nil, key, fmt.Sprintf("environment entry %d of %d: %s", j, em, msg)
				}
				evb, key, msg := er.str("environment-value")
				if key != "" {
					return nil, key, fmt.Sprintf("environment[%q]: %s", clipS(string(ekb)), msg)
				}
				ev.env = append(ev.env, kv{string(ekb), evb})
			}
			continue
		}
		vb, key, msg := er.str("record-value")
		if key != "" {
			return nil, key, fmt.Sprintf("record[%q]: %s", clipS(k), msg)
		}
		ev.top = append(ev.top, kv{k, vb})
	}
	ev.consumed = len(b) - r.Len()
	return ev, "", ""
}

func clipS(s string) string {
	if len(s) > 48 {
		return fmt.Sprintf("%s...(%d bytes)", s[:48], len(s))
	}
	return s
}

func describeDiff(got, want string) string {
	i := 0
	for i < len(got) && i < len(want) && got[i] == want[i] {
		i++
	}
	win := func(s string) string {
		lo, hi := i-8, i+16
		if lo < 0 {
			lo = 0
		}
		if hi > len(s) {
			hi = len(s)
		}
		return fmt.Sprintf("%q", s[lo:hi])
	}
	return fmt.Sprintf("got %d bytes, want %d bytes; first difference at offset %d: got ...%s, want ...%s", len(got), len(want), i, win(got), win(want))
}

func matchAny(acc []parts, got []byte) bool {
	for _, a := range acc {
		if a.equal(got) {
			return true
		}
	}
	return false
}

// ---------------------------------------------------------------------------------------------------------------
// one record through the serializer

// recSpec is one record of a case
type recSpec struct {
	a, b      *value
	host      *value // nil: the fixed value "h"; else the value of the environment field "host"
	unescaped bool
	ts        stamp
}

// What happens between the return of SerializeRecord and the reading of the stream. "Output LogStream is transient and
// only usable before the next call" (base.LogSerializer) - the next call of THAT serializer; "The string values inside
// are temporary and only valid until record is released" (base.LogRecord) - and the pipeline releases the record right
// after SerializeRecord, before the stream is copied into the chunk.
const (
	mRecycled  = 1 << iota // the field values alias a recycled record buffer, overwritten as soon as SerializeRecord has returned
	mOtherSame             // another serializer of the same configuration (another pipeline) serializes a record
	mOtherDiff             // a serializer of a different configuration (another output) serializes a record
	mNewSer                // a new serializer of the same configuration is created (a pipeline starts) and serializes a record
)

func modeName(m int) string {
	var s []string
	for i, n := range []string{"input-buffer-recycled", "other-serializer-same-config", "other-serializer-other-config", "new-serializer"} {
		if m&(1<<i) != 0 {
			s = append(s, n)
		}
	}
	if len(s) == 4 {
		return "all"
	}
	return strings.Join(s, "+")
}

// recycleBuf is the one record buffer of a worker process: every record of the recycled mode is laid out in it
var recycleBuf = make([]byte, 0, defs.InputLogMaxRecordBytes)

var otherSer base.LogSerializer

// otherSerializer is a serializer of an unrelated configuration (3 fields, "log" rewritten by unescape)
func otherSerializer() base.LogSerializer {
	if otherSer == nil {
		schema := base.MustNewLogSchema([]string{"host", "log", "secret"})
		cfg := &fluentdforward.Config{
			Serialization: fluentdforward.SerializationConfig{
				EnvironmentFields: []string{"host"},
				HiddenFields:      []string{"secret"},
				RewriteFields:     map[string][]bconfig.LogRewriterConfigHolder{"log": {holder(&runescape.Config{})}},
			},
			MessageMode: forwardprotocol.ModePackedForward,
			Upstream:    fluentdforward.UpstreamConfig{Address: "localhost:24224", MaxDuration: time.Minute},
		}
		if err := cfg.VerifyConfig(schema); err != nil {
			panic(err)
		}
		otherSer = cfg.NewSerializer(logger.Root(), schema, "other")
	}
	return otherSer
}

func (st *setup) materialize(spec *recSpec) (fields, un []string, raw int) {
	fields = make([]string, len(st.fill))
	un = make([]string, len(st.fill))
	copy(fields, st.fill)
	copy(un, st.fillUn)
	fields[st.idxA], un[st.idxA] = spec.a.s, spec.a.un
	fields[st.idxB], un[st.idxB] = spec.b.s, spec.b.un
	if spec.host != nil {
		fields[st.hostIdx], un[st.hostIdx] = spec.host.s, spec.host.un
	}
	for _, s := range fields {
		raw += len(s)
	}
	if raw > defs.InputLogMaxRecordBytes {
		panic("harness bug: record larger than the configured record limit")
	}
	return fields, un, raw
}

// bound is an upper bound of the size of the event (every value once, once more for each inline step that refers to it,
// keys and headers): the buffer is poisoned up to it
func (st *setup) bound(fields []string, raw int) int {
	bound := raw + 2*st.keyBytes + 8*len(st.names) + 256
	for i := range st.specs {
		if c := st.specs[i].chain; c != nil {
			for _, j := range c.inl {
				bound += len(fields[j]) + len(st.names[j]) + 2
			}
		}
	}
	return bound
}

// call serializes one record and returns the stream, NOT copied: it is read in place after the events of the mode
func (st *setup) call(ser base.LogSerializer, values []string, raw int, spec *recSpec, mode int, bound int) []byte {
	fields := make(base.LogFields, len(values))
	var used []byte
	if mode&mRecycled != 0 {
		used = recycleBuf[:0]
		for i, s := range values {
			if s == "" {
				continue
			}
			off := len(used)
			used = append(used, s...)
			fields[i] = unsafe.String(&used[off], len(s))
		}
		if len(used) > cap(recycleBuf) {
			panic("harness bug: record buffer reallocated")
		}
	} else {
		for i, s := range values {
			fields[i] = s
		}
	}
	record := &base.LogRecord{Fields: fields, RawLength: raw, Timestamp: spec.ts.time(), Unescaped: spec.unescaped}
	out := []byte(ser.SerializeRecord(record))
	if mode&mRecycled != 0 {
		copy(used, poisonBytes) // released: the buffer belongs to the next record now
		for i := range fields {
			fields[i] = ""
		}
	}
	if mode&mOtherSame != 0 {
		if st.ser2 == nil {
			st.ser2 = st.newSerializer()
		}
		st.ser2.SerializeRecord(st.poisonRecord(bound))
	}
	if mode&mOtherDiff != 0 {
		n := bound
		if n > len(poisonBytes) {
			n = len(poisonBytes)
		}
		otherSerializer().SerializeRecord(&base.LogRecord{Fields: base.LogFields{poisonBytes[:n], "", ""}, RawLength: n, Timestamp: time.Unix(0, 0)})
	}
	if mode&mNewSer != 0 {
		st.newSerializer().SerializeRecord(st.poisonRecord(bound))
	}
	return out
}

// ---------------------------------------------------------------------------------------------------------------
// comparison of one stream with the expectation

func (st *setup) roleOf(name string) string {
	if i, ok := st.index[name]; ok {
		return st.specs[i].label
	}
	return "unknown-key"
}

func (st *setup) verify(out []byte, ex *expectation, fields, un []string, unescaped bool, bound int) (string, string) {
	if len(out) == 0 {
		return "empty-output", "SerializeRecord returned an empty stream for a record within the configured limits"
	}
	if len(out) > bound {
		return "harness:poison-bound", fmt.Sprintf("output of %d bytes exceeds the harness's bound %d", len(out), bound)
	}
	ev, key, msg := decodeEvent(out)
	if key != "" {
		return key, fmt.Sprintf("%s (stream of %d bytes, head % x)", msg, len(out), out[:min(len(out), 24)])
	}
	if ev.consumed != len(out) {
		return "trailing-bytes", fmt.Sprintf("the event ends after %d bytes but the stream has %d", ev.consumed, len(out))
	}
	if ev.secs != ex.secs || ev.nanos != ex.nanos {
		return "time:mismatch", fmt.Sprintf("EventTime decodes to %d.%09d, the record's timestamp is %d.%09d", ev.secs, ev.nanos, ex.secs, ex.nanos)
	}
	// top-level fields
	seen := make(map[string]bool, len(ev.top))
	for _, p := range ev.top {
		if seen[p.k] {
			return "fields:duplicate-key", fmt.Sprintf("key %q appears twice in the record map", clipS(p.k))
		}
		seen[p.k] = true
		acc, ok := ex.top[p.k]
		if !ok {
			return "fields:unexpected:" + st.roleOf(p.k), fmt.Sprintf("key %q (%d-byte value) is emitted but is not a visible field of the record", clipS(p.k), len(p.v))
		}
		if !matchAny(acc, p.v) {
			i := st.index[p.k]
			f := &st.specs[i]
			k := "value:" + f.label
			if f.chain != nil && f.chain.term == rUnescape && !unescaped {
				// classify: the field was copied escaped although the record was not marked unescaped
				if matchAny(st.rewritten(f.chain, i, fields, un, true), p.v) {
					k = "value:unescape-skipped:" + f.label
					for j := 0; j < i; j++ {
						if e := &st.specs[j]; e.base == rPlain && e.chain != nil && e.chain.term == rUnescape && fields[j] != "" {
							k = "value:unescape-skipped-after-earlier-unescape-field"
							break
						}
					}
				}
			}
			return k, fmt.Sprintf("field %q: %s", clipS(p.k), describeDiff(string(p.v), acc[0].join()))
		}
	}
	for k := range ex.top {
		if !seen[k] {
			return "fields:missing:" + st.roleOf(k), fmt.Sprintf("visible field %q (%d bytes expected) is missing from the record map", clipS(k), ex.top[k][0].size())
		}
	}
	// environment
	if ev.envCount != 1 {
		return "env:count", fmt.Sprintf("the record map has %d \"environment\" entries, want exactly 1", ev.envCount)
	}
	seenEnv := make(map[string]bool, len(ev.env))
	for _, p := range ev.env {
		if seenEnv[p.k] {
			return "env:duplicate-key", fmt.Sprintf("environment key %q appears twice", clipS(p.k))
		}
		seenEnv[p.k] = true
		want, ok := ex.env[p.k]
		if !ok {
			want, ok = ex.envOpt[p.k]
		}
		if !ok {
			return "env:unexpected:" + st.roleOf(p.k), fmt.Sprintf("environment key %q is not an environment field", clipS(p.k))
		}
		if want != string(p.v) {
			return "env:value:" + st.roleOf(p.k), fmt.Sprintf("environment field %q: %s", clipS(p.k), describeDiff(string(p.v), want))
		}
	}
	for k := range ex.env {
		if !seenEnv[k] {
			return "env:missing:" + st.roleOf(k), fmt.Sprintf("environment field %q (value of %d bytes) is missing from the nested map", clipS(k), len(ex.env[k]))
		}
	}
	// second, fully independent reading: fluentlib's reference EventEntry (what the Fluentd test server decodes)
	var entry forwardprotocol.EventEntry
	if err := msgpack.Unmarshal(out, &entry); err != nil {
		return "fluentlib:decode-error", fmt.Sprintf("forwardprotocol.EventEntry cannot decode the event: %v", err)
	}
	if entry.Time.Unix() != int64(ex.secs) || int64(entry.Time.Nanosecond()) != int64(ex.nanos) {
		return "fluentlib:time", fmt.Sprintf("EventEntry.Time = %d.%09d, want %d.%09d", entry.Time.Unix(), entry.Time.Nanosecond(), ex.secs, ex.nanos)
	}
	if len(entry.Record) != len(ex.top)+1 {
		return "fluentlib:record-size", fmt.Sprintf("EventEntry.Record has %d keys, want %d", len(entry.Record), len(ex.top)+1)
	}
	for k, acc := range ex.top {
		got, _ := entry.Record[k].(string)
		if !matchAny(acc, []byte(got)) {
			return "fluentlib:value", fmt.Sprintf("EventEntry.Record[%q]: %s", clipS(k), describeDiff(got, acc[0].join()))
		}
	}
	envMap, ok := entry.Record["environment"].(map[string]interface{})
	if !ok || len(envMap) != len(ev.env) {
		return "fluentlib:environment", fmt.Sprintf("EventEntry.Record[environment] = %T with %d keys, want a map with %d keys", entry.Record["environment"], len(envMap), len(ev.env))
	}
	for k, want := range ex.env {
		if got, _ := envMap[k].(string); got != want {
			return "fluentlib:environment", fmt.Sprintf("environment[%q]: %s", clipS(k), describeDiff(got, want))
		}
	}
	return "", ""
}

// cover counts which branches of the encoder a (passed) record reached: vacuity counters
func (st *setup) cover(ctx *seq.Ctx, ex *expectation, fields []string, unescaped bool) {
	cover := func(name string) { ctx.Groups["cover:"+name]++ }
	switch n := len(st.names) + 1; {
	case n < 16:
		cover("root-fixmap")
	case n <= 32:
		cover("root-map16")
	case n <= 64:
		cover("root-map16-33..64-fields")
	default:
		cover("root-map16-over-64-fields")
	}
	if len(ex.env)+len(ex.envOpt) < 16 {
		cover("env-fixmap")
	} else {
		cover("env-map16")
	}
	for i := range st.specs {
		f := &st.specs[i]
		v := fields[i]
		if f.chain == nil || f.base != rPlain || v == "" {
			continue
		}
		reserved := len(v)
		npresent := 0
		for _, j := range f.chain.inl {
			if fields[j] != "" {
				reserved += len(st.names[j]) + 2 + len(fields[j])
				npresent++
			}
		}
		switch {
		case npresent > 1:
			cover("inline-prefixes-2-or-more")
		case npresent == 1:
			cover("inline-prefix-present")
		case len(f.chain.inl) > 0:
			cover("inline-prefix-absent")
		}
		if i > 1 && i < len(st.specs)-2 {
			cover("rewritten-filler-field")
		}
		actual := ex.top[f.name][0].size()
		switch {
		case reserved >= 65536 && actual < 65536:
			cover("rewrite-reserved-str32-actual<65536")
		case reserved >= 65536:
			cover("rewrite-reserved-str32")
		case actual != reserved:
			cover("rewrite-str16-shrunk")
		default:
			cover("rewrite-str16-same-length")
		}
		if f.chain.term == rUnescape && unescaped {
			cover("unescape-skipped-by-flag")
		}
	}
}

// check is the single-record case: serializer buffer poisoned, one record, the events of the mode, comparison
func (st *setup) check(ctx *seq.Ctx, spec *recSpec, mode int) (string, string) {
	fields, un, raw := st.materialize(spec)
	ex := st.expected(fields, un, spec.unescaped, spec.ts)
	bound := st.bound(fields, raw)
	out := st.call(st.prepare(bound), fields, raw, spec, mode, bound)
	key, msg := st.verify(out, ex, fields, un, spec.unescaped, bound)
	if key == "" {
		st.cover(ctx, ex, fields, spec.unescaped)
		return "", ""
	}
	if mode != 0 {
		// classify: is the same record right when nothing happens between the call and the reading of the stream?
		out = st.call(st.prepare(bound), fields, raw, spec, 0, bound)
		if k2, _ := st.verify(out, ex, fields, un, spec.unescaped, bound); k2 == "" {
			return "alias:" + modeName(mode) + ":" + key, "the stream is right when read at once, but not after [" + modeName(mode) + "]: " + msg
		}
	}
	return key, msg
}

// checkHistory runs a sequence of records through ONE serializer with nothing in between (the buffer is poisoned before
// the first record only); every record is laid out in the same recycled record buffer, as the pooled records of the agent
func (st *setup) checkHistory(ctx *seq.Ctx, recs []*recSpec) (string, string) {
	type built struct {
		fields, un []string
		raw        int
		ex         *expectation
	}
	bs := make([]built, len(recs))
	bound := 0
	for k, r := range recs {
		b := &bs[k]
		b.fields, b.un, b.raw = st.materialize(r)
		b.ex = st.expected(b.fields, b.un, r.unescaped, r.ts)
		if n := st.bound(b.fields, b.raw); n > bound {
			bound = n
		}
	}
	ser := st.prepare(bound)
	for k, r := range recs {
		b := &bs[k]
		out := st.call(ser, b.fields, b.raw, r, mRecycled, bound)
		key, msg := st.verify(out, b.ex, b.fields, b.un, r.unescaped, bound)
		if key == "" {
			st.cover(ctx, b.ex, b.fields, r.unescaped)
			continue
		}
		if k > 0 {
			// classify: is the same record right when it is the first one?
			out = st.call(st.prepare(bound), b.fields, b.raw, r, mRecycled, bound)
			if k2, _ := st.verify(out, b.ex, b.fields, b.un, r.unescaped, bound); k2 == "" {
				return "history:" + key, fmt.Sprintf("record %d of the sequence is right when serialized first, but not after its predecessors: %s", k+1, msg)
			}
		}
		return key, fmt.Sprintf("record %d of the sequence: %s", k+1, msg)
	}
	return "", ""
}

func min(a, b int) int {
	if a < b {
		return a
	}
	return b
}

// ---------------------------------------------------------------------------------------------------------------
// enumeration

// selector spreads the enumeration over numPasses passes: unit number n (a whole setup = configuration; in the sweep and
// history groups, which have few setups, a row of values) is evaluated in pass n mod numPasses. Every pass walks all groups, so a run cut by the deadline has
// thinned every group instead of having dropped the last ones. The sequence of take() calls is the same in every pass.
type selector struct{ pass, n int }

const numPasses = 8

func (s *selector) take() bool {
	s.n++
	return s.n%numPasses == s.pass
}

type domain struct {
	thorough bool
	values   []*value // lengths x content classes
	small    []*value
	tss      []stamp
	vstamp   []bool // the two timestamps of the big value product
	subjects []sweepSubject
	empty    *value
	limit    map[string]*value // values of the limit group, built on demand
}

func enumerate(ctx *seq.Ctx) {
	d := &domain{thorough: ctx.Thorough(), empty: mkValue("0:ascii", ""), limit: map[string]*value{}}
	classes := contentClasses(d.thorough)
	d.values = buildValues(classes)
	for _, v := range d.values {
		if v.small {
			d.small = append(d.small, v)
		}
	}
	d.tss = stamps(d.thorough)
	for _, ts := range d.tss {
		// timestamps of the big value product: ns=999999999 and the first second after the 2038 boundary
		d.vstamp = append(d.vstamp, ts.name == "ns999999999" || ts.name == "2038-first")
	}
	d.subjects = sweepSubjects()
	ctx.Note("domain", fmt.Sprintf("9 layouts x %d x %d roles x 2 flags; %d timestamps; %d lengths x %d content classes; %d passes", numRoles, numRoles, len(d.tss), len(lengthClasses), len(classes), numPasses))
	for pass := 0; pass < numPasses; pass++ {
		sel := &selector{pass: pass}
		for _, group := range []func(*seq.Ctx, *selector) bool{d.envmap, d.overlap, d.sweep, d.chains, d.history, d.alias, d.wide, d.inlineSum, d.atLimit, d.product} {
			if !group(ctx, sel) {
				return
			}
		}
	}
}

func bname(r role) string { return roleNames[r] }

// pairs runs the cases A x B x Unescaped of one setup at one timestamp in one mode
func (d *domain) pairs(ctx *seq.Ctx, st *setup, prefix string, as, bs []*value, ts stamp, mode int, roleA, roleB role) {
	for ui := 0; ui < 2; ui++ {
		for _, a := range as {
			for _, b := range bs {
				if !ctx.Mine() {
					ctx.Skip()
					continue
				}
				id := fmt.Sprintf("%s/A=%s:%s/B=%s:%s/u%d", prefix, bname(roleA), a.name, bname(roleB), b.name, ui)
				nontrivial := (a.s != "" && roleA.base() != rHidden) || (b.s != "" && roleB.base() != rHidden)
				spec := &recSpec{a: a, b: b, unescaped: ui == 1, ts: ts}
				ctx.Case(id, nontrivial, id, func() (string, string) { return st.check(ctx, spec, mode) })
			}
		}
	}
}

// ---- environment maps on both sides of the fixmap boundary (15 / 16 / 17 environment fields): layouts of 27-30 named
// fields whose extra fields are all environment fields; reduced value set for A and B (lengths 0, 1, 16, 65536)
func (d *domain) envmap(ctx *seq.Ctx, sel *selector) bool {
	for _, nf := range []int{27, 28, 29, 30} { // 3 environment fillers among the first 16 + (nf-16) extra ones = 14..17, +1 for each of A, B that is an environment field
		for _, ra := range []role{rPlain, rEnv, rInlineUnescape} {
			for _, rb := range []role{rPlain, rEnv, rHidden} {
				if ctx.Stop() {
					return false
				}
				if !sel.take() {
					continue
				}
				st := newSetup(layout{nfields: nf}, ra, rb)
				nenv := 0
				for _, f := range st.specs {
					if f.base == rEnv {
						nenv++
					}
				}
				ctx.Group(fmt.Sprintf("envmap/%d-environment-fields", nenv))
				d.pairs(ctx, st, fmt.Sprintf("envmap/s%d", nf), d.small, d.small, d.tss[3], 0, ra, rb)
			}
		}
	}
	return true
}

// ---- overlapping roles: a field listed as environment / hidden field that ALSO has a rewriter chain, or listed as both
// environment and hidden field, against every role of the other field; layouts 3 and 16 (+2 reserved), small value set
func (d *domain) overlap(ctx *seq.Ctx, sel *selector) bool {
	for _, lay := range []layout{{nfields: 3, reserved: 2}, {nfields: 16, reserved: 2}} {
		for ra := role(0); ra < numAllRoles; ra++ {
			for rb := role(0); rb < numAllRoles; rb++ {
				if ra == numRoles || rb == numRoles || !(ra.overlapped() || rb.overlapped()) {
					continue
				}
				if ctx.Stop() {
					return false
				}
				if !sel.take() {
					continue
				}
				st := newSetup(lay, ra, rb)
				ctx.Group("overlap/" + lay.String())
				d.pairs(ctx, st, "overlap/"+lay.String(), d.small, d.small, d.tss[3], 0, ra, rb)
			}
		}
	}
	return true
}

// ---- byte sweep: all 256 byte values (and five whole multi-byte characters) as ordinary content, as the second byte of
// an escape sequence, and as the second byte of the escape sequence that ends the value - in every role of A, with B
// absent / present / inlining A (so the swept value is also an inlined prefix)
func (d *domain) sweep(ctx *seq.Ctx, sel *selector) bool {
	lengths := []int{1, 2, 3, 17, 255}
	type rolePair struct {
		lay    layout
		ra, rb role
	}
	var rps []rolePair
	for ra := role(0); ra < numRoles; ra++ {
		for rb := role(0); rb < numRoles; rb++ {
			if d.thorough || rb == rPlain || rb == rInlineUnescape {
				rps = append(rps, rolePair{layout{nfields: 3}, ra, rb})
			}
			if d.thorough && (rb == rPlain || rb == rInlineUnescape) {
				rps = append(rps, rolePair{layout{nfields: 16}, ra, rb})
			}
		}
	}
	if d.thorough {
		lengths = []int{1, 2, 3, 15, 16, 17, 31, 32, 255, 256, 65535, 65536, 65537}
	}
	setups := make([]*setup, len(rps)) // all alive during the group: the values are the outer loop
	bvals := []*value{d.empty, mkValue("3:cls", "cls")}
	ctx.Group("sweep")
	for _, sub := range d.subjects {
		for _, pat := range sweepPatterns {
			if pat.thorough && !d.thorough {
				continue
			}
			for _, n := range lengths {
				if n < 1+len(sub.b) && pat.name != "raw" {
					continue // no room for an escape sequence: the value would not depend on the subject
				}
				if ctx.Stop() {
					return false
				}
				if !sel.take() {
					continue
				}
				var a *value
				for si, rp := range rps {
					for _, b := range bvals {
						for ui := 0; ui < 2; ui++ {
							if !ctx.Mine() {
								ctx.Skip()
								continue
							}
							if a == nil {
								a = mkValue(fmt.Sprintf("%d:%s-%s", n, pat.name, sub.name), pat.gen(sub.b, n))
								if len(a.s) != n {
									panic("harness bug: sweep value of the wrong length")
								}
							}
							if setups[si] == nil {
								setups[si] = newSetup(rp.lay, rp.ra, rp.rb)
							}
							st := setups[si]
							id := fmt.Sprintf("sweep/%s/A=%s:%s/B=%s:%s/u%d", rp.lay, bname(rp.ra), a.name, bname(rp.rb), b.name, ui)
							spec := &recSpec{a: a, b: b, unescaped: ui == 1, ts: d.tss[3]}
							ctx.Case(id, rp.ra != rHidden, id, func() (string, string) { return st.check(ctx, spec, 0) })
						}
					}
				}
			}
		}
	}
	return true
}

// ---- rewriter chains: every chain of 0..3 (thorough: the first candidate set up to 4) "inline" steps over a set of
// candidate fields + the terminating copy / unescape, on the first field and on a filler field with a 16-byte key; the
// candidates are B (any value, empty included), a hidden non-empty field, a plain field with a 16-byte key and the
// rewritten field itself (thorough: + empty and non-empty environment field, empty hidden field, 256-byte key with a
// multi-byte value, a plain field holding escape sequences). Plus setups with five rewritten fields at once.
func (d *domain) chains(ctx *seq.Ctx, sel *selector) bool {
	lay := layout{nfields: 16}
	probe := newSetup(lay, rPlain, rPlain)
	idx := func(prefix string) int {
		for i, n := range probe.names {
			if n == prefix || strings.HasPrefix(n, prefix+"_") {
				return i
			}
		}
		panic("harness bug: no filler " + prefix)
	}
	type cand struct {
		name string
		idx  int // -1: the rewritten field itself
	}
	cands := []cand{{"B", 1}, {"task", idx("task")}, {"k16", idx("k16")}, {"self", -1}}
	maxLen := 3
	if d.thorough {
		cands = append(cands, cand{"vhost", idx("vhost")}, cand{"host", idx("host")}, cand{"pnum", idx("pnum")}, cand{"k256", idx("k256")}, cand{"raw", idx("raw")})
	}
	type owner struct {
		name string
		idx  int
	}
	owners := []owner{{"A", 0}, {"k16", idx("k16")}}
	if d.thorough {
		owners = append(owners, owner{"B", 1}, owner{"k256", idx("k256")}, owner{"raw", idx("raw")})
	}
	ctx.Group("chains")
	run := func(own owner, rb role, term role, seqn []int, cs []cand) {
		inl := make([]int, len(seqn))
		names := make([]string, len(seqn))
		for k, c := range seqn {
			inl[k] = cs[c].idx
			if inl[k] < 0 {
				inl[k] = own.idx
			}
			names[k] = cs[c].name
		}
		ch := &chainSpec{inl, term}
		st := newSetupWith(lay, rPlain, rb, func(specs []fieldSpec, _, _ int) {
			f := &specs[own.idx]
			f.base, f.chain = rPlain, ch
			f.label = own.name + ":" + chainLabel(ch)
		})
		prefix := fmt.Sprintf("chains/%s/%s=[%s]+%s", lay, own.name, strings.Join(names, ","), chainLabel(ch)[3:])
		d.pairs(ctx, st, prefix, d.small, d.small, d.tss[3], 0, rPlain, rb)
	}
	// walk enumerates the sequences of minLen..maxLen candidates that extend seqn
	var walk func(own owner, rb, term role, cs []cand, minLen, maxLen int, seqn []int) bool
	walk = func(own owner, rb, term role, cs []cand, minLen, maxLen int, seqn []int) bool {
		if ctx.Stop() {
			return false
		}
		if len(seqn) >= minLen && sel.take() {
			run(own, rb, term, seqn, cs)
		}
		if len(seqn) == maxLen {
			return true
		}
		for c := range cs {
			if !walk(own, rb, term, cs, minLen, maxLen, append(seqn[:len(seqn):len(seqn)], c)) {
				return false
			}
		}
		return true
	}
	for _, own := range owners {
		for _, rb := range []role{rPlain, rHidden} {
			if rb == rHidden && (own.idx == 1 || (own.idx != 0 && !d.thorough)) {
				continue
			}
			for _, term := range []role{rCopy, rUnescape} {
				if !walk(own, rb, term, cands, 0, maxLen, nil) {
					return false
				}
				if d.thorough && own.idx == 0 { // chains of exactly 4 steps over the first four candidates (shorter ones are enumerated above)
					if !walk(own, rb, term, cands[:4], 4, 4, nil) {
						return false
					}
				}
			}
		}
	}
	// five rewritten fields at once, in all assignments of copy / unescape to the terminators of three of them
	for mask := 0; mask < 8; mask++ {
		if ctx.Stop() {
			return false
		}
		if !sel.take() {
			continue
		}
		term := func(bit int) role {
			if mask&(1<<bit) != 0 {
				return rUnescape
			}
			return rCopy
		}
		k16, k256, raw := idx("k16"), idx("k256"), idx("raw")
		st := newSetupWith(lay, rInlineUnescape, rUnescape, func(specs []fieldSpec, _, _ int) {
			set := func(i int, name string, ch *chainSpec) {
				specs[i].chain, specs[i].label = ch, name+":"+chainLabel(ch)
			}
			set(k16, "k16", &chainSpec{[]int{0, 1}, term(0)})
			set(k256, "k256", &chainSpec{[]int{raw}, term(1)})
			set(raw, "raw", &chainSpec{nil, term(2)})
		})
		d.pairs(ctx, st, fmt.Sprintf("chains/%s/five-rewritten-fields/m%d", lay, mask), d.small, d.small, d.tss[3], 0, rInlineUnescape, rUnescape)
	}
	return true
}

// ---- histories: every ordered pair (thorough: also every triple of a reduced set) of records through one serializer
// with nothing between them. The records differ in timestamp (same second / millisecond / microsecond, next second with
// the same nanoseconds), in the values of A and B (empty, short, escaped, long), in the value of an environment field and
// in the Unescaped flag; each is compared with the model.
func (d *domain) history(ctx *seq.Ctx, sel *selector) bool {
	avals := []*value{d.empty, mkValue("1:a", "a"), mkValue("8:esc", `x\ny\\z\`), mkValue("17:ascii", ascii(17)), mkValue("300:ascii", ascii(300))}
	bvals := []*value{d.empty, mkValue("2:C1", "C1")}
	hvals := []*value{mkValue("1:h", "h"), d.empty}
	tss := historyStamps[:4]
	if d.thorough {
		tss = historyStamps
	}
	type rec struct {
		name string
		spec *recSpec
	}
	var recs, recs3 []rec
	for ti, ts := range tss {
		for ai, a := range avals {
			for bi, b := range bvals {
				for hi, h := range hvals {
					for ui := 0; ui < 2; ui++ {
						r := rec{fmt.Sprintf("t%da%db%dh%du%d", ti, ai, bi, hi, ui), &recSpec{a: a, b: b, host: h, unescaped: ui == 1, ts: ts}}
						recs = append(recs, r)
						if ti < 3 && ai%2 == 0 && bi == 1 && hi == 0 {
							recs3 = append(recs3, r)
						}
					}
				}
			}
		}
	}
	for _, lay := range []layout{{nfields: 3}, {nfields: 16}} {
		for ra := role(0); ra < numRoles; ra++ {
			for rb := role(0); rb < numRoles; rb++ {
				if lay.nfields == 3 && !d.thorough && (rb == rCopy || rb == rUnescape || rb == rInlineCopy) {
					continue
				}
				if lay.nfields == 16 && !((ra == rPlain || ra == rInlineUnescape) && (rb == rPlain || rb == rHidden)) {
					continue
				}
				var st *setup
				get := func() *setup {
					if st == nil {
						st = newSetup(lay, ra, rb)
					}
					return st
				}
				ctx.Group("history/" + lay.String())
				for _, x := range recs {
					if ctx.Stop() {
						return false
					}
					if !sel.take() {
						continue
					}
					for _, y := range recs {
						if !ctx.Mine() {
							ctx.Skip()
							continue
						}
						id := fmt.Sprintf("history/%s/A=%s/B=%s/%s>%s", lay, bname(ra), bname(rb), x.name, y.name)
						seqn := []*recSpec{x.spec, y.spec}
						ctx.Case(id, true, id, func() (string, string) { return get().checkHistory(ctx, seqn) })
					}
				}
				if !d.thorough {
					continue
				}
				ctx.Group("history3/" + lay.String())
				for _, x := range recs3 {
					for _, y := range recs3 {
						if ctx.Stop() {
							return false
						}
						if !sel.take() {
							continue
						}
						for _, z := range recs3 {
							if !ctx.Mine() {
								ctx.Skip()
								continue
							}
							id := fmt.Sprintf("history3/%s/A=%s/B=%s/%s>%s>%s", lay, bname(ra), bname(rb), x.name, y.name, z.name)
							seqn := []*recSpec{x.spec, y.spec, z.spec}
							ctx.Case(id, true, id, func() (string, string) { return get().checkHistory(ctx, seqn) })
						}
					}
				}
			}
		}
	}
	return true
}

// ---- what happens between the call and the reading of the stream: the record buffer recycled, another serializer of the
// same / of another configuration at work - each alone - and all of these together with a new serializer created
func (d *domain) alias(ctx *seq.Ctx, sel *selector) bool {
	modes := []int{mRecycled, mOtherSame, mOtherDiff, mRecycled | mOtherSame | mOtherDiff | mNewSer}
	for _, lay := range []layout{{nfields: 3}, {nfields: 16}} {
		for ra := role(0); ra < numRoles; ra++ {
			for rb := role(0); rb < numRoles; rb++ {
				if ctx.Stop() {
					return false
				}
				if !sel.take() {
					continue
				}
				st := newSetup(lay, ra, rb)
				ctx.Group("alias/" + lay.String())
				for _, m := range modes {
					d.pairs(ctx, st, fmt.Sprintf("alias/%s/%s", modeName(m), lay), d.small, d.small, d.tss[3], m, ra, rb)
				}
			}
		}
	}
	return true
}

// ---- wide schemas: 32..34 and 64..66 named fields (thorough: + 31, 63, 127..129, 255..258, 300), the distinguished fields LAST, so that
// hidden / environment / rewritten / plain fields sit at indices beyond 31 and 63 (and 255) and the record map has more
// than 32 / 64 entries; the fillers repeat the 14 fixed ones (hidden non-empty "task" at indices 2, 16, 30, 44, 58, ...)
func (d *domain) wide(ctx *seq.Ctx, sel *selector) bool {
	sizes := []int{32, 33, 34, 64, 65, 66} // A, B at indices 30,31 / 31,32 / 32,33 and 62,63 / 63,64 / 64,65
	if d.thorough {
		sizes = append(sizes, 31, 63, 127, 128, 129, 255, 256, 257, 258, 300)
	}
	for _, nf := range sizes {
		lay := layout{nfields: nf, tail: true}
		for ra := role(0); ra < numRoles; ra++ {
			for rb := role(0); rb < numRoles; rb++ {
				if ctx.Stop() {
					return false
				}
				if !sel.take() {
					continue
				}
				st := newSetup(lay, ra, rb)
				ctx.Group("wide/" + lay.String())
				d.pairs(ctx, st, "wide/"+lay.String(), d.small, d.small, d.tss[3], 0, ra, rb)
			}
		}
	}
	return true
}

// ---- rewritten lengths that reach the str16 / str32 boundary only as a sum: len("class=") + len(B) + len(" ") + len(A)
// = 65534 .. 65537 (A rewritten by [inline B, copy | unescape]), for several splits and contents that shrink or do not
func (d *domain) inlineSum(ctx *seq.Ctx, sel *selector) bool {
	contents := []contentClass{
		{"ascii", ascii},
		{"dense-esc-6e", func(n int) string { return repeatTo(`\nz`, n) }},
		{"one-esc-end", func(n int) string {
			if n < 2 {
				return repeatTo(`\`, n)
			}
			return ascii(n-2) + `\t`
		}},
	}
	for _, lay := range []layout{{nfields: 3}, {nfields: 16}} {
		for _, ra := range []role{rInlineCopy, rInlineUnescape} {
			for _, rb := range []role{rPlain, rHidden, rEnv} {
				if ctx.Stop() {
					return false
				}
				if !sel.take() {
					continue
				}
				st := newSetup(lay, ra, rb)
				ctx.Group("inline-sum")
				for _, sum := range []int{65534, 65535, 65536, 65537} {
					for _, nb := range []int{1, 16, 255, 32768, 65000} {
						na := sum - nb - len(nameB) - 2
						for _, ca := range contents {
							for _, cb := range contents[:2] {
								for ui := 0; ui < 2; ui++ {
									if !ctx.Mine() {
										ctx.Skip()
										continue
									}
									a := mkValue(fmt.Sprintf("%d:%s", na, ca.name), ca.gen(na))
									b := mkValue(fmt.Sprintf("%d:%s", nb, cb.name), cb.gen(nb))
									id := fmt.Sprintf("inline-sum/%s/S=%d/A=%s:%s/B=%s:%s/u%d", lay, sum, bname(ra), a.name, bname(rb), b.name, ui)
									spec := &recSpec{a: a, b: b, unescaped: ui == 1, ts: d.tss[3]}
									ctx.Case(id, true, id, func() (string, string) { return st.check(ctx, spec, 0) })
								}
							}
						}
					}
				}
			}
		}
	}
	return true
}

// ---- records AT the documented record limit (defs.InputLogMaxRecordBytes, "the maximum length of a log record from
// input"): the sum of the field values is exactly the limit (thorough: also limit-1 and half the limit), split between A
// and B in seven ways, in every role pair. A record within the limit whose event needs more than twice the limit (an
// inlined field that is also output itself, both nearly as long as the limit) is reported under its own key.
func (d *domain) atLimit(ctx *seq.Ctx, sel *selector) bool {
	limit := defs.InputLogMaxRecordBytes
	totals := []int{limit}
	if d.thorough {
		totals = append(totals, limit-1, limit/2)
	}
	contents := []contentClass{
		{"ascii", ascii},
		{"dense-esc-6e", func(n int) string { return repeatTo(`\nz`, n) }},
		{"only-backslashes", func(n int) string { return repeatTo(`\`, n) }},
	}
	lay := layout{nfields: 3}
	val := func(n int, c contentClass) *value {
		name := fmt.Sprintf("%d:%s", n, c.name)
		v := d.limit[name]
		if v == nil {
			v = mkValue(name, c.gen(n))
			d.limit[name] = v
		}
		return v
	}
	defer func() { d.limit = map[string]*value{} }() // 1 MiB values: not kept beyond the group
	for ra := role(0); ra < numRoles; ra++ {
		for rb := role(0); rb < numRoles; rb++ {
			if ctx.Stop() {
				return false
			}
			if !sel.take() {
				continue
			}
			st := newSetup(lay, ra, rb)
			st.freshSer = true
			ctx.Group("limit")
			for _, total := range totals {
				rem := total - len(st.fill[st.hostIdx])
				splits := []struct {
					name string
					na   int
				}{{"all-0", rem}, {"0-all", 0}, {"1-1", rem / 2}, {"1-2", rem / 3}, {"2-1", rem - rem/3}, {"1-rest", 1}, {"rest-1", rem - 1}}
				for _, sp := range splits {
					for _, c := range contents {
						for ui := 0; ui < 2; ui++ {
							if !ctx.Mine() {
								ctx.Skip()
								continue
							}
							a, b := val(sp.na, c), val(rem-sp.na, c)
							id := fmt.Sprintf("limit/%d/%s/A=%s:%s/B=%s:%s/u%d", total, sp.name, bname(ra), a.name, bname(rb), b.name, ui)
							spec := &recSpec{a: a, b: b, unescaped: ui == 1, ts: d.tss[3]}
							ctx.Case(id, true, id, func() (string, string) { return st.checkAtLimit(ctx, spec) })
						}
					}
				}
			}
			st.ser = nil
		}
	}
	return true
}

// checkAtLimit is check() for records at the record limit. The model gives the size of the event without any header
// (keys and values, inlined prefixes raw); if that alone exceeds twice the record limit, a failure is reported as the
// capacity finding.
func (st *setup) checkAtLimit(ctx *seq.Ctx, spec *recSpec) (key, msg string) {
	fields, un, raw := st.materialize(spec)
	ex := st.expected(fields, un, spec.unescaped, spec.ts)
	least := len("environment")
	for k, acc := range ex.top {
		least += len(k) + acc[0].size() // inlined prefixes as they are (where an unescaped prefix is accepted too, it is shorter)
	}
	for k, v := range ex.env {
		least += len(k) + len(v)
	}
	if least <= 2*defs.InputLogMaxRecordBytes {
		return st.check(ctx, spec, 0)
	}
	ctx.Groups["cover:event-larger-than-twice-the-record-limit"]++
	site, detail := seq.Catch(func() { key, msg = st.check(ctx, spec, 0) })
	if site != "" {
		key, msg = "panic:"+site, detail
	}
	if key != "" {
		return "capacity:event-larger-than-twice-the-record-limit", fmt.Sprintf("a record of %d bytes (limit %d) whose event needs at least %d bytes: %s: %s", raw, defs.InputLogMaxRecordBytes, least, key, msg)
	}
	return "", ""
}

// ---- the big product: layouts x roles x flags x timestamps x value(A) x value(B)
func (d *domain) product(ctx *seq.Ctx, sel *selector) bool {
	// layouts in three classes: class 0: 3+2, 16+2 (reserved slots), 14/15/16 dense   class 1: 14, 15   class 2: 3, 16
	type classedLayout struct {
		layout
		class int
	}
	layouts := []classedLayout{{layout{nfields: 3, reserved: 2}, 0}, {layout{nfields: 16, reserved: 2}, 0},
		{layout{nfields: 14, dense: true}, 0}, {layout{nfields: 15, dense: true}, 0}, {layout{nfields: 16, dense: true}, 0},
		{layout{nfields: 14}, 1}, {layout{nfields: 15}, 1}, {layout{nfields: 3}, 2}, {layout{nfields: 16}, 2}}
	// value sets: "listed" = the 11 lengths x 14 content classes named in the plan; "all" adds the thorough-only classes;
	// "small" = lengths {0,1,16,65536} x {ascii, mixed}.
	// pairOK decides which (A value, B value) pairs are crossed with a timestamp on a layout. With V = the two value
	// timestamps, O = the other timestamps:
	//   level 0: small x small at every timestamp
	//   level 1: V: listed x listed;                 O: small x small
	//   level 2: V: all x listed U listed x all;     O: listed x listed   (contains the full planned product)
	// quick: layout classes 0,1 -> level 0, class 2 -> level 1.  thorough: class 0 -> level 1, classes 1,2 -> level 2.
	thorough := d.thorough
	levelOf := func(class int) int {
		switch {
		case thorough && class >= 1:
			return 2
		case thorough || class == 2:
			return 1
		}
		return 0
	}
	values := d.values
	for _, cl := range layouts {
		lay := cl.layout
		level := levelOf(cl.class)
		for ra := role(0); ra < numRoles; ra++ {
			for rb := role(0); rb < numRoles; rb++ {
				if ctx.Stop() {
					return false
				}
				if !sel.take() { // the unit is the setup (its serializer owns 2 MiB): each pass takes every 8th role pair of every layout
					continue
				}
				st := newSetup(lay, ra, rb)
				ctx.Group(fmt.Sprintf("%s/A=%s", lay, roleNames[ra]))
				for ui := 0; ui < 2; ui++ {
					for ti, ts := range d.tss {
						v := d.vstamp[ti]
						for _, a := range values {
							// rowOK: does the row A = a have any case at this timestamp?
							var rowOK bool
							switch {
							case level == 2 && v:
								rowOK = true
							case level == 2, level == 1 && v:
								rowOK = a.listed
							default:
								rowOK = a.small
							}
							if !rowOK {
								continue
							}
							if ctx.Stop() {
								return false
							}
							for _, b := range values {
								var ok bool
								switch {
								case level == 2 && v:
									ok = a.listed || b.listed
								case level == 2, level == 1 && v:
									ok = b.listed
								default:
									ok = b.small
								}
								if !ok {
									continue
								}
								if !ctx.Mine() {
									ctx.Skip()
									continue
								}
								id := fmt.Sprintf("%s/A=%s:%s/B=%s:%s/u%d/t%d", lay, roleNames[ra], a.name, roleNames[rb], b.name, ui, ti)
								nontrivial := (a.s != "" && ra != rHidden) || (b.s != "" && rb != rHidden)
								spec := &recSpec{a: a, b: b, unescaped: ui == 1, ts: ts}
								ctx.Case(id, nontrivial, id, func() (string, string) { return st.check(ctx, spec, 0) })
							}
						}
					}
				}
			}
		}
	}
	return true
}

func main() {
	debug.SetGCPercent(400)
	logger.SetLogLevel(logger.ErrorLevel)
	// defs limits stay at their production defaults (record limit 1 MiB + 256).
	seq.Main(&seq.Config{
		Property: "C10",
		Level:    "exploration",
		Rule: "bounded-exhaustive product through fluentdforward Config.VerifyConfig+NewSerializer+SerializeRecord with the real copy/unescape/inline rewriters: " +
			"layouts {3,16 named fields; 14, 15, 3+2 reserved, 16+2 reserved unnamed slots, 14/15/16 dense = all fillers visible} x role of field A x role of field B, each from {plain, environment, hidden, " +
			"rewritten[copy], rewritten[unescape], rewritten[inline other,copy], rewritten[inline other,unescape]} x record.Unescaped {false,true} x timestamps " +
			"{epoch, ns 0/1/999999999, 2^31-1.999999999, 2^31} (thorough adds a non-UTC location and 2^32-1) x value of A x value of B, each value from lengths " +
			"{0,1,15,16,31,32,255,256,65535,65536,65537} x content classes {ASCII, 0x00, 0xFF, multi-byte, dense \\b \\f \\n \\r \\t \\\\ \\x, trailing backslash, only backslashes, mixed} " +
			"(thorough adds 8 more non-escape second bytes and a single escape at start/middle/end). Quick crosses listed x listed values with timestamps {ns 999999999, 2^31} on layouts 3 and 16 and " +
			"small x small values (lengths 0,1,16,65536 x ASCII, mixed) with every other timestamp and layout; thorough crosses (all x listed U listed x all) values with those two timestamps and listed x listed with every other timestamp on layouts 3, 16, 14, 15 " +
			"(a superset of the full planned product) and gives the remaining layouts what quick gives layouts 3 and 16. 16-field layouts carry 14 fixed filler fields (empty and non-empty environment/hidden/plain, " +
			"keys of 15/16/31/32/255/256 bytes, values of 15/16/31/32/255/256 bytes, raw escapes in a plain field); plus 14-19 environment fields for the nested map header; plus fields with two roles (environment or hidden + chain, environment + hidden). " +
			"Further groups, each on small x small values unless said otherwise: sweep = all 256 byte values + 5 multi-byte characters x {ordinary content, second byte of dense escapes, second byte of the escape that ends the value} x lengths {1,2,3,17,255} (thorough: 13 lengths up to 65537, 2 more patterns) as value of A in every role with B absent/present/inlining A; " +
			"chains = every chain of 0..3 inline steps over 4 candidate fields (B, hidden, 16-byte key, the field itself; thorough 9 candidates, and 4 steps over 4) + copy/unescape, on field A (B plain/hidden) and on a filler with a 16-byte key (thorough: 5 owners), and five rewritten fields at once; " +
			"history = every ordered pair of 160 records (4 timestamps sharing second/millisecond/microsecond x 5 values of A x 2 of B x 2 of an environment field x Unescaped; thorough 200 records, and every triple of 18) through one serializer with nothing in between, records laid out in one recycled buffer, 28 role pairs on layout 3 (thorough 49), 4 on layout 16; " +
			"alias = between the call and the reading of the stream: the record's buffer overwritten / another serializer of the same / of another configuration serializes / all of these and a new serializer is created and serializes, 49 role pairs x layouts 3, 16; " +
			"wide = schemas of 32,33,34,64,65,66 named fields (thorough + 31, 63, 127..129, 255..258, 300) with A, B last, 49 role pairs; inline-sum = prefix + value lengths summing to 65534..65537; " +
			"limit = records of exactly defs.InputLogMaxRecordBytes (thorough + limit-1, limit/2) split between A and B in 7 ways x 3 contents x 49 role pairs. " +
			"Each case: serializer buffer poisoned with 0xC1, fresh record; output decoded token by token with vmihailenco/msgpack and again as fluentlib forwardprotocol.EventEntry; " +
			"non-trivial = at least one of A, B is non-empty and not hidden. The enumeration runs in 8 passes over all groups (unit n - a configuration, or a row of a group with few configurations - is evaluated in pass n mod 8), so a deadline thins every group",
		Assumptions: []string{
			"defs limits at production defaults; every generated record is within the record limit (sum of the field values <= defs.InputLogMaxRecordBytes); oversized input is C07",
			"the serializer object is long-lived (one per configuration, as in the agent); before each case its buffer is overwritten with 0xC1 bytes (never valid MessagePack) past the largest possible output of the case, so the pre-state is a function of the case alone; in a history only before the first record; in the limit group every case has a new serializer instead (no legal record could overwrite all that the case writes)",
			"field values may be encoded with any str/bin header width (MessagePack does not require the shortest form); map entry order is not compared",
			"documentation is silent on whether an 'unescape' step after 'inline' also unescapes the inlined prefix: both results are accepted (all prefixes raw or all unescaped); the inlined prefix is otherwise the other field's raw value",
			"documentation is silent on the order of the prefixes of several 'inline' steps: configuration order and its reverse are accepted",
			"documentation is silent on a field listed as environment AND hidden field: it must not be at the top level and may be nested (raw value) or absent",
			"a rewritten field whose own value is empty is not emitted even when the inlined field is non-empty (statement: exactly the non-empty fields)",
			"timestamps are within the EventTime range (uint32 seconds); each SerializeRecord call gets a fresh record (a second serialization of the same record is C12)",
			"the stream is read before the next call of the SAME serializer (base.LogSerializer: 'only usable before the next call'); calls of other serializers and the recycling of the record's buffer (base.LogRecord: values 'only valid until record is released') may come first",
			"schemas have at most 300 named fields (MessagePack map16 allows 65535 entries; schemas of that size are not enumerated); duplicate names within environmentFields are a configuration matter (C16)",
		},
		Enumerate:        enumerate,
		QuickDeadline:    15 * time.Minute,
		ThoroughDeadline: 45 * time.Minute,
	})
}
