#!/bin/sh
# usage: overlay.sh OUTDIR   -- writes OUTDIR/overlay.json for `go build -overlay` of harness/seq_chunks.
# Adds the two accessor files and a copy of the CURRENT /repo/output/shared/chunkidgen.go whose `time.Now()` calls read
# the seam variable verifNow instead (textual replacement only; /repo is never modified). If the file no longer calls
# time.Now() the copy is not made and the harness reports that the clock is not controllable.
set -eu
OUT=${1:?usage: overlay.sh OUTDIR}
VERIF=$(cd "$(dirname "$0")/../.." && pwd)
REPO=${REPO:-/repo}
mkdir -p "$OUT"
SRC="$REPO/output/shared/chunkidgen.go"
EXTRA=""
if grep -q 'time\.Now()' "$SRC"; then
  sed 's/time\.Now()/verifNow()/g' "$SRC" > "$OUT/chunkidgen.go"
  printf '\nvar _ = time.Now // keeps the "time" import of the original file in use\n' >> "$OUT/chunkidgen.go"
  EXTRA=", \"$SRC\": \"$OUT/chunkidgen.go\""
fi
cat > "$OUT/overlay.json" <<JSON
{"Replace": {"$REPO/output/fluentdforward/zz_verif_export.go": "$VERIF/hooks/fluentdforward_limits_export.go", "$REPO/output/shared/zz_verif_export.go": "$VERIF/hooks/shared_export.go"$EXTRA}}
JSON
echo "$OUT/overlay.json"
