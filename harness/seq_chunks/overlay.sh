#!/bin/sh
# usage: overlay.sh OUTDIR   -- writes OUTDIR/overlay.json for `go build -overlay` of harness/seq_chunks (and seq_idorder).
# Adds the three accessor files and a copy of the CURRENT /repo/output/shared/chunkidgen.go whose `time.Now()` calls read
# the seam variable verifNow instead (textual replacement only; /repo is never modified). The copy also carries an init
# function recording how many call sites were redirected (shared.VerifSeamSites): the harness reads from the BUILD whether
# the seam is compiled in. If the file no longer calls time.Now() the copy is not made, VerifSeamSites() stays 0 and
# seq_chunks reports the violation key `seam-blind` (the clock dimension would otherwise disappear silently).
set -eu
OUT=${1:?usage: overlay.sh OUTDIR}
VERIF=$(cd "$(dirname "$0")/../.." && pwd)
REPO=${REPO:-/repo}
mkdir -p "$OUT"
SRC="$REPO/output/shared/chunkidgen.go"
EXTRA=""
if grep -q 'time\.Now()' "$SRC"; then
  SITES=$(grep -o 'time\.Now()' "$SRC" | wc -l | tr -d ' ')
  sed 's/time\.Now()/verifNow()/g' "$SRC" > "$OUT/chunkidgen.go"
  printf '\nvar _ = time.Now // keeps the "time" import of the original file in use\n' >> "$OUT/chunkidgen.go"
  printf '\nfunc init() { verifSeamSites = %s } // clock reads redirected to the seam by overlay.sh\n' "$SITES" >> "$OUT/chunkidgen.go"
  EXTRA=", \"$SRC\": \"$OUT/chunkidgen.go\""
fi
cat > "$OUT/overlay.json" <<JSON
{"Replace": {"$REPO/output/fluentdforward/zz_verif_export.go": "$VERIF/hooks/fluentdforward_limits_export.go", "$REPO/output/shared/zz_verif_export.go": "$VERIF/hooks/shared_export.go", "$REPO/output/shared/zz_verif_seam_export.go": "$VERIF/hooks/shared_seam_export.go"$EXTRA}}
JSON
echo "$OUT/overlay.json"
