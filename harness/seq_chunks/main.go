// Command seq_chunks decides C11: chunks are complete, ordered, self-describing batches.
//
// The real chunk makers (fluentdforward Config.NewChunkMaker in the three Forward modes, datadog Config.NewChunkMaker)
// are driven with every sequence of record sizes around the chunk limits and every placement of FlushBuffer between
// the writes. Every emitted chunk is decoded independently (vmihailenco/msgpack token by token, fluentlib's reference
// forwardprotocol.Message, stdlib gzip + encoding/json) and compared with the written sequence.
//
// Build with the overlay produced by overlay.sh (accessors for the unexported fluentdforward limits and the clock seam
// of the chunk ID generator).
package main

import (
	"bytes"
	"compress/gzip"
	"encoding/json"
	"fmt"
	"io"
	"strings"
	"time"

	"github.com/relex/fluentlib/protocol/forwardprotocol"
	"github.com/relex/gotils/logger"
	"github.com/relex/slog-agent/base"
	"github.com/relex/slog-agent/output/datadog"
	"github.com/relex/slog-agent/output/fluentdforward"
	"github.com/relex/slog-agent/output/shared"
	"github.com/vmihailenco/msgpack/v4"
	"github.com/vmihailenco/msgpack/v4/codes"

	"slogverif/seq"
)

// ---------------------------------------------------------------------------------------------------------------
// records of an exact size carrying their index

// ffRecord builds a Forward event [EventTime(sec=idx+1, nsec=size), {"p": padding}] of exactly size bytes (size 12: empty
// map; 15..46: fixstr padding; 47..65552: str16 padding; >= 65555: str32 padding). Encoded by hand, no library involved.
func ffRecord(idx, size int) []byte {
	b := make([]byte, 0, size)
	b = append(b, 0x92, 0xd7, 0x00)
	sec, ns := uint32(idx+1), uint32(size)
	b = append(b, byte(sec>>24), byte(sec>>16), byte(sec>>8), byte(sec), byte(ns>>24), byte(ns>>16), byte(ns>>8), byte(ns))
	switch {
	case size == 12:
		b = append(b, 0x80)
	case size >= 15 && size <= 46:
		n := size - 15
		b = append(b, 0x81, 0xa1, 'p', 0xa0|byte(n))
		b = append(b, padding(idx, n)...)
	case size >= 47 && size-17 < 65536:
		n := size - 17
		b = append(b, 0x81, 0xa1, 'p', 0xda, byte(n>>8), byte(n))
		b = append(b, padding(idx, n)...)
	case size-19 >= 65536:
		n := size - 19
		b = append(b, 0x81, 0xa1, 'p', 0xdb, byte(n>>24), byte(n>>16), byte(n>>8), byte(n))
		b = append(b, padding(idx, n)...)
	default:
		panic(fmt.Sprintf("harness bug: no Forward event of %d bytes", size))
	}
	if len(b) != size {
		panic("harness bug: ffRecord size")
	}
	return b
}

func padding(idx, n int) []byte {
	p := make([]byte, n)
	for i := range p {
		p[i] = 'a' + byte((idx+i)%26)
	}
	return p
}

// ddRecord builds a JSON object {"i":"0000007","p":"xxxx"} of exactly size bytes (size >= 22)
func ddRecord(idx, size int) []byte {
	head := fmt.Sprintf(`{"i":"%07d","p":"`, idx)
	n := size - len(head) - 2
	if n < 0 {
		panic(fmt.Sprintf("harness bug: no Datadog record of %d bytes", size))
	}
	b := make([]byte, 0, size)
	b = append(b, head...)
	for i := 0; i < n; i++ {
		b = append(b, 'a'+byte((idx+i)%26))
	}
	b = append(b, '"', '}')
	return b
}

// ---------------------------------------------------------------------------------------------------------------
// clock of the chunk ID generator

type clockMode int

const (
	clockFrozen clockMode = iota // every read returns the same instant
	clockStep                    // every read is 1 ns later than the previous one
	clockReal                    // time.Now
)

var clockNames = []string{"frozen", "step1ns", "real"}

var (
	clockBase  int64 = 1_600_000_000_000_000_000
	clockCalls int64
	seamActive bool
)

// installClock makes the generator's clock a function of the case: a base later than anything an earlier case of this
// process has seen (so the long-lived generator starts every case in the state of a new one: first ID resets the sequence).
func installClock(m clockMode) {
	clockBase += clockCalls + 1_000_000
	clockCalls = 0
	base := clockBase
	switch m {
	case clockFrozen:
		shared.VerifSetNow(func() time.Time { clockCalls = 1; return time.Unix(0, base) })
	case clockStep:
		shared.VerifSetNow(func() time.Time { clockCalls++; return time.Unix(0, base+clockCalls) })
	default:
		shared.VerifSetNow(nil)
	}
}

// detectSeam reports whether the overlay's clock seam is compiled in (chunk IDs follow the installed clock).
func detectSeam() bool {
	shared.VerifSetNow(func() time.Time { return time.Unix(0, 1_234_567_890_123_456_789) })
	defer shared.VerifSetNow(nil)
	cfg := &datadog.Config{}
	m := cfg.NewChunkMaker(logger.Root(), "t")
	m.WriteStream(ddRecord(0, 22))
	c := m.FlushBuffer()
	return c != nil && strings.HasPrefix(c.ID, "1234567890123456789")
}

// ---------------------------------------------------------------------------------------------------------------
// families: one long-lived chunk maker per output configuration, as in a pipeline

type family struct {
	kind       string // "ff" | "dd"
	mode       forwardprotocol.MessageMode
	maxSize    int // 0 = unlimited
	maxRecords int // 0 = unlimited
	tag        string
	maker      base.LogChunkMaker
	match      func(string) bool
	dirty      bool // the previous case did not end cleanly: make a new chunk maker
}

func (f *family) name() string {
	if f.kind == "dd" {
		return "datadog"
	}
	return fmt.Sprintf("%s/size%d/rec%d", f.mode, f.maxSize, f.maxRecords)
}

const ddMaxSize = 5 * 1024 * 1024 // documented: "max uncompressed data size of a LogChunk" (Datadog API limit)
const ddMaxRecords = 1000         // documented: "max amount of log entries a chunk can hold"

func (f *family) get() base.LogChunkMaker {
	if f.maker != nil && !f.dirty {
		return f.maker
	}
	f.dirty = false
	switch f.kind {
	case "ff":
		cfg := &fluentdforward.Config{
			Serialization: fluentdforward.SerializationConfig{EnvironmentFields: []string{"host"}},
			MessageMode:   f.mode,
			Upstream:      fluentdforward.UpstreamConfig{Address: "localhost:24224", MaxDuration: time.Minute},
		}
		if err := cfg.VerifyConfig(base.MustNewLogSchema([]string{"host", "log"})); err != nil {
			panic(fmt.Sprintf("harness bug: configuration rejected: %v", err))
		}
		pr, ps := fluentdforward.VerifSetChunkLimits(f.maxRecords, f.maxSize) // accessor order: (records, bytes)
		f.maker = cfg.NewChunkMaker(logger.Root(), f.tag)
		fluentdforward.VerifSetChunkLimits(pr, ps)
		f.match = cfg.MatchChunkID
	case "dd":
		cfg := &datadog.Config{Upstream: datadog.UpstreamConfig{Address: "https://localhost/api/v2/logs", HTTPTimeout: time.Second}}
		if err := cfg.VerifyConfig(base.MustNewLogSchema([]string{"host", "log"})); err != nil {
			panic(fmt.Sprintf("harness bug: configuration rejected: %v", err))
		}
		f.maker = cfg.NewChunkMaker(logger.Root(), f.tag)
		f.match = cfg.MatchChunkID
		f.maxSize, f.maxRecords = ddMaxSize, ddMaxRecords
	}
	return f.maker
}

// ---------------------------------------------------------------------------------------------------------------
// one run

type emitted struct {
	chunk    *base.LogChunk
	snapshot []byte // copy of Data at emission time
	id       string
	after    int // number of records written when the chunk came out
	byFlush  bool
}

// run drives the chunk maker: write sizes[i], flush after write i where flushAfter(i). Returns a violation or "".
func (f *family) run(ctx *seq.Ctx, sizes []int, flushAfter func(i int) bool, clock clockMode) (string, string) {
	maker := f.get()
	f.dirty = true
	installClock(clock)
	defer shared.VerifSetNow(nil)
	if c := maker.FlushBuffer(); c != nil {
		return "harness:stale-chunk", "a chunk was pending before the first write of the case"
	}
	records := make([][]byte, len(sizes))
	var chunks []emitted
	take := func(c *base.LogChunk, after int, byFlush bool) {
		chunks = append(chunks, emitted{c, append([]byte(nil), c.Data...), c.ID, after, byFlush})
	}
	for i, size := range sizes {
		var rec []byte
		if f.kind == "dd" {
			rec = ddRecord(i, size)
		} else {
			rec = ffRecord(i, size)
		}
		records[i] = rec
		stream := append([]byte(nil), rec...)
		if c := maker.WriteStream(stream); c != nil {
			take(c, i+1, false)
		}
		// the caller's stream buffer is the serializer's buffer, reused for the next record: scribble over it
		for j := range stream {
			stream[j] = 0xc1
		}
		if flushAfter(i) {
			c := maker.FlushBuffer()
			if c == nil {
				return "flush:nothing-returned-with-records-buffered", fmt.Sprintf("FlushBuffer after write %d returned nil although record %d had just been written", i, i)
			}
			take(c, i+1, true)
			if c2 := maker.FlushBuffer(); c2 != nil {
				return "flush:second-flush-returned-chunk", fmt.Sprintf("a second FlushBuffer after write %d returned another chunk (%d bytes)", i, len(c2.Data))
			}
		}
	}
	// final flush: everything still buffered must come out now
	if c := maker.FlushBuffer(); c != nil {
		take(c, len(sizes), true)
	}
	if c := maker.FlushBuffer(); c != nil {
		return "flush:second-flush-returned-chunk", fmt.Sprintf("a second final FlushBuffer returned another chunk (%d bytes)", len(c.Data))
	}

	// ---- decode every chunk (after all writes: chunk data must not alias reused buffers)
	next := 0 // next input record expected
	ids := map[string]int{}
	for ci, e := range chunks {
		if !bytes.Equal(e.chunk.Data, e.snapshot) || e.chunk.ID != e.id {
			return "chunk:mutated-after-emission", fmt.Sprintf("chunk %d (%s) changed after it was returned (buffer reuse)", ci, e.id)
		}
		var count, payloadBytes int
		var key, msg string
		if f.kind == "dd" {
			count, payloadBytes, key, msg = f.checkDatadogChunk(e.chunk, records, next)
		} else {
			count, payloadBytes, key, msg = f.checkForwardChunk(e.chunk, records, next)
		}
		if key != "" {
			return key, fmt.Sprintf("chunk %d of %d (id %s, %d bytes, out after write %d): %s", ci, len(chunks), e.id, len(e.chunk.Data), e.after-1, msg)
		}
		if count == 0 {
			return "chunk:empty", fmt.Sprintf("chunk %d (%s) holds no record", ci, e.id)
		}
		if next+count > e.after {
			return "chunk:record-from-the-future", fmt.Sprintf("chunk %d holds records up to %d but only %d had been written", ci, next+count-1, e.after)
		}
		if e.byFlush && next+count != e.after {
			return "flush:left-records-buffered", fmt.Sprintf("chunk %d returned by FlushBuffer ends at record %d, but %d records had been written", ci, next+count-1, e.after)
		}
		// identity
		if e.id == "" || strings.ContainsAny(e.id, "/\\\x00") || len(e.id) > 255 {
			return "id:not-a-storage-name", fmt.Sprintf("chunk ID %q cannot be a file name", e.id)
		}
		if !f.match(e.id) {
			return "id:rejected-by-MatchChunkID", fmt.Sprintf("chunk ID %q is not recognised by the output's MatchChunkID", e.id)
		}
		if prev, dup := ids[e.id]; dup {
			return "id:duplicate", fmt.Sprintf("chunks %d and %d share the ID %q (clock %s)", prev, ci, e.id, clockNames[clock])
		}
		ids[e.id] = ci
		// limits
		if count > 1 {
			if f.maxRecords > 0 && count > f.maxRecords {
				return "limit:records-exceeded", fmt.Sprintf("chunk %d holds %d records, limit %d", ci, count, f.maxRecords)
			}
			if f.maxSize > 0 && payloadBytes > f.maxSize {
				return "limit:size-exceeded", fmt.Sprintf("chunk %d holds %d records / %d uncompressed bytes, limit %d", ci, count, payloadBytes, f.maxSize)
			}
		}
		if count == 1 && ((f.maxSize > 0 && payloadBytes > f.maxSize) || f.maxRecords == 1) {
			ctx.Groups["cover:single-record-chunk-at-or-over-limit"]++
		}
		next += count
	}
	if next != len(records) {
		return "lost-records", fmt.Sprintf("%d records written, the chunks hold only the first %d (after the final FlushBuffer)", len(records), next)
	}
	ctx.Groups[fmt.Sprintf("cover:%d-chunks", min(len(chunks), 6))]++
	f.dirty = false
	return "", ""
}

func min(a, b int) int {
	if a < b {
		return a
	}
	return b
}

// matchRecords walks payload as a concatenation (sep between records) of the input records from index next on; returns how
// many records were matched if the payload is consumed exactly.
func matchRecords(payload []byte, records [][]byte, next int, sep string) (int, string) {
	off, count := 0, 0
	for off < len(payload) {
		if count > 0 && sep != "" {
			if !bytes.HasPrefix(payload[off:], []byte(sep)) {
				return count, fmt.Sprintf("after %d records: want separator %q at payload offset %d, got %q", count, sep, off, clipB(payload[off:]))
			}
			off += len(sep)
		}
		if next+count >= len(records) {
			return count, fmt.Sprintf("after %d records the payload has %d more bytes but no written record is left (duplicate or foreign data): %q", count, len(payload)-off, clipB(payload[off:]))
		}
		rec := records[next+count]
		if !bytes.HasPrefix(payload[off:], rec) {
			return count, fmt.Sprintf("payload offset %d does not continue with written record %d (%d bytes): got %q, want %q", off, next+count, len(rec), clipB(payload[off:]), clipB(rec))
		}
		off += len(rec)
		count++
	}
	return count, ""
}

func clipB(b []byte) string {
	if len(b) > 40 {
		return fmt.Sprintf("%x...(%d bytes)", b[:40], len(b))
	}
	return fmt.Sprintf("%x", b)
}

// checkForwardChunk decodes one Forward-protocol message. Returns the number of records and their total size.
func (f *family) checkForwardChunk(chunk *base.LogChunk, records [][]byte, next int) (int, int, string, string) {
	data := chunk.Data
	r := bytes.NewReader(data)
	d := msgpack.NewDecoder(r) // unbuffered on a *bytes.Reader
	n, err := d.DecodeArrayLen()
	if err != nil || n != 3 {
		return 0, 0, "malformed:message-array", fmt.Sprintf("root array: len=%d err=%v, want 3 [tag, entries, option]", n, err)
	}
	tag, err := d.DecodeString()
	if err != nil {
		return 0, 0, "malformed:tag", fmt.Sprintf("tag: %v", err)
	}
	if tag != f.tag {
		return 0, 0, "tag:mismatch", fmt.Sprintf("tag %q, configured %q", tag, f.tag)
	}
	c, err := d.PeekCode()
	if err != nil {
		return 0, 0, "malformed:entries", fmt.Sprintf("entries: %v", err)
	}
	var count, payloadBytes int
	entriesAreArray := false
	var packed []byte
	switch {
	case codes.IsFixedArray(c) || c == codes.Array16 || c == codes.Array32:
		entriesAreArray = true
		declared, err := d.DecodeArrayLen()
		if err != nil {
			return 0, 0, "malformed:entries", fmt.Sprintf("entries array header: %v", err)
		}
		off := len(data) - r.Len()
		for i := 0; i < declared; i++ {
			if next+i >= len(records) {
				return 0, 0, "entries:more-than-written", fmt.Sprintf("entries array declares %d events but only %d written records are left", declared, len(records)-next)
			}
			rec := records[next+i]
			if !bytes.HasPrefix(data[off:], rec) {
				return 0, 0, "entries:not-the-written-records", fmt.Sprintf("entry %d is not written record %d: got %q, want %q", i, next+i, clipB(data[off:]), clipB(rec))
			}
			off += len(rec)
			payloadBytes += len(rec)
		}
		count = declared
		r.Seek(int64(off), io.SeekStart)
	case codes.IsBin(c) || codes.IsString(c):
		if codes.IsString(c) {
			return 0, 0, "mode:entries-as-str", "packed entries are encoded as str, the protocol wants bin"
		}
		packed, err = d.DecodeBytes()
		if err != nil {
			return 0, 0, "malformed:entries", fmt.Sprintf("entries bin: %v", err)
		}
	default:
		return 0, 0, "malformed:entries", fmt.Sprintf("entries have code 0x%02x, want array or bin", byte(c))
	}
	// option
	c, err = d.PeekCode()
	if err != nil || !(codes.IsFixedMap(c) || c == codes.Map16 || c == codes.Map32) {
		return 0, 0, "malformed:option", fmt.Sprintf("option: code 0x%02x err=%v, want a map", byte(c), err)
	}
	m, _ := d.DecodeMapLen()
	optSize, optChunk, optCompressed := -1, "", ""
	hasChunk := false
	for i := 0; i < m; i++ {
		k, err := d.DecodeString()
		if err != nil {
			return 0, 0, "malformed:option", fmt.Sprintf("option key: %v", err)
		}
		switch k {
		case "size":
			v, err := d.DecodeInt()
			if err != nil {
				return 0, 0, "malformed:option", fmt.Sprintf("option.size: %v", err)
			}
			optSize = v
		case "chunk":
			v, err := d.DecodeString()
			if err != nil {
				return 0, 0, "malformed:option", fmt.Sprintf("option.chunk: %v", err)
			}
			optChunk, hasChunk = v, true
		case "compressed":
			v, err := d.DecodeString()
			if err != nil {
				return 0, 0, "malformed:option", fmt.Sprintf("option.compressed: %v", err)
			}
			optCompressed = v
		default:
			return 0, 0, "option:unknown-key", fmt.Sprintf("option has key %q (Forward protocol v1 knows size, chunk, compressed)", k)
		}
	}
	if r.Len() != 0 {
		return 0, 0, "malformed:trailing-bytes", fmt.Sprintf("%d bytes follow the message", r.Len())
	}
	// mode
	switch f.mode {
	case forwardprotocol.ModeForward:
		if !entriesAreArray || optCompressed != "" {
			return 0, 0, "mode:not-forward", fmt.Sprintf("mode Forward: entries array=%v compressed=%q", entriesAreArray, optCompressed)
		}
	case forwardprotocol.ModePackedForward:
		if entriesAreArray || optCompressed != "" {
			return 0, 0, "mode:not-packedforward", fmt.Sprintf("mode PackedForward: entries array=%v compressed=%q", entriesAreArray, optCompressed)
		}
	case forwardprotocol.ModeCompressedPackedForward:
		if entriesAreArray || optCompressed != "gzip" {
			return 0, 0, "mode:not-compressedpackedforward", fmt.Sprintf("mode CompressedPackedForward: entries array=%v compressed=%q", entriesAreArray, optCompressed)
		}
	}
	if !entriesAreArray {
		payload := packed
		if optCompressed == "gzip" {
			var why string
			payload, why = gunzip(packed)
			if why != "" {
				return 0, 0, "malformed:gzip", why
			}
		}
		var why string
		count, why = matchRecords(payload, records, next, "")
		if why != "" {
			return 0, 0, "entries:not-the-written-records", why
		}
		payloadBytes = len(payload)
	}
	if optSize != count {
		return 0, 0, "option:size-mismatch", fmt.Sprintf("option.size=%d, the chunk holds %d records", optSize, count)
	}
	if !hasChunk || optChunk != chunk.ID {
		return 0, 0, "id:option-differs-from-LogChunk.ID", fmt.Sprintf("option.chunk=%q (present=%v), LogChunk.ID=%q", optChunk, hasChunk, chunk.ID)
	}
	// second reading: fluentlib's reference decoder (what the test Fluentd server runs)
	var ref forwardprotocol.Message
	if err := msgpack.Unmarshal(data, &ref); err != nil {
		return 0, 0, "fluentlib:decode-error", fmt.Sprintf("forwardprotocol.Message: %v", err)
	}
	if ref.Tag != f.tag || ref.Option.Chunk != chunk.ID || ref.Option.Size != count || len(ref.Entries) != count {
		return 0, 0, "fluentlib:mismatch", fmt.Sprintf("forwardprotocol.Message: tag=%q chunk=%q size=%d entries=%d; want %q %q %d %d", ref.Tag, ref.Option.Chunk, ref.Option.Size, len(ref.Entries), f.tag, chunk.ID, count, count)
	}
	for i, e := range ref.Entries {
		if e.Time.Unix() != int64(next+i+1) || e.Time.Nanosecond() != len(records[next+i]) {
			return 0, 0, "fluentlib:mismatch", fmt.Sprintf("forwardprotocol.Message: entry %d has time %d.%09d, want record %d (time %d.%09d)", i, e.Time.Unix(), e.Time.Nanosecond(), next+i, next+i+1, len(records[next+i]))
		}
	}
	return count, payloadBytes, "", ""
}

var gzReader *gzip.Reader // stdlib decompressor, reused (Reset) between chunks

// gunzip decompresses a complete gzip stream with the standard library (the code under test compresses with klauspost);
// trailing garbage or a truncated stream is an error.
func gunzip(data []byte) ([]byte, string) {
	var err error
	if gzReader == nil {
		gzReader, err = gzip.NewReader(bytes.NewReader(data))
	} else {
		err = gzReader.Reset(bytes.NewReader(data))
	}
	if err != nil {
		return nil, fmt.Sprintf("gzip header: %v", err)
	}
	var out bytes.Buffer
	if _, err := out.ReadFrom(gzReader); err != nil {
		return nil, fmt.Sprintf("gzip stream: %v (%d bytes read)", err, out.Len())
	}
	return out.Bytes(), ""
}

// checkDatadogChunk decodes one Datadog request body: gzip of a JSON array.
func (f *family) checkDatadogChunk(chunk *base.LogChunk, records [][]byte, next int) (int, int, string, string) {
	payload, why := gunzip(chunk.Data)
	if why != "" {
		return 0, 0, "malformed:gzip", why
	}
	if len(payload) < 2 || payload[0] != '[' || payload[len(payload)-1] != ']' {
		return 0, 0, "malformed:json-array", fmt.Sprintf("payload is not bracketed: %q", clipB(payload))
	}
	count, why := matchRecords(payload[1:len(payload)-1], records, next, ",")
	if why != "" {
		return 0, 0, "entries:not-the-written-records", why
	}
	var arr []json.RawMessage
	if err := json.Unmarshal(payload, &arr); err != nil {
		return 0, 0, "malformed:json-array", fmt.Sprintf("encoding/json: %v", err)
	}
	if len(arr) != count {
		return 0, 0, "malformed:json-array", fmt.Sprintf("encoding/json sees %d elements, %d records matched", len(arr), count)
	}
	return count, len(payload), "", ""
}

// ---------------------------------------------------------------------------------------------------------------

const ffMax = 64

var ffSizes = []int{12, ffMax / 2, ffMax - 1, ffMax, ffMax + 1, 2 * ffMax}

func sizesString(sizes []int, mask uint) string {
	var sb strings.Builder
	for i, s := range sizes {
		if i > 0 {
			sb.WriteByte(',')
		}
		fmt.Fprintf(&sb, "%d", s)
		if mask&(1<<uint(i)) != 0 {
			sb.WriteByte('F')
		}
	}
	return sb.String()
}

// forEachSequence enumerates all sequences over menu of length 1..maxLen with all flush masks, in a fixed order.
func forEachSequence(menu []int, maxLen int, fn func(sizes []int, mask uint) bool) {
	for n := 1; n <= maxLen; n++ {
		idx := make([]int, n)
		sizes := make([]int, n)
		for {
			for i, x := range idx {
				sizes[i] = menu[x]
			}
			for mask := uint(0); mask < 1<<uint(n); mask++ {
				if !fn(sizes, mask) {
					return
				}
			}
			i := n - 1
			for i >= 0 {
				idx[i]++
				if idx[i] < len(menu) {
					break
				}
				idx[i] = 0
				i--
			}
			if i < 0 {
				break
			}
		}
	}
}

func enumerate(ctx *seq.Ctx) {
	thorough := ctx.Thorough()
	seamActive = detectSeam()
	if seamActive {
		ctx.Note("clock", "chunk ID clock controlled through the overlay seam (frozen / +1ns per read / real)")
	} else {
		ctx.Note("clock", "clock seam NOT compiled in (build without overlay.sh's chunkidgen copy): only the real clock is exercised")
	}
	clocksAll := []clockMode{clockFrozen, clockStep, clockReal}
	if !seamActive {
		clocksAll = []clockMode{clockReal}
	}
	modes := []forwardprotocol.MessageMode{forwardprotocol.ModeForward, forwardprotocol.ModePackedForward, forwardprotocol.ModeCompressedPackedForward}
	type limit struct{ size, records int }
	limits := []limit{{ffMax, 0}, {ffMax, 1}, {ffMax, 2}, {ffMax, 3}, {0, 0}, {0, 2}}
	const tag = "verif.tag"

	// ---- Forward modes: every sequence x every flush placement x limits x clocks
	for _, mode := range modes {
		compressed := mode == forwardprotocol.ModeCompressedPackedForward
		for _, lim := range limits {
			fam := &family{kind: "ff", mode: mode, maxSize: lim.size, maxRecords: lim.records, tag: tag}
			for _, clock := range clocksAll {
				// depth (number of writes). Creating a gzip writer per chunk makes the compressed mode ~100x more expensive per
				// case than the other two, while the roll-over logic is shared by all three modes:
				//   quick:    Forward/PackedForward 5 (other clocks 3); Compressed 4 for limits (64,0) (64,2), else 3 (other clocks 2)
				//   thorough: Forward/PackedForward 6 (all clocks);     Compressed 5 (other clocks 4)
				firstClock := clock == clocksAll[0]
				var maxLen int
				switch {
				case thorough && !compressed:
					maxLen = 6
				case thorough && firstClock:
					maxLen = 5
				case thorough:
					maxLen = 4
				case !compressed && firstClock:
					maxLen = 5
				case !compressed:
					maxLen = 3
				case firstClock && lim.size == ffMax && (lim.records == 0 || lim.records == 2):
					maxLen = 4
				case firstClock:
					maxLen = 3
				default:
					maxLen = 2
				}
				ctx.Group(fmt.Sprintf("%s/clock-%s", fam.name(), clockNames[clock]))
				forEachSequence(ffSizes, maxLen, func(sizes []int, mask uint) bool {
					if ctx.Stop() {
						return false
					}
					if !ctx.Mine() {
						ctx.Skip()
						return true
					}
					id := fmt.Sprintf("%s/%s/%s", fam.name(), clockNames[clock], sizesString(sizes, mask))
					sz := append([]int(nil), sizes...)
					clock := clock
					ctx.Case(id, len(sz) > 1, id, func() (string, string) {
						return fam.run(ctx, sz, func(i int) bool { return mask&(1<<uint(i)) != 0 }, clock)
					})
					return true
				})
			}
		}
	}

	// ---- tags on both sides of the msgpack string header boundaries
	ctx.Group("forward/tags")
	for _, tl := range []int{1, 31, 32, 255, 256, 65536} {
		for _, mode := range modes {
			fam := &family{kind: "ff", mode: mode, maxSize: ffMax, maxRecords: 2, tag: strings.Repeat("t", tl)}
			forEachSequence(ffSizes, 2, func(sizes []int, mask uint) bool {
				id := fmt.Sprintf("tag%d/%s/%s", tl, mode, sizesString(sizes, mask))
				sz := append([]int(nil), sizes...)
				ctx.Case(id, true, id, func() (string, string) {
					return fam.run(ctx, sz, func(i int) bool { return mask&(1<<uint(i)) != 0 }, clocksAll[0])
				})
				return true
			})
		}
	}

	// ---- Forward modes with the production limits (read back through the accessor; documented: 7 MiB, no record limit)
	prodRecords, prodSize := fluentdforward.VerifSetChunkLimits(1, 1)
	fluentdforward.VerifSetChunkLimits(prodRecords, prodSize)
	ctx.Note("fluentdforward production limits", fmt.Sprintf("chunkMaxSizeBytes=%d chunkMaxRecords=%d", prodSize, prodRecords))
	if prodSize > 1<<20 && prodSize < 1<<28 {
		ctx.Group("forward/production-limits")
		prodSizes := []int{12, 1<<20 + 1, prodSize / 2, prodSize - 1, prodSize, prodSize + 1}
		prodLen := 2
		if thorough {
			prodLen = 3
		}
		for _, mode := range modes {
			fam := &family{kind: "ff", mode: mode, maxSize: prodSize, maxRecords: prodRecords, tag: tag}
			forEachSequence(prodSizes, prodLen, func(sizes []int, mask uint) bool {
				if ctx.Stop() {
					return false
				}
				if !ctx.Mine() {
					ctx.Skip()
					return true
				}
				id := fmt.Sprintf("prod/%s/%s", mode, sizesString(sizes, mask))
				sz := append([]int(nil), sizes...)
				ctx.Case(id, len(sz) > 1, id, func() (string, string) {
					return fam.run(ctx, sz, func(i int) bool { return mask&(1<<uint(i)) != 0 }, clocksAll[0])
				})
				return true
			})
		}
	}

	// ---- Datadog: limits are constants (5 MiB uncompressed, 1000 records)
	dd := &family{kind: "dd", tag: "ddtag"}
	const M = ddMaxSize
	ddSizes := []int{22, M/2 - 2, M/2 - 1, M - 3, M - 2, M - 1, M + 1, 2 * M}
	ddLen := 2
	if thorough {
		ddLen = 3
	}
	ctx.Group("datadog/size-limit")
	forEachSequence(ddSizes, ddLen, func(sizes []int, mask uint) bool {
		if ctx.Stop() {
			return false
		}
		if !ctx.Mine() {
			ctx.Skip()
			return true
		}
		id := fmt.Sprintf("datadog/%s", sizesString(sizes, mask))
		sz := append([]int(nil), sizes...)
		ctx.Case(id, len(sz) > 1, id, func() (string, string) {
			return dd.run(ctx, sz, func(i int) bool { return mask&(1<<uint(i)) != 0 }, clocksAll[0])
		})
		return true
	})
	// record limit: N tiny records with one optional flush position
	ctx.Group("datadog/record-limit")
	for _, n := range []int{999, 1000, 1001, 2000, 2001} {
		for _, tiny := range []int{22, 100} {
			for _, flushAt := range []int{-1, 0, 1, 499, 998, 999, 1000, 1001, 1999} {
				if flushAt >= n {
					continue
				}
				for _, clock := range clocksAll {
					if !ctx.Mine() {
						ctx.Skip()
						continue
					}
					id := fmt.Sprintf("datadog/%dx%d/flush-after-%d/%s", n, tiny, flushAt, clockNames[clock])
					sz := make([]int, n)
					for i := range sz {
						sz[i] = tiny
					}
					flushAt, clock := flushAt, clock
					ctx.Case(id, true, id, func() (string, string) {
						return dd.run(ctx, sz, func(i int) bool { return i == flushAt }, clock)
					})
				}
			}
		}
	}
	// the same boundary for the Forward modes with the real (unscaled) limits is covered by the scaled product above
}

func main() {
	logger.SetLogLevel(logger.ErrorLevel)
	seq.Main(&seq.Config{
		Property: "C11",
		Level:    "exploration",
		Rule: "every sequence of 1..5 (quick) / 1..6 (thorough) record sizes from {12 (smallest Forward event), 32, 63, 64, 65, 128} x every subset of FlushBuffer calls after the writes (2^n) through the real " +
			"fluentdforward Config.NewChunkMaker in modes Forward, PackedForward, CompressedPackedForward with chunkMaxSizeBytes/chunkMaxRecords scaled through an overlay accessor to " +
			"(64,0) (64,1) (64,2) (64,3) (0=unlimited,0) (0,2), chunk ID clock frozen (full depth) and +1ns-per-read / real (depth 3 quick, 6 thorough); the gzip mode, whose per-chunk compressor makes a case ~100x dearer, " +
			"runs depth 4 for limits (64,0) (64,2), 3 for the others, 2 for the other clocks (quick) / 5, other clocks 4 (thorough); tags of 1,31,32,255,256,65536 bytes; the production limits (7 MiB, no record limit) with sequences of 1..2 (quick) / 1..3 (thorough) sizes from {12, 1 MiB+1, max/2, max-1, max, max+1}; " +
			"Datadog chunk maker (constant limits 5 MiB / 1000 records): sequences of 1..2 (quick) / 1..3 (thorough) sizes from {22, M/2-2, M/2-1, M-3, M-2, M-1, M+1, 2M} x 2^n flush subsets, and 999/1000/1001/2000/2001 records of 22/100 bytes x 9 flush positions x clocks. " +
			"Oracle per run: each chunk decodes (msgpack token by token + fluentlib forwardprotocol.Message; stdlib gzip + encoding/json), tag, mode shape, option.size = records held, option.chunk = LogChunk.ID, ID accepted by MatchChunkID, usable as a file name and unique, " +
			"payload bytes = the written records in order across chunks with nothing left after the final flush, FlushBuffer returns exactly everything buffered (nil iff nothing), chunk data stable after later writes, size/record limit exceeded only by a single-record chunk; " +
			"non-trivial = at least two records",
		Assumptions: []string{
			"Forward events must be valid MessagePack, so the smallest record is 12 bytes ([EventTime, {}]) instead of 1; sizes are relative to the scaled limit 64",
			"chunkMaxRecords = 0 and chunkMaxSizeBytes = 0 mean 'no limit' (config.go comment: 'Can be 0 in case there's no limit')",
			"the size limit is on the uncompressed record data of a chunk (config.go comments), for Datadog on the whole JSON array; a chunk may be closed earlier than necessary (the statement only bounds chunks from above)",
			"the chunk maker is long-lived per configuration (as in a pipeline); every case starts after a completed flush with a clock later than any earlier case, which puts the ID generator in the state of a new one; IDs must be unique within a run",
			"clock stepping backwards is outside the stated domain (frozen / advancing) and is not enumerated",
		},
		Enumerate:        enumerate,
		QuickDeadline:    110 * time.Second,
		ThoroughDeadline: 45 * time.Minute,
	})
}
