// Command seq_chunks decides C11: chunks are complete, ordered, self-describing batches.
//
// The real chunk makers (fluentdforward Config.NewChunkMaker in the three Forward modes, datadog Config.NewChunkMaker)
// are driven with every sequence of record sizes around the chunk limits and every placement of FlushBuffer between
// the writes. Every emitted chunk is decoded independently (vmihailenco/msgpack token by token, fluentlib's reference
// forwardprotocol.Message, stdlib gzip + encoding/json) and compared with the written sequence.
//
// Beyond the single long-lived maker the harness varies: the number of records per chunk across every MessagePack width
// class of a count (forward/record-count), two or three chunk makers alive at once with their calls interleaved in every
// order (interleave/*), a restarted chunk maker / ID generator of the same pipeline whose IDs join the set of its
// predecessor (restart/*), and the production limits pinned from the documentation (forward/production-limits).
//
// Build with the overlay produced by overlay.sh (accessors for the unexported fluentdforward limits and the clock seam
// of the chunk ID generator).
package main

import (
	"bytes"
	"compress/gzip"
	"encoding/json"
	"fmt"
	"io"
	"strings"
	"time"

	"github.com/relex/fluentlib/protocol/forwardprotocol"
	"github.com/relex/gotils/logger"
	"github.com/relex/slog-agent/base"
	"github.com/relex/slog-agent/output/datadog"
	"github.com/relex/slog-agent/output/fluentdforward"
	"github.com/relex/slog-agent/output/shared"
	"github.com/vmihailenco/msgpack/v4"
	"github.com/vmihailenco/msgpack/v4/codes"

	"slogverif/seq"
)

// ---------------------------------------------------------------------------------------------------------------
// records of an exact size carrying their index

// ffRecord builds a Forward event [EventTime(sec=idx+1, nsec=size), {"p": padding}] of exactly size bytes (size 12: empty
// map; 15..46: fixstr padding; 47..65552: str16 padding; >= 65555: str32 padding). Encoded by hand, no library involved.
func ffRecord(idx, size int) []byte {
	b := make([]byte, 0, size)
	b = append(b, 0x92, 0xd7, 0x00)
	sec, ns := uint32(idx+1), uint32(size)
	b = append(b, byte(sec>>24), byte(sec>>16), byte(sec>>8), byte(sec), byte(ns>>24), byte(ns>>16), byte(ns>>8), byte(ns))
	switch {
	case size == 12:
		b = append(b, 0x80)
	case size >= 15 && size <= 46:
		n := size - 15
		b = append(b, 0x81, 0xa1, 'p', 0xa0|byte(n))
		b = append(b, padding(idx, n)...)
	case size >= 47 && size-17 < 65536:
		n := size - 17
		b = append(b, 0x81, 0xa1, 'p', 0xda, byte(n>>8), byte(n))
		b = append(b, padding(idx, n)...)
	case size-19 >= 65536:
		n := size - 19
		b = append(b, 0x81, 0xa1, 'p', 0xdb, byte(n>>24), byte(n>>16), byte(n>>8), byte(n))
		b = append(b, padding(idx, n)...)
	default:
		panic(fmt.Sprintf("harness bug: no Forward event of %d bytes", size))
	}
	if len(b) != size {
		panic("harness bug: ffRecord size")
	}
	return b
}

func padding(idx, n int) []byte {
	p := make([]byte, n)
	for i := range p {
		p[i] = 'a' + byte((idx+i)%26)
	}
	return p
}

// ddRecord builds a JSON object {"i":"0000007","p":"xxxx"} of exactly size bytes (size >= 22)
func ddRecord(idx, size int) []byte {
	head := fmt.Sprintf(`{"i":"%07d","p":"`, idx)
	n := size - len(head) - 2
	if n < 0 {
		panic(fmt.Sprintf("harness bug: no Datadog record of %d bytes", size))
	}
	b := make([]byte, 0, size)
	b = append(b, head...)
	for i := 0; i < n; i++ {
		b = append(b, 'a'+byte((idx+i)%26))
	}
	b = append(b, '"', '}')
	return b
}

// ---------------------------------------------------------------------------------------------------------------
// clock of the chunk ID generator

type clockMode int

const (
	clockFrozen clockMode = iota // every read returns the same instant
	clockStep                    // every read is 1 ns later than the previous one
	clockPairs                   // every instant is read twice, then the clock advances by 1 ns (T, T, T+1, T+1, ...)
	clockReal                    // time.Now
)

var clockNames = []string{"frozen", "step1ns", "pairs", "real"}

// clk is the state of the installed clock. One function (seamNow) is installed through the seam; the case decides the mode,
// the base (first reading of the current generator generation) and, for a restart, the gap to the predecessor's last reading.
var clk struct {
	mode  clockMode
	base  int64
	calls int64 // reads since base was set
	last  int64 // last reading handed out
	high  int64 // highest reading ever handed out in this process
	total int64 // reads since installClock
}

// The seam's epoch starts in 2001 (19 decimal digits like today's) and only moves forward; it must stay below the real
// clock, which is always the LAST clock a long-lived generator sees (a clock stepping back is outside the domain).
var realStart = time.Now().UnixNano()

func init() { clk.high = 1_000_000_000_000_000_000 }

func seamNow() time.Time {
	v := clk.base
	switch clk.mode {
	case clockStep:
		v += clk.calls
	case clockPairs:
		v += clk.calls / 2
	}
	clk.calls++
	clk.total++
	clk.last = v
	if v > clk.high {
		clk.high = v
	}
	return time.Unix(0, v)
}

// installClock makes the generator's clock a function of the case: a base later than anything an earlier case of this
// process has seen (so the long-lived generator starts every case in the state of a new one: first ID resets the sequence).
// alignSecond puts the base on a full second (restart cases: "same second" / "next second" must be what they say).
func installClock(m clockMode, alignSecond bool) {
	clk.mode = m
	clk.total = 0
	if m == clockReal {
		shared.VerifSetNow(nil)
		return
	}
	b := clk.high + 1_000_000
	if alignSecond {
		b = (b/1_000_000_000 + 1) * 1_000_000_000
	}
	if b > realStart-86_400_000_000_000 {
		panic("harness bug: the seam clock has caught up with the real clock")
	}
	clk.base, clk.calls, clk.last, clk.high = b, 0, b, b
	shared.VerifSetNow(seamNow)
}

// restartClock: the next reading (the first one of the restarted generator) is gap ns after the last reading of its predecessor.
func restartClock(gap int64) {
	if clk.mode == clockReal {
		return
	}
	clk.base, clk.calls = clk.last+gap, 0
}

// detectSeam decides whether the chunk ID clock is under the harness's control. Structural: the overlay's copy of
// chunkidgen.go is compiled in and says how many clock reads it redirected (shared.VerifSeamSites, set by an init function
// overlay.sh appends to the copy). Effective: making a chunk reads the installed clock (reads are counted; the text of the
// ID is not looked at).
func detectSeam() (sites int, reads int64) {
	sites = shared.VerifSeamSites()
	installClock(clockStep, false)
	defer shared.VerifSetNow(nil)
	cfg := &datadog.Config{}
	m := cfg.NewChunkMaker(logger.Root(), "t")
	m.WriteStream(ddRecord(0, 22))
	m.FlushBuffer()
	return sites, clk.total
}

// ---------------------------------------------------------------------------------------------------------------
// families: one long-lived chunk maker per output configuration, as in a pipeline

type family struct {
	kind       string // "ff" | "dd"
	mode       forwardprotocol.MessageMode
	maxSize    int  // 0 = unlimited
	maxRecords int  // 0 = unlimited
	prod       bool // Forward modes with the limits the package ships with (never touched through the accessor); oracle = the pinned documented values
	tag        string
	maker      base.LogChunkMaker
	match      func(string) bool
	dirty      bool // the previous case did not end cleanly: make a new chunk maker
}

func (f *family) name() string {
	if f.kind == "dd" {
		return "datadog"
	}
	if f.prod {
		return fmt.Sprintf("%s/production", f.mode)
	}
	return fmt.Sprintf("%s/size%d/rec%d", f.mode, f.maxSize, f.maxRecords)
}

// Limits pinned from the documentation, NOT read back from the code under test.
const (
	ddMaxSize    = 5 * 1024 * 1024 // datadog/config.go: "max uncompressed data size of a LogChunk" (Datadog API limit, 5 MB)
	ddMaxRecords = 1000            // datadog/config.go: "max amount of log entries a chunk can hold" (Datadog API limit, 1000)

	// fluentdforward/config.go documents chunkMaxSizeBytes as "the max uncompressed data size of a LogChunk, not including
	// necessary headers" that "must be well below Fluentd's Fluent::Plugin::Buffer::DEFAULT_CHUNK_LIMIT_SIZE" (8 MiB, the
	// linked buffer.rb) because Fluentd inserts non-configurable buffers. /repo's README, DESIGN.md and config_sample.yml
	// give no number; the value in force at the verified revision, 7 MiB, is pinned here like the Datadog ones, together with
	// "no record limit" ("Can be 0 in case there's no limit").
	ffProdMaxSize     = 7 * 1024 * 1024
	ffProdMaxRecords  = 0
	fluentdChunkLimit = 8 * 1024 * 1024
)

func (f *family) newMaker() base.LogChunkMaker {
	switch f.kind {
	case "ff":
		cfg := &fluentdforward.Config{
			Serialization: fluentdforward.SerializationConfig{EnvironmentFields: []string{"host"}},
			MessageMode:   f.mode,
			Upstream:      fluentdforward.UpstreamConfig{Address: "localhost:24224", MaxDuration: time.Minute},
		}
		if err := cfg.VerifyConfig(base.MustNewLogSchema([]string{"host", "log"})); err != nil {
			panic(fmt.Sprintf("harness bug: configuration rejected: %v", err))
		}
		f.match = cfg.MatchChunkID
		if f.prod {
			f.maxSize, f.maxRecords = ffProdMaxSize, ffProdMaxRecords
			return cfg.NewChunkMaker(logger.Root(), f.tag)
		}
		pr, ps := fluentdforward.VerifSetChunkLimits(f.maxRecords, f.maxSize) // accessor order: (records, bytes)
		m := cfg.NewChunkMaker(logger.Root(), f.tag)
		fluentdforward.VerifSetChunkLimits(pr, ps)
		return m
	case "dd":
		cfg := &datadog.Config{Upstream: datadog.UpstreamConfig{Address: "https://localhost/api/v2/logs", HTTPTimeout: time.Second}}
		if err := cfg.VerifyConfig(base.MustNewLogSchema([]string{"host", "log"})); err != nil {
			panic(fmt.Sprintf("harness bug: configuration rejected: %v", err))
		}
		f.match = cfg.MatchChunkID
		f.maxSize, f.maxRecords = ddMaxSize, ddMaxRecords
		return cfg.NewChunkMaker(logger.Root(), f.tag)
	}
	panic("harness bug: family kind")
}

func (f *family) get() base.LogChunkMaker {
	if f.maker != nil && !f.dirty {
		return f.maker
	}
	f.dirty = false
	f.maker = f.newMaker()
	return f.maker
}

// small / big: a record that fits several times and one that alone exceeds the scaled size limit (Datadog: two plain sizes)
func (f *family) small() int {
	if f.kind == "dd" {
		return 22
	}
	return 12
}

func (f *family) big() int {
	if f.kind == "dd" {
		return 100
	}
	return ffMax + 1
}

// ---------------------------------------------------------------------------------------------------------------
// one chunk maker driven within a case

type emitted struct {
	chunk    *base.LogChunk
	snapshot []byte // copy of Data at emission time
	id       string
	after    int // number of records written when the chunk came out
	byFlush  bool
}

type session struct {
	f          *family
	who        string // "" or "maker A: " (prefix of messages when several makers are alive)
	maker      base.LogChunkMaker
	records    [][]byte
	chunks     []emitted
	sinceFlush int // records written since the last FlushBuffer that emptied the maker
}

// begin takes the family's long-lived maker for one case. The family stays dirty until the case ends cleanly.
func (f *family) begin(who string) (*session, string, string) {
	s := &session{f: f, who: who, maker: f.get()}
	f.dirty = true
	if c := s.maker.FlushBuffer(); c != nil {
		return nil, "harness:stale-chunk", who + "a chunk was pending before the first write of the case"
	}
	return s, "", ""
}

func (s *session) take(c *base.LogChunk, byFlush bool) {
	s.chunks = append(s.chunks, emitted{c, append([]byte(nil), c.Data...), c.ID, len(s.records), byFlush})
}

func (s *session) write(size int) {
	i := len(s.records)
	var rec []byte
	if s.f.kind == "dd" {
		rec = ddRecord(i, size)
	} else {
		rec = ffRecord(i, size)
	}
	s.records = append(s.records, rec)
	stream := append([]byte(nil), rec...)
	c := s.maker.WriteStream(stream)
	s.sinceFlush++
	if c != nil {
		s.take(c, false)
	}
	// the caller's stream buffer is the serializer's buffer, reused for the next record: scribble over it
	for j := range stream {
		stream[j] = 0xc1
	}
}

// flush calls FlushBuffer: a chunk must come out iff a record has been written since the last flush, and a second call
// right after it must return nothing.
func (s *session) flush() (string, string) {
	c := s.maker.FlushBuffer()
	if s.sinceFlush == 0 {
		if c != nil {
			return "flush:second-flush-returned-chunk", fmt.Sprintf("%sFlushBuffer returned a chunk (%d bytes) although nothing was written since the previous flush (%d records written)", s.who, len(c.Data), len(s.records))
		}
		return "", ""
	}
	if c == nil {
		return "flush:nothing-returned-with-records-buffered", fmt.Sprintf("%sFlushBuffer after write %d returned nil although record %d had been written since the last flush", s.who, len(s.records)-1, len(s.records)-1)
	}
	s.take(c, true)
	s.sinceFlush = 0
	if c2 := s.maker.FlushBuffer(); c2 != nil {
		return "flush:second-flush-returned-chunk", fmt.Sprintf("%sa second FlushBuffer after write %d returned another chunk (%d bytes)", s.who, len(s.records)-1, len(c2.Data))
	}
	return "", ""
}

// finish is the final flush: everything still buffered must come out now (checked by verify: nothing may be missing).
func (s *session) finish() (string, string) {
	if c := s.maker.FlushBuffer(); c != nil {
		s.take(c, true)
	}
	s.sinceFlush = 0
	if c := s.maker.FlushBuffer(); c != nil {
		return "flush:second-flush-returned-chunk", fmt.Sprintf("%sa second final FlushBuffer returned another chunk (%d bytes)", s.who, len(c.Data))
	}
	return "", ""
}

// idLog remembers the chunk IDs of one pipeline (one tag, one queue directory) across generations of its chunk maker.
type idLog struct {
	gen      int
	seen     map[string][2]int // id -> generation, chunk index
	prevMax  string            // greatest storage name of the earlier generations
	curMax   string
	tolerate bool // the restarted generator's first clock reading EQUALS its predecessor's last one: documentation silent, either answer accepted
}

func newIDLog() *idLog { return &idLog{seen: map[string][2]int{}} }

func (l *idLog) restart(tolerate bool) {
	l.gen++
	if l.curMax > l.prevMax {
		l.prevMax = l.curMax
	}
	l.curMax = ""
	l.tolerate = tolerate
}

// verify decodes every chunk of the session (after all writes of the case, of every maker alive: chunk data must not alias
// reused buffers) and compares with the written sequence.
func (s *session) verify(ctx *seq.Ctx, ids *idLog) (string, string) {
	f := s.f
	records := s.records
	next := 0 // next input record expected
	for ci, e := range s.chunks {
		if !bytes.Equal(e.chunk.Data, e.snapshot) || e.chunk.ID != e.id {
			return "chunk:mutated-after-emission", fmt.Sprintf("%schunk %d (%s) changed after it was returned (buffer reuse)", s.who, ci, e.id)
		}
		var count, payloadBytes int
		var key, msg string
		if f.kind == "dd" {
			count, payloadBytes, key, msg = f.checkDatadogChunk(e.chunk, records, next)
		} else {
			count, payloadBytes, key, msg = f.checkForwardChunk(e.chunk, records, next)
		}
		if key != "" {
			return key, fmt.Sprintf("%schunk %d of %d (id %s, %d bytes, out after write %d): %s", s.who, ci, len(s.chunks), e.id, len(e.chunk.Data), e.after-1, msg)
		}
		if count == 0 {
			return "chunk:empty", fmt.Sprintf("%schunk %d (%s) holds no record", s.who, ci, e.id)
		}
		if next+count > e.after {
			return "chunk:record-from-the-future", fmt.Sprintf("%schunk %d holds records up to %d but only %d had been written", s.who, ci, next+count-1, e.after)
		}
		if e.byFlush && next+count != e.after {
			return "flush:left-records-buffered", fmt.Sprintf("%schunk %d returned by FlushBuffer ends at record %d, but %d records had been written", s.who, ci, next+count-1, e.after)
		}
		// identity
		if e.id == "" || strings.ContainsAny(e.id, "/\\\x00") || len(e.id) > 255 {
			return "id:not-a-storage-name", fmt.Sprintf("%schunk ID %q cannot be a file name", s.who, e.id)
		}
		if !f.match(e.id) {
			return "id:rejected-by-MatchChunkID", fmt.Sprintf("%schunk ID %q is not recognised by the output's MatchChunkID", s.who, e.id)
		}
		if prev, dup := ids.seen[e.id]; dup {
			switch {
			case prev[0] == ids.gen:
				return "id:duplicate", fmt.Sprintf("%schunks %d and %d share the ID %q (clock %s)", s.who, prev[1], ci, e.id, clockNames[clk.mode])
			case ids.tolerate:
				ctx.Groups["cover:restart-at-the-same-clock-reading-repeats-an-id(tolerated)"]++
			default:
				return "id:duplicate-across-restart", fmt.Sprintf("%schunk %d of the restarted chunk maker (generation %d) has the ID %q, which chunk %d of generation %d of the same pipeline already carries: same storage name in the same queue directory, the saved chunk is overwritten / one ACK confirms both (clock %s)",
					s.who, ci, ids.gen, e.id, prev[1], prev[0], clockNames[clk.mode])
			}
		}
		ids.seen[e.id] = [2]int{ids.gen, ci}
		if ids.gen > 0 && !ids.tolerate && e.id <= ids.prevMax {
			return "id:restart-sorts-before-predecessor", fmt.Sprintf("%schunk %d of the restarted chunk maker has the ID %q, which does not sort after %q issued before the restart: recovery takes saved chunks in the order of their storage names (clock %s)",
				s.who, ci, e.id, ids.prevMax, clockNames[clk.mode])
		}
		if e.id > ids.curMax {
			ids.curMax = e.id
		}
		// limits
		if count > 1 {
			if f.maxRecords > 0 && count > f.maxRecords {
				return "limit:records-exceeded", fmt.Sprintf("%schunk %d holds %d records, limit %d", s.who, ci, count, f.maxRecords)
			}
			if f.maxSize > 0 && payloadBytes > f.maxSize {
				what := ""
				if f.prod {
					what = " (production limits as shipped; documented limit pinned in the harness)"
				}
				return "limit:size-exceeded", fmt.Sprintf("%schunk %d holds %d records / %d uncompressed bytes, limit %d%s", s.who, ci, count, payloadBytes, f.maxSize, what)
			}
		}
		if count == 1 && ((f.maxSize > 0 && payloadBytes > f.maxSize) || f.maxRecords == 1) {
			ctx.Groups["cover:single-record-chunk-at-or-over-limit"]++
		}
		if f.kind == "ff" {
			ctx.Groups[countClass(count)]++
		}
		next += count
	}
	if next != len(records) {
		return "lost-records", fmt.Sprintf("%s%d records written, the chunks hold only the first %d (after the final FlushBuffer)", s.who, len(records), next)
	}
	ctx.Groups[chunkCountKeys[min(len(s.chunks), 6)]]++
	return "", ""
}

// countClass names (as a coverage counter) the MessagePack width class of a record count (array header / option.size integer)
func countClass(n int) string {
	switch {
	case n <= 15:
		return "cover:records-per-chunk-1..15(fixarray,fixint)"
	case n <= 127:
		return "cover:records-per-chunk-16..127(array16,fixint)"
	case n <= 255:
		return "cover:records-per-chunk-128..255(array16,uint8)"
	case n <= 65535:
		return "cover:records-per-chunk-256..65535(array16,uint16)"
	}
	return "cover:records-per-chunk-65536+(array32,uint32)"
}

// run drives the family's chunk maker: write sizes[i], flush after write i where flushAfter(i). Returns a violation or "".
func (f *family) run(ctx *seq.Ctx, sizes []int, flushAfter func(i int) bool, clock clockMode) (string, string) {
	installClock(clock, false)
	defer shared.VerifSetNow(nil)
	s, key, msg := f.begin("")
	if key != "" {
		return key, msg
	}
	if key, msg := s.drive(sizes, flushAfter); key != "" {
		return key, msg
	}
	if key, msg := s.verify(ctx, newIDLog()); key != "" {
		return key, msg
	}
	f.dirty = false
	return "", ""
}

func (s *session) drive(sizes []int, flushAfter func(i int) bool) (string, string) {
	for i, size := range sizes {
		s.write(size)
		if flushAfter(i) {
			if key, msg := s.flush(); key != "" {
				return key, msg
			}
		}
	}
	return s.finish()
}

// runRestart: the pipeline's chunk maker is driven (sizesA), flushed for good, and REPLACED by a new one of the same
// configuration (same tag, same ID suffix = same queue directory), as after a restart of the agent or a reload; the new
// generator's first clock reading is gap ns after the last reading of the old one (real clock: whatever time has passed).
// The IDs of both generations form one set: unique, and the new ones sort after the old ones.
func (f *family) runRestart(ctx *seq.Ctx, sizesA []int, maskA uint, sizesB []int, maskB uint, clock clockMode, gap int64) (string, string) {
	installClock(clock, true)
	defer shared.VerifSetNow(nil)
	ids := newIDLog()
	s1, key, msg := f.begin("generation 0: ")
	if key != "" {
		return key, msg
	}
	if key, msg := s1.drive(sizesA, func(i int) bool { return maskA&(1<<uint(i)) != 0 }); key != "" {
		return key, msg
	}
	if key, msg := s1.verify(ctx, ids); key != "" {
		return key, msg
	}
	// ---- restart
	restartClock(gap)
	ids.restart(clock != clockReal && gap == 0)
	f.maker, f.dirty = f.newMaker(), false
	s2, key, msg := f.begin("generation 1 (after the restart): ")
	if key != "" {
		return key, msg
	}
	if key, msg := s2.drive(sizesB, func(i int) bool { return maskB&(1<<uint(i)) != 0 }); key != "" {
		return key, msg
	}
	if key, msg := s2.verify(ctx, ids); key != "" {
		return key, msg
	}
	// the chunks of generation 0 are still what they were (the new maker shares nothing with the old one)
	for ci, e := range s1.chunks {
		if !bytes.Equal(e.chunk.Data, e.snapshot) || e.chunk.ID != e.id {
			return "chunk:mutated-after-emission", fmt.Sprintf("chunk %d (%s) of generation 0 changed while the restarted maker was working", ci, e.id)
		}
	}
	f.dirty = false
	return "", ""
}

// step of an interleaved case: maker index and operation (0 = small record, 1 = big record, 2 = FlushBuffer)
type ilStep struct{ maker, op int }

// runInterleaved keeps several chunk makers (one per pipeline: own tag) alive at once and alternates their calls in the
// given order, sequentially. Each maker must behave exactly as if it were alone: the per-maker oracle is unchanged and is
// evaluated after ALL calls of ALL makers (anything shared between makers - buffers, compressors, encoders, tags - shows as
// foreign / mutated / misattributed data).
func runInterleaved(ctx *seq.Ctx, fams []*family, steps []ilStep, clock clockMode) (string, string) {
	installClock(clock, false)
	defer shared.VerifSetNow(nil)
	sessions := make([]*session, len(fams))
	for i, f := range fams {
		s, key, msg := f.begin(fmt.Sprintf("maker %c (%s, tag %q): ", 'A'+i, f.name(), f.tag))
		if key != "" {
			return key, msg
		}
		sessions[i] = s
	}
	for _, st := range steps {
		s := sessions[st.maker]
		switch st.op {
		case 0:
			s.write(s.f.small())
		case 1:
			s.write(s.f.big())
		default:
			if key, msg := s.flush(); key != "" {
				return key, msg
			}
		}
	}
	for _, s := range sessions {
		if key, msg := s.finish(); key != "" {
			return key, msg
		}
	}
	touched := 0
	for _, s := range sessions {
		if key, msg := s.verify(ctx, newIDLog()); key != "" {
			return key, msg
		}
		if len(s.records) > 0 {
			touched++
		}
	}
	ctx.Groups[fmt.Sprintf("cover:interleaved-%d-makers-written", touched)]++
	for _, f := range fams {
		f.dirty = false
	}
	return "", ""
}

var chunkCountKeys = [7]string{"cover:0-chunks", "cover:1-chunks", "cover:2-chunks", "cover:3-chunks", "cover:4-chunks", "cover:5-chunks", "cover:6-chunks"}

func min(a, b int) int {
	if a < b {
		return a
	}
	return b
}

// matchRecords walks payload as a concatenation (sep between records) of the input records from index next on; returns how
// many records were matched if the payload is consumed exactly.
func matchRecords(payload []byte, records [][]byte, next int, sep string) (int, string) {
	off, count := 0, 0
	for off < len(payload) {
		if count > 0 && sep != "" {
			if !bytes.HasPrefix(payload[off:], []byte(sep)) {
				return count, fmt.Sprintf("after %d records: want separator %q at payload offset %d, got %q", count, sep, off, clipB(payload[off:]))
			}
			off += len(sep)
		}
		if next+count >= len(records) {
			return count, fmt.Sprintf("after %d records the payload has %d more bytes but no written record is left (duplicate or foreign data): %q", count, len(payload)-off, clipB(payload[off:]))
		}
		rec := records[next+count]
		if !bytes.HasPrefix(payload[off:], rec) {
			return count, fmt.Sprintf("payload offset %d does not continue with written record %d (%d bytes): got %q, want %q", off, next+count, len(rec), clipB(payload[off:]), clipB(rec))
		}
		off += len(rec)
		count++
	}
	return count, ""
}

func clipB(b []byte) string {
	if len(b) > 40 {
		return fmt.Sprintf("%x...(%d bytes)", b[:40], len(b))
	}
	return fmt.Sprintf("%x", b)
}

// checkForwardChunk decodes one Forward-protocol message. Returns the number of records and their total size.
func (f *family) checkForwardChunk(chunk *base.LogChunk, records [][]byte, next int) (int, int, string, string) {
	data := chunk.Data
	r := bytes.NewReader(data)
	d := msgpack.NewDecoder(r) // unbuffered on a *bytes.Reader
	n, err := d.DecodeArrayLen()
	if err != nil || n != 3 {
		return 0, 0, "malformed:message-array", fmt.Sprintf("root array: len=%d err=%v, want 3 [tag, entries, option]", n, err)
	}
	tag, err := d.DecodeString()
	if err != nil {
		return 0, 0, "malformed:tag", fmt.Sprintf("tag: %v", err)
	}
	if tag != f.tag {
		return 0, 0, "tag:mismatch", fmt.Sprintf("tag %q, configured %q", clipS(tag), clipS(f.tag))
	}
	c, err := d.PeekCode()
	if err != nil {
		return 0, 0, "malformed:entries", fmt.Sprintf("entries: %v", err)
	}
	var count, payloadBytes int
	entriesAreArray := false
	var packed []byte
	switch {
	case codes.IsFixedArray(c) || c == codes.Array16 || c == codes.Array32:
		entriesAreArray = true
		declared, err := d.DecodeArrayLen()
		if err != nil {
			return 0, 0, "malformed:entries", fmt.Sprintf("entries array header: %v", err)
		}
		off := len(data) - r.Len()
		for i := 0; i < declared; i++ {
			if next+i >= len(records) {
				return 0, 0, "entries:more-than-written", fmt.Sprintf("entries array declares %d events but only %d written records are left", declared, len(records)-next)
			}
			rec := records[next+i]
			if !bytes.HasPrefix(data[off:], rec) {
				return 0, 0, "entries:not-the-written-records", fmt.Sprintf("entry %d is not written record %d: got %q, want %q", i, next+i, clipB(data[off:]), clipB(rec))
			}
			off += len(rec)
			payloadBytes += len(rec)
		}
		count = declared
		r.Seek(int64(off), io.SeekStart)
	case codes.IsBin(c) || codes.IsString(c):
		if codes.IsString(c) {
			return 0, 0, "mode:entries-as-str", "packed entries are encoded as str, the protocol wants bin"
		}
		packed, err = d.DecodeBytes()
		if err != nil {
			return 0, 0, "malformed:entries", fmt.Sprintf("entries bin: %v", err)
		}
	default:
		return 0, 0, "malformed:entries", fmt.Sprintf("entries have code 0x%02x, want array or bin", byte(c))
	}
	// option
	c, err = d.PeekCode()
	if err != nil || !(codes.IsFixedMap(c) || c == codes.Map16 || c == codes.Map32) {
		return 0, 0, "malformed:option", fmt.Sprintf("option: code 0x%02x err=%v, want a map (entries: array=%v, %d events declared)", byte(c), err, entriesAreArray, count)
	}
	m, _ := d.DecodeMapLen()
	optSize, optChunk, optCompressed := -1, "", ""
	hasChunk := false
	for i := 0; i < m; i++ {
		k, err := d.DecodeString()
		if err != nil {
			return 0, 0, "malformed:option", fmt.Sprintf("option key: %v", err)
		}
		switch k {
		case "size":
			v, err := d.DecodeInt()
			if err != nil {
				return 0, 0, "malformed:option", fmt.Sprintf("option.size: %v", err)
			}
			optSize = v
		case "chunk":
			v, err := d.DecodeString()
			if err != nil {
				return 0, 0, "malformed:option", fmt.Sprintf("option.chunk: %v", err)
			}
			optChunk, hasChunk = v, true
		case "compressed":
			v, err := d.DecodeString()
			if err != nil {
				return 0, 0, "malformed:option", fmt.Sprintf("option.compressed: %v", err)
			}
			optCompressed = v
		default:
			return 0, 0, "option:unknown-key", fmt.Sprintf("option has key %q (Forward protocol v1 knows size, chunk, compressed)", clipS(k))
		}
	}
	if r.Len() != 0 {
		return 0, 0, "malformed:trailing-bytes", fmt.Sprintf("%d bytes follow the message", r.Len())
	}
	// mode
	switch f.mode {
	case forwardprotocol.ModeForward:
		if !entriesAreArray || optCompressed != "" {
			return 0, 0, "mode:not-forward", fmt.Sprintf("mode Forward: entries array=%v compressed=%q", entriesAreArray, optCompressed)
		}
	case forwardprotocol.ModePackedForward:
		if entriesAreArray || optCompressed != "" {
			return 0, 0, "mode:not-packedforward", fmt.Sprintf("mode PackedForward: entries array=%v compressed=%q", entriesAreArray, optCompressed)
		}
	case forwardprotocol.ModeCompressedPackedForward:
		if entriesAreArray || optCompressed != "gzip" {
			return 0, 0, "mode:not-compressedpackedforward", fmt.Sprintf("mode CompressedPackedForward: entries array=%v compressed=%q", entriesAreArray, optCompressed)
		}
	}
	if !entriesAreArray {
		payload := packed
		if optCompressed == "gzip" {
			var why string
			payload, why = gunzip(packed)
			if why != "" {
				return 0, 0, "malformed:gzip", why
			}
		}
		var why string
		count, why = matchRecords(payload, records, next, "")
		if why != "" {
			return 0, 0, "entries:not-the-written-records", why
		}
		payloadBytes = len(payload)
	}
	if optSize != count {
		return 0, 0, "option:size-mismatch", fmt.Sprintf("option.size=%d, the chunk holds %d records", optSize, count)
	}
	if !hasChunk || optChunk != chunk.ID {
		return 0, 0, "id:option-differs-from-LogChunk.ID", fmt.Sprintf("option.chunk=%q (present=%v), LogChunk.ID=%q", optChunk, hasChunk, chunk.ID)
	}
	// second reading: fluentlib's reference decoder (what the test Fluentd server runs)
	var ref forwardprotocol.Message
	if err := msgpack.Unmarshal(data, &ref); err != nil {
		return 0, 0, "fluentlib:decode-error", fmt.Sprintf("forwardprotocol.Message: %v", err)
	}
	if ref.Tag != f.tag || ref.Option.Chunk != chunk.ID || ref.Option.Size != count || len(ref.Entries) != count {
		return 0, 0, "fluentlib:mismatch", fmt.Sprintf("forwardprotocol.Message: tag=%q chunk=%q size=%d entries=%d; want %q %q %d %d", clipS(ref.Tag), ref.Option.Chunk, ref.Option.Size, len(ref.Entries), clipS(f.tag), chunk.ID, count, count)
	}
	for i, e := range ref.Entries {
		if e.Time.Unix() != int64(next+i+1) || e.Time.Nanosecond() != len(records[next+i]) {
			return 0, 0, "fluentlib:mismatch", fmt.Sprintf("forwardprotocol.Message: entry %d has time %d.%09d, want record %d (time %d.%09d)", i, e.Time.Unix(), e.Time.Nanosecond(), next+i, next+i+1, len(records[next+i]))
		}
	}
	return count, payloadBytes, "", ""
}

func clipS(s string) string {
	if len(s) > 60 {
		return fmt.Sprintf("%s...(%d bytes)", s[:60], len(s))
	}
	return s
}

var gzReader *gzip.Reader // stdlib decompressor, reused (Reset) between chunks

// gunzip decompresses a complete gzip stream with the standard library (the code under test compresses with klauspost);
// trailing garbage or a truncated stream is an error.
func gunzip(data []byte) ([]byte, string) {
	var err error
	if gzReader == nil {
		gzReader, err = gzip.NewReader(bytes.NewReader(data))
	} else {
		err = gzReader.Reset(bytes.NewReader(data))
	}
	if err != nil {
		return nil, fmt.Sprintf("gzip header: %v", err)
	}
	var out bytes.Buffer
	if _, err := out.ReadFrom(gzReader); err != nil {
		return nil, fmt.Sprintf("gzip stream: %v (%d bytes read)", err, out.Len())
	}
	return out.Bytes(), ""
}

// checkDatadogChunk decodes one Datadog request body: gzip of a JSON array.
func (f *family) checkDatadogChunk(chunk *base.LogChunk, records [][]byte, next int) (int, int, string, string) {
	payload, why := gunzip(chunk.Data)
	if why != "" {
		return 0, 0, "malformed:gzip", why
	}
	if len(payload) < 2 || payload[0] != '[' || payload[len(payload)-1] != ']' {
		return 0, 0, "malformed:json-array", fmt.Sprintf("payload is not bracketed: %q", clipB(payload))
	}
	count, why := matchRecords(payload[1:len(payload)-1], records, next, ",")
	if why != "" {
		return 0, 0, "entries:not-the-written-records", why
	}
	var arr []json.RawMessage
	if err := json.Unmarshal(payload, &arr); err != nil {
		return 0, 0, "malformed:json-array", fmt.Sprintf("encoding/json: %v", err)
	}
	if len(arr) != count {
		return 0, 0, "malformed:json-array", fmt.Sprintf("encoding/json sees %d elements, %d records matched", len(arr), count)
	}
	return count, len(payload), "", ""
}

// ---------------------------------------------------------------------------------------------------------------

const ffMax = 64

var ffSizes = []int{12, ffMax / 2, ffMax - 1, ffMax, ffMax + 1, 2 * ffMax}

func sizesString(sizes []int, mask uint) string {
	var sb strings.Builder
	for i, s := range sizes {
		if i > 0 {
			sb.WriteByte(',')
		}
		fmt.Fprintf(&sb, "%d", s)
		if mask&(1<<uint(i)) != 0 {
			sb.WriteByte('F')
		}
	}
	return sb.String()
}

// forEachSequence enumerates all sequences over menu of length 1..maxLen with all flush masks, in a fixed order.
// It returns false if fn asked to stop.
func forEachSequence(menu []int, maxLen int, fn func(sizes []int, mask uint) bool) bool {
	return forEachSequenceFrom(menu, 1, maxLen, fn)
}

// forEachSequenceFrom: lengths minLen..maxLen only
func forEachSequenceFrom(menu []int, minLen, maxLen int, fn func(sizes []int, mask uint) bool) bool {
	for n := minLen; n <= maxLen; n++ {
		idx := make([]int, n)
		sizes := make([]int, n)
		for {
			for i, x := range idx {
				sizes[i] = menu[x]
			}
			for mask := uint(0); mask < 1<<uint(n); mask++ {
				if !fn(sizes, mask) {
					return false
				}
			}
			i := n - 1
			for i >= 0 {
				idx[i]++
				if idx[i] < len(menu) {
					break
				}
				idx[i] = 0
				i--
			}
			if i < 0 {
				break
			}
		}
	}
	return true
}

// forEachSteps enumerates all step sequences of length 1..maxLen over nMakers x {small, big, flush}, in a fixed order.
func forEachSteps(nMakers, maxLen int, fn func(steps []ilStep) bool) bool {
	alpha := nMakers * 3
	for n := 1; n <= maxLen; n++ {
		idx := make([]int, n)
		steps := make([]ilStep, n)
		for {
			for i, x := range idx {
				steps[i] = ilStep{x / 3, x % 3}
			}
			if !fn(steps) {
				return false
			}
			i := n - 1
			for i >= 0 {
				idx[i]++
				if idx[i] < alpha {
					break
				}
				idx[i] = 0
				i--
			}
			if i < 0 {
				break
			}
		}
	}
	return true
}

func stepsString(fams []*family, steps []ilStep) string {
	var sb strings.Builder
	for i, st := range steps {
		if i > 0 {
			sb.WriteByte('.')
		}
		sb.WriteByte(byte('A' + st.maker))
		switch st.op {
		case 0:
			fmt.Fprintf(&sb, "%d", fams[st.maker].small())
		case 1:
			fmt.Fprintf(&sb, "%d", fams[st.maker].big())
		default:
			sb.WriteByte('F')
		}
	}
	return sb.String()
}

var modes = []forwardprotocol.MessageMode{forwardprotocol.ModeForward, forwardprotocol.ModePackedForward, forwardprotocol.ModeCompressedPackedForward}

const tag = "verif.tag"

func enumerate(ctx *seq.Ctx) {
	thorough := ctx.Thorough()

	// ---- the clock seam: structural (compiled in?) + effective (is the installed clock read?)
	sites, reads := detectSeam()
	seamActive := sites > 0 && reads > 0
	ctx.Group("seam")
	ctx.Case("seam/chunk-id-clock", true, "seam/chunk-id-clock", func() (string, string) {
		if !seamActive {
			return "seam-blind", fmt.Sprintf("the clock seam of the chunk ID generator is expected (overlay.sh is part of the build) but not effective: %d time.Now() call sites of output/shared/chunkidgen.go were redirected in the compiled copy, %d reads of the installed clock were observed while a chunk was made. "+
				"The generator reads its clock in a way overlay.sh does not recognise: the frozen / +1ns / pairs clock dimension and the controlled restart gaps cannot be enumerated (only the real clock is exercised)", sites, reads)
		}
		return "", ""
	})
	if seamActive {
		ctx.Note("clock", fmt.Sprintf("chunk ID clock controlled through the overlay seam (%d call site(s) redirected, reads observed): frozen / +1ns per read / pairs / real", sites))
	} else {
		ctx.Note("clock", fmt.Sprintf("clock seam NOT effective (%d call sites redirected, %d reads observed): key seam-blind reported, only the real clock is exercised", sites, reads))
	}
	clocksAll := []clockMode{clockFrozen, clockStep, clockPairs, clockReal}
	if !seamActive {
		clocksAll = []clockMode{clockReal}
	}

	// The small groups, each the ONLY coverage of something (real sizes, gzip at size, Datadog accounting, width classes of
	// counts, restart, several makers), come first; the big scaled product comes last: a deadline cut can then only shorten
	// the product.
	enumProduction(ctx, 1, 2, clocksAll)
	enumDatadog(ctx, 1, 2, clocksAll)
	enumTags(ctx, clocksAll)
	enumRecordCount(ctx, thorough, clocksAll)
	enumRestart(ctx, thorough, clocksAll)
	enumInterleaved(ctx, thorough, clocksAll)
	enumIndependence(ctx, clocksAll)
	enumScaledProduct(ctx, thorough, clocksAll)
	if thorough {
		// the deepening of the two real-size groups (three records of up to 7 / 10 MiB per case) is by far the dearest part per case
		enumProduction(ctx, 3, 3, clocksAll)
		enumDatadog(ctx, 3, 3, clocksAll)
	}
}

func maskFn(mask uint) func(int) bool { return func(i int) bool { return mask&(1<<uint(i)) != 0 } }

// ---- Forward modes with the limits the package ships with; the oracle uses the documented values pinned in the harness
func enumProduction(ctx *seq.Ctx, minLen, maxLen int, clocksAll []clockMode) {
	ctx.Group("forward/production-limits")
	if minLen == 1 {
		enumProductionValues(ctx)
	}
	const P = ffProdMaxSize
	prodSizes := []int{12, 1<<20 + 1, P / 2, P - 1, P, P + 1}
	for _, mode := range modes {
		fam := &family{kind: "ff", mode: mode, prod: true, tag: tag}
		ok := forEachSequenceFrom(prodSizes, minLen, maxLen, func(sizes []int, mask uint) bool {
			if ctx.Stop() {
				return false
			}
			if !ctx.Mine() {
				ctx.Skip()
				return true
			}
			id := fmt.Sprintf("prod/%s/%s", mode, sizesString(sizes, mask))
			sz := append([]int(nil), sizes...)
			ctx.Case(id, len(sz) > 1, id, func() (string, string) {
				return fam.run(ctx, sz, maskFn(mask), clocksAll[0])
			})
			return true
		})
		if !ok {
			return
		}
	}
}

// one case comparing the limits the package ships with against the documented values pinned in the harness
func enumProductionValues(ctx *seq.Ctx) {
	ctx.Case("prod/limit-values", true, "prod/limit-values", func() (string, string) {
		// observation of the code under test, compared with the pinned documentation (not used as the oracle of anything)
		rec, size := fluentdforward.VerifSetChunkLimits(1, 1)
		fluentdforward.VerifSetChunkLimits(rec, size)
		if size <= 0 || size > ffProdMaxSize {
			return "limit:production-size-above-documented", fmt.Sprintf("fluentdforward chunkMaxSizeBytes = %d (0 = unlimited); documented: max uncompressed data size of a chunk %d (7 MiB), which must stay well below Fluentd's DEFAULT_CHUNK_LIMIT_SIZE of %d (8 MiB)", size, ffProdMaxSize, fluentdChunkLimit)
		}
		if size < ffProdMaxSize || rec != ffProdMaxRecords {
			// stricter than documented: chunks are closed earlier than necessary, which the statement allows
			ctx.Groups["cover:production-limits-stricter-than-documented(accepted)"]++
		}
		return "", ""
	})
}

// ---- Datadog: limits are constants (5 MiB uncompressed, 1000 records)
func enumDatadog(ctx *seq.Ctx, minLen, maxLen int, clocksAll []clockMode) {
	dd := &family{kind: "dd", tag: "ddtag"}
	const M = ddMaxSize
	ddSizes := []int{22, M/2 - 2, M/2 - 1, M - 3, M - 2, M - 1, M + 1, 2 * M}
	ctx.Group("datadog/size-limit")
	ok := forEachSequenceFrom(ddSizes, minLen, maxLen, func(sizes []int, mask uint) bool {
		if ctx.Stop() {
			return false
		}
		if !ctx.Mine() {
			ctx.Skip()
			return true
		}
		id := fmt.Sprintf("datadog/%s", sizesString(sizes, mask))
		sz := append([]int(nil), sizes...)
		ctx.Case(id, len(sz) > 1, id, func() (string, string) {
			return dd.run(ctx, sz, maskFn(mask), clocksAll[0])
		})
		return true
	})
	if !ok || minLen > 1 {
		return
	}
	// record limit: N tiny records with one optional flush position. The real clock comes last: the long-lived generator
	// must not see the clock step back to the seam's epoch.
	ctx.Group("datadog/record-limit")
	for _, clock := range clocksAll {
		for _, n := range []int{999, 1000, 1001, 2000, 2001} {
			for _, tiny := range []int{22, 100} {
				for _, flushAt := range []int{-1, 0, 1, 499, 998, 999, 1000, 1001, 1999} {
					if flushAt >= n {
						continue
					}
					if !ctx.Mine() {
						ctx.Skip()
						continue
					}
					id := fmt.Sprintf("datadog/%dx%d/flush-after-%d/%s", n, tiny, flushAt, clockNames[clock])
					sz := make([]int, n)
					for i := range sz {
						sz[i] = tiny
					}
					flushAt, clock := flushAt, clock
					ctx.Case(id, true, id, func() (string, string) {
						return dd.run(ctx, sz, func(i int) bool { return i == flushAt }, clock)
					})
				}
			}
		}
	}
}

// ---- tags on both sides of the msgpack string header boundaries
func enumTags(ctx *seq.Ctx, clocksAll []clockMode) {
	ctx.Group("forward/tags")
	for _, tl := range []int{1, 31, 32, 255, 256, 65535, 65536} {
		for _, mode := range modes {
			fam := &family{kind: "ff", mode: mode, maxSize: ffMax, maxRecords: 2, tag: strings.Repeat("t", tl)}
			forEachSequence(ffSizes, 2, func(sizes []int, mask uint) bool {
				id := fmt.Sprintf("tag%d/%s/%s", tl, mode, sizesString(sizes, mask))
				sz := append([]int(nil), sizes...)
				ctx.Case(id, true, id, func() (string, string) {
					return fam.run(ctx, sz, maskFn(mask), clocksAll[0])
				})
				return true
			})
		}
	}
}

// ---- record COUNT per chunk on both sides of every MessagePack width class of a count: the entries array header of the
// Forward mode (fixarray <= 15, array16 <= 65535, array32) and the integer of option.size in all modes (fixint <= 127,
// uint8 <= 255, uint16 <= 65535, uint32). N records of 12 bytes; the chunk is cut by the final flush (N records), by a flush
// after the first record (1 + N-1), by a flush before the last one (N-1 + 1), by a record limit of N-1 and by a size limit
// of 12*(N-1) (roll-over: N-1 + 1), and never under the production limits (7 MiB hold 611 669 such records).
func enumRecordCount(ctx *seq.Ctx, thorough bool, clocksAll []clockMode) {
	ctx.Group("forward/record-count")
	counts := []int{15, 16, 17, 127, 128, 129, 255, 256, 257, 65535, 65536, 65537}
	if thorough {
		counts = append(counts, 31, 32, 33, 4095, 4096, 131071, 131072, 600000)
	}
	for _, mode := range modes {
		unlimited := &family{kind: "ff", mode: mode, maxSize: 0, maxRecords: 0, tag: tag}
		prod := &family{kind: "ff", mode: mode, prod: true, tag: tag}
		for _, n := range counts {
			variants := []struct {
				name string
				fam  *family
			}{
				{"unlimited", unlimited},
				{"production", prod},
				{"rec-limit", &family{kind: "ff", mode: mode, maxSize: 0, maxRecords: n - 1, tag: tag}},
				{"size-limit", &family{kind: "ff", mode: mode, maxSize: 12 * (n - 1), maxRecords: 0, tag: tag}},
			}
			for _, v := range variants {
				for _, flushAt := range []int{-1, 0, n - 2} {
					if ctx.Stop() {
						return
					}
					if !ctx.Mine() {
						ctx.Skip()
						continue
					}
					id := fmt.Sprintf("count/%s/%s/%dx12/flush-after-%d", mode, v.name, n, flushAt)
					fam, flushAt, n := v.fam, flushAt, n
					ctx.Case(id, true, id, func() (string, string) {
						sz := make([]int, n)
						for i := range sz {
							sz[i] = 12
						}
						return fam.run(ctx, sz, func(i int) bool { return i == flushAt }, clocksAll[0])
					})
				}
			}
		}
	}
}

// ---- restart: a second chunk maker / ID generator of the same pipeline while the IDs of the first are remembered
func enumRestart(ctx *seq.Ctx, thorough bool, clocksAll []clockMode) {
	type gapT struct {
		name string
		ns   int64
	}
	seamGaps := []gapT{{"same-reading", 0}, {"+1ns", 1}, {"+1us", 1000}, {"same-second", 900_000_000}, {"next-second", 1_000_000_000}, {"+1h", 3_600_000_000_000}}
	realGaps := []gapT{{"at-once", 0}}
	fams := []*family{
		{kind: "ff", mode: forwardprotocol.ModeForward, maxSize: ffMax, maxRecords: 2, tag: tag},
		{kind: "ff", mode: forwardprotocol.ModePackedForward, maxSize: ffMax, maxRecords: 0, tag: tag},
		{kind: "ff", mode: forwardprotocol.ModeCompressedPackedForward, maxSize: ffMax, maxRecords: 2, tag: tag},
		{kind: "dd", tag: "ddtag"},
	}
	for _, fam := range fams {
		cheap := fam.kind == "ff" && fam.mode != forwardprotocol.ModeCompressedPackedForward
		// what matters for IDs is how many chunks each generation makes and when; two sizes (one that fits, one that rolls over) do
		two := []int{fam.small(), fam.big()}
		menuA, lenA := two, 2
		if cheap {
			lenA = 3
		}
		if thorough {
			lenA++
		}
		for _, clock := range clocksAll { // the real clock is last
			gaps := seamGaps
			if clock == clockReal {
				gaps = realGaps
			}
			for _, gap := range gaps {
				ctx.Group(fmt.Sprintf("restart/%s/clock-%s", fam.name(), clockNames[clock]))
				ok := forEachSequence(menuA, lenA, func(sizesA []int, maskA uint) bool {
					return forEachSequence(two, 2, func(sizesB []int, maskB uint) bool {
						if ctx.Stop() {
							return false
						}
						if !ctx.Mine() {
							ctx.Skip()
							return true
						}
						id := fmt.Sprintf("restart/%s/%s/%s/%s|%s", fam.name(), clockNames[clock], gap.name, sizesString(sizesA, maskA), sizesString(sizesB, maskB))
						szA, szB := append([]int(nil), sizesA...), append([]int(nil), sizesB...)
						fam, clock, gap := fam, clock, gap
						ctx.Case(id, true, id, func() (string, string) {
							return fam.runRestart(ctx, szA, maskA, szB, maskB, clock, gap.ns)
						})
						return true
					})
				})
				if !ok {
					return
				}
			}
		}
	}
}

// ---- two or three chunk makers alive at once, calls interleaved in every order
func enumInterleaved(ctx *seq.Ctx, thorough bool, clocksAll []clockMode) {
	clock := clocksAll[0]
	if len(clocksAll) > 1 {
		clock = clockStep // every ID of every maker distinct
	}
	mk := ilFamily
	combos := []string{
		"FF", "FP", "PP", "FC", "FD", "PC", "PD", "CC", "CD", "DD", // every unordered pair of kinds
		"FFF", "PPP", "CCC", "DDD", "FPC", "FPD", "FCD", "PCD",
	}
	for _, combo := range combos {
		cheap := !strings.ContainsAny(combo, "CD")
		depth := 4
		if cheap {
			depth = 5
		}
		if len(combo) == 3 {
			depth--
		}
		if thorough {
			depth++
		}
		fams := make([]*family, len(combo))
		for i := range combo {
			fams[i] = mk(combo[i], i)
		}
		ctx.Group("interleave/" + combo)
		ok := forEachSteps(len(fams), depth, func(steps []ilStep) bool {
			if ctx.Stop() {
				return false
			}
			if !ctx.Mine() {
				ctx.Skip()
				return true
			}
			id := fmt.Sprintf("interleave/%s/%s", combo, stepsString(fams, steps))
			st := append([]ilStep(nil), steps...)
			makers := map[int]bool{}
			for _, s := range st {
				makers[s.maker] = true
			}
			ctx.Case(id, len(makers) > 1, id, func() (string, string) {
				return runInterleaved(ctx, fams, st, clock)
			})
			return true
		})
		if !ok {
			return
		}
	}
}

// ilFamily makes the family of one maker of an interleaved case: kind F / P / C (Forward modes, limits 64 bytes / 2 records)
// or D (Datadog); every slot has its own tag of its own length.
func ilFamily(kind byte, slot int) *family {
	tags := []string{"verif.A", "verif.BB", "verif.CCC"}
	switch kind {
	case 'F':
		return &family{kind: "ff", mode: forwardprotocol.ModeForward, maxSize: ffMax, maxRecords: 2, tag: tags[slot]}
	case 'P':
		return &family{kind: "ff", mode: forwardprotocol.ModePackedForward, maxSize: ffMax, maxRecords: 2, tag: tags[slot]}
	case 'C':
		return &family{kind: "ff", mode: forwardprotocol.ModeCompressedPackedForward, maxSize: ffMax, maxRecords: 2, tag: tags[slot]}
	}
	return &family{kind: "dd", tag: tags[slot]}
}

// ---- independence of two live chunk makers on the object graph (see alias.go): no writable buffer / encoder / compressor
// is reachable from both. Every unordered pair of kinds x the state of each maker {a chunk just opened, a chunk opened after
// an earlier one was flushed}; the usual per-maker oracle runs on top.
func enumIndependence(ctx *seq.Ctx, clocksAll []clockMode) {
	ctx.Group("independence")
	clock := clocksAll[0]
	if len(clocksAll) > 1 {
		clock = clockStep
	}
	for _, combo := range []string{"FF", "FP", "PP", "FC", "FD", "PC", "PD", "CC", "CD", "DD"} {
		for state := 0; state < 4; state++ {
			id := fmt.Sprintf("independence/%s/%s+%s", combo, []string{"first-chunk", "later-chunk"}[state&1], []string{"first-chunk", "later-chunk"}[state>>1])
			combo, state := combo, state
			ctx.Case(id, true, id, func() (string, string) {
				installClock(clock, false)
				defer shared.VerifSetNow(nil)
				fams := []*family{ilFamily(combo[0], 0), ilFamily(combo[1], 1)}
				var ss []*session
				for i, f := range fams {
					s, key, msg := f.begin(fmt.Sprintf("maker %c (%s, tag %q): ", 'A'+i, f.name(), f.tag))
					if key != "" {
						return key, msg
					}
					s.write(f.small())
					if (state>>uint(i))&1 == 1 {
						if key, msg := s.flush(); key != "" {
							return key, msg
						}
						s.write(f.small())
					}
					ss = append(ss, s)
				}
				// both makers hold an open chunk now: compressor, buffers and encoder are all reachable
				if what := sharedWritable(ss[0].maker, ss[1].maker); what != "" {
					return "makers:share-writable-state", fmt.Sprintf("two live chunk makers (%s tag %q, %s tag %q) of different pipelines write through the same object: %s. Pipelines run in parallel without a lock around WriteStream / FlushBuffer, so both goroutines write there at once and the chunks of both are corrupted whenever two calls overlap",
						fams[0].name(), fams[0].tag, fams[1].name(), fams[1].tag, what)
				}
				for _, s := range ss {
					if key, msg := s.finish(); key != "" {
						return key, msg
					}
				}
				for _, s := range ss {
					if key, msg := s.verify(ctx, newIDLog()); key != "" {
						return key, msg
					}
				}
				return "", ""
			})
		}
	}
}

// ---- Forward modes: every sequence x every flush placement x limits x clocks (limits scaled to 64 bytes / 0..3 records)
func enumScaledProduct(ctx *seq.Ctx, thorough bool, clocksAll []clockMode) {
	type limit struct{ size, records int }
	limits := []limit{{ffMax, 0}, {ffMax, 1}, {ffMax, 2}, {ffMax, 3}, {0, 0}, {0, 2}}
	for _, mode := range modes {
		compressed := mode == forwardprotocol.ModeCompressedPackedForward
		for _, lim := range limits {
			fam := &family{kind: "ff", mode: mode, maxSize: lim.size, maxRecords: lim.records, tag: tag}
			for _, clock := range clocksAll {
				// depth (number of writes). Creating a gzip writer per chunk makes the compressed mode ~100x more expensive per
				// case than the other two, while the roll-over logic is shared by all three modes:
				//   quick:    Forward/PackedForward 5 (other clocks 3); Compressed 4 for limits (64,0) (64,2), else 3 (other clocks 2)
				//   thorough: Forward/PackedForward 6 (all clocks);     Compressed 5 (other clocks 4)
				firstClock := clock == clocksAll[0]
				var maxLen int
				switch {
				case thorough && !compressed:
					maxLen = 6
				case thorough && firstClock:
					maxLen = 5
				case thorough:
					maxLen = 4
				case !compressed && firstClock:
					maxLen = 5
				case !compressed:
					maxLen = 3
				case firstClock && lim.size == ffMax && (lim.records == 0 || lim.records == 2):
					maxLen = 4
				case firstClock:
					maxLen = 3
				default:
					maxLen = 2
				}
				ctx.Group(fmt.Sprintf("%s/clock-%s", fam.name(), clockNames[clock]))
				ok := forEachSequence(ffSizes, maxLen, func(sizes []int, mask uint) bool {
					if ctx.Stop() {
						return false
					}
					if !ctx.Mine() {
						ctx.Skip()
						return true
					}
					id := fmt.Sprintf("%s/%s/%s", fam.name(), clockNames[clock], sizesString(sizes, mask))
					sz := append([]int(nil), sizes...)
					clock := clock
					ctx.Case(id, len(sz) > 1, id, func() (string, string) {
						return fam.run(ctx, sz, maskFn(mask), clock)
					})
					return true
				})
				if !ok {
					return
				}
			}
		}
	}
}

func main() {
	logger.SetLogLevel(logger.ErrorLevel)
	seq.Main(&seq.Config{
		Property: "C11",
		Level:    "exploration",
		Rule: "every sequence of 1..5 (quick) / 1..6 (thorough) record sizes from {12 (smallest Forward event), 32, 63, 64, 65, 128} x every subset of FlushBuffer calls after the writes (2^n) through the real " +
			"fluentdforward Config.NewChunkMaker in modes Forward, PackedForward, CompressedPackedForward with chunkMaxSizeBytes/chunkMaxRecords scaled through an overlay accessor to " +
			"(64,0) (64,1) (64,2) (64,3) (0=unlimited,0) (0,2), chunk ID clock frozen (full depth) and +1ns-per-read / pairs (T,T,T+1,T+1..) / real (depth 3 quick, 6 thorough); the gzip mode, whose per-chunk compressor makes a case ~100x dearer, " +
			"runs depth 4 for limits (64,0) (64,2), 3 for the others, 2 for the other clocks (quick) / 5, other clocks 4 (thorough); tags of 1,31,32,255,256,65535,65536 bytes; " +
			"the limits the package ships with (never touched; oracle = documented 7 MiB / no record limit pinned in the harness, plus one case comparing the shipped values with them) with sequences of 1..2 (quick) / 1..3 (thorough) sizes from {12, 1 MiB+1, 3.5 MiB, 7 MiB-1, 7 MiB, 7 MiB+1}; " +
			"record COUNT per chunk: N x 12-byte records, N in {15,16,17,127,128,129,255,256,257,65535,65536,65537} (thorough also 31,32,33,4095,4096,131071,131072,600000) x 3 modes x {unlimited, production limits, record limit N-1, size limit 12(N-1)} x flush {none, after the first, before the last record}; " +
			"restart: sequences A (1..3 sizes for Forward/PackedForward, 1..2 for the gzip kinds, thorough one more, from {small,big}) x flushes, then a NEW chunk maker of the same configuration and tag, then sequences B (1..2 sizes from {small,big}) x flushes, x clock {frozen, +1ns, pairs} x first reading of the new generator {0, 1 ns, 1 us, 0.9 s (same second), 1 s (next second), 1 h} after the last reading of the old one, and the real clock restarted at once; families Forward(64,2) PackedForward(64,0) CompressedPackedForward(64,2) Datadog; " +
			"interleaving: 2 or 3 chunk makers alive at once (own tags; every unordered pair of {Forward, PackedForward, Compressed, Datadog} and the triples FFF PPP CCC DDD FPC FPD FCD PCD), every sequence of 1..5 (pairs) / 1..4 (triples) steps (one less with a gzip kind; thorough one more) over maker x {small record, big record, FlushBuffer}; " +
			"Datadog chunk maker (constant limits 5 MiB / 1000 records): sequences of 1..2 (quick) / 1..3 (thorough) sizes from {22, M/2-2, M/2-1, M-3, M-2, M-1, M+1, 2M} x 2^n flush subsets, and 999/1000/1001/2000/2001 records of 22/100 bytes x 9 flush positions x clocks. " +
			"Oracle per maker and run: each chunk decodes (msgpack token by token + fluentlib forwardprotocol.Message; stdlib gzip + encoding/json), tag, mode shape, option.size = records held, option.chunk = LogChunk.ID, ID accepted by MatchChunkID, usable as a file name and unique (across a restart too, where the new IDs also sort after the old ones), " +
			"payload bytes = the written records in order across chunks with nothing left after the final flush, FlushBuffer returns exactly everything buffered (nil iff nothing written since the last flush), chunk data stable after later calls of any maker, size/record limit exceeded only by a single-record chunk; " +
			"the clock seam must be compiled in and read (key seam-blind otherwise); non-trivial = at least two records (interleaving: at least two makers used)",
		Assumptions: []string{
			"Forward events must be valid MessagePack, so the smallest record is 12 bytes ([EventTime, {}]) instead of 1; sizes are relative to the scaled limit 64",
			"chunkMaxRecords = 0 and chunkMaxSizeBytes = 0 mean 'no limit' (config.go comment: 'Can be 0 in case there's no limit')",
			"the size limit is on the uncompressed record data of a chunk (config.go comments), for Datadog on the whole JSON array; a chunk may be closed earlier than necessary (the statement only bounds chunks from above)",
			"production limits of the Forward output: /repo's README, DESIGN.md and config_sample.yml give no number; config.go documents 'max uncompressed data size ... must be well below Fluentd's DEFAULT_CHUNK_LIMIT_SIZE' (8 MiB) and 'can be 0 in case there's no limit'; the harness pins 7 MiB / no record limit (the values of the verified revision) as the oracle; shipped values stricter than that are accepted (chunks closed earlier), larger ones are a violation",
			"the chunk maker is long-lived per configuration (as in a pipeline); every case starts after a completed flush with a clock later than any earlier case, which puts the ID generator in the state of a new one; IDs must be unique within a run and across a restart of the chunk maker of the same pipeline (same tag, same ID suffix = same queue directory)",
			"restart: a restarted generator whose FIRST clock reading EQUALS the last reading of its predecessor (not 1 ns more) repeats the predecessor's ID; an advancing nanosecond clock cannot produce that and the documentation is silent, so this single point is enumerated but either answer is accepted (cover:restart-at-the-same-clock-reading-repeats-an-id(tolerated))",
			"IDs of different pipelines (different tags = different queue directories) may coincide; no uniqueness is demanded across the makers of an interleaved case",
			"several chunk makers are interleaved sequentially from one goroutine: state shared between makers is visible only if it persists between two calls; data races between goroutines inside one call are outside a sequential harness",
			"clock stepping backwards is outside the stated domain (frozen / advancing) and is not enumerated",
		},
		Enumerate:        enumerate,
		QuickDeadline:    20 * time.Minute,
		ThoroughDeadline: 45 * time.Minute,
	})
}
