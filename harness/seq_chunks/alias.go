package main

// Independence of chunk makers, decided on the object graph instead of on a schedule.
//
// Every pipeline has its own chunk maker, and pipelines run in parallel ("LogProcessingWorker (per pipeline): transform =>
// serialize => compress/pack", /repo DESIGN.md) without any lock around WriteStream / FlushBuffer. A buffer, encoder or
// compressor that two makers both write through is therefore written by two goroutines at once, and the chunks of both
// pipelines are garbage whenever two calls overlap. A sequential harness cannot produce that overlap, but it can see
// the sharing: the memory reachable from two live makers must be disjoint as far as WRITABLE BUFFERS AND ENCODERS are
// concerned. The walk follows exported and unexported fields of slog-agent types (and bytes.Buffer), records the address
// and type of everything it passes (pointers, backing arrays of slices) without descending into foreign types, and reports
// an address reached from both makers if what lives there is a byte buffer, an encoder or any io.Writer. Shared loggers,
// configuration, functions and strings are not reported (read-only or synchronised by design).

import (
	"fmt"
	"io"
	"reflect"
	"sort"
	"strings"
	"unsafe"

	"github.com/relex/slog-agent/base"
)

type reached struct {
	typ  reflect.Type // type of the object at the address (slices: the slice type, address = backing array)
	path string
}

type walker struct {
	out  map[uintptr]reached
	seen map[[2]uintptr]bool
}

var ioWriterType = reflect.TypeOf((*io.Writer)(nil)).Elem()

// clean returns v without the read-only flag of unexported fields (needs an addressable v)
func clean(v reflect.Value) (reflect.Value, bool) {
	if v.CanInterface() {
		return v, true
	}
	if v.CanAddr() {
		return reflect.NewAt(v.Type(), unsafe.Pointer(v.UnsafeAddr())).Elem(), true
	}
	return v, false
}

func descendable(t reflect.Type) bool {
	if t.Kind() != reflect.Struct {
		return t.Kind() == reflect.Ptr || t.Kind() == reflect.Interface || t.Kind() == reflect.Slice || t.Kind() == reflect.Array || t.Kind() == reflect.Map
	}
	p := t.PkgPath()
	return strings.HasPrefix(p, "github.com/relex/slog-agent/") || p == "bytes"
}

func typeID(t reflect.Type) uintptr {
	return reflect.ValueOf(t).Pointer()
}

func (w *walker) record(addr uintptr, t reflect.Type, path string) bool {
	if addr == 0 {
		return false
	}
	if _, ok := w.out[addr]; !ok {
		w.out[addr] = reached{t, path}
	}
	k := [2]uintptr{addr, typeID(t)}
	if w.seen[k] {
		return false
	}
	w.seen[k] = true
	return true
}

func (w *walker) walk(v reflect.Value, path string, depth int) {
	if depth > 40 || !v.IsValid() {
		return
	}
	switch v.Kind() {
	case reflect.Ptr:
		if v.IsNil() {
			return
		}
		et := v.Type().Elem()
		if et.Size() == 0 {
			return // all zero-size objects share one address
		}
		if !w.record(v.Pointer(), et, path) {
			return
		}
		if descendable(et) {
			w.walk(v.Elem(), path, depth+1)
		}
	case reflect.Interface:
		if v.IsNil() {
			return
		}
		e := v.Elem()
		if e.Kind() == reflect.Struct || e.Kind() == reflect.Array {
			// a value boxed in an interface is not addressable: walk an addressable copy (its pointers are the same)
			c := reflect.New(e.Type()).Elem()
			c.Set(e)
			e = c
		}
		w.walk(e, path+fmt.Sprintf("(%s)", e.Type()), depth+1)
	case reflect.Struct:
		if !descendable(v.Type()) {
			return
		}
		for i := 0; i < v.NumField(); i++ {
			f, ok := clean(v.Field(i))
			if !ok {
				continue
			}
			w.walk(f, path+"."+v.Type().Field(i).Name, depth+1)
		}
	case reflect.Slice:
		if v.IsNil() || v.Cap() == 0 {
			return
		}
		if !w.record(v.Pointer(), v.Type(), path+"[backing array]") {
			return
		}
		if k := v.Type().Elem().Kind(); k == reflect.Ptr || k == reflect.Interface || k == reflect.Struct || k == reflect.Slice {
			for i := 0; i < v.Len() && i < 64; i++ {
				e, ok := clean(v.Index(i))
				if ok {
					w.walk(e, fmt.Sprintf("%s[%d]", path, i), depth+1)
				}
			}
		}
	case reflect.Array:
		if k := v.Type().Elem().Kind(); k == reflect.Ptr || k == reflect.Interface || k == reflect.Struct || k == reflect.Slice {
			for i := 0; i < v.Len() && i < 64; i++ {
				e, ok := clean(v.Index(i))
				if ok {
					w.walk(e, fmt.Sprintf("%s[%d]", path, i), depth+1)
				}
			}
		}
	case reflect.Map:
		if v.IsNil() {
			return
		}
		if !w.record(v.Pointer(), v.Type(), path) {
			return
		}
		if k := v.Type().Elem().Kind(); k == reflect.Ptr || k == reflect.Interface {
			keys := v.MapKeys()
			for i, mk := range keys {
				if i >= 64 {
					break
				}
				w.walk(v.MapIndex(mk), path+"[...]", depth+1)
			}
		}
	}
}

// reachable lists what can be reached from a chunk maker
func reachable(m base.LogChunkMaker) map[uintptr]reached {
	w := &walker{out: map[uintptr]reached{}, seen: map[[2]uintptr]bool{}}
	w.walk(reflect.ValueOf(m), "maker", 0)
	return w.out
}

// writable says whether an object of this type, shared between two makers, is written by both: byte buffers, encoders,
// compressors (anything that is an io.Writer), raw byte arrays.
func writable(t reflect.Type) bool {
	if t.Kind() == reflect.Slice {
		return t.Elem().Kind() == reflect.Uint8
	}
	if reflect.PtrTo(t).Implements(ioWriterType) {
		return true
	}
	n := t.String()
	return strings.HasSuffix(n, ".Encoder") || strings.HasSuffix(n, ".Buffer") || strings.HasSuffix(n, ".Writer")
}

// sharedWritable returns a description of the first (lowest path) writable object reachable from both makers, or "".
func sharedWritable(a, b base.LogChunkMaker) string {
	ra, rb := reachable(a), reachable(b)
	var found []string
	for addr, x := range ra {
		if y, ok := rb[addr]; ok && writable(x.typ) {
			found = append(found, fmt.Sprintf("%s (type %s) is the same object as %s of the other maker", x.path, x.typ, y.path))
		}
	}
	sort.Strings(found)
	if len(found) == 0 {
		return ""
	}
	if len(found) > 4 {
		found = append(found[:4], fmt.Sprintf("... %d in all", len(found)))
	}
	return strings.Join(found, "; ")
}
