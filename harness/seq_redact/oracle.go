package main

// Reference model of the supported e-mail shape (DESIGN.md Appendix A.3), written from the property statement, the
// comments of testdata/config_sample.yml and the negative examples documented in redactemail_test.go. It shares nothing
// with the code under test.
//
//	W = [A-Za-z0-9]        A = W + { . - _ }
//
// For an '@' at position p let L be the maximal run of A-bytes ending at p-1 and R the maximal run of A-bytes starting
// at p+1.
//
// CORE address (MUST be redacted): L and R non-empty, the bytes next to '@' are in W, the byte before L is not '/', and
// the domain is either
//
//	(a) the longest prefix D of R of the form lab ("." lab)+, lab = W ((W|-|_)* W)?, containing a letter, or
//	(b) R itself when R reaches the end of the text, has the form (lab ".")* partial? (partial = W (W|-|_)*, possibly
//	    empty after a dot) and contains a letter  -- "a domain truncated by the end of the text".
//
// The bytes that must disappear are [first W of L, end of D) resp. [first W of L, end of text).
//
// BROAD candidate (MAY be redacted; everything else must stay): L and R non-empty, and R reaches the end of the text or
// is dotted (a '.' with a W somewhere before and somewhere after it inside R), and none of the two documented negative
// cases applies:
//
//	slash   : L starts with a W-byte and is directly preceded by '/'
//	numeric : R consists only of digits and dots with a dot between digits ("domain purely numeric"), unless R ends in a
//	          dot that is also the end of the text (could be a cut-off "1.2.example")
//
// A redacted span has to consist of A-bytes and '@' only, contain the '@' of at least one BROAD candidate, and each of
// its bytes has to belong to the extent ls..re of a BROAD candidate whose '@' is inside the span.
//
// Tolerated either way (BROAD but not CORE), because the statement names the characters but not the grammar at the edges:
// local part ending in . - _; domain starting with . - _; empty labels; labels starting/ending with - _; domains made
// of digits and - _ without a letter; undotted numeric domain cut by the end of the text; '/' before a local part that
// starts with a non-word byte.

var isW, isA, isLetter, isDigit [256]bool

func init() {
	for c := 'A'; c <= 'Z'; c++ {
		isW[c], isA[c], isLetter[c] = true, true, true
	}
	for c := 'a'; c <= 'z'; c++ {
		isW[c], isA[c], isLetter[c] = true, true, true
	}
	for c := '0'; c <= '9'; c++ {
		isW[c], isA[c], isDigit[c] = true, true, true
	}
	isA['.'], isA['-'], isA['_'] = true, true, true
}

type cand struct {
	p           int  // position of '@'
	ls, re      int  // L = [ls,p)  R = [p+1,re)
	shape       bool // L, R non-empty and R dotted or reaching the end of the text
	negSlash    bool // documented negative: directly preceded by '/'
	negNumeric  bool // documented negative: purely numeric dotted domain
	numTrailDot bool // negNumeric and R ends in '.'
	core        bool
	cs, ce      int  // bytes that must disappear
	digitEdged  bool // R begins and ends with a digit (class of the known numeric-test defect)
	tolerated   bool // broad but not core
}

func (c *cand) broad(allowSlash bool, allowNumeric int) bool {
	if !c.shape {
		return false
	}
	if c.negSlash && !allowSlash {
		return false
	}
	if c.negNumeric {
		switch allowNumeric {
		case 0:
			return false
		case 1:
			return c.numTrailDot
		}
	}
	return true
}

func hasLetter(s string) bool {
	for i := 0; i < len(s); i++ {
		if isLetter[s[i]] {
			return true
		}
	}
	return false
}

// fullLabel: W ((W|-|_)* W)?
func fullLabel(s string) bool {
	if len(s) == 0 || !isW[s[0]] || !isW[s[len(s)-1]] {
		return false
	}
	for i := 0; i < len(s); i++ {
		if !isA[s[i]] || s[i] == '.' {
			return false
		}
	}
	return true
}

// dottedPrefix returns the length of the longest prefix of r of the form lab ("." lab)+, or 0.
func dottedPrefix(r string) int {
	pos, labels, end := 0, 0, 0
	for {
		if pos >= len(r) || !isW[r[pos]] {
			break
		}
		b := pos
		for b < len(r) && isA[r[b]] && r[b] != '.' {
			b++
		}
		e := b
		for !isW[r[e-1]] {
			e--
		}
		labels++
		end = e
		if e < b || b >= len(r) || r[b] != '.' {
			break
		}
		pos = b + 1
	}
	if labels >= 2 {
		return end
	}
	return 0
}

// truncatedDomain: (lab ".")* partial?, non-empty, partial = W (W|-|_)*
func truncatedDomain(r string) bool {
	if len(r) == 0 {
		return false
	}
	start := 0
	for i := 0; i <= len(r); i++ {
		if i < len(r) && r[i] != '.' {
			continue
		}
		lab := r[start:i]
		last := i == len(r)
		if last {
			if len(lab) == 0 {
				return start > 0 // text ends right after a dot
			}
			return isW[lab[0]]
		}
		if !fullLabel(lab) {
			return false
		}
		start = i + 1
	}
	return false
}

func analyze(t string) []cand {
	var out []cand
	for p := 0; p < len(t); p++ {
		if t[p] != '@' {
			continue
		}
		c := cand{p: p}
		ls := p
		for ls > 0 && isA[t[ls-1]] {
			ls--
		}
		re := p + 1
		for re < len(t) && isA[t[re]] {
			re++
		}
		c.ls, c.re = ls, re
		L, R := t[ls:p], t[p+1:re]
		if len(L) == 0 || len(R) == 0 {
			out = append(out, c)
			continue
		}
		atEnd := re == len(t)
		prevSlash := ls > 0 && t[ls-1] == '/'
		// dotted: a '.' with a W before and a W after it inside R
		dotted := false
		seenW := false
		for i := 0; i < len(R) && !dotted; i++ {
			if isW[R[i]] {
				seenW = true
			} else if R[i] == '.' && seenW {
				for j := i + 1; j < len(R); j++ {
					if isW[R[j]] {
						dotted = true
						break
					}
				}
			}
		}
		c.shape = atEnd || dotted
		c.negSlash = prevSlash && isW[L[0]]
		onlyNum := true
		for i := 0; i < len(R); i++ {
			if !isDigit[R[i]] && R[i] != '.' {
				onlyNum = false
				break
			}
		}
		if onlyNum && dotted {
			trail := R[len(R)-1] == '.'
			if !(trail && atEnd) {
				c.negNumeric = true
				c.numTrailDot = trail
			}
		}
		c.digitEdged = len(R) >= 2 && isDigit[R[0]] && isDigit[R[len(R)-1]]
		if isW[t[p-1]] && isW[t[p+1]] && !prevSlash {
			ce := 0
			if n := dottedPrefix(R); n > 0 && hasLetter(R[:n]) {
				ce = p + 1 + n
			} else if atEnd && truncatedDomain(R) && hasLetter(R) {
				ce = len(t)
			}
			if ce > 0 {
				c.core = true
				c.ce = ce
				cs := ls
				for !isW[t[cs]] {
					cs++
				}
				c.cs = cs
			}
		}
		c.tolerated = c.broad(false, 0) && !c.core
		out = append(out, c)
	}
	return out
}

const mask = "REDACTED"

type relax struct {
	anySpan      bool // spans may be anything (is the output a redaction of the input at all?)
	bytesOnly    bool // spans only need to be A/@ bytes containing an '@'
	allowSlash   bool
	allowNumeric int  // 0 none, 1 only those with a trailing dot, 2 all
	noCover      bool // core addresses need not be covered
	skipDigitEdg bool // digit-edged core addresses need not be covered
}

// explain decides whether out can be obtained from in by replacing disjoint valid spans by REDACTED while every byte
// that must disappear lies inside a span. Dynamic programme over (position in in, position in out).
func explain(in, out string, cands []cand, rx relax) bool {
	n, m := len(in), len(out)
	must := make([]bool, n)
	if !rx.noCover {
		for i := range cands {
			c := &cands[i]
			if c.core && !(rx.skipDigitEdg && c.digitEdged) {
				for k := c.cs; k < c.ce; k++ {
					must[k] = true
				}
			}
		}
	}
	spanOK := func(a, b int) bool {
		if rx.anySpan {
			return true
		}
		hasAt := false
		for k := a; k < b; k++ {
			if in[k] == '@' {
				hasAt = true
			} else if !isA[in[k]] {
				return false
			}
		}
		if !hasAt {
			return false
		}
		if rx.bytesOnly {
			return true
		}
		covered := 0
		var markArr [256]bool
		mark := markArr[:]
		if b-a > len(markArr) {
			mark = make([]bool, b-a)
		}
		for i := range cands {
			c := &cands[i]
			if c.p < a || c.p >= b || !c.broad(rx.allowSlash, rx.allowNumeric) {
				continue
			}
			lo, hi := c.ls, c.re
			if lo < a {
				lo = a
			}
			if hi > b {
				hi = b
			}
			for k := lo; k < hi; k++ {
				if !mark[k-a] {
					mark[k-a] = true
					covered++
				}
			}
		}
		return covered == b-a
	}
	// memo: 0 unknown, 1 yes, 2 no
	memo := make([]byte, (n+1)*(m+1))
	var f func(i, j int) bool
	f = func(i, j int) bool {
		if i == n && j == m {
			return true
		}
		k := i*(m+1) + j
		if memo[k] != 0 {
			return memo[k] == 1
		}
		ok := false
		if i < n && j < m && in[i] == out[j] && !must[i] && f(i+1, j+1) {
			ok = true
		}
		if !ok && j+len(mask) <= m && out[j:j+len(mask)] == mask {
			for e := i + 1; e <= n; e++ {
				if !rx.anySpan && in[e-1] != '@' && !isA[in[e-1]] {
					break
				}
				if spanOK(i, e) && f(e, j+len(mask)) {
					ok = true
					break
				}
			}
		}
		if ok {
			memo[k] = 1
		} else {
			memo[k] = 2
		}
		return ok
	}
	return f(0, 0)
}

// uniqueExpected returns the only output the reference admits for a text, when there is exactly one: every candidate
// that may be redacted at all (BROAD) is a CORE address whose bytes that must disappear are its whole extent (no
// tolerated edge bytes such as a trailing dot or a leading '-'), and the extents of these candidates do not overlap.
// Then a redacted span can neither be shorter (the core bytes must go) nor longer (it must stay inside the extent of a
// candidate whose '@' it contains, and an extent holds no other '@'), so the output is the text with each of these
// extents replaced by REDACTED. Linear; used for texts too long for the decomposition search and as a cross-check of it.
func uniqueExpected(in string, cands []cand) (string, bool) {
	last := 0
	n := 0
	for i := range cands {
		c := &cands[i]
		if !c.broad(false, 0) {
			continue
		}
		if !c.core || c.cs != c.ls || c.ce != c.re || c.ls < last {
			return "", false
		}
		last = c.re
		n++
	}
	if n == 0 {
		return in, true
	}
	out := make([]byte, 0, len(in)+n*len(mask))
	pos := 0
	for i := range cands {
		c := &cands[i]
		if !c.broad(false, 0) {
			continue
		}
		out = append(out, in[pos:c.ls]...)
		out = append(out, mask...)
		pos = c.re
	}
	out = append(out, in[pos:]...)
	return string(out), true
}
