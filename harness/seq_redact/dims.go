package main

// Further dimensions of the enumeration (see README): the byte alphabet (sweeps over all 256 byte values at every
// position of every address shape, pairs of class-edge bytes, class-preserving renamings of the small alphabet), scaled
// lengths and counts, the position of the configured field, records from the real allocator with pooled backing
// buffers, and several transform instances at work at the same time.

import (
	"fmt"
	"os"
	"strings"
	"sync"
	"time"
	"unsafe"

	"github.com/relex/gotils/logger"
	"github.com/relex/slog-agent/base"
	"github.com/relex/slog-agent/base/btest"
	"github.com/relex/slog-agent/defs"
	"github.com/relex/slog-agent/transform/tredactemail"

	"slogverif/seq"
)

type runner func(id, group, in string)

// ---------------------------------------------------------------------------------------------------------------------
// byte alphabet

// sweepCtx: what stands around the shape whose bytes are swept (nothing = start / end of the text; blanks; slashes)
var sweepCtx = [][2]string{{"", ""}, {" ", " "}, {"/", "/"}}

// edgeBytes: both ends and the outer neighbours of every byte range the statement names (letters, digits), the three
// punctuation bytes of an address and their neighbours, '@', '/', and representatives of everything else (control bytes,
// quotes, brackets, sub-addressing '+', UTF-8 lead / continuation bytes, 0xff)
var edgeBytes = []byte{0x00, '\t', '\n', '\r', ' ', '!', '"', '#', '%', '\'', '(', '+', ',', '-', '.', '/', '0', '1', '9', ':', ';', '<',
	'=', '>', '?', '@', 'A', 'Z', '[', '\\', ']', '^', '_', '`', 'a', 'z', '{', '|', '}', '~', 0x7f, 0x80, 0xc3, 0xff}

// pairShapesQuick: shapes whose position pairs are swept in the quick tier (plain, digit-edged, numeric, undotted, slash)
var pairShapesQuick = []int{0, 2, 3, 4, 9}

func enumerateBytes(ctx *seq.Ctx, run runner) {
	one := make([]byte, 1)
	// every byte value replacing / inserted at every position of every shape
	for si, s := range shapes {
		for ci, c := range sweepCtx {
			for pos := 0; pos <= len(s) && !ctx.Stop(); pos++ {
				for b := 0; b < 256; b++ {
					one[0] = byte(b)
					if ctx.Mine() {
						run(fmt.Sprintf("bi/%d.%d.%d.%02x", si, ci, pos, b), "bytes/insert", c[0]+s[:pos]+string(one)+s[pos:]+c[1])
					} else {
						ctx.Skip()
					}
					if pos == len(s) {
						continue
					}
					if ctx.Mine() {
						run(fmt.Sprintf("br/%d.%d.%d.%02x", si, ci, pos, b), "bytes/replace", c[0]+s[:pos]+string(one)+s[pos+1:]+c[1])
					} else {
						ctx.Skip()
					}
				}
			}
		}
	}
	// pairs of class-edge bytes at every pair of positions
	pairShapes := pairShapesQuick
	nctx := 1
	if ctx.Thorough() {
		pairShapes = nil
		for i := range shapes {
			pairShapes = append(pairShapes, i)
		}
		nctx = len(sweepCtx)
	}
	for _, si := range pairShapes {
		s := shapes[si]
		for ci := 0; ci < nctx; ci++ {
			c := sweepCtx[ci]
			for p1 := 0; p1 < len(s) && !ctx.Stop(); p1++ {
				for p2 := p1 + 1; p2 < len(s); p2++ {
					for _, b1 := range edgeBytes {
						for _, b2 := range edgeBytes {
							if !ctx.Mine() {
								ctx.Skip()
								continue
							}
							t := []byte(s)
							t[p1], t[p2] = b1, b2
							run(fmt.Sprintf("bp/%d.%d.%d.%d.%02x%02x", si, ci, p1, p2, b1, b2), "bytes/pair", c[0]+string(t)+c[1])
						}
					}
				}
			}
		}
	}
	// thorough: all 65 536 byte pairs at neighbouring positions
	if ctx.Thorough() {
		for si := 0; si < 12; si++ {
			s := shapes[si]
			for p1 := 0; p1+1 < len(s) && !ctx.Stop(); p1++ {
				for b1 := 0; b1 < 256; b1++ {
					for b2 := 0; b2 < 256; b2++ {
						if !ctx.Mine() {
							ctx.Skip()
							continue
						}
						t := []byte(s)
						t[p1], t[p1+1] = byte(b1), byte(b2)
						run(fmt.Sprintf("bn/%d.%d.%02x%02x", si, p1, b1, b2), "bytes/neighbours", " "+string(t)+" ")
					}
				}
			}
		}
	}
}

// remaps: renamings of the small alphabet {a 1 . @ / - space é} that keep the class of every symbol (letter, digit,
// the dash class {- _}, filler) and therefore the expected behaviour; '.', '@' and '/' are special by themselves.
var remaps = [][8]string{
	{"z", "0", ".", "@", "/", "_", "\t", "\xff"},
	{"Z", "9", ".", "@", "/", "-", "+", "\x80"},
	{"A", "5", ".", "@", "/", "_", "=", "`"},
	{"m", "8", ".", "@", "/", "-", "\"", "{"},
	{"Q", "6", ".", "@", "/", "_", "[", "^"},
	{"g", "7", ".", "@", "/", "-", ":", "\x00"},
	{"n", "2", ".", "@", "/", "_", "\\", "\x7f"},
	{"k", "3", ".", "@", "/", "-", ",", ";"},
	{"y", "4", ".", "@", "/", "_", "'", "("},
	{"B", "0", ".", "@", "/", "-", ")", ">"},
	{"Y", "9", ".", "@", "/", "_", "%", "&"},
	{"z", "5", ".", "@", "/", "-", "?", "#"},
	{"M", "1", ".", "@", "/", "-", "!", "*"},
	{"a", "0", ".", "@", "/", "_", "~", "|"},
	{"Z", "1", ".", "@", "/", "-", "$", "}"},
	{"z", "9", ".", "@", "/", "_", "]", "\r"},
}

func enumerateRemaps(ctx *seq.Ctx, run runner) {
	maxLen := 5
	if ctx.Thorough() {
		maxLen = 6
	}
	var sb, orig strings.Builder
	for l := 1; l <= maxLen && !ctx.Stop(); l++ {
		idx := make([]int, l)
		for !ctx.Stop() {
			for r := range remaps {
				if !ctx.Mine() {
					ctx.Skip()
					continue
				}
				sb.Reset()
				orig.Reset()
				for _, x := range idx {
					sb.WriteString(remaps[r][x])
					orig.WriteString(sigma[x])
				}
				run(fmt.Sprintf("m/%d/%s", r, orig.String()), fmt.Sprintf("remap/len%d", l), sb.String())
			}
			i := l - 1
			for i >= 0 {
				idx[i]++
				if idx[i] < len(sigma) {
					break
				}
				idx[i] = 0
				i--
			}
			if i < 0 {
				break
			}
		}
	}
}

// ---------------------------------------------------------------------------------------------------------------------
// scaled lengths and counts

type scaledTemplate struct {
	name    string
	build   func(n int) string
	maxN    int  // 0 = no limit besides the tier's
	endOnly bool // only with nothing behind it (the template is about the end of the text)
}

func rep(s string, n int) string { return strings.Repeat(s, n) }

var scaledTemplates = []scaledTemplate{
	{"local-letters", func(n int) string { return rep("x", n) + "@b.cc" }, 0, false},
	{"local-dotted", func(n int) string { return rep("x.", n) + "y@b.cc" }, 0, false},
	{"local-mixed", func(n int) string { return "s" + rep("-2f_9c.", n) + "bob@b.cc" }, 0, false},
	{"label-first", func(n int) string { return "a@" + rep("b", n) + ".cc" }, 0, false},
	{"label-last", func(n int) string { return "a@b." + rep("c", n) }, 0, false},
	{"label-count", func(n int) string { return "a@" + rep("b.", n) + "cc" }, 0, false},
	{"cut-undotted", func(n int) string { return "a@" + rep("b", n) }, 0, true},
	{"cut-after-dot", func(n int) string { return "a@" + rep("b.", n) }, 1090, true}, // the last dot may stay: judged by the search
	{"slash-far-left", func(n int) string { return "/" + rep("x", n) + "@b.cc" }, 0, false},
	{"numeric-long", func(n int) string { return "a@" + rep("1", n) + ".2" }, 0, false},
	{"numeric-labels", func(n int) string { return "a@" + rep("1.", n) + "2" }, 0, false},
	{"digit-edged-deep-letter", func(n int) string { return "a@" + rep("1", n) + "a" + rep("1", n) + ".1" }, 0, false},
	{"digit-edged-deep-label", func(n int) string { return "a@" + rep("1.", n) + "A" + rep(".1", n) }, 0, false},
	{"filler-before", func(n int) string { return rep(" ", n) + "a@b.cc" }, 0, false},
	{"filler-before-multibyte", func(n int) string { return rep("é", n) + "a@b.cc" }, 0, false},
	{"filler-before-escapes", func(n int) string { return rep("\\n", n) + " a@b.cc" }, 0, false},
	{"filler-between", func(n int) string { return "a@b.cc" + rep(" ", n) + "c@d.ee" }, 0, false},
	{"filler-after", func(n int) string { return "a@b.cc" + rep(" ", n) + "#" }, 0, false},
	{"address-bytes-between", func(n int) string { return "a@b.cc " + rep("x.", n) + " c@d.ee" }, 0, false},
	{"count-separated", func(n int) string { return rep("a@b.cc ", n) + "#" }, 70000, false},
	{"count-mixed", func(n int) string { return rep("f.o-o_1@d.e,/a@b.cc;a@12.34 A_Z@X9.ORG\n", n) + "#" }, 20000, false},
	{"count-back-to-back", func(n int) string { return "a" + rep("@b.cc", n) }, 40, false},
	{"count-plain-ats", func(n int) string { return rep("@ ", n) + "a@b.cc" + rep(" @", n) }, 0, false},
	{"count-negatives-first", func(n int) string { return rep("/x@b.cc a@1.2 ", n) + "a@b.cc" }, 40000, false},
}

var scaledCtx = [][2]string{{"", ""}, {" ", " "}, {"é", "é"}}

func scaledSizes(thorough bool) []int {
	var out []int
	upto := 300
	marks := []int{512, 1024, 2048, 4096}
	if thorough {
		upto = 1100
		marks = []int{2048, 4096, 8192, 16384, 32768, 65536, 1 << 20}
	}
	for n := 1; n <= upto; n++ {
		out = append(out, n)
	}
	for _, m := range marks {
		for d := -2; d <= 2; d++ {
			out = append(out, m+d)
		}
	}
	return out
}

func enumerateScaled(ctx *seq.Ctx, run runner) {
	sizes := scaledSizes(ctx.Thorough())
	b2bMax := 12
	if ctx.Thorough() {
		b2bMax = 40
	}
	for ti := range scaledTemplates {
		t := &scaledTemplates[ti]
		for ci, c := range scaledCtx {
			if t.endOnly && c[1] != "" {
				continue
			}
			for _, n := range sizes {
				if ctx.Stop() {
					return
				}
				if t.maxN > 0 && n > t.maxN {
					continue
				}
				if t.name == "count-back-to-back" && n > b2bMax {
					continue
				}
				// keep every text below the limit of an input record (defs.InputLogMaxMessageBytes, 1 MiB)
				if n > 4096 && len(t.build(1))*n > 1<<20 {
					continue
				}
				if !ctx.Mine() {
					ctx.Skip()
					continue
				}
				run(fmt.Sprintf("z/%s/%d/%d", t.name, ci, n), "scaled/"+t.name, c[0]+t.build(n)+c[1])
			}
		}
	}
}

// ---------------------------------------------------------------------------------------------------------------------
// the position of the configured field

func enumerateConfig(ctx *seq.Ctx, mk func(f *fixture) runner) {
	names := []string{"first", "log", "last"}
	for k := range names {
		var run runner // the instance is created by the shard that needs it
		for f0 := 0; f0 < len(fillers); f0++ {
			for a1 := 0; a1 < len(shapes); a1++ {
				for f1 := 0; f1 < len(fillers); f1++ {
					if !ctx.Mine() {
						ctx.Skip()
						continue
					}
					if run == nil {
						run = mk(newFixtureAt(names, k))
					}
					run(fmt.Sprintf("c/%d/%d.%d.%d", k, f0, a1, f1), fmt.Sprintf("config/field%d", k), fillers[f0]+shapes[a1]+fillers[f1])
				}
			}
		}
	}
}

// ---------------------------------------------------------------------------------------------------------------------
// records from the real allocator (pooled, recycled backing buffers)

type pooled struct {
	f       *fixture
	alloc   *base.LogAllocator
	line    []byte
	reused  int64
	fetched int64
	lastBuf *byte
}

const pooledPrefix = "2020-09-26T12:00:00Z host app[1]: "

func newPooled() *pooled {
	f := newFixture()
	return &pooled{f: f, alloc: base.NewLogAllocator(f.schema, 1)}
}

// record builds one input line "<prefix><text>\t<other field><padding>" longer than the pooling threshold, lets the
// real allocator copy it into a pooled backing buffer and points the fields into that buffer, as a parser does.
func (p *pooled) record(text string) *base.LogRecord {
	p.line = append(p.line[:0], pooledPrefix...)
	p.line = append(p.line, text...)
	p.line = append(p.line, '\t')
	p.line = append(p.line, otherText...)
	for len(p.line) <= defs.InputLogMinRecordBytesToPool+76 {
		p.line = append(p.line, '~')
	}
	rec, s := p.alloc.NewRecord(p.line)
	p.fetched++
	if d := unsafe.StringData(s); d == p.lastBuf {
		p.reused++
	} else {
		p.lastBuf = d
	}
	o := len(pooledPrefix)
	rec.Fields[0] = s[o : o+len(text)]
	rec.Fields[1] = s[o+len(text)+1 : o+len(text)+1+len(otherText)]
	rec.RawLength = rawLength
	return rec
}

// run1 sends one text through the transform in a record of the allocator, judges it and releases the record, which
// hands the backing buffer back to the pool for the next record.
func (p *pooled) run1(text, expect string, cands []cand, haveCands bool, what string) (string, string, string) {
	rec := p.record(text)
	c0, _ := p.f.lookup(label)
	res := p.f.tf.Transform(rec)
	c1, _ := p.f.lookup(label)
	out := strings.Clone(rec.Fields[0])
	other := strings.Clone(rec.Fields[1])
	p.alloc.Release(rec)
	switch {
	case res != base.PASS:
		return out, "not-pass", fmt.Sprintf("%s: transform returned %v", q(text), res)
	case other != otherText:
		return out, "other-field-touched", fmt.Sprintf("%s (%s): the field that is not configured changed to %q", q(text), what, other)
	case (out == text) != (c1 == c0) || c1-c0 > 1:
		return out, "counter:pooled-record", fmt.Sprintf("%s -> %s (%s): the %s counter moved by %d", q(text), q(out), what, label, c1-c0)
	}
	if expect != noClone && out == expect {
		return out, "", ""
	}
	if !haveCands {
		cands = nil
		if strings.IndexByte(text, '@') >= 0 {
			cands = analyze(text)
		}
	}
	if k, m := judge(text, out, cands); k != "" {
		return out, "history:pooled-record-buffer", fmt.Sprintf("%s: %s [%s]", what, m, k)
	}
	return out, "", ""
}

func (p *pooled) check(in string, cands []cand) (string, string) {
	n := len(in)
	if pre, preOut, ok := redactedOfLen(n); ok {
		if _, k, m := p.run1(pre, preOut, nil, false, "a redacted text of the same length in a record of the allocator"); k != "" {
			return k, m
		}
	}
	out0, k, m := p.run1(in, noClone, cands, true, "the text in the next record of the allocator (same pooled buffer)")
	if k != "" {
		return k, m
	}
	if fl := flip(in); fl != in {
		if _, k, m := p.run1(fl, flip(out0), nil, false, "the text with its non-address bytes renamed, in the next record of the allocator"); k != "" {
			return k, m
		}
		if _, k, m := p.run1(in, out0, cands, true, "the text again in the next record of the allocator"); k != "" {
			return k, m
		}
	}
	if n > 0 {
		cl := strings.Repeat("#", n)
		if _, k, m := p.run1(cl, cl, nil, false, "an address-free text of the same length in the next record of the allocator"); k != "" {
			return k, m
		}
		if _, k, m := p.run1(in, out0, cands, true, "the text again in the next record of the allocator"); k != "" {
			return k, m
		}
	}
	return "", ""
}

func enumeratePooled(ctx *seq.Ctx) {
	var p *pooled
	defer func() {
		if p != nil && p.fetched > 0 {
			ctx.Note("pooled-buffer-reuse", fmt.Sprintf("last worker: %d of %d records of the real allocator got the backing buffer of their predecessor", p.reused, p.fetched))
		}
	}()
	for f0 := 0; f0 < len(fillers); f0++ {
		for a1 := 0; a1 < len(shapes); a1++ {
			for f1 := 0; f1 < len(fillers); f1++ {
				if !ctx.Mine() {
					ctx.Skip()
					continue
				}
				if p == nil {
					p = newPooled()
				}
				in := fillers[f0] + shapes[a1] + fillers[f1]
				cands := analyze(in)
				cls, nontrivial := classOf(in, cands)
				ctx.Group("pooled/" + cls)
				ctx.Case(fmt.Sprintf("a/%d.%d.%d", f0, a1, f1), nontrivial, in, func() (string, string) { return p.check(in, cands) })
			}
		}
	}
}

// ---------------------------------------------------------------------------------------------------------------------
// several instances at the same time

// enumerateConcurrent: one transform instance per pipeline / connection is how the agent uses the transform, all of them
// at work at the same time. Each case starts `workers` instances from the same Config in their own goroutines; every
// goroutine sends its own family of texts (the planted single-address texts, with a filler letter of its own appended)
// round after round and compares every result with the one the same text gave when the instances ran one after the
// other (which is judged by the reference). The inputs are enumerated, the interleaving is whatever the Go scheduler
// does: this group is a supplement that can only add violations, it is not part of the exhaustiveness claim.
func enumerateConcurrent(ctx *seq.Ctx) {
	// Sampling of thread schedules is not this framework's technique: the group is kept for manual use only
	// (SEQ_REDACT_CONCURRENT=1) and is not part of the registered check.
	if os.Getenv("SEQ_REDACT_CONCURRENT") == "" {
		return
	}
	rounds := 2000
	if ctx.Thorough() {
		rounds = 20000
	}
	const workers = 3
	for variant := 0; variant < 4; variant++ {
		if !ctx.Mine() {
			ctx.Skip()
			continue
		}
		variant := variant
		ctx.Group("concurrent")
		ctx.Case(fmt.Sprintf("g/%d", variant), true, "", func() (string, string) {
			schema := base.MustNewLogSchema([]string{"log", "other"})
			cfg := &tredactemail.Config{Key: "log", MetricLabel: label}
			type inst struct {
				tf    base.LogTransform
				texts []string
				want  []string
				bad   string
			}
			insts := make([]*inst, workers)
			for w := range insts {
				reg, _ := btest.NewStubLogCustomCounterRegistry()
				in := &inst{tf: cfg.NewTransform(schema, logger.Root(), reg)}
				tail := strings.Repeat(string(rune('A'+w)), 3+7*w+variant)
				for f0 := 0; f0 < len(fillers); f0++ {
					for a1 := variant; a1 < len(shapes); a1 += 4 {
						in.texts = append(in.texts, fillers[f0]+shapes[a1]+" "+tail)
					}
				}
				// one after the other first: these results are judged by the reference
				for _, t := range in.texts {
					rec := schema.NewTestRecord2(time.Unix(1600000000, 0), base.LogFields{t, otherText})
					in.tf.Transform(rec)
					out := strings.Clone(rec.Fields[0])
					if k, m := judge(t, out, analyze(t)); k != "" {
						in.bad = k + ": " + m
					}
					in.want = append(in.want, out)
				}
				if in.bad != "" {
					return "concurrent:sequential-pass-wrong", in.bad
				}
				insts[w] = in
			}
			var wg sync.WaitGroup
			for _, in := range insts {
				in := in
				wg.Add(1)
				go func() {
					defer wg.Done()
					defer func() {
						if r := recover(); r != nil {
							in.bad = fmt.Sprintf("panic: %v", r)
						}
					}()
					rec := schema.NewTestRecord2(time.Unix(1600000000, 0), base.LogFields{"", otherText})
					for r := 0; r < rounds && in.bad == ""; r++ {
						for i, t := range in.texts {
							rec.Fields[0], rec.Fields[1] = t, otherText
							in.tf.Transform(rec)
							if rec.Fields[0] != in.want[i] {
								in.bad = fmt.Sprintf("%s -> %s while %d other instances were at work; the same instance gave %s when it ran alone", q(t), q(strings.Clone(rec.Fields[0])), workers-1, q(in.want[i]))
								break
							}
						}
					}
				}()
			}
			wg.Wait()
			for _, in := range insts {
				if in.bad != "" {
					return "concurrent-instances-interfere", in.bad
				}
			}
			return "", ""
		})
	}
}
