// Command seq_redact decides C14: e-mail redaction is complete and touches nothing else. Bounded-exhaustive enumeration
// of field values through the exported redactEmail transform against the declarative shape of DESIGN.md Appendix A.3
// (oracle.go).
package main

import (
	"fmt"
	"strings"
	"time"
	"unsafe"

	"github.com/relex/gotils/logger"
	"github.com/relex/slog-agent/base"
	"github.com/relex/slog-agent/base/btest"
	"github.com/relex/slog-agent/transform/tredactemail"

	"slogverif/seq"
)

type fixture struct {
	schema  base.LogSchema
	tf      base.LogTransform
	lookup  btest.LookupStubCustomerCounterFunc
	keyIdx  int      // index of the configured field
	others  []string // values of the fields that are not configured (index keyIdx unused)
	bufA    []byte   // harness-owned input buffer of the record that stays alive during the case
	bufB    []byte   // harness-owned input buffer that is recycled: overwritten with the next text after every call
	rec0    *base.LogRecord
	recS    *base.LogRecord
	nocheck bool // history steps off (used by the groups that have their own driver)
}

const (
	label     = "redacted"
	rawLength = 137
	otherText = "other@field.example"
	// dpLimit: texts longer than this are judged by the unique expectation of the reference instead of the
	// decomposition search (which is quadratic in the text length)
	dpLimit = 300
	// dpHardLimit: the longest text the decomposition search is used for when the reference admits several outputs
	dpHardLimit = 2200
)

func newFixture() *fixture { return newFixtureAt([]string{"log", "other"}, 0) }

// newFixtureAt configures the transform for field keyIdx of the given schema; all other fields carry address-bearing
// text that has to stay as it is.
func newFixtureAt(fields []string, keyIdx int) *fixture {
	schema := base.MustNewLogSchema(fields)
	cfg := &tredactemail.Config{Key: fields[keyIdx], MetricLabel: label}
	if err := cfg.VerifyConfig(schema); err != nil {
		panic(err)
	}
	reg, lookup := btest.NewStubLogCustomCounterRegistry()
	f := &fixture{schema: schema, tf: cfg.NewTransform(schema, logger.Root(), reg), lookup: lookup, keyIdx: keyIdx}
	f.others = make([]string, len(fields))
	for i := range f.others {
		f.others[i] = fmt.Sprintf("%d:%s", i, otherText)
	}
	f.others[len(fields)-1] = otherText
	f.rec0 = schema.NewTestRecord2(time.Unix(1600000000, 0), make(base.LogFields, len(fields)))
	f.recS = schema.NewTestRecord2(time.Unix(1600000001, 0), make(base.LogFields, len(fields)))
	return f
}

// own copies text into the harness-owned buffer and returns a string that ALIASES the buffer, the way field values alias
// the (pooled, recycled) backing buffer of a record in the agent (util.MutableString).
func own(buf *[]byte, text string) string {
	if cap(*buf) < len(text) {
		*buf = make([]byte, 0, 2*len(text)+64)
	}
	*buf = append((*buf)[:0], text...)
	if len(text) == 0 {
		return ""
	}
	return unsafe.String(&(*buf)[0], len(text))
}

// q quotes a text for a message, shortened in the middle when long
func q(s string) string {
	if len(s) <= 160 {
		return fmt.Sprintf("%q", s)
	}
	return fmt.Sprintf("%q...(%d bytes)...%q", s[:70], len(s), s[len(s)-70:])
}

// call runs the real transform once on record rec with the configured field set to live (a string whose bytes are text)
// and applies the per-call clauses of oracle 3: PASS, the other fields untouched, the label counter moved exactly when
// the value changed.
func (f *fixture) call(rec *base.LogRecord, live, text string) (out, key, msg string) {
	for i := range rec.Fields {
		rec.Fields[i] = f.others[i]
	}
	rec.Fields[f.keyIdx] = live
	rec.RawLength = rawLength
	c0, b0 := f.lookup(label)
	res := f.tf.Transform(rec)
	c1, b1 := f.lookup(label)
	out = rec.Fields[f.keyIdx]
	if res != base.PASS {
		return out, "not-pass", fmt.Sprintf("%s: transform returned %v", q(text), res)
	}
	for i := range rec.Fields {
		if i != f.keyIdx && rec.Fields[i] != f.others[i] {
			return out, "other-field-touched", fmt.Sprintf("%s: field %d, which is not configured, changed from %q to %q", q(text), i, f.others[i], rec.Fields[i])
		}
	}
	counted := c1 - c0
	if out == text {
		if counted != 0 {
			return out, "counter:unchanged-but-counted", fmt.Sprintf("%s came back unchanged but the %s counter moved by %d", q(text), label, counted)
		}
	} else if counted != 1 || b1-b0 != rawLength {
		return out, "counter:changed-not-counted-once", fmt.Sprintf("%s -> %s: the %s counter moved by %d logs / %d bytes, expected 1 / %d", q(text), q(out), label, counted, b1-b0, rawLength)
	}
	return out, "", ""
}

// Fixed texts of the history steps. Their expected outputs are the unique expectations of the reference (checked at start).
const (
	succ1, succ1Out = "a@b.cc", "REDACTED"
	succ2, succ2Out = "#a@b.cc", "#REDACTED"
)

var warmCache = map[int][2]string{}

// warmText is a redacted text longer than n bytes: it brings whatever the instance keeps between calls (work buffers,
// caches) into one defined state at the start of every case, so that a case behaves in a replay as it did in the run.
func warmText(n int) (string, string) {
	size := 128
	for size < n+16 {
		size *= 2
	}
	if w, ok := warmCache[size]; ok {
		return w[0], w[1]
	}
	pad := strings.Repeat("~", size)
	w := [2]string{"warm w@u.vw " + pad, "warm REDACTED " + pad}
	warmCache[size] = w
	return w[0], w[1]
}

// redactedOfLen / cleanOfLen: predecessors of exactly n bytes for the recycled buffer, one that is redacted and one that
// is not, with their unique expected outputs.
func redactedOfLen(n int) (string, string, bool) {
	switch {
	case n < 3:
		return "", "", false
	case n < 6:
		return "a@b.c"[:n], mask, true // cut by the end of the text
	}
	pad := strings.Repeat(" ", n-6)
	return "a@b.cc" + pad, mask + pad, true
}

// flip renames every byte outside the address bytes, '@' and '/' (i.e. every byte the statement treats as mere
// surrounding text) to another such byte. Redaction commutes with this renaming.
func flip(s string) string {
	var b []byte
	for i := 0; i < len(s); i++ {
		c := s[i]
		if isA[c] || c == '@' || c == '/' {
			continue
		}
		if b == nil {
			b = []byte(s)
		}
		if c == '#' {
			b[i] = '!'
		} else {
			b[i] = '#'
		}
	}
	if b == nil {
		return s
	}
	return string(b)
}

const (
	keyEarlier  = "history:earlier-output-changed"
	keyRecycled = "history:recycled-input-buffer"
	keyLater    = "history:result-depends-on-earlier-calls"
)

// step places text in the given harness-owned buffer (overwriting what an earlier, released record had there), runs the
// transform on the scratch record and judges the result: equal to expect (cheap), else by the full reference. Then the
// record of the main call, which is still alive, is compared with the private copy taken right after its own call.
func (f *fixture) step(buf *[]byte, text, expect string, cands []cand, haveCands bool, key, what, mainIn, clone0 string) (string, string) {
	live := own(buf, text)
	out, k, m := f.call(f.recS, live, text)
	if k != "" {
		return k, what + ": " + m
	}
	if out != expect {
		if !haveCands {
			cands = nil
			if strings.IndexByte(text, '@') >= 0 {
				cands = analyze(text)
			}
		}
		if k, m := judge(text, out, cands); k != "" {
			return key, fmt.Sprintf("%s: %s [%s]", what, m, k)
		}
		// a different but admissible answer (tolerated shapes): the statement does not ask for determinism
	}
	if clone0 != noClone {
		if got := f.rec0.Fields[f.keyIdx]; got != clone0 {
			return keyEarlier, fmt.Sprintf("the record holding %s read %s right after its own call and reads %s after %s (%s) went through the same transform instance", q(mainIn), q(clone0), q(got), what, q(text))
		}
		for i := range f.rec0.Fields {
			if i != f.keyIdx && f.rec0.Fields[i] != f.others[i] {
				return keyEarlier, fmt.Sprintf("field %d of the record holding %s changed to %q after %s", i, q(mainIn), f.rec0.Fields[i], what)
			}
		}
	}
	return "", ""
}

const noClone = "\x00none"

// check runs one case: the text through the real transform and oracles 1-3 on the result (judge), embedded in a small
// history through the same long-lived instance (oracle 4, README): a warm-up call, the main call on a record that stays
// alive, two later calls with other texts, and three rounds through ONE recycled input buffer (a redacted / an unredacted
// / a renamed text of the same length, each followed by the text of the case again).
func (f *fixture) check(in string, cands []cand) (string, string) {
	n := len(in)
	if !f.nocheck {
		w, wOut := warmText(n)
		if k, m := f.step(&f.bufB, w, wOut, nil, false, keyLater, "the warm-up call", "", noClone); k != "" {
			return k, m
		}
	}
	live := own(&f.bufA, in)
	out0, k, m := f.call(f.rec0, live, in)
	if k != "" {
		return k, m
	}
	if k, m := judge(in, out0, cands); k != "" {
		return k, m
	}
	if f.nocheck {
		return "", ""
	}
	clone0 := strings.Clone(out0)
	// later calls with other texts: what an earlier record holds must not move
	if k, m := f.step(&f.bufB, succ1, succ1Out, nil, false, keyLater, "a later call", in, clone0); k != "" {
		return k, m
	}
	if k, m := f.step(&f.bufB, succ2, succ2Out, nil, false, keyLater, "a later call", in, clone0); k != "" {
		return k, m
	}
	// the recycled buffer: a text of the same length at the same address, then the text of the case over it
	if p, pOut, ok := redactedOfLen(n); ok && p != in {
		if k, m := f.step(&f.bufB, p, pOut, nil, false, keyRecycled, "a redacted text of the same length in the recycled buffer", in, clone0); k != "" {
			return k, m
		}
		if k, m := f.step(&f.bufB, in, clone0, cands, true, keyRecycled, "the text again, written over a redacted text of the same length in the recycled buffer", in, clone0); k != "" {
			return k, m
		}
	}
	if n > 0 {
		p := strings.Repeat("#", n)
		if k, m := f.step(&f.bufB, p, p, nil, false, keyRecycled, "an address-free text of the same length in the recycled buffer", in, clone0); k != "" {
			return k, m
		}
		if k, m := f.step(&f.bufB, in, clone0, cands, true, keyRecycled, "the text again, written over an address-free text of the same length in the recycled buffer", in, clone0); k != "" {
			return k, m
		}
	}
	if p := flip(in); p != in {
		if k, m := f.step(&f.bufB, p, flip(clone0), nil, false, keyRecycled, "the text with its non-address bytes renamed, in the recycled buffer", in, clone0); k != "" {
			return k, m
		}
		if k, m := f.step(&f.bufB, in, clone0, cands, true, keyRecycled, "the text again, written over its renamed twin in the recycled buffer", in, clone0); k != "" {
			return k, m
		}
	}
	return "", ""
}

// judge applies oracles 1 and 2 (and the "unchanged" half of 3) to one input/output pair.
func judge(in, out string, cands []cand) (string, string) {
	if len(in) > dpLimit {
		if exp, ok := uniqueExpected(in, cands); ok {
			return judgeLong(in, out, exp)
		} else if len(in) > dpHardLimit {
			return "oracle:long-text-without-unique-expectation", fmt.Sprintf("%s: the harness built a long text for which the reference admits several outputs (harness inconsistency)", q(in))
		}
	}
	anyCore := false
	for i := range cands {
		if cands[i].core {
			anyCore = true
		}
	}
	if out == in && !strings.Contains(in, mask) {
		if !anyCore {
			return "", ""
		}
		return unredactedKey(in, out, cands, true)
	}
	if explain(in, out, cands, relax{}) {
		if exp, ok := uniqueExpected(in, cands); ok && exp != out && !strings.Contains(in, mask) {
			return "oracle:self-check", fmt.Sprintf("%s -> %s: accepted by the decomposition search although the reference admits only %s (harness inconsistency)", q(in), q(out), q(exp))
		}
		return crossCheckOutput(in, out)
	}
	// classify
	if !explain(in, out, cands, relax{anySpan: true, noCover: true}) {
		return "changed:not-a-redaction", fmt.Sprintf("%s -> %s: the output is not the input with some spans replaced by %s (text outside the redacted spans changed)", q(in), q(out), mask)
	}
	if !explain(in, out, cands, relax{bytesOnly: true, noCover: true}) {
		return "changed:non-address-bytes", fmt.Sprintf("%s -> %s: a redacted span contains bytes that cannot belong to an address, or no '@'", q(in), q(out))
	}
	if !explain(in, out, cands, relax{noCover: true}) {
		switch {
		case explain(in, out, cands, relax{noCover: true, allowNumeric: 1}):
			return "changed:numeric-domain-trailing-dot", fmt.Sprintf("%s -> %s: the only thing redacted has a purely numeric domain (followed by a dot and more text); such text must stay unchanged", q(in), q(out))
		case explain(in, out, cands, relax{noCover: true, allowNumeric: 2}):
			return "changed:numeric-domain", fmt.Sprintf("%s -> %s: something with a purely numeric domain was redacted; such text must stay unchanged", q(in), q(out))
		case explain(in, out, cands, relax{noCover: true, allowSlash: true}):
			return "changed:slash-prefixed", fmt.Sprintf("%s -> %s: something directly preceded by '/' was redacted; such text must stay unchanged", q(in), q(out))
		case explain(in, out, cands, relax{noCover: true, allowSlash: true, allowNumeric: 2}):
			return "changed:slash-prefixed+numeric-domain", fmt.Sprintf("%s -> %s: '/'-prefixed and numeric-domain texts were redacted", q(in), q(out))
		}
		return "changed:not-an-address", fmt.Sprintf("%s -> %s: a redacted span is not an address of the supported shape (no dotted domain / not cut by the end of the text / reaches beyond the address)", q(in), q(out))
	}
	return unredactedKey(in, out, cands, explain(in, out, cands, relax{skipDigitEdg: true}))
}

// judgeLong judges a long text by the unique expectation of the reference (the scaled texts are built so that there is
// exactly one admissible output). The class of a mismatch is found with linear means only.
func judgeLong(in, out, exp string) (string, string) {
	if out == exp {
		return "", ""
	}
	d := 0
	for d < len(out) && d < len(exp) && out[d] == exp[d] {
		d++
	}
	lo := d - 30
	if lo < 0 {
		lo = 0
	}
	win := func(s string) string {
		hi := d + 40
		if hi > len(s) {
			hi = len(s)
		}
		if lo > len(s) {
			return ""
		}
		return s[lo:hi]
	}
	where := fmt.Sprintf("%s (%d bytes) -> %d bytes, expected %d bytes; first difference at output byte %d: got ...%q..., expected ...%q...", q(in), len(in), len(out), len(exp), d, win(out), win(exp))
	if out == in {
		return "unredacted:core-address", where + ": the text came back unchanged although it holds an address of the supported shape"
	}
	if strings.Count(out, mask) < strings.Count(exp, mask) {
		return "unredacted:core-address", where + ": fewer spans were redacted than there are addresses of the supported shape"
	}
	if k, m := crossCheckOutput(in, out); k != "" {
		return k, m
	}
	return "changed:long-text-not-the-expected-redaction", where
}

func unredactedKey(in, out string, cands []cand, onlyDigitEdged bool) (string, string) {
	var first *cand
	for i := range cands {
		c := &cands[i]
		if !c.core {
			continue
		}
		if first == nil {
			first = c
		}
		if out == in && !c.digitEdged {
			onlyDigitEdged = false
			first = c
			break
		}
	}
	if onlyDigitEdged {
		for i := range cands {
			if cands[i].core && cands[i].digitEdged {
				first = &cands[i]
				break
			}
		}
		return "unredacted:digit-edged-domain", fmt.Sprintf("%s -> %s: the address %s survives; its domain begins and ends with a digit but contains a letter, so it is not purely numeric", q(in), q(out), q(in[first.cs:first.ce]))
	}
	return "unredacted:core-address", fmt.Sprintf("%s -> %s: an address of the supported shape (e.g. %s) is not, or not completely, inside a redacted span", q(in), q(out), q(in[first.cs:first.ce]))
}

// crossCheckOutput is the literal reading of oracle 1 on the output text: no core address built only from bytes of the
// input (i.e. not overlapping an inserted REDACTED) may remain. It is implied by explain(); kept as a cross-check of it.
func crossCheckOutput(in, out string) (string, string) {
	if strings.Contains(in, mask) {
		return "", ""
	}
	for _, c := range analyze(out) {
		if !c.core {
			continue
		}
		if strings.Contains(out[c.ls:c.re], mask) {
			continue
		}
		return "unredacted:residual-in-output", fmt.Sprintf("%s -> %s: the output still contains %s", q(in), q(out), q(out[c.cs:c.ce]))
	}
	return "", ""
}

// classOf names the input class (for the vacuity figures in the evidence) and says whether the case is non-trivial, i.e.
// has an '@' with address bytes on both sides, which is what reaches the boundary search of the code under test.
func classOf(in string, cands []cand) (string, bool) {
	if len(cands) == 0 {
		return "no-at", false
	}
	nontrivial, core, tol, neg, de := false, 0, 0, 0, 0
	for i := range cands {
		c := &cands[i]
		if c.p > c.ls && c.re > c.p+1 {
			nontrivial = true
		}
		switch {
		case c.core && c.digitEdged:
			de++
		case c.core:
			core++
		case c.tolerated:
			tol++
		case c.negSlash || c.negNumeric:
			neg++
		}
	}
	switch {
	case de > 0 && core == 0:
		return "core-digit-edged", true
	case core+de > 1:
		return "core-multi", true
	case core == 1 && tol+neg > 0:
		return "core+other-candidates", true
	case core == 1:
		return "core-single", true
	case tol > 0:
		return "tolerated-shape", true
	case neg > 0:
		return "documented-negative", true
	case nontrivial:
		return "at-with-neighbours-no-address", true
	}
	return "at-without-neighbours", false
}

var sigma = []string{"a", "1", ".", "@", "/", "-", " ", "é"}

// Planted texts. The first entries are the ones kept by the reduced menus.
var shapes = []string{
	"a@b.cc",       // 0 plain
	"f.o-o_1@d.e",  // 1 local part with . - _
	"a@1a.1",       // 2 digit-edged domain containing a letter
	"a@12.34",      // 3 purely numeric domain
	"a@bc",         // 4 no dot: an address only when cut by the end of the text
	"a@b.cc@d.ee",  // 5 back to back
	"a@@b.cc",      // 6 double at
	"a@b-c.d-e.ff", // 7 multi-label
	"a@b.",         // 8 dot then nothing
	"/a@b.cc",      // 9 preceded by slash
	"a.@b.cc",      // 10 local part ends in a dot
	"a@1a1.b2",     // 11 digit first and last, two labels with letters
	"é@b.cc",       // 12 multi-byte local part
	"a@b..c",       // 13 empty label
	"A_Z@X9.ORG",   // 14 upper case
	"a@1.b",        // 15 digit first only
	"a@b.1",        // 16 digit last only
	"a@1",          // 17 one digit
	"a@1-2.3",      // 18 digits and dash
	".a@b.cc",      // 19 local part starts with dot
	"a-@b.cc",      // 20 local part ends in dash
	"a@-b.cc",      // 21 domain starts with dash
	"a@b.-c",       // 22 second label starts with dash
	"a@b.cc.",      // 23 trailing dot
	"a@é.cc",       // 24 multi-byte domain
	"@b.cc",        // 25 no local part
	"a@",           // 26 no domain
	"a@12.34.",     // 27 numeric with trailing dot
	"a@b.c.dd",     // 28 three labels
	"a@1.2a3.4",    // 29 digit-edged, letter in the middle label
}

var fillers = []string{
	"",      // 0 adjacency
	" ",     // 1
	"/",     // 2
	"@",     // 3 an '@' that is no address
	"x",     // 4 address byte: merges with the neighbours
	"é",     // 5 multi-byte
	".",     // 6
	"\\n",   // 7 escape sequence (backslash n)
	",",     // 8
	"1",     // 9
	"-",     // 10
	"_",     // 11
	"://u:", // 12
	"\n",    // 13
	"<",     // 14
	"日本",    // 15
	"@@",    // 16
	" x@ ",  // 17
}

func enumerate(ctx *seq.Ctx) {
	mkRun := func(f *fixture) runner {
		return func(id, group, in string) {
			if !ctx.Mine() {
				ctx.Skip()
				return
			}
			var cands []cand
			if strings.IndexByte(in, '@') >= 0 {
				cands = analyze(in)
			}
			cls, nontrivial := classOf(in, cands)
			ctx.Group(group + "/" + cls)
			ctx.Case(id, nontrivial, in, func() (string, string) { return f.check(in, cands) })
		}
	}
	run := mkRun(newFixture())
	// the expected outputs of the fixed texts of the history steps are the unique expectations of the reference
	w, wOut := warmText(0)
	r5, r5Out, _ := redactedOfLen(5)
	r9, r9Out, _ := redactedOfLen(9)
	for _, p := range [][2]string{{succ1, succ1Out}, {succ2, succ2Out}, {w, wOut}, {r5, r5Out}, {r9, r9Out}, {"a@b", mask}, {"a@b.", mask}} {
		if exp, ok := uniqueExpected(p[0], analyze(p[0])); !ok || exp != p[1] {
			panic(fmt.Sprintf("history text %q: expectation %q is not the reference's %q (unique=%v)", p[0], p[1], exp, ok))
		}
	}

	// ---- all strings over sigma up to length 7 / 9 (symbols, not bytes)
	maxLen := 7
	if ctx.Thorough() {
		maxLen = 9
	}
	for l := 0; l <= maxLen && !ctx.Stop(); l++ {
		group := fmt.Sprintf("sigma/len%d", l)
		idx := make([]int, l)
		var sb strings.Builder
		for !ctx.Stop() {
			if ctx.Mine() {
				sb.Reset()
				for _, x := range idx {
					sb.WriteString(sigma[x])
				}
				in := sb.String()
				run("s/"+in, group, in)
			} else {
				ctx.Skip()
			}
			i := l - 1
			for i >= 0 {
				idx[i]++
				if idx[i] < len(sigma) {
					break
				}
				idx[i] = 0
				i--
			}
			if i < 0 {
				break
			}
		}
	}

	// ---- planted addresses: F0 A1 F1 [A2 F2 [A3 F3]] with every filler (including the empty one = adjacency) at every
	// position. Menus are prefixes of the full menus so that case ids are the same in both tiers.
	nf1, ns1 := len(fillers), len(shapes)
	nf2, ns2 := 10, 20
	nf3, ns3 := 5, 8
	if ctx.Thorough() {
		nf2, ns2 = len(fillers), len(shapes)
		nf3, ns3 = 9, 14
	}
	for f0 := 0; f0 < nf1; f0++ {
		for a1 := 0; a1 < ns1; a1++ {
			for f1 := 0; f1 < nf1; f1++ {
				run(fmt.Sprintf("p1/%d.%d.%d", f0, a1, f1), "planted/1", fillers[f0]+shapes[a1]+fillers[f1])
			}
		}
	}
	// the last address cut at every byte (domain truncated by the end of the text, and shorter)
	for f0 := 0; f0 < nf1; f0++ {
		for a1 := 0; a1 < ns1; a1++ {
			for cut := 1; cut < len(shapes[a1]); cut++ {
				run(fmt.Sprintf("t1/%d.%d.%d", f0, a1, cut), "planted/1-cut", fillers[f0]+shapes[a1][:cut])
			}
		}
	}
	for f0 := 0; f0 < nf2 && !ctx.Stop(); f0++ {
		for a1 := 0; a1 < ns2; a1++ {
			for f1 := 0; f1 < nf2; f1++ {
				for a2 := 0; a2 < ns2; a2++ {
					for f2 := 0; f2 < nf2; f2++ {
						run(fmt.Sprintf("p2/%d.%d.%d.%d.%d", f0, a1, f1, a2, f2), "planted/2", fillers[f0]+shapes[a1]+fillers[f1]+shapes[a2]+fillers[f2])
					}
					for cut := 1; cut < len(shapes[a2]); cut++ {
						run(fmt.Sprintf("t2/%d.%d.%d.%d.%d", f0, a1, f1, a2, cut), "planted/2-cut", fillers[f0]+shapes[a1]+fillers[f1]+shapes[a2][:cut])
					}
				}
			}
		}
	}
	for f0 := 0; f0 < nf3 && !ctx.Stop(); f0++ {
		for a1 := 0; a1 < ns3; a1++ {
			for f1 := 0; f1 < nf3; f1++ {
				for a2 := 0; a2 < ns3 && !ctx.Stop(); a2++ {
					for f2 := 0; f2 < nf3; f2++ {
						for a3 := 0; a3 < ns3; a3++ {
							for f3 := 0; f3 < nf3; f3++ {
								run(fmt.Sprintf("p3/%d.%d.%d.%d.%d.%d.%d", f0, a1, f1, a2, f2, a3, f3), "planted/3",
									fillers[f0]+shapes[a1]+fillers[f1]+shapes[a2]+fillers[f2]+shapes[a3]+fillers[f3])
							}
						}
					}
				}
			}
		}
	}

	// ---- further dimensions (dims.go); appended so that the ordinals of the cases above stay what they were
	if !ctx.Stop() {
		enumerateBytes(ctx, run)
	}
	if !ctx.Stop() {
		enumerateRemaps(ctx, run)
	}
	if !ctx.Stop() {
		enumerateScaled(ctx, run)
	}
	if !ctx.Stop() {
		enumerateConfig(ctx, mkRun)
	}
	if !ctx.Stop() {
		enumeratePooled(ctx)
	}
	if !ctx.Stop() {
		enumerateConcurrent(ctx)
	}
}

func main() {
	logger.SetLogLevel(logger.ErrorLevel)
	seq.Main(&seq.Config{
		Property: "C14",
		Level:    "exploration",
		Rule: "bounded-exhaustive enumeration through the exported redactEmail transform: ALL strings over {a,1,.,@,/,-,space,é} of up to 7 (quick) / 9 (thorough) symbols; " +
			"planted texts F0 A1 F1 [A2 F2 [A3 F3]] with every filler (18, incl. empty = adjacency, '@', '/', multi-byte, escape sequence) x every address shape (30) for 1 address, " +
			"10x20 (quick) / 18x30 (thorough) for 2, 5x8 / 9x14 for 3, and the last address cut at every byte; " +
			"byte alphabet: every byte value 0..255 replacing and inserted at every position of every shape in 3 surroundings, all pairs of 44 class-edge bytes at every pair of positions (5 shapes quick / 30 x 3 surroundings thorough), " +
			"all 65 536 byte pairs at neighbouring positions (thorough), and ALL strings of up to 5 / 6 symbols under 16 class-preserving renamings of the small alphabet (z Z 0 9 _ TAB + = quotes brackets control bytes 0x80 0xff ...); " +
			"scaled texts: 24 templates (local part, labels, label count, cut domains, '/' far left, numeric and digit-edged domains, filler before/between/after, number of addresses and of non-address '@') stretched to every n in 1..300 plus 512, 1024, 2048, 4096 +-2 (quick) / 1..1100 plus powers of two up to 65 536 and 1 MiB +-2 (thorough) in 3 surroundings; " +
			"the configured field at every index of a 3-field schema x all single-address planted texts; the same texts in records of the real base.LogAllocator (pooled backing buffers, released and reused); " +
			"EVERY case is a small history through one long-lived instance: warm-up call, the text in a record that stays alive, two later calls, three rounds through one recycled input buffer (a redacted / an address-free / a renamed text of the same length, each overwritten by the text of the case); " +
			"a supplement with 3 instances in 3 goroutines (inputs enumerated, interleaving not controlled). " +
			"Oracle: declarative shape of DESIGN A.3 " +
			"(1: every core address of the input lies inside redacted spans and none remains in the output; 2: output = input with disjoint spans of address bytes around an '@' of a candidate replaced by REDACTED, " +
			"everything else byte-identical; 3: no candidate => unchanged and the label counter untouched; changed => counted once with the raw length; the other fields untouched; " +
			"4: every call of the history obeys 1-3 whatever went through the instance or the input buffer before, and what a record that is still alive holds does not change when later records are processed); " +
			"texts longer than 300 bytes are judged by the unique output the reference admits; non-trivial = the text has an '@' with address bytes on both sides",
		Assumptions: []string{
			"the statement names the characters of an address but not its grammar at the edges: local part ending in . - _, domain or label starting/ending with - _, empty labels, letter-free domains containing - or _, an undotted numeric domain cut by the end of the text, and '/' before a local part that starts with a non-word byte may be redacted or kept (tolerated either way)",
			"an address is taken with its maximal run of address bytes: filler made of address bytes next to an address belongs to it (e.g. the n of a literal \\n directly before the local part)",
			"in a@b.c@d.e how the overlapping candidates are split into spans is free as long as every byte of every address is masked",
			"a purely numeric domain is one made of digits and dots only; 'a@1.2.' followed by more text keeps a purely numeric domain and must stay unchanged, the same at the very end of the text could be a cut-off name and is tolerated",
			"inputs do not contain the literal REDACTED (the decomposition search would handle it, the cross-check of the output skips it)",
			"letters are A-Z a-z, digits 0-9; every other byte value except . - _ @ / is surrounding text like any other (no byte is special because it is a control byte, a quote, '+', or part of a multi-byte character)",
			"a record owns the memory of its field values while it is alive and that memory is reused for later records once it is released (util.MutableString, base.LogAllocator): every text is handed over in a harness-owned mutable buffer; the buffer of a record that is still compared is never touched by the harness",
			"the statement does not ask for the same answer every time: when a later call gives another output for the same text it is judged by the full reference again and accepted if admissible (tolerated shapes)",
			"the supported shape has no length bound and a text no bound on the number of addresses (statement: 'wherever it sits', 'any number'); texts stay below the 1 MiB record limit of defs.InputLogMaxMessageBytes",
			"a group with three concurrent instances exists for manual use (SEQ_REDACT_CONCURRENT=1); it samples thread schedules and is therefore NOT part of the registered check",
		},
		Enumerate:        enumerate,
		QuickDeadline:    4 * time.Minute,
		ThoroughDeadline: 45 * time.Minute,
	})
}
