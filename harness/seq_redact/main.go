// Command seq_redact decides C14: e-mail redaction is complete and touches nothing else. Bounded-exhaustive enumeration
// of field values through the exported redactEmail transform against the declarative shape of DESIGN.md Appendix A.3
// (oracle.go).
package main

import (
	"fmt"
	"strings"
	"time"

	"github.com/relex/gotils/logger"
	"github.com/relex/slog-agent/base"
	"github.com/relex/slog-agent/base/btest"
	"github.com/relex/slog-agent/transform/tredactemail"

	"slogverif/seq"
)

type fixture struct {
	schema base.LogSchema
	tf     base.LogTransform
	lookup btest.LookupStubCustomerCounterFunc
}

const (
	label     = "redacted"
	rawLength = 137
	otherText = "other@field.example"
)

func newFixture() *fixture {
	schema := base.MustNewLogSchema([]string{"log", "other"})
	cfg := &tredactemail.Config{Key: "log", MetricLabel: label}
	if err := cfg.VerifyConfig(schema); err != nil {
		panic(err)
	}
	reg, lookup := btest.NewStubLogCustomCounterRegistry()
	return &fixture{schema: schema, tf: cfg.NewTransform(schema, logger.Root(), reg), lookup: lookup}
}

// check runs the real transform on one value and applies oracles 1-3.
func (f *fixture) check(in string, cands []cand) (string, string) {
	rec := f.schema.NewTestRecord2(time.Unix(1600000000, 0), base.LogFields{in, otherText})
	rec.RawLength = rawLength
	c0, b0 := f.lookup(label)
	res := f.tf.Transform(rec)
	c1, b1 := f.lookup(label)
	out := rec.Fields[0]
	if res != base.PASS {
		return "not-pass", fmt.Sprintf("%q: transform returned %v", in, res)
	}
	if rec.Fields[1] != otherText {
		return "other-field-touched", fmt.Sprintf("%q: the field that is not configured changed to %q", in, rec.Fields[1])
	}
	counted := c1 - c0
	if out == in {
		if counted != 0 {
			return "counter:unchanged-but-counted", fmt.Sprintf("%q came back unchanged but the %s counter moved by %d", in, label, counted)
		}
	} else if counted != 1 || b1-b0 != rawLength {
		return "counter:changed-not-counted-once", fmt.Sprintf("%q -> %q: the %s counter moved by %d logs / %d bytes, expected 1 / %d", in, out, label, counted, b1-b0, rawLength)
	}
	anyCore := false
	for i := range cands {
		if cands[i].core {
			anyCore = true
		}
	}
	if out == in && !strings.Contains(in, mask) {
		if !anyCore {
			return "", ""
		}
		return unredactedKey(in, out, cands, true)
	}
	if explain(in, out, cands, relax{}) {
		return crossCheckOutput(in, out)
	}
	// classify
	if !explain(in, out, cands, relax{anySpan: true, noCover: true}) {
		return "changed:not-a-redaction", fmt.Sprintf("%q -> %q: the output is not the input with some spans replaced by %s (text outside the redacted spans changed)", in, out, mask)
	}
	if !explain(in, out, cands, relax{bytesOnly: true, noCover: true}) {
		return "changed:non-address-bytes", fmt.Sprintf("%q -> %q: a redacted span contains bytes that cannot belong to an address, or no '@'", in, out)
	}
	if !explain(in, out, cands, relax{noCover: true}) {
		switch {
		case explain(in, out, cands, relax{noCover: true, allowNumeric: 1}):
			return "changed:numeric-domain-trailing-dot", fmt.Sprintf("%q -> %q: the only thing redacted has a purely numeric domain (followed by a dot and more text); such text must stay unchanged", in, out)
		case explain(in, out, cands, relax{noCover: true, allowNumeric: 2}):
			return "changed:numeric-domain", fmt.Sprintf("%q -> %q: something with a purely numeric domain was redacted; such text must stay unchanged", in, out)
		case explain(in, out, cands, relax{noCover: true, allowSlash: true}):
			return "changed:slash-prefixed", fmt.Sprintf("%q -> %q: something directly preceded by '/' was redacted; such text must stay unchanged", in, out)
		case explain(in, out, cands, relax{noCover: true, allowSlash: true, allowNumeric: 2}):
			return "changed:slash-prefixed+numeric-domain", fmt.Sprintf("%q -> %q: '/'-prefixed and numeric-domain texts were redacted", in, out)
		}
		return "changed:not-an-address", fmt.Sprintf("%q -> %q: a redacted span is not an address of the supported shape (no dotted domain / not cut by the end of the text / reaches beyond the address)", in, out)
	}
	return unredactedKey(in, out, cands, explain(in, out, cands, relax{skipDigitEdg: true}))
}

func unredactedKey(in, out string, cands []cand, onlyDigitEdged bool) (string, string) {
	var first *cand
	for i := range cands {
		c := &cands[i]
		if !c.core {
			continue
		}
		if first == nil {
			first = c
		}
		if out == in && !c.digitEdged {
			onlyDigitEdged = false
			first = c
			break
		}
	}
	if onlyDigitEdged {
		for i := range cands {
			if cands[i].core && cands[i].digitEdged {
				first = &cands[i]
				break
			}
		}
		return "unredacted:digit-edged-domain", fmt.Sprintf("%q -> %q: the address %q survives; its domain begins and ends with a digit but contains a letter, so it is not purely numeric", in, out, in[first.cs:first.ce])
	}
	return "unredacted:core-address", fmt.Sprintf("%q -> %q: an address of the supported shape (e.g. %q) is not, or not completely, inside a redacted span", in, out, in[first.cs:first.ce])
}

// crossCheckOutput is the literal reading of oracle 1 on the output text: no core address built only from bytes of the
// input (i.e. not overlapping an inserted REDACTED) may remain. It is implied by explain(); kept as a cross-check of it.
func crossCheckOutput(in, out string) (string, string) {
	if strings.Contains(in, mask) {
		return "", ""
	}
	for _, c := range analyze(out) {
		if !c.core {
			continue
		}
		if strings.Contains(out[c.ls:c.re], mask) {
			continue
		}
		return "unredacted:residual-in-output", fmt.Sprintf("%q -> %q: the output still contains %q", in, out, out[c.cs:c.ce])
	}
	return "", ""
}

// classOf names the input class (for the vacuity figures in the evidence) and says whether the case is non-trivial, i.e.
// has an '@' with address bytes on both sides, which is what reaches the boundary search of the code under test.
func classOf(in string, cands []cand) (string, bool) {
	if len(cands) == 0 {
		return "no-at", false
	}
	nontrivial, core, tol, neg, de := false, 0, 0, 0, 0
	for i := range cands {
		c := &cands[i]
		if c.p > c.ls && c.re > c.p+1 {
			nontrivial = true
		}
		switch {
		case c.core && c.digitEdged:
			de++
		case c.core:
			core++
		case c.tolerated:
			tol++
		case c.negSlash || c.negNumeric:
			neg++
		}
	}
	switch {
	case de > 0 && core == 0:
		return "core-digit-edged", true
	case core+de > 1:
		return "core-multi", true
	case core == 1 && tol+neg > 0:
		return "core+other-candidates", true
	case core == 1:
		return "core-single", true
	case tol > 0:
		return "tolerated-shape", true
	case neg > 0:
		return "documented-negative", true
	case nontrivial:
		return "at-with-neighbours-no-address", true
	}
	return "at-without-neighbours", false
}

var sigma = []string{"a", "1", ".", "@", "/", "-", " ", "é"}

// Planted texts. The first entries are the ones kept by the reduced menus.
var shapes = []string{
	"a@b.cc",       // 0 plain
	"f.o-o_1@d.e",  // 1 local part with . - _
	"a@1a.1",       // 2 digit-edged domain containing a letter
	"a@12.34",      // 3 purely numeric domain
	"a@bc",         // 4 no dot: an address only when cut by the end of the text
	"a@b.cc@d.ee",  // 5 back to back
	"a@@b.cc",      // 6 double at
	"a@b-c.d-e.ff", // 7 multi-label
	"a@b.",         // 8 dot then nothing
	"/a@b.cc",      // 9 preceded by slash
	"a.@b.cc",      // 10 local part ends in a dot
	"a@1a1.b2",     // 11 digit first and last, two labels with letters
	"é@b.cc",       // 12 multi-byte local part
	"a@b..c",       // 13 empty label
	"A_Z@X9.ORG",   // 14 upper case
	"a@1.b",        // 15 digit first only
	"a@b.1",        // 16 digit last only
	"a@1",          // 17 one digit
	"a@1-2.3",      // 18 digits and dash
	".a@b.cc",      // 19 local part starts with dot
	"a-@b.cc",      // 20 local part ends in dash
	"a@-b.cc",      // 21 domain starts with dash
	"a@b.-c",       // 22 second label starts with dash
	"a@b.cc.",      // 23 trailing dot
	"a@é.cc",       // 24 multi-byte domain
	"@b.cc",        // 25 no local part
	"a@",           // 26 no domain
	"a@12.34.",     // 27 numeric with trailing dot
	"a@b.c.dd",     // 28 three labels
	"a@1.2a3.4",    // 29 digit-edged, letter in the middle label
}

var fillers = []string{
	"",      // 0 adjacency
	" ",     // 1
	"/",     // 2
	"@",     // 3 an '@' that is no address
	"x",     // 4 address byte: merges with the neighbours
	"é",     // 5 multi-byte
	".",     // 6
	"\\n",   // 7 escape sequence (backslash n)
	",",     // 8
	"1",     // 9
	"-",     // 10
	"_",     // 11
	"://u:", // 12
	"\n",    // 13
	"<",     // 14
	"日本",    // 15
	"@@",    // 16
	" x@ ",  // 17
}

func enumerate(ctx *seq.Ctx) {
	f := newFixture()
	run := func(id, group, in string) {
		if !ctx.Mine() {
			ctx.Skip()
			return
		}
		var cands []cand
		if strings.IndexByte(in, '@') >= 0 {
			cands = analyze(in)
		}
		cls, nontrivial := classOf(in, cands)
		ctx.Group(group + "/" + cls)
		ctx.Case(id, nontrivial, in, func() (string, string) { return f.check(in, cands) })
	}

	// ---- all strings over sigma up to length 7 / 9 (symbols, not bytes)
	maxLen := 7
	if ctx.Thorough() {
		maxLen = 9
	}
	for l := 0; l <= maxLen && !ctx.Stop(); l++ {
		group := fmt.Sprintf("sigma/len%d", l)
		idx := make([]int, l)
		var sb strings.Builder
		for !ctx.Stop() {
			if ctx.Mine() {
				sb.Reset()
				for _, x := range idx {
					sb.WriteString(sigma[x])
				}
				in := sb.String()
				run("s/"+in, group, in)
			} else {
				ctx.Skip()
			}
			i := l - 1
			for i >= 0 {
				idx[i]++
				if idx[i] < len(sigma) {
					break
				}
				idx[i] = 0
				i--
			}
			if i < 0 {
				break
			}
		}
	}

	// ---- planted addresses: F0 A1 F1 [A2 F2 [A3 F3]] with every filler (including the empty one = adjacency) at every
	// position. Menus are prefixes of the full menus so that case ids are the same in both tiers.
	nf1, ns1 := len(fillers), len(shapes)
	nf2, ns2 := 10, 20
	nf3, ns3 := 5, 8
	if ctx.Thorough() {
		nf2, ns2 = len(fillers), len(shapes)
		nf3, ns3 = 9, 14
	}
	for f0 := 0; f0 < nf1; f0++ {
		for a1 := 0; a1 < ns1; a1++ {
			for f1 := 0; f1 < nf1; f1++ {
				run(fmt.Sprintf("p1/%d.%d.%d", f0, a1, f1), "planted/1", fillers[f0]+shapes[a1]+fillers[f1])
			}
		}
	}
	// the last address cut at every byte (domain truncated by the end of the text, and shorter)
	for f0 := 0; f0 < nf1; f0++ {
		for a1 := 0; a1 < ns1; a1++ {
			for cut := 1; cut < len(shapes[a1]); cut++ {
				run(fmt.Sprintf("t1/%d.%d.%d", f0, a1, cut), "planted/1-cut", fillers[f0]+shapes[a1][:cut])
			}
		}
	}
	for f0 := 0; f0 < nf2 && !ctx.Stop(); f0++ {
		for a1 := 0; a1 < ns2; a1++ {
			for f1 := 0; f1 < nf2; f1++ {
				for a2 := 0; a2 < ns2; a2++ {
					for f2 := 0; f2 < nf2; f2++ {
						run(fmt.Sprintf("p2/%d.%d.%d.%d.%d", f0, a1, f1, a2, f2), "planted/2", fillers[f0]+shapes[a1]+fillers[f1]+shapes[a2]+fillers[f2])
					}
					for cut := 1; cut < len(shapes[a2]); cut++ {
						run(fmt.Sprintf("t2/%d.%d.%d.%d.%d", f0, a1, f1, a2, cut), "planted/2-cut", fillers[f0]+shapes[a1]+fillers[f1]+shapes[a2][:cut])
					}
				}
			}
		}
	}
	for f0 := 0; f0 < nf3 && !ctx.Stop(); f0++ {
		for a1 := 0; a1 < ns3; a1++ {
			for f1 := 0; f1 < nf3; f1++ {
				for a2 := 0; a2 < ns3 && !ctx.Stop(); a2++ {
					for f2 := 0; f2 < nf3; f2++ {
						for a3 := 0; a3 < ns3; a3++ {
							for f3 := 0; f3 < nf3; f3++ {
								run(fmt.Sprintf("p3/%d.%d.%d.%d.%d.%d.%d", f0, a1, f1, a2, f2, a3, f3), "planted/3",
									fillers[f0]+shapes[a1]+fillers[f1]+shapes[a2]+fillers[f2]+shapes[a3]+fillers[f3])
							}
						}
					}
				}
			}
		}
	}
}

func main() {
	logger.SetLogLevel(logger.ErrorLevel)
	seq.Main(&seq.Config{
		Property: "C14",
		Level:    "exploration",
		Rule: "bounded-exhaustive enumeration through the exported redactEmail transform: ALL strings over {a,1,.,@,/,-,space,é} of up to 7 (quick) / 9 (thorough) symbols; " +
			"planted texts F0 A1 F1 [A2 F2 [A3 F3]] with every filler (18, incl. empty = adjacency, '@', '/', multi-byte, escape sequence) x every address shape (30) for 1 address, " +
			"10x20 (quick) / 18x30 (thorough) for 2, 5x8 / 9x14 for 3, and the last address cut at every byte; oracle: declarative shape of DESIGN A.3 " +
			"(1: every core address of the input lies inside redacted spans and none remains in the output; 2: output = input with disjoint spans of address bytes around an '@' of a candidate replaced by REDACTED, " +
			"everything else byte-identical; 3: no candidate => unchanged and the label counter untouched; changed => counted once with the raw length); " +
			"non-trivial = the text has an '@' with address bytes on both sides",
		Assumptions: []string{
			"the statement names the characters of an address but not its grammar at the edges: local part ending in . - _, domain or label starting/ending with - _, empty labels, letter-free domains containing - or _, an undotted numeric domain cut by the end of the text, and '/' before a local part that starts with a non-word byte may be redacted or kept (tolerated either way)",
			"an address is taken with its maximal run of address bytes: filler made of address bytes next to an address belongs to it (e.g. the n of a literal \\n directly before the local part)",
			"in a@b.c@d.e how the overlapping candidates are split into spans is free as long as every byte of every address is masked",
			"a purely numeric domain is one made of digits and dots only; 'a@1.2.' followed by more text keeps a purely numeric domain and must stay unchanged, the same at the very end of the text could be a cut-off name and is tolerated",
			"inputs do not contain the literal REDACTED (the decomposition search would handle it, the cross-check of the output skips it)",
		},
		Enumerate:        enumerate,
		QuickDeadline:    4 * time.Minute,
		ThoroughDeadline: 45 * time.Minute,
	})
}
