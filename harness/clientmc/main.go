// Command clientmc model-checks the real baseoutput.ClientWorker (sender + acknowledger + connection opener +
// stop aborter goroutines) against a scripted upstream connection, for properties C02 and (client part) C18.
package main

import (
	"bytes"
	"errors"
	"flag"
	"fmt"
	"io"
	"net"
	"os"
	"sort"
	"strings"
	"syscall"
	"time"

	"github.com/relex/gotils/channels"
	"github.com/relex/gotils/logger"
	"github.com/relex/gotils/promexporter/promreg"
	"github.com/relex/slog-agent/base"
	"github.com/relex/slog-agent/defs"
	"github.com/relex/slog-agent/output/baseoutput"

	"slogverif/explore"
	"slogverif/rt/vsched"
)

// ---------------------------------------------------------------------------------------------
// scripted upstream

type fakeConn struct {
	env     *env
	k       int      // connection number
	closed  bool     // Close called
	sentOK  []string // chunk IDs completely transmitted on this connection, in order
	pending []string // transmitted, not yet ACKed by the upstream (fake upstream's view)
	acked   []string // chunk IDs designated by ACKs returned from ReadChunkAck on this connection
	tried   []string // every SendChunk call on this connection (in order)
	log     logger.Logger
}

type env struct {
	freeAcksUsed int
	p            params
	conns        []*fakeConn
	consumed     map[string]int
	leftover     map[string]int
	finished     int
	viol         []string
	violKey      string
	taken        map[string]bool // chunks removed from the input channel (seen by the client)
	events       []string
	afterStop    bool
	finOrder     []string
}

type params struct {
	name       string
	nChunks    int
	prefill    int // chunks placed in the input channel before Start
	inOrder    bool
	syncMode   bool // Datadog-like connection: SendChunk is the whole exchange, ReadChunkAck returns "" at once, Close aborts nothing
	ackWindow  int
	maxAge     time.Duration
	script     []string // driver events after start: "feed", "stop", "usr1"
	advances   int      // how many times the driver may let the clock advance before an event
	connectAlt int      // number of connect answers offered (1 = always ok)
	sendAlt    int
	pingAlt    int
	ackAlt     int
	lateDelay  time.Duration
	liveness   bool // no stop: at the horizon every chunk must be consumed
	horizon    time.Duration
	boundCheck bool // C18: measure the stop duration
	prop       string
	// freeAcks scripts the first ACK-read answers of the run (indices into the ACK menu: 1 reset, 2 silent, 3 late, 4 unknown ID,
	// 5 out of order), not charged to the deviation budget: the client STARTS in the interesting state (leftovers exist, a
	// recovery stage is entered, more chunks outstanding than the window)
	freeAcks []int
	// ackerStopTimeout / channelTimeout scale the two waits of a soft stop down (defaults 180 s / 60 s) so that late ACKs can
	// outlast them with few chunks
	ackerStopTimeout time.Duration
	channelTimeout   time.Duration
	savedPattern     bool // every second chunk is fed with Saved=true (already on disk)
	bigChunk         int  // > 0: payload bytes of chunk c1 (the send deadline depends on the size)
}

func (e *env) violate(key, format string, args ...any) {
	// when serving C05 only the transmission-order oracle (and crashes) count; everything else belongs to C02
	if e.p.prop == "C05" && !strings.HasPrefix(key, "order:") {
		return
	}
	msg := fmt.Sprintf(format, args...)
	e.viol = append(e.viol, msg)
	if e.violKey == "" {
		e.violKey = key
	}
	vsched.Note("VIOLATION %s: %s", key, msg)
}

func (e *env) note(format string, args ...any) {
	msg := fmt.Sprintf(format, args...)
	e.events = append(e.events, msg)
	vsched.Note("%s", msg)
}

type netErr struct {
	msg     string
	timeout bool
}

func (n netErr) Error() string   { return n.msg }
func (n netErr) Timeout() bool   { return n.timeout }
func (n netErr) Temporary() bool { return n.timeout }

func closedErr(op string) error {
	return &net.OpError{Op: op, Net: "tcp", Err: errors.New("use of closed network connection")}
}

func timeoutErr(op string) error {
	return &net.OpError{Op: op, Net: "tcp", Err: netErr{"i/o timeout", true}}
}

func resetErr(op string) error {
	return &net.OpError{Op: op, Net: "tcp", Err: os.NewSyscallError(op, syscall.ECONNRESET)}
}

func (e *env) openConn() (baseoutput.ClosableClientConnection, error) {
	k := len(e.conns)
	ans := 0
	if e.p.connectAlt > 1 {
		ans = vsched.Choose(e.p.connectAlt, "connect")
	}
	switch ans {
	case 1:
		e.note("connect attempt: refused")
		return nil, &net.OpError{Op: "dial", Net: "tcp", Err: os.NewSyscallError("connect", syscall.ECONNREFUSED)}
	case 2:
		dl := vsched.VNow().Add(defs.ForwarderConnectionTimeout)
		e.note("connect attempt: hangs until timeout")
		vsched.WaitUntil("fake.connect-hang", dl, func() bool { return !vsched.VNow().Before(dl) })
		return nil, timeoutErr("dial")
	}
	c := &fakeConn{env: e, k: k, log: logger.WithField("conn", k)}
	e.conns = append(e.conns, c)
	e.note("connect attempt: conn%d established", k)
	return c, nil
}

func (c *fakeConn) Logger() logger.Logger { return c.log }

func (c *fakeConn) Close() {
	if !c.closed {
		c.env.note("conn%d closed", c.k)
	}
	c.closed = true
}

func (c *fakeConn) SendChunk(chunk base.LogChunk, deadline time.Time) error {
	e := c.env
	e.taken[chunk.ID] = true
	c.tried = append(c.tried, chunk.ID)
	e.checkOrder(c, chunk.ID)
	if c.closed && !e.p.syncMode {
		return closedErr("write")
	}
	// the send deadline leaves at least the documented time: base + size / minimum speed
	if min := defs.ForwarderBatchSendTimeoutBase + time.Duration(len(chunk.Data)/defs.ForwarderBatchSendMinimumSpeed)*time.Second; deadline.Sub(vsched.VNow()) < min {
		e.violate("send-deadline-too-short", "conn%d send %s (%d bytes): deadline %v ahead, the documented minimum is %v (base %v + size / %d B/s)", c.k, chunk.ID, len(chunk.Data), deadline.Sub(vsched.VNow()), min, defs.ForwarderBatchSendTimeoutBase, defs.ForwarderBatchSendMinimumSpeed)
	}
	if !deadline.After(vsched.VNow()) {
		// a real socket fails at once when the deadline has already passed, whatever the upstream would answer
		e.note("conn%d send %s: deadline already expired", c.k, chunk.ID)
		return timeoutErr("write")
	}
	ans := 0
	if e.p.sendAlt > 1 {
		ans = vsched.Choose(e.p.sendAlt, "send")
	}
	switch ans {
	case 1:
		e.note("conn%d send %s: reset", c.k, chunk.ID)
		return resetErr("write")
	case 2:
		e.note("conn%d send %s: blocks", c.k, chunk.ID)
		vsched.WaitUntil("fake.send-block", deadline, func() bool { return (c.closed && !e.p.syncMode) || !vsched.VNow().Before(deadline) })
		if c.closed && !e.p.syncMode {
			return closedErr("write")
		}
		return timeoutErr("write")
	}
	c.sentOK = append(c.sentOK, chunk.ID)
	c.pending = append(c.pending, chunk.ID)
	e.note("conn%d send %s: ok", c.k, chunk.ID)
	return nil
}

func (c *fakeConn) SendPing(deadline time.Time) error {
	e := c.env
	if c.closed {
		return closedErr("write")
	}
	ans := 0
	if e.p.pingAlt > 1 {
		ans = vsched.Choose(e.p.pingAlt, "ping")
	}
	if ans == 1 {
		e.note("conn%d ping: reset", c.k)
		return resetErr("write")
	}
	e.note("conn%d ping: ok", c.k)
	return nil
}

func (c *fakeConn) ReadChunkAck(deadline time.Time) (string, error) {
	e := c.env
	if e.p.syncMode {
		// the acknowledgement was part of the synchronous exchange in SendChunk: "" designates the oldest chunk whose
		// SendChunk returned nil on this connection and which has not been designated yet (possibly none)
		if len(c.pending) > 0 {
			id := c.pending[0]
			c.pending = c.pending[1:]
			c.acked = append(c.acked, id)
			e.note("conn%d implicit ack %s", c.k, id)
		} else {
			e.note("conn%d implicit ack designates nothing (no completed exchange outstanding)", c.k)
		}
		return "", nil
	}
	expired := func() bool { return !vsched.VNow().Before(deadline) }
	// nothing to acknowledge: a read blocks until the upstream has something to say, the connection is closed
	// or the deadline passes
	if !c.closed && len(c.pending) == 0 {
		vsched.WaitUntil("fake.ack-idle", deadline, func() bool { return c.closed || len(c.pending) > 0 || expired() })
	}
	if c.closed {
		return "", closedErr("read")
	}
	if len(c.pending) == 0 {
		return "", timeoutErr("read")
	}
	ans := 0
	if e.freeAcksUsed < len(e.p.freeAcks) {
		ans = e.p.freeAcks[e.freeAcksUsed]
		e.freeAcksUsed++
		e.note("conn%d ack-read: scripted answer %d", c.k, ans)
	} else if e.p.ackAlt > 1 {
		n := e.p.ackAlt
		ans = vsched.Choose(n, "ack")
	}
	ackOldest := func() (string, error) {
		id := c.pending[0]
		c.pending = c.pending[1:]
		c.acked = append(c.acked, id)
		e.note("conn%d ack %s", c.k, id)
		if e.p.inOrder {
			return "", nil
		}
		return id, nil
	}
	switch ans {
	case 0:
		return ackOldest()
	case 1: // connection reset while waiting for the ACK
		e.note("conn%d ack-read: reset", c.k)
		return "", resetErr("read")
	case 2: // upstream silent: blocks until Close or deadline
		e.note("conn%d ack-read: silent", c.k)
		vsched.WaitUntil("fake.ack-silent", deadline, func() bool { return c.closed || expired() })
		if c.closed {
			return "", closedErr("read")
		}
		return "", timeoutErr("read")
	case 3: // late ACK
		at := vsched.VNow().Add(e.p.lateDelay)
		e.note("conn%d ack-read: late by %v", c.k, e.p.lateDelay)
		vsched.WaitUntil("fake.ack-late", at, func() bool { return c.closed || !vsched.VNow().Before(at) || expired() })
		if c.closed {
			return "", closedErr("read")
		}
		if expired() && vsched.VNow().Before(at) {
			return "", timeoutErr("read")
		}
		return ackOldest()
	case 4: // ACK for an ID the client never sent on this connection (ID mode only; in-order mode: reset)
		if e.p.inOrder {
			return "", resetErr("read")
		}
		e.note("conn%d ack unknown id", c.k)
		return "bogus-id", nil
	case 5: // ACK of a later chunk first (ID mode, needs two pending)
		if e.p.inOrder || len(c.pending) < 2 {
			return ackOldest()
		}
		id := c.pending[1]
		c.pending = append(c.pending[:1:1], c.pending[2:]...)
		c.acked = append(c.acked, id)
		e.note("conn%d ack %s (out of order)", c.k, id)
		return id, nil
	}
	return ackOldest()
}

// checkOrder is oracle 3: on every connection chunks go out in creation order and no older unresolved chunk is skipped.
func (e *env) checkOrder(c *fakeConn, id string) {
	if n := len(c.tried); n >= 2 && c.tried[n-2] >= id {
		e.violate("order:not-ascending", "conn%d transmits %s after %s", c.k, id, c.tried[n-2])
	}
	for older := range e.taken {
		if older >= id || e.consumed[older] > 0 {
			continue
		}
		found := false
		for _, t := range c.tried {
			if t == older {
				found = true
			}
		}
		if !found {
			e.violate("order:skipped-older", "conn%d transmits %s while older unresolved %s was not transmitted on it", c.k, id, older)
		}
	}
}

// onConsumed is oracle 1.
func (e *env) onConsumed(chunk base.LogChunk) {
	e.consumed[chunk.ID]++
	e.note("consumed %s", chunk.ID)
	if e.consumed[chunk.ID] > 1 {
		e.violate("consumed-twice", "chunk %s reported delivered %d times", chunk.ID, e.consumed[chunk.ID])
	}
	if e.leftover[chunk.ID] > 0 {
		e.violate("consumed-and-leftover", "chunk %s reported delivered after being handed back", chunk.ID)
	}
	ok := false
	for _, c := range e.conns {
		sent, acked := false, false
		for _, s := range c.sentOK {
			if s == chunk.ID {
				sent = true
			}
		}
		for _, a := range c.acked {
			if a == chunk.ID {
				acked = true
			}
		}
		if sent && acked {
			ok = true
		}
	}
	if !ok {
		e.violate("consumed-without-ack", "chunk %s reported delivered but no connection both transmitted it completely and acknowledged it", chunk.ID)
	}
	if want := e.wantData(chunk.ID); string(chunk.Data) != want {
		e.violate("consumed-altered", "chunk %s delivered with %d bytes of data, fed %d", chunk.ID, len(chunk.Data), len(want))
	}
	if chunk.Saved != e.wantSaved(chunk.ID) {
		e.violate("consumed-altered:saved-flag", "chunk %s reported delivered with Saved=%v, fed with Saved=%v", chunk.ID, chunk.Saved, e.wantSaved(chunk.ID))
	}
}

func (e *env) onLeftover(chunk base.LogChunk) {
	e.leftover[chunk.ID]++
	e.note("leftover %s", chunk.ID)
	if e.leftover[chunk.ID] > 1 {
		e.violate("leftover-twice", "chunk %s handed back %d times", chunk.ID, e.leftover[chunk.ID])
	}
	if e.consumed[chunk.ID] > 0 {
		e.violate("consumed-and-leftover", "chunk %s handed back after being reported delivered", chunk.ID)
	}
	if e.finished > 0 {
		e.violate("leftover-after-finished", "chunk %s handed back after OnFinished", chunk.ID)
	}
	if want := e.wantData(chunk.ID); string(chunk.Data) != want {
		e.violate("leftover-altered", "chunk %s handed back with %d bytes of data, fed %d", chunk.ID, len(chunk.Data), len(want))
	}
	if chunk.Saved != e.wantSaved(chunk.ID) {
		e.violate("leftover-altered:saved-flag", "chunk %s handed back with Saved=%v, fed with Saved=%v", chunk.ID, chunk.Saved, e.wantSaved(chunk.ID))
	}
}

func (e *env) wantData(id string) string {
	if e.p.bigChunk > 0 && id == "c1" {
		return "data-" + id + strings.Repeat("x", e.p.bigChunk)
	}
	return "data-" + id
}

// wantSaved: with savedPattern the even chunks (c2, c4) are already on disk when the client gets them
func (e *env) wantSaved(id string) bool {
	return e.p.savedPattern && (id[len(id)-1]-'0')%2 == 0
}

func (e *env) onFinished() {
	e.finished++
	e.note("finished")
	if e.finished > 1 {
		e.violate("finished-twice", "OnFinished called %d times", e.finished)
	}
}

// ---------------------------------------------------------------------------------------------

var logBuf bytes.Buffer

type bugWriter struct{}

func (bugWriter) Write(p []byte) (int, error) {
	if bytes.Contains(p, []byte("BUG")) || bytes.Contains(p, []byte("level=panic")) || bytes.Contains(p, []byte("level=fatal")) {
		logBuf.Write(p)
	}
	if *flagLogs {
		os.Stderr.Write(p)
	}
	return len(p), nil
}

var flagLogs = flag.Bool("logs", false, "print agent logs to stderr")

func chunkID(i int) string { return fmt.Sprintf("c%d", i+1) }

var origAckerStopTimeout, origChannelTimeout = defs.ForwarderAckerStopTimeout, defs.IntermediateChannelTimeout

func makeRun(p params) explore.RunFunc {
	return func(choose func(*vsched.ChoicePoint) int, trace bool) (explore.Verdict, *vsched.Result) {
		var verdict explore.Verdict
		logBuf.Reset()
		defs.ForwarderMaxPendingChunksForAck = p.ackWindow
		defs.ForwarderAckerStopTimeout, defs.IntermediateChannelTimeout = origAckerStopTimeout, origChannelTimeout
		if p.ackerStopTimeout > 0 {
			defs.ForwarderAckerStopTimeout = p.ackerStopTimeout
		}
		if p.channelTimeout > 0 {
			defs.IntermediateChannelTimeout = p.channelTimeout
		}
		e := &env{p: p, consumed: map[string]int{}, leftover: map[string]int{}, taken: map[string]bool{}}
		res := vsched.Run(vsched.Options{Choose: choose, Trace: trace, MaxSteps: 20000, StateKeys: true, EnvState: e.stateHash}, func() {
			verdict = drive(e)
		})
		switch res.Status {
		case "ok":
		case "crash":
			verdict = explore.Verdict{Violation: "panic: " + firstLine(res.Detail), Key: "panic", Outcome: "crash"}
		case "deadlock":
			verdict = explore.Verdict{Violation: "deadlock: " + strings.ReplaceAll(res.Detail, "\n", "; "), Key: "deadlock", Outcome: "deadlock"}
		default:
			verdict = explore.Verdict{Violation: res.Status + ": " + res.Detail, Key: "engine:" + res.Status, Outcome: res.Status}
		}
		return verdict, res
	}
}

func firstLine(s string) string {
	if i := strings.IndexByte(s, '\n'); i >= 0 {
		return s[:i]
	}
	return s
}

func drive(e *env) explore.Verdict {
	p := e.p
	mf := promreg.NewMetricFactory("v_", nil, nil)
	input := make(chan base.LogChunk, p.nChunks+1)
	inputClosed := channels.NewSignalAwaitable()
	args := base.ChunkConsumerArgs{
		InputChannel:    input,
		InputClosed:     inputClosed,
		OnChunkConsumed: e.onConsumed,
		OnChunkLeftover: e.onLeftover,
		OnFinished:      e.onFinished,
	}
	fed := 0
	feed := func() {
		id := chunkID(fed)
		fed++
		input <- base.LogChunk{ID: id, Data: []byte(e.wantData(id)), Saved: e.wantSaved(id)}
		e.note("feed %s", id)
	}
	for i := 0; i < p.prefill; i++ {
		feed()
	}
	worker := baseoutput.NewClientWorker(logger.Root(), args, mf, e.openConn, p.maxAge)
	worker.Start()

	stopped := false
	var stopAt time.Duration
	for _, ev := range p.script {
		quiet := vsched.Lazy("driver." + ev)
		for adv := 0; quiet && adv < p.advances && vsched.NextTimerIn() >= 0; adv++ {
			if vsched.Choose(2, "advance-before-"+ev) == 0 {
				break
			}
			vsched.AdvanceClock()
			quiet = vsched.Lazy("driver." + ev)
		}
		switch ev {
		case "feed":
			feed()
		case "usr1":
			vsched.Raise(syscall.SIGUSR1)
			e.note("SIGUSR1")
		case "stop":
			// the order used by hybridbuffer's feeder: close the channel, then signal
			stopAt = vsched.Elapsed()
			e.note("stop requested")
			vsched.Close(input, "driver.close-input")
			inputClosed.Signal()
			stopped = true
		}
	}
	if stopped {
		vsched.Recv(worker.Stopped().Channel(), "driver.wait-stopped")
		e.afterStop = true
	} else {
		// liveness: run to the horizon or until everything is consumed
		dl := vsched.VNow().Add(p.horizon)
		vsched.WaitUntil("driver.horizon", dl, func() bool {
			return len(e.consumed) == fed || !vsched.VNow().Before(dl)
		})
	}

	// ---- verdict
	outcome := []string{}
	if stopped {
		took := vsched.Elapsed() - stopAt
		// chunks never taken are still in the channel
		remaining := map[string]bool{}
		for c := range input {
			remaining[c.ID] = true
		}
		for i := 0; i < fed; i++ {
			id := chunkID(i)
			nc, nl := e.consumed[id], e.leftover[id]
			switch {
			case remaining[id]:
				if nc+nl > 0 {
					e.violate("resolved-but-in-channel", "chunk %s still in the input channel but also resolved", id)
				}
				outcome = append(outcome, id+":queued")
			case nc == 1 && nl == 0:
				outcome = append(outcome, id+":consumed")
			case nc == 0 && nl == 1:
				outcome = append(outcome, id+":leftover")
			case nc == 0 && nl == 0:
				e.violate("lost", "chunk %s was taken from the queue and neither reported delivered nor handed back", id)
				outcome = append(outcome, id+":LOST")
			default:
				outcome = append(outcome, fmt.Sprintf("%s:c%d/l%d", id, nc, nl))
			}
		}
		if e.finished != 1 {
			e.violate("finished-count", "OnFinished called %d times after stop", e.finished)
		}
		if p.boundCheck {
			bound := stopBound(p)
			if took > bound {
				e.violate("stop-too-slow", "stop took %v of virtual time, bound %v", took, bound)
			}
			outcome = append(outcome, fmt.Sprintf("took<=%v", took.Round(10*time.Second)))
		}
	} else {
		for i := 0; i < fed; i++ {
			id := chunkID(i)
			if e.consumed[id] == 1 {
				outcome = append(outcome, id+":consumed")
			} else {
				outcome = append(outcome, id+":pending")
				if p.liveness {
					e.violate("not-delivered-at-horizon", "chunk %s not delivered %v after the last fault although the upstream behaves", id, p.horizon)
				}
			}
		}
	}
	if logBuf.Len() > 0 {
		line := firstLine(logBuf.String())
		key := "bug-log"
		if i := strings.Index(line, "BUG"); i >= 0 {
			key = "bug-log:" + sanitizeKey(line[i:])
		}
		e.violate(key, "agent logged: %s", line)
	}
	outcome = append(outcome, fmt.Sprintf("conns=%d", len(e.conns)))
	v := explore.Verdict{Outcome: strings.Join(outcome, " ")}
	if len(e.viol) > 0 {
		v.Violation = strings.Join(e.viol, " | ")
		v.Key = e.violKey
	}
	return v
}

func sanitizeKey(s string) string {
	if len(s) > 48 {
		s = s[:48]
	}
	return strings.Map(func(r rune) rune {
		if r == ' ' || r == '"' {
			return '_'
		}
		return r
	}, s)
}

// stopBound is the longest documented chain for the client alone: a send in flight runs to its deadline (it is
// aborted by the stop normally), then the acknowledger is stopped hard (IntermediateChannelTimeout safety net).
func stopBound(p params) time.Duration {
	return defs.ForwarderBatchSendTimeoutBase + defs.ForwarderBatchAckTimeout + defs.ForwarderAckerStopTimeout + defs.IntermediateChannelTimeout
}

func scenarios(prop string) []*explore.Scenario {
	var out []*explore.Scenario
	add := func(p params, quick, thorough int, minOutcomes int) {
		p.prop = prop
		b := map[string]int{}
		if quick > -2 {
			b["quick"] = quick
		}
		if thorough > -2 {
			b["thorough"] = thorough
		}
		out = append(out, &explore.Scenario{Name: p.name, Bound: b, Run: makeRun(p), MinOutcomes: minOutcomes})
	}
	age := 5 * time.Minute
	for _, inOrder := range []bool{false, true} {
		mode := "id"
		if inOrder {
			mode = "inorder"
		}
		for _, w := range []int{1, 2} {
			for _, n := range []int{1, 2, 3} {
				if n < 3 && w == 1 && inOrder {
					continue
				}
				base := params{nChunks: n, prefill: n, inOrder: inOrder, ackWindow: w, maxAge: age,
					connectAlt: 3, sendAlt: 3, pingAlt: 2, ackAlt: 6, lateDelay: 25 * time.Second, advances: 1}
				// stop at any moment
				s := base
				s.name = fmt.Sprintf("stop/%s/w%d/n%d", mode, w, n)
				s.script = []string{"stop"}
				q, t := 2, 3
				if n == 3 {
					q, t = 1, 2
				}
				add(s, q, t, 2)
				// liveness without stop
				l := base
				l.name = fmt.Sprintf("live/%s/w%d/n%d", mode, w, n)
				l.liveness = true
				l.horizon = 30 * time.Minute
				add(l, q, t, 1)
			}
		}
		if inOrder {
			// Datadog-like synchronous connection
			for _, n := range []int{1, 2} {
				y := params{nChunks: n, prefill: n, inOrder: true, syncMode: true, ackWindow: 1, maxAge: age,
					connectAlt: 2, sendAlt: 3, pingAlt: 1, ackAlt: 1, advances: 1}
				y.name = fmt.Sprintf("stop/sync/w1/n%d", n)
				y.script = []string{"stop"}
				add(y, 2, 3, 2)
				z := y
				z.name = fmt.Sprintf("live/sync/w1/n%d", n)
				z.script = nil
				z.liveness = true
				z.horizon = 30 * time.Minute
				add(z, 2, 3, 1)
			}
		}
		// late feeding, soft reconnects
		f := params{nChunks: 2, prefill: 1, inOrder: inOrder, ackWindow: 1, maxAge: age,
			connectAlt: 2, sendAlt: 2, pingAlt: 2, ackAlt: 5, lateDelay: 25 * time.Second, advances: 2}
		f.name = fmt.Sprintf("feed-usr1-stop/%s", mode)
		f.script = []string{"feed", "usr1", "stop"}
		add(f, 1, 2, 2)
		g := f
		g.name = fmt.Sprintf("usr1-feed-live/%s", mode)
		g.script = []string{"usr1", "feed"}
		g.liveness = true
		g.horizon = 30 * time.Minute
		add(g, 1, 2, 1)
	}
	// ---- scenarios that START in an interesting state through scripted, uncharged first answers
	for _, inOrder := range []bool{false, true} {
		mode := "id"
		if inOrder {
			mode = "inorder"
		}
		// recovery stage: the first ACK read fails by script, so leftovers exist and the next session resends them;
		// stop / soft reconnect / nothing at any moment of that stage within the usual bound
		for _, n := range []int{2, 3} {
			r := params{nChunks: n, prefill: n, inOrder: inOrder, ackWindow: 1, maxAge: age, savedPattern: true,
				connectAlt: 3, sendAlt: 3, pingAlt: 2, ackAlt: 6, lateDelay: 25 * time.Second, advances: 1, freeAcks: []int{1}}
			r.name = fmt.Sprintf("recovery/stop/%s/n%d", mode, n)
			r.script = []string{"stop"}
			q, t := 2, 3
			if n == 3 {
				q, t = 1, 2
			}
			add(r, q, t, 2)
			u := r
			u.name = fmt.Sprintf("recovery/usr1-stop/%s/n%d", mode, n)
			u.script = []string{"usr1", "stop"}
			add(u, 1, 2, 2)
			l := r
			l.name = fmt.Sprintf("recovery/live/%s/n%d", mode, n)
			l.script = nil
			l.liveness = true
			l.horizon = 30 * time.Minute
			add(l, q, t, 1)
		}
		// a soft stop (SIGUSR1, maximum session age) that outlasts its time-outs: both waits scaled down, ACKs late by more
		// than their sum
		sl := params{nChunks: 3, prefill: 3, inOrder: inOrder, ackWindow: 2, maxAge: age, ackerStopTimeout: 20 * time.Second, channelTimeout: 5 * time.Second,
			connectAlt: 2, sendAlt: 2, pingAlt: 1, ackAlt: 4, lateDelay: 40 * time.Second, advances: 2}
		sl.name = fmt.Sprintf("soft-stop-timeout/usr1-stop/%s", mode)
		sl.script = []string{"usr1", "stop"}
		add(sl, 1, 2, 2)
		sv := sl
		sv.name = fmt.Sprintf("soft-stop-timeout/usr1-live/%s", mode)
		sv.script = []string{"usr1"}
		sv.liveness = true
		sv.horizon = 30 * time.Minute
		add(sv, 1, 2, 1)
		sa := sl
		sa.name = fmt.Sprintf("soft-stop-timeout/maxage-live/%s", mode)
		sa.maxAge = 30 * time.Second
		sa.script = nil
		sa.liveness = true
		sa.horizon = 30 * time.Minute
		add(sa, 1, 2, 1)
	}
	// more outstanding chunks than window + 2: the first ACKs name unknown IDs (by script), five chunks against a window of one
	ov := params{nChunks: 5, prefill: 5, ackWindow: 1, maxAge: age, connectAlt: 2, sendAlt: 2, pingAlt: 1, ackAlt: 5, lateDelay: 25 * time.Second, advances: 1,
		freeAcks: []int{4, 4, 4, 4}}
	ov.name = "outstanding-beyond-window/stop/id/w1/n5"
	ov.script = []string{"stop"}
	add(ov, 1, 2, 2)
	ol := ov
	ol.name = "outstanding-beyond-window/live/id/w1/n5"
	ol.script = nil
	ol.liveness = true
	ol.horizon = 30 * time.Minute
	add(ol, 1, 2, 1)
	// a chunk whose size matters for the send deadline (2 MiB at the documented minimum speed of 10 KiB/s: 200 s on top of the base)
	bg := params{nChunks: 2, prefill: 2, ackWindow: 2, maxAge: age, connectAlt: 2, sendAlt: 3, pingAlt: 1, ackAlt: 4, lateDelay: 25 * time.Second, advances: 1, bigChunk: 2 << 20}
	bg.name = "big-chunk/stop/id/w2/n2"
	bg.script = []string{"stop"}
	add(bg, 1, 2, 2)
	bl := bg
	bl.name = "big-chunk/live/id/w2/n2"
	bl.script = nil
	bl.liveness = true
	bl.horizon = 30 * time.Minute
	add(bl, 1, 2, 1)
	sort.SliceStable(out, func(i, j int) bool { return false })
	return out
}

func main() {
	prop := "C02"
	for i, a := range os.Args {
		if a == "-prop" && i+1 < len(os.Args) {
			prop = os.Args[i+1]
		}
	}
	flag.String("prop", "C02", "property id")
	logger.SetLogLevel(logger.InfoLevel)
	logger.SetOutput(bugWriter{})
	_ = io.Discard
	explore.Main(&explore.Config{
		Property:  prop,
		Level:     "model_checking",
		Scenarios: scenarios(prop),
		Rule: "stateless DFS over scheduler choices (goroutine switches, select cases, rendezvous partners), scripted-upstream answers and " +
			"clock-advance decisions of the real baseoutput.ClientWorker built from /repo's working tree; every execution runs to completion; " +
			"iterative deviation bounding (preemptions + non-default answers); distinct_nontrivial = distinct oracle outcomes (per-chunk resolution x connections used)",
		Assumptions: []string{
			"A-time: internal steps take zero virtual time; timers fire only when every goroutine is blocked, or when the driver lets the clock advance before an event",
			"sequentially consistent interleavings at synchronisation operations (channel ops, select, atomics, signal delivery); data-race freedom is supported by a separate free-running -race pass, not decided here",
			"the scripted connection reproduces the error values util.IsNetworkError distinguishes (closed, timeout, reset)",
			"bounds: <=3 chunks, ack window 1-2, deviation bound as listed per scenario",
		},
	})
}

// stateHash summarises the scripted environment for state keys.
func (e *env) stateHash() uint64 {
	h := uint64(1469598103934665603)
	mix := func(s string) {
		for i := 0; i < len(s); i++ {
			h ^= uint64(s[i])
			h *= 1099511628211
		}
		h ^= 0xff
		h *= 1099511628211
	}
	for _, c := range e.conns {
		if c.closed {
			mix("closed")
		}
		mix(strings.Join(c.sentOK, ","))
		mix(strings.Join(c.pending, ","))
		mix(strings.Join(c.acked, ","))
		mix(strings.Join(c.tried, ","))
	}
	for i := 0; i < e.p.nChunks; i++ {
		id := chunkID(i)
		mix(fmt.Sprint(e.consumed[id], e.leftover[id], e.taken[id]))
	}
	mix(fmt.Sprint(e.finished, len(e.viol)))
	return h
}
