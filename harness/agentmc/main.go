// Command agentmc is the composed harness: the real agent below the TCP socket — LogParsingReceiver (real syslog parser and
// extraction transforms) -> real byKeySet orchestrator -> real pipelines (LogProcessingWorker, transforms, Fluentd
// serializer, packer, hybridbuffer) -> real baseoutput.ClientWorker over a scripted upstream — assembled from a
// configuration file through run.NewLoaderFromConfigFile, driven over several generations of graceful stop + restart on the
// same queue directory. Serves C01 (at-least-once), C05 (order) and C19 (metrics balance).
package main

import (
	"bytes"
	"encoding/json"
	"flag"
	"fmt"
	"os"
	"path/filepath"
	"sort"
	"sync"
	"strings"
	"syscall"
	"time"

	"github.com/prometheus/client_golang/prometheus"
	"github.com/relex/gotils/channels"
	"github.com/relex/gotils/logger"
	"github.com/relex/gotils/promexporter/promreg"
	"github.com/relex/slog-agent/base"
	"github.com/relex/slog-agent/base/bconfig"
	"github.com/relex/slog-agent/defs"
	"github.com/relex/slog-agent/input/sysloginput"
	"github.com/relex/slog-agent/input/tcplistener"
	"github.com/relex/slog-agent/output/baseoutput"
	"github.com/relex/slog-agent/output/fluentdforward"
	"github.com/relex/slog-agent/run"

	"slogverif/explore"
	"slogverif/fakeup"
	"slogverif/hutil"
	"slogverif/rt/vsched"
)

const configTemplate = `
schema:
  fields: [facility, level, time, host, app, pid, source, extradata, log]
  maxFields: 12
inputs:
  - type: syslog
    address: localhost:0
    levelMapping: [off, fatal, crit, error, warn, notice, info, debug]
    extractions:
      - type: delFields
        keys: [facility, pid, extradata]
orchestration:
  type: byKeySet
  keys: [app]
  tag: TAGTEMPLATE
metricKeys: METRICKEYS
transformations:
  - type: drop
    match:
      source: dropme
    percentage: 100
    metricLabel: filtered
  - type: parseTime
    key: time
    errorLabel: timeError
outputBufferPairs:
  - name: out1
    buffer:
      type: hybridBuffer
      rootPath: ROOT
      maxBufSize: 200KB
    output:
      type: OUTPUTTYPE
      serialization:
        environmentFields: [host]
        hiddenFields: [source]
        rewriteFields: {}
      messageMode: PackedForward
      upstream:
        address: localhost:24224
        tls: false
        secret: ""
        maxDuration: 30m
`

// richConfigTemplate: every transform that keeps scratch state runs on the connection threads (input extractions) and in the
// pipelines (transformations); key fields and metric keys come out of extractions, so routing depends on them too.
const richConfigTemplate = `
schema:
  fields: [facility, level, time, host, app, pid, source, extradata, log, class, task, note, memo]
  maxFields: 15
inputs:
  - type: syslog
    address: localhost:0
    levelMapping: [off, fatal, crit, error, warn, notice, info, debug]
    extractions:
      - type: extractHead
        key: log
        pattern: '\[*\] '
        maxLen: 24
        destKey: class
      - type: extractTail
        key: source
        pattern: ':*'
        maxLen: 24
        destKey: task
      - type: redactEmail
        key: log
        metricLabel: redacted
      - type: unescape
        key: log
      - type: addFields
        fields:
          note: $host/$task/$class
      - type: truncate
        key: note
        maxLen: 14
        suffix: '~'
      - type: if
        match:
          class: !!str-any
        then:
          - type: addFields
            fields:
              task: $task+$class
      - type: delFields
        keys: [facility, pid, extradata]
orchestration:
  type: byKeySet
  keys: [app]
  tag: TAGTEMPLATE
metricKeys: METRICKEYS
transformations:
  - type: drop
    match:
      source: dropme
    percentage: 100
    metricLabel: filtered
  - type: parseTime
    key: time
    errorLabel: timeError
  - type: addFields
    fields:
      memo: n=$note c=$class mail=owner-$host@corp.example.org
  - type: redactEmail
    key: memo
    metricLabel: memoRedacted
  - type: truncate
    key: memo
    maxLen: 40
    suffix: '...'
outputBufferPairs:
  - name: out1
    buffer:
      type: hybridBuffer
      rootPath: ROOT
      maxBufSize: 200KB
    output:
      type: OUTPUTTYPE
      serialization:
        environmentFields: [host]
        hiddenFields: [source]
        rewriteFields: {}
      messageMode: PackedForward
      upstream:
        address: localhost:24224
        tls: false
        secret: ""
        maxDuration: 30m
`

// verifOutput is the real fluentdForward output configuration with one difference: the forwarder is the real
// baseoutput.ClientWorker over the scripted upstream. It is registered as output type "verifFluentd" so that every loader —
// also the one a configuration reload creates internally — builds pipelines that end in the scripted upstream.
type verifOutput struct {
	fluentdforward.Config `yaml:",inline"`
}

var currentWorld *world

func (cfg *verifOutput) NewForwarder(parentLogger logger.Logger, args base.ChunkConsumerArgs, metricCreator promreg.MetricCreator) base.ChunkConsumer {
	// the output pair is recognised by its upstream address (the second pair of a two-output configuration uses port 24225)
	currentWorld.nextOut = "out1"
	if strings.HasSuffix(cfg.Upstream.Address, ":24225") {
		currentWorld.nextOut = "out2"
	}
	return currentWorld.newConsumerWith(parentLogger, cfg, args, metricCreator)
}

type op struct {
	extra  string // rich scenarios: text appended to the message
	class  string // rich scenarios: "[class] " in front of the message (cut off by extractHead on the connection thread)
	task   string // rich scenarios: ":task" behind the source (cut off by extractTail on the connection thread)
	kind   string // "line" or "flush"
	app    string
	drop   bool
	host   string // "" = host1
	source string // "" = src
	pad    int    // extra payload bytes (records over 1024 bytes live in pooled backing buffers)
	shape  string // kind "bad": which malformed shape; kind "overlong": -
}

type params struct {
	name        string
	prop        string
	conns       [][]op // per connection, generation 0
	conns1      [][]op // connections of generation 1 (new traffic while the backlog of generation 0 is recovered)
	gen0Down    bool   // the upstream is down during generation 0: everything stays queued
	gens        int    // generations (the last one is healthy and drained)
	chunkRecs   int
	memCap      int
	opt         fakeup.Options
	metricKeys  string // YAML list, default [host]
	reload      string // "" = no reload; else the new configuration variant written before SIGHUP (Reloader level, C17)
	oldDown     bool   // the upstream of the pipelines created before the reload is down (everything stays queued)
	ackWindow   int    // ForwarderMaxPendingChunksForAck (default 2)
	tagTemplate string // orchestration tag template (default t.$app)
	flushAlt    bool   // a Flush() after each line is an explorer choice
	advances    int
	delayB      bool
	singleton     bool          // orchestration type singleton (one pipeline for everything) instead of byKeySet
	twoPairs      bool          // two output/buffer pairs from the start (out1 under q, out2 under q2)
	oldDownOut2   bool          // with oldDown: only the upstream of the SECOND output is down before the reload (queues exist under out2 only)
	secondHUP     string        // a second SIGHUP with this configuration variant after the first reload has completed
	sessionMaxAge  time.Duration // maximum session age of the output client (default 30 min): small values make soft reconnects happen
	pingInterval   time.Duration // defs.ForwarderPingInterval (default 20 s)
	chunkBytes     int           // byte limit of a Fluentd chunk (default 7 MiB: never reached)
	queueCap       int           // defs.BufferMaxNumChunksInQueue (default 50)
	noDir          bool          // the buffer root is unusable (a file is in the way): nothing can be queued on disk
	idleBeforeStop time.Duration // the driver lets this much virtual time pass before the stop of every generation but the last (cost-free)
	retryInterval time.Duration // defs.ForwarderRetryInterval (default 10 s): below the 1 s ticker a failed session is followed by the next one within the bound
	sinkBytes   int // defs.IntermediateBufferMaxTotalBytes (bytes per batch, same two places), default 4 MiB
	rich        bool // statement-granularity scenarios: a configuration with stateful transforms on the connection threads and in the pipelines, every record compared with a run in which the connections are served one after the other
	lateStart   bool // connections 1.. are accepted when connection 0 executes its "start-others" step
	sequential  bool // reference run: connection i+1 starts after connection i has finished
	sinkBatch   int // defs.IntermediateBufferMaxNumLogs (records per batch at the input and per key set at the orchestrator sink), default 500
}

type lineRec struct {
	gen       int
	conn, seq int
	app       string
	host      string
	source    string
	stamp     string
	drop      bool
	bytes     int
	accepted  bool
}

type transmit struct {
	env    string
	conn   int
	chunk  string
	stamps []string
	tag    string
}

type world struct {
	ref map[string]string // rich scenarios: stamp -> decoded record of the sequential reference run
	ackedAtReturn2 map[string]bool // second output pair (twoPairs)
	diskAtReturn2  map[string]bool
	badLines      int // malformed lines handed to the parser in generation 0 (expected: dropped at the input)
	badBytes      int
	overLong      int            // well-formed lines with a message over the limit (expected: passed, cut, counted as overflow)
	chunkSize     map[string]int // chunk ID -> bytes, from transmissions and chunk files
	chunkGen      map[string]int // chunk ID -> generation in which it was first seen
	filesAtStart  map[int]map[string]bool
	ackedAtReturn map[string]bool
	diskAtReturn  map[string]bool
	filesAtReturn int
	p         params
	root      string
	cfgPath   string
	cfgText   string
	gen       int
	envs      []*fakeup.Env
	envGen    []int
	envOut    []string // output pair name per scripted upstream
	nextOut   string
	lines     []*lineRec
	trans     []transmit
	jsonOf    map[string]string // stamp -> decoded record (first delivery)
	viol      []string
	violKey   string
	connDone  []bool
	decoder   base.ChunkDecoder
	mfs       []*promreg.MetricFactory
	loaders   []*run.Loader
	inputMFs  []*promreg.MetricFactory
	outcome   []string
	consumers int
	stopTook  time.Duration
	reloaded  bool // SIGHUP has been raised
	envsAtHUP int
}

func (w *world) violate(key, format string, args ...any) {
	msg := fmt.Sprintf(format, args...)
	w.viol = append(w.viol, msg)
	if w.violKey == "" {
		w.violKey = key
	}
	vsched.Note("VIOLATION %s: %s", key, msg)
}

var logs = &hutil.LogCapture{}
var flagLogs = flag.Bool("logs", false, "echo agent logs")
var flagFine = flag.Bool("fine", false, "statement-granularity scenarios (the harness must have been built with instr -fine)")
var flagDump = flag.Bool("dumpmetrics", false, "print non-zero metrics at every stop (C19)")

func (w *world) stateHash() uint64 {
	h := uint64(1469598103934665603)
	for _, e := range w.envs {
		h ^= e.Hash()
		h *= 1099511628211
	}
	h ^= uint64(len(w.trans))<<8 ^ uint64(len(w.viol))
	return h
}

// decodeStamps decodes a chunk with the output's own decoder and returns the stamps (first word of "log") of its records.
func (w *world) decodeStamps(chunk base.LogChunk) (stamps []string, tag string, recs []string, err error) {
	var buf bytes.Buffer
	info, derr := w.decoder.DecodeChunkToJSON(chunk, []byte("\n"), false, &buf)
	if derr != nil {
		return nil, "", nil, derr
	}
	for _, line := range strings.Split(strings.TrimSpace(buf.String()), "\n") {
		if line == "" {
			continue
		}
		var arr []any
		if jerr := json.Unmarshal([]byte(line), &arr); jerr != nil || len(arr) != 3 {
			return nil, "", nil, fmt.Errorf("undecodable record %q: %v", line, jerr)
		}
		m, ok := arr[2].(map[string]any)
		if !ok {
			return nil, "", nil, fmt.Errorf("undecodable record %q: third element is not a map", line)
		}
		logv, _ := m["log"].(string)
		stamp := logv
		if i := strings.IndexByte(logv, ' '); i > 0 {
			stamp = logv[:i]
		}
		stamps = append(stamps, stamp)
		recs = append(recs, line)
	}
	if info.NumRecords != len(stamps) {
		return nil, "", nil, fmt.Errorf("chunk %s declares %d records, holds %d", chunk.ID, info.NumRecords, len(stamps))
	}
	return stamps, info.Tag, recs, nil
}

func (w *world) newConsumer(parentLogger logger.Logger, name string, decoder base.ChunkDecoder, args base.ChunkConsumerArgs) base.ChunkConsumer {
	w.nextOut = name
	return w.newConsumerWith(parentLogger, decoder, args, nil)
}

func (w *world) newConsumerWith(parentLogger logger.Logger, decoder base.ChunkDecoder, args base.ChunkConsumerArgs, mc promreg.MetricCreator) base.ChunkConsumer {
	w.decoder = decoder
	idx := len(w.envs)
	opt := w.p.opt
	if w.gen == w.p.gens-1 && w.p.reload == "" {
		opt = fakeup.Options{} // the last generation talks to a healthy upstream
	}
	if w.gen == 0 && w.p.gen0Down {
		opt = fakeup.Options{AlwaysRefuse: true}
	}
	if w.p.reload != "" {
		if w.reloaded {
			opt = fakeup.Options{} // pipelines created by the reload talk to a healthy upstream
		} else if w.p.oldDown && !(w.p.oldDownOut2 && w.nextOut != "out2") {
			opt = fakeup.Options{AlwaysRefuse: true}
		} else if w.p.oldDown {
			opt = fakeup.Options{}
		}
	}
	opt.Name = fmt.Sprintf("up%d.", idx)
	env := &fakeup.Env{Opt: opt}
	env.OnTransmit = func(c *fakeup.Conn, chunk base.LogChunk) {
		stamps, tag, recs, err := w.decodeStamps(chunk)
		if err != nil {
			w.violate("undecodable-chunk", "upstream received a chunk it cannot decode: %v", err)
			return
		}
		w.trans = append(w.trans, transmit{env: opt.Name, conn: c.K, chunk: chunk.ID, stamps: stamps, tag: tag})
		if w.chunkSize != nil {
			w.chunkSize[chunk.ID] = len(chunk.Data)
			if _, ok := w.chunkGen[chunk.ID]; !ok {
				w.chunkGen[chunk.ID] = w.gen
			}
		}
		if w.p.prop == "C06" {
			// every chunk holds records of one key set only and carries the tag expanded from THAT key set
			tagT := w.p.tagTemplate
			if tagT == "" {
				tagT = "t.$app"
			}
			for _, st := range stamps {
				for _, l := range w.lines {
					if l.stamp == st {
						if want := strings.ReplaceAll(tagT, "$app", l.app); tag != want {
							w.violate("tag:not-the-records-own-key", "chunk %s delivers record %s of key set app=%s under tag %q, the template expands to %q", chunk.ID, st, l.app, tag, want)
						}
					}
				}
			}
		}
		for i, s := range stamps {
			if w.ref != nil {
				if want, ok := w.ref[s]; ok && want != recs[i] {
					w.violate("isolation:record-differs-from-sequential-run", "record %s was delivered as %s; with the connections served one after the other it is %s", s, clipStr(recs[i], 400), clipStr(want, 400))
				}
			}
			w.checkContent(s, recs[i])
			jk := s
			if idx < len(w.envOut) && w.envOut[idx] != "" && w.p.twoPairs {
				jk = w.envOut[idx] + "|" + s // outputs may serialize differently; each must be consistent with itself
			}
			if prev, ok := w.jsonOf[jk]; ok {
				if prev != recs[i] {
					w.violate("record-altered", "record %s was delivered as %s and as %s", s, prev, recs[i])
				}
			} else {
				w.jsonOf[jk] = recs[i]
			}
		}
	}
	env.BeforeSend = func(c *fakeup.Conn, chunk base.LogChunk) {
		// within one upstream connection the chunks of a pipeline go out in creation order
		if n := len(c.Tried); n >= 2 && c.Tried[n-2] >= chunk.ID {
			w.violate("chunk-order", "%sconn%d transmits chunk %s after %s", opt.Name, c.K, chunk.ID, c.Tried[n-2])
		}
	}
	w.envs = append(w.envs, env)
	w.envGen = append(w.envGen, w.gen)
	w.envOut = append(w.envOut, w.nextOut)
	w.nextOut = ""
	mf := w.mfs[len(w.mfs)-1]
	return baseoutput.NewClientWorker(parentLogger, args, mf.AddOrGetPrefix(fmt.Sprintf("vout%d_", idx), nil, nil), env.Open, w.sessionMaxAge())
}

func (w *world) ackedStamps() map[string]bool { return w.ackedStampsOf("") }

// ackedStampsOf: the records acknowledged by the upstream(s) of one output pair ("" = of any output)
func (w *world) ackedStampsOf(output string) map[string]bool {
	out := map[string]bool{}
	for _, t := range w.trans {
		for ei, e := range w.envs {
			if e.Opt.Name != t.env {
				continue
			}
			if output != "" && w.envOut[ei] != output {
				continue
			}
			for _, c := range e.Conns {
				if c.K != t.conn {
					continue
				}
				for _, a := range c.Acked {
					if a == t.chunk {
						for _, s := range t.stamps {
							out[s] = true
						}
					}
				}
			}
		}
	}
	return out
}

// chunkFileIDs lists the chunk files under the queue root (and remembers their sizes).
func (w *world) chunkFileIDs() map[string]bool {
	out := map[string]bool{}
	filepath.Walk(filepath.Join(w.root, "q"), func(path string, info os.FileInfo, err error) error {
		if err != nil || info.IsDir() || info.Name() == ".id" || strings.HasSuffix(info.Name(), ".tmp") {
			return nil
		}
		out[info.Name()] = true
		if w.chunkSize != nil {
			w.chunkSize[info.Name()] = int(info.Size())
			if _, ok := w.chunkGen[info.Name()]; !ok {
				w.chunkGen[info.Name()] = w.gen
			}
		}
		return nil
	})
	return out
}

// diskStamps decodes every chunk file under the queue root.
func (w *world) diskStamps() (map[string]bool, int) { return w.diskStampsIn("q") }

func (w *world) diskStampsIn(dir string) (map[string]bool, int) {
	out := map[string]bool{}
	files := 0
	filepath.Walk(filepath.Join(w.root, dir), func(path string, info os.FileInfo, err error) error {
		if err != nil || info.IsDir() || info.Name() == ".id" {
			return nil
		}
		data, rerr := os.ReadFile(path)
		if rerr != nil {
			return nil
		}
		files++
		if w.decoder == nil {
			return nil
		}
		stamps, _, _, derr := w.decodeStamps(base.LogChunk{ID: info.Name(), Data: data, Saved: true})
		if derr != nil {
			w.violate("undecodable-file", "chunk file %s cannot be decoded: %v", path, derr)
			return nil
		}
		for _, s := range stamps {
			out[s] = true
		}
		return nil
	})
	return out, files
}

// receiverViaNewInput builds the input through the shipped sysloginput.Config.NewInput — the per-connection parser factory,
// extraction transforms, counters and parsing receiver are wired exactly as in the agent — and returns the receiver NewInput
// handed to its TCP listener. The listener is never started (its socket is closed at once): connection threads call the receiver
// the way tcplinelistener.runConnection does.
func receiverViaNewInput(syscfg *sysloginput.Config, alloc *base.LogAllocator, schema base.LogSchema, orc base.Orchestrator, inputMF *promreg.MetricFactory) base.MultiSinkMessageReceiver {
	in, err := syscfg.NewInput(logger.Root(), alloc, schema, orc, inputMF, channels.NewSignalAwaitable())
	if err != nil {
		panic(fmt.Sprintf("NewInput: %v", err))
	}
	l := sysloginput.VerifListenerOf(in)
	tcplistener.VerifCloseSocket(l)
	return tcplistener.VerifReceiverOf(l)
}

var captureWorld func(*world)

func minOutcomes(p params) int {
	if p.lateStart {
		// the first connection's record always reaches the upstream first here: the arrival order cannot vary. That the worker's
		// release really overlaps the second connection's parsing is shown by the recorded change
		// red-C12-release-recycles-before-clearing, which this scenario (and no other) reports
		return 1
	}
	if p.rich {
		return 2 // at least two different arrival orders must have been observed
	}
	return 1
}

func makeRun(p params) explore.RunFunc {
	var refOnce sync.Once
	var ref map[string]string
	var refErr string
	return func(choose func(*vsched.ChoicePoint) int, trace bool) (explore.Verdict, *vsched.Result) {
		var verdict explore.Verdict
		if p.rich && !p.sequential {
			// the reference: the same traffic with the connections served one after the other, healthy upstream, one generation
			refOnce.Do(func() {
				q := p
				q.sequential, q.gens, q.flushAlt, q.advances = true, 1, false, 0
				q.conns1 = nil
				var rw *world
				captureWorld = func(w *world) { rw = w }
				v, res := makeRun(q)(func(*vsched.ChoicePoint) int { return 0 }, false)
				captureWorld = nil
				if v.Violation != "" || res == nil || res.Status != "ok" || rw == nil {
					refErr = fmt.Sprintf("sequential reference run failed: %s", v.Violation)
					return
				}
				ref = rw.jsonOf
			})
			if refErr != "" {
				return explore.Verdict{Violation: refErr, Key: "engine:reference-run", Outcome: "engine"}, &vsched.Result{Status: "ok"}
			}
		}
		logs.Reset()
		logs.Echo = *flagLogs
		defs.BufferMaxNumChunksInMemory = p.memCap
		defs.BufferMaxNumChunksInQueue = 50
		if p.queueCap > 0 {
			defs.BufferMaxNumChunksInQueue = p.queueCap
		}
		defs.IntermediateBufferMaxNumLogs = 500
		if p.sinkBatch > 0 {
			defs.IntermediateBufferMaxNumLogs = p.sinkBatch
		}
		defs.ForwarderPingInterval = 20 * time.Second
		if p.pingInterval > 0 {
			defs.ForwarderPingInterval = p.pingInterval
		}
		defs.ForwarderRetryInterval = 10 * time.Second
		if p.retryInterval > 0 {
			defs.ForwarderRetryInterval = p.retryInterval
		}
		defs.IntermediateBufferMaxTotalBytes = 4 * 1024 * 1024
		if p.sinkBytes > 0 {
			defs.IntermediateBufferMaxTotalBytes = p.sinkBytes
		}
		defs.ForwarderMaxPendingChunksForAck = 2
		if p.ackWindow > 0 {
			defs.ForwarderMaxPendingChunksForAck = p.ackWindow
		}
		if p.chunkBytes > 0 {
			fluentdforward.VerifSetChunkLimits(p.chunkRecs, p.chunkBytes)
		} else {
			fluentdforward.VerifSetChunkLimits(p.chunkRecs, 7*1024*1024)
		}
		w := &world{p: p, jsonOf: map[string]string{}, ref: ref}
		if captureWorld != nil {
			captureWorld(w)
		}
		w.root = hutil.ScratchRoot("agentmc")
		defer os.RemoveAll(w.root)
		w.cfgPath = filepath.Join(w.root, "config.yml")
		mk := p.metricKeys
		if mk == "" {
			mk = "[host]"
		}
		tagT := p.tagTemplate
		if tagT == "" {
			tagT = "t.$app"
		}
		tmplText := configTemplate
		if p.rich {
			tmplText = richConfigTemplate
		}
		cfgText := strings.ReplaceAll(strings.ReplaceAll(strings.ReplaceAll(tmplText, "ROOT", filepath.Join(w.root, "q")), "METRICKEYS", mk), "TAGTEMPLATE", tagT)
		if p.noDir {
			// a plain file where the buffer root should be: no queue directory can be created
			os.WriteFile(filepath.Join(w.root, "blocked"), []byte("x"), 0o644)
			cfgText = strings.ReplaceAll(cfgText, "rootPath: "+filepath.Join(w.root, "q"), "rootPath: "+filepath.Join(w.root, "blocked", "q"))
		}
		if p.singleton {
			cfgText = strings.Replace(cfgText, "  type: byKeySet\n  keys: [app]\n  tag: "+tagT+"\n", "  type: singleton\n  tag: t.single\n", 1)
		}
		if p.twoPairs {
			i := strings.Index(cfgText, "  - name: out1\n")
			second := strings.Replace(strings.Replace(cfgText[i:], "name: out1", "name: out2", 1), "rootPath: "+filepath.Join(w.root, "q"), "rootPath: "+filepath.Join(w.root, "q2"), 1)
			// the second output does not hide the source field: its records are bigger, so under a byte limit its chunks are cut
			// at other records than the first output's
			if p.chunkBytes > 0 {
				second = strings.Replace(second, "hiddenFields: [source]", "hiddenFields: []", 1)
			}
			second = strings.Replace(second, "address: localhost:24224", "address: localhost:24225", 1)
			cfgText += second
		}
		if p.reload != "" {
			cfgText = strings.ReplaceAll(cfgText, "OUTPUTTYPE", "verifFluentd")
		} else {
			cfgText = strings.ReplaceAll(cfgText, "OUTPUTTYPE", "fluentdForward")
		}
		w.cfgText = cfgText
		currentWorld = w
		os.WriteFile(w.cfgPath, []byte(cfgText), 0o644)
		var exh func() bool
		if p.rich && !p.sequential {
			exh = explore.Exhausted
		}
		fsc := 0
		if p.delayB {
			fsc = 1
		}
		res := vsched.Run(vsched.Options{Choose: choose, Trace: trace, MaxSteps: 200000, StateKeys: !p.rich, EnvState: w.stateHash, ForcedSwitchCost: fsc, Exhausted: exh}, func() {
			verdict = drive(w)
		})
		switch res.Status {
		case "ok":
		case "crash":
			verdict = explore.Verdict{Violation: "panic: " + firstLines(res.Detail, 8), Key: "panic", Outcome: "crash"}
		case "deadlock":
			verdict = explore.Verdict{Violation: "deadlock: " + strings.ReplaceAll(res.Detail, "\n", "; "), Key: "deadlock", Outcome: "deadlock"}
		default:
			verdict = explore.Verdict{Violation: res.Status + ": " + res.Detail, Key: "engine:" + res.Status, Outcome: res.Status}
		}
		return verdict, res
	}
}

func firstLines(s string, n int) string {
	l := strings.Split(s, "\n")
	if len(l) > n {
		l = l[:n]
	}
	return strings.Join(l, " / ")
}

// badLine returns a malformed line of the given shape (all longer than the minimal record length)
func badLine(shape string, ci int) string {
	switch shape {
	case "no-pri":
		return fmt.Sprintf("this is not a syslog record at all, connection %d, just some text", ci)
	case "bad-pri":
		return fmt.Sprintf("<999999>1 2020-01-02T03:04:05.678Z host1 appA 77 src - c%d malformed", ci)
	case "missing-fields":
		return fmt.Sprintf("<13>1 2020-01-02T03:04:05.678Z host%d-and-nothing-else-behind-it", ci)
	case "bad-utf8":
		return fmt.Sprintf("<13>1 2020-01-02T03:04:05.678Z ho\xffst appA 77 src - c%d invalid utf-8 in the header", ci)
	}
	panic("harness bug: unknown malformed shape " + shape)
}

func (w *world) sessionMaxAge() time.Duration {
	if w.p.sessionMaxAge > 0 {
		return w.p.sessionMaxAge
	}
	return 30 * time.Minute
}

// feedLine hands a line to the connection's sink the way the listener does: as a slice of a read buffer that is reused
// (here: overwritten) as soon as the call returns
func feedLine(sink base.MessageReceiverSink, line string) {
	buf := make([]byte, len(line))
	copy(buf, line)
	sink.Accept(buf)
	for i := range buf {
		buf[i] = '#'
	}
}

// checkContent compares a delivered record with the line that was sent (not only with its earlier deliveries)
func (w *world) checkContent(stamp, recJSON string) {
	var l *lineRec
	for _, x := range w.lines {
		if x.stamp == stamp {
			l = x
		}
	}
	if l == nil {
		w.violate("record-unknown", "a record with stamp %q was delivered that no connection sent: %s", stamp, clipStr(recJSON, 200))
		return
	}
	var arr []any
	if json.Unmarshal([]byte(recJSON), &arr) != nil || len(arr) != 3 {
		return
	}
	m, _ := arr[2].(map[string]any)
	logv, _ := m["log"].(string)
	want := fmt.Sprintf("%s payload of %s", stamp, stamp)
	if !strings.HasPrefix(logv, want) || (l.bytes < 1000 && logv != want && !w.p.rich) {
		w.violate("record-altered", "record %s was delivered with log=%q, sent %q", stamp, clipStr(logv, 120), want)
	}
	if app, _ := m["app"].(string); app != l.app {
		w.violate("record-altered", "record %s was delivered with app=%q, sent %q", stamp, app, l.app)
	}
	if env, ok := m["environment"].(map[string]any); ok {
		if host, _ := env["host"].(string); host != l.host {
			w.violate("record-altered", "record %s was delivered with host=%q, sent %q", stamp, host, l.host)
		}
	}
}

func clipStr(s string, n int) string {
	if len(s) > n {
		return s[:n] + "..."
	}
	return s
}

// richLine: "[class] " in front of the message and ":task" behind the source are cut off by the input extractions
func richLine(host string, o op, source, stamp string) string {
	msg := stamp + " payload of " + stamp
	if o.class != "" {
		msg = "[" + o.class + "] " + msg
	}
	if o.extra != "" {
		msg += " " + o.extra
	}
	if o.task != "" {
		source += ":" + o.task
	}
	return fmt.Sprintf("<13>1 2020-01-02T03:04:05.678Z %s %s 77 %s - %s", host, o.app, source, msg)
}

func syslogLine(host, app, source, stamp string) string {
	return fmt.Sprintf("<13>1 2020-01-02T03:04:05.678Z %s %s 77 %s - %s payload of %s", host, app, source, stamp, stamp)
}

func drive(w *world) explore.Verdict {
	p := w.p
	if p.reload != "" {
		return driveReload(w)
	}
	for g := 0; g < p.gens; g++ {
		w.gen = g
		last := g == p.gens-1
		if w.filesAtStart == nil {
			w.filesAtStart = map[int]map[string]bool{}
			w.chunkSize = map[string]int{}
			w.chunkGen = map[string]int{}
		}
		w.filesAtStart[g] = w.chunkFileIDs()
		loader, err := run.NewLoaderFromConfigFile(w.cfgPath, fmt.Sprintf("g%d_", g))
		if err != nil {
			w.violate("config", "harness configuration rejected: %v", err)
			break
		}
		w.loaders = append(w.loaders, loader)
		loader.PipelineArgs.NewConsumerOverride = w.newConsumer
		mf := promreg.NewMetricFactory(fmt.Sprintf("g%dv_", g), nil, nil)
		w.mfs = append(w.mfs, mf)
		orc := loader.StartOrchestrator(logger.Root())
		inputMF := promreg.NewMetricFactory(fmt.Sprintf("g%din_", g), nil, nil)
		w.inputMFs = append(w.inputMFs, inputMF)
		syscfg := loader.Inputs[0].Value.(*sysloginput.Config)
		receiver := receiverViaNewInput(syscfg, loader.PipelineArgs.Deallocator, loader.PipelineArgs.Schema, orc, inputMF)

		// connections feed in generation 0 (and, in the backlog scenarios, new ones in generation 1)
		nconn := 0
		scripts := p.conns
		ciBase := 0
		if g == 1 {
			scripts = p.conns1
			ciBase = len(p.conns)
		}
		if g <= 1 && len(scripts) > 0 {
			nconn = len(scripts)
			w.connDone = make([]bool, nconn)
			var launch func(cidx int, script []op)
			launch = func(cidx int, script []op) {
				ci := ciBase + cidx
				vsched.Go(fmt.Sprintf("conn%d", ci), func() {
					if p.sequential && cidx > 0 {
						vsched.WaitUntil("conn.wait-for-previous", time.Time{}, func() bool { return w.connDone[cidx-1] })
					}
					sink := receiver.NewSink(fmt.Sprintf("10.0.0.%d:1000", ci+1), base.ClientNumber(10+ci))
					seqn := 0
					for _, o := range script {
						switch o.kind {
						case "line":
							seqn++
							source := "src"
							if o.source != "" {
								source = o.source
							}
							if o.drop {
								source = "dropme"
							}
							host := "host1"
							if o.host != "" {
								host = o.host
							}
							stamp := fmt.Sprintf("c%dr%d", ci, seqn)
							line := syslogLine(host, o.app, source, stamp)
							if p.rich {
								line = richLine(host, o, source, stamp)
							}
							if o.pad > 0 {
								line += " " + strings.Repeat("p", o.pad)
							}
							lr := &lineRec{gen: g, conn: ci, seq: seqn, app: o.app, host: host, source: source, stamp: stamp, drop: o.drop, bytes: len(line)}
							w.lines = append(w.lines, lr)
							vsched.Note("conn%d line %s app=%s drop=%v", ci, stamp, o.app, o.drop)
							feedLine(sink, line)
							lr.accepted = true
							if p.flushAlt && vsched.Choose(2, "flush-after-line") == 1 {
								vsched.Note("conn%d flush tick", ci)
								sink.Flush()
							}
						case "bad":
							// malformed input: rejected and counted by the input, never reaches a pipeline
							line := badLine(o.shape, ci)
							w.badLines++
							w.badBytes += len(line)
							vsched.Note("conn%d malformed line (%s)", ci, o.shape)
							feedLine(sink, line)
						case "overlong":
							seqn++
							stamp := fmt.Sprintf("c%dr%d", ci, seqn)
							line := syslogLine("host1", o.app, "src", stamp) + " " + strings.Repeat("o", defs.InputLogMaxMessageBytes)
							lr := &lineRec{gen: g, conn: ci, seq: seqn, app: o.app, host: "host1", source: "src", stamp: stamp, bytes: len(line)}
							w.lines = append(w.lines, lr)
							w.overLong++
							vsched.Note("conn%d over-long line %s", ci, stamp)
							feedLine(sink, line)
							lr.accepted = true
						case "flush":
							sink.Flush()
						case "settle-start":
							// as "settle", but the other connections are accepted (lateStart) just before the batch reaches the
							// pipeline worker: the worker (older thread) processes and releases it while they parse
							sink.Flush()
							vsched.Sleep(defs.IntermediateFlushInterval+100*time.Millisecond, "conn.pause")
							if p.lateStart && !p.sequential {
								for j := 1; j < len(scripts); j++ {
									launch(j, scripts[j])
								}
							}
							sink.Flush()
							vsched.Idle()
						case "start-others":
							// the other connections are accepted now (lateStart): their threads are younger than the pipeline
							// workers this connection's first records have created
							if p.lateStart && !p.sequential {
								for j := 1; j < len(scripts); j++ {
									launch(j, scripts[j])
								}
							}
						case "settle":
							// the client pauses: everything received so far is flushed, processed and released
							// (the per-key buffers of the orchestrator sink are flushed by a tick only after the flush interval)
							sink.Flush()
							vsched.Sleep(defs.IntermediateFlushInterval+100*time.Millisecond, "conn.pause")
							sink.Flush()
							vsched.Idle()
						}
					}
					sink.Flush()
					sink.Close()
					w.connDone[cidx] = true
				})
			}
			for cidx, script := range scripts {
				if p.lateStart && !p.sequential && cidx > 0 {
					continue
				}
				launch(cidx, script)
			}
		} else {
			w.connDone = nil
		}
		vsched.WaitUntil("driver.wait-connections", time.Time{}, func() bool {
			for _, d := range w.connDone {
				if !d {
					return false
				}
			}
			return true
		})
		if !last {
			if p.idleBeforeStop > 0 {
				// nothing happens for a while (longer than the retry interval): failed sessions are followed by new ones
				vsched.Sleep(p.idleBeforeStop, "driver.idle-before-stop")
			}
			quiet := vsched.Lazy("driver.stop")
			for adv := 0; quiet && adv < p.advances && vsched.NextTimerIn() >= 0; adv++ {
				if vsched.Choose(2, "advance-before-stop") == 0 {
					break
				}
				vsched.AdvanceClock()
				quiet = vsched.Lazy("driver.stop")
			}
		} else {
			// drain: let virtual time pass until every record that must be delivered is acknowledged, or the horizon
			horizon := vsched.Elapsed() + 20*time.Minute
			for {
				vsched.Idle()
				if w.allDelivered() || vsched.Elapsed() > horizon {
					break
				}
				if !vsched.AdvanceClock() {
					break
				}
			}
		}
		vsched.Note("generation %d: graceful stop", g)
		t0 := vsched.Elapsed()
		orc.Shutdown()
		w.stopTook = vsched.Elapsed() - t0
		// what is acknowledged and what is on disk is read at the very moment Shutdown returns (the process exits next):
		// goroutines still saving chunks after that moment do not count
		w.ackedAtReturn = w.ackedStamps()
		w.diskAtReturn, w.filesAtReturn = w.diskStamps()
		if p.twoPairs {
			w.ackedAtReturn = w.ackedStampsOf("out1")
			w.ackedAtReturn2 = w.ackedStampsOf("out2")
			w.diskAtReturn2, _ = w.diskStampsIn("q2")
		}
		vsched.Idle()
		w.checkAtStop(g, last)
	}
	if line := logs.FirstBugLine(); line != "" {
		i := strings.Index(line, "BUG")
		w.violate("bug-log:"+hutil.KeyFrom(line[i:], 40), "agent logged: %s", line)
	}
	v := explore.Verdict{Outcome: strings.Join(w.outcome, " ")}
	if len(w.viol) > 0 {
		v.Violation = strings.Join(w.viol, " | ")
		v.Key = w.violKey
	}
	return v
}

// newConfigFor renders the configuration file written before SIGHUP.
func (w *world) newConfigFor(variant string) (text string, valid bool) {
	switch variant {
	case "identical":
		return w.cfgText, true
	case "transform-changed":
		return strings.Replace(w.cfgText, "transformations:\n", "transformations:\n  - type: addFields\n    fields:\n      extradata: added-by-new-config\n", 1), true
	case "yaml-error":
		return w.cfgText + "\n  this is: [not valid yaml\n", false
	case "unknown-field":
		return strings.Replace(w.cfgText, "key: time", "key: nosuchfield", 1), false
	case "keys-changed":
		return strings.Replace(strings.Replace(w.cfgText, "keys: [app]", "keys: [app, host]", 1), "metricKeys: [host]", "metricKeys: [source]", 1), false
	case "maxfields-changed":
		return strings.Replace(w.cfgText, "maxFields: 12", "maxFields: 13", 1), false
	case "output-pair-added":
		// a second output/buffer pair: the inputs keep allocating records for the old number of outputs, so the
		// configuration is incompatible with the running inputs and must be refused
		i := strings.Index(w.cfgText, "  - name: out1\n")
		second := strings.Replace(strings.Replace(w.cfgText[i:], "name: out1", "name: out2", 1), "rootPath: "+filepath.Join(w.root, "q"), "rootPath: "+filepath.Join(w.root, "q2"), 1)
		return w.cfgText + second, false
	}
	panic("unknown reload variant " + variant)
}

// driveReload is the Reloader level of C17: real run.Reloader + ReloadableOrchestrator + real pipelines; the new
// configuration file is written and SIGHUP raised at any moment relative to the traffic of two connections.
func driveReload(w *world) explore.Verdict {
	p := w.p
	okBefore, failBefore := reloadCounts()
	reloader, err := run.NewReloaderFromConfigFile(w.cfgPath, "r_")
	if err != nil {
		w.violate("config", "harness configuration rejected: %v", err)
		return explore.Verdict{Violation: strings.Join(w.viol, " | "), Key: w.violKey}
	}
	mf := promreg.NewMetricFactory("rv_", nil, nil)
	w.mfs = append(w.mfs, mf)
	orc := reloader.StartOrchestrator(logger.Root())
	inputMF := promreg.NewMetricFactory("rin_", nil, nil)
	syscfg := reloader.Loader.Inputs[0].Value.(*sysloginput.Config)
	alloc, schema := reloader.Loader.PipelineArgs.Deallocator, reloader.Loader.PipelineArgs.Schema
	receiver := receiverViaNewInput(syscfg, alloc, schema, orc, inputMF)
	w.connDone = make([]bool, len(p.conns))
	for ci, script := range p.conns {
		ci, script := ci, script
		vsched.Go(fmt.Sprintf("conn%d", ci), func() {
			sink := receiver.NewSink(fmt.Sprintf("10.0.0.%d:1000", ci+1), base.ClientNumber(10+ci))
			seqn := 0
			for _, o := range script {
				if o.kind == "flush" {
					sink.Flush()
					continue
				}
				if o.kind == "settle" {
					// the client pauses for longer than the flush interval: the next flush tick really flushes the per-key buffers
					vsched.Sleep(defs.IntermediateFlushInterval+100*time.Millisecond, "conn.pause")
					sink.Flush()
					continue
				}
				seqn++
				stamp := fmt.Sprintf("c%dr%d", ci, seqn)
				line := syslogLine("host1", o.app, "src", stamp)
				lr := &lineRec{conn: ci, seq: seqn, app: o.app, host: "host1", source: "src", stamp: stamp, bytes: len(line)}
				w.lines = append(w.lines, lr)
				vsched.Note("conn%d line %s app=%s", ci, stamp, o.app)
				feedLine(sink, line)
				lr.accepted = true
				if vsched.Choose(2, "flush-after-line") == 1 {
					sink.Flush()
				}
			}
			sink.Flush()
			sink.Close()
			w.connDone[ci] = true
		})
	}
	// the operator edits the file and sends SIGHUP at any moment
	vsched.Lazy("driver.sighup")
	newText, valid := w.newConfigFor(p.reload)
	os.WriteFile(w.cfgPath, []byte(newText), 0o644)
	w.envsAtHUP = len(w.envs)
	w.reloaded = true
	vsched.Note("SIGHUP with new configuration %q (valid=%v)", p.reload, valid)
	vsched.Raise(syscall.SIGHUP)
	valid2 := false
	if p.secondHUP != "" {
		// the operator edits the file again once the first reload is over and sends a second SIGHUP at any later moment
		vsched.WaitUntil("driver.wait-first-reload", time.Time{}, func() bool {
			ok, fail := reloadCounts()
			return ok+fail > okBefore+failBefore
		})
		vsched.Lazy("driver.sighup2")
		var text2 string
		text2, valid2 = w.newConfigFor(p.secondHUP)
		os.WriteFile(w.cfgPath, []byte(text2), 0o644)
		vsched.Note("second SIGHUP with new configuration %q (valid=%v)", p.secondHUP, valid2)
		vsched.Raise(syscall.SIGHUP)
	}
	vsched.WaitUntil("driver.wait-connections", time.Time{}, func() bool {
		for _, d := range w.connDone {
			if !d {
				return false
			}
		}
		return true
	})
	// drain against the (now) healthy upstream, then stop
	horizon := vsched.Elapsed() + 20*time.Minute
	for {
		vsched.Idle()
		if w.allDelivered() || vsched.Elapsed() > horizon {
			break
		}
		if !vsched.AdvanceClock() {
			break
		}
	}
	vsched.Note("graceful stop")
	orc.Shutdown()
	acked := w.ackedStamps()
	disk, _ := w.diskStamps()
	var acked2, disk2 map[string]bool
	if p.twoPairs {
		acked = w.ackedStampsOf("out1")
		acked2 = w.ackedStampsOf("out2")
		disk2, _ = w.diskStampsIn("q2")
	}
	vsched.Idle()
	if p.twoPairs {
		// every record is owed to the second output as well
		for _, l := range w.lines {
			if !l.accepted || acked2[l.stamp] {
				continue
			}
			if disk2[l.stamp] {
				w.violate("reload:not-delivered:second-output", "record %s is still only in the on-disk queue of output out2 after the reload and a drain against a healthy upstream: that queue was not taken over / served", l.stamp)
			} else {
				w.violate("reload:record-lost:second-output", "record %s is neither acknowledged by the upstream of output out2 nor in its queue", l.stamp)
			}
		}
	}
	// ---- oracle (acknowledged / on disk as of the moment Shutdown returned)
	nAck, nDisk := 0, 0
	for _, l := range w.lines {
		if !l.accepted {
			continue
		}
		switch {
		case acked[l.stamp]:
			nAck++
		case disk[l.stamp]:
			nDisk++
			if valid || valid2 || !p.oldDown {
				w.violate("reload:not-delivered", "record %s is still only in the on-disk queue after the reload and a drain against a healthy upstream: its queue was not taken over / served", l.stamp)
			}
		default:
			w.violate("reload:record-lost", "record %s (connection %d) was received around the reload (%s) and is neither acknowledged nor queued on disk", l.stamp, l.conn, p.reload)
		}
	}
	okAfter, failAfter := reloadCounts()
	if p.secondHUP != "" {
		// every signal raised is answered by exactly one reload attempt
		wantOK, wantFail := 0.0, 0.0
		for _, v := range []bool{valid, valid2} {
			if v {
				wantOK++
			} else {
				wantFail++
			}
		}
		if okAfter-okBefore != wantOK || failAfter-failBefore != wantFail {
			w.violate("reload:count", "two SIGHUPs (%q then %q): reload counters success +%v failure +%v, expected +%v / +%v", p.reload, p.secondHUP, okAfter-okBefore, failAfter-failBefore, wantOK, wantFail)
		}
	} else if valid {
		if okAfter-okBefore != 1 || failAfter != failBefore {
			w.violate("reload:count", "valid new configuration: reload counters success +%v failure +%v", okAfter-okBefore, failAfter-failBefore)
		}
	} else {
		if failAfter-failBefore != 1 || okAfter != okBefore {
			w.violate("reload:count", "invalid/incompatible new configuration %q: reload counters success +%v failure +%v", p.reload, okAfter-okBefore, failAfter-failBefore)
		}
		// nothing else may change: no pipeline set is created by the failed reload beyond what traffic itself creates
		for i := w.envsAtHUP; i < len(w.envs); i++ {
			_ = i
		}
	}
	if line := logs.FirstBugLine(); line != "" {
		i := strings.Index(line, "BUG")
		w.violate("bug-log:"+hutil.KeyFrom(line[i:], 40), "agent logged: %s", line)
	}
	v := explore.Verdict{Outcome: fmt.Sprintf("%s ack=%d disk=%d envs=%d/%d", p.reload, nAck, nDisk, w.envsAtHUP, len(w.envs))}
	if len(w.viol) > 0 {
		v.Violation = strings.Join(w.viol, " | ")
		v.Key = w.violKey
	}
	return v
}

var lastOK, lastFail float64

func reloadCounts() (ok, fail float64) {
	fams, _ := prometheus.DefaultGatherer.Gather()
	for _, f := range fams {
		if f.GetName() != "slogagent_reloads_total" {
			continue
		}
		for _, m := range f.Metric {
			for _, l := range m.Label {
				if l.GetName() == "status" && l.GetValue() == "success" {
					ok = m.Counter.GetValue()
				}
				if l.GetName() == "status" && l.GetValue() == "failure" {
					fail = m.Counter.GetValue()
				}
			}
		}
	}
	return ok, fail
}

func (w *world) allDelivered() bool {
	acked := w.ackedStamps()
	for _, l := range w.lines {
		if l.accepted && !l.drop && !acked[l.stamp] {
			return false
		}
	}
	return true
}

// bufferDropped reads the buffers' dropped-chunk counters of one generation.
func (w *world) bufferDropped(g int) int {
	if g >= len(w.loaders) {
		return 0
	}
	var m map[string]float64
	if gs, ok := w.loaders[g].GetMetricGatherer().(prometheus.Gatherers); ok && len(gs) > 0 {
		m = hutil.Metrics(gs[len(gs)-1])
	} else {
		m = hutil.Metrics(w.loaders[g].GetMetricGatherer())
	}
	return int(hutil.Sum(m, fmt.Sprintf("g%d_process_buffer_dropped_chunks_total", g)))
}

// droppedTotal: drops counted in all generations up to g (a record lost in an earlier generation stays lost)
func (w *world) droppedTotal(g int) int {
	n := 0
	for i := 0; i <= g; i++ {
		n += w.bufferDropped(i)
	}
	return n
}

// checkAtStop applies the oracles of the selected property at the end of a generation.
func (w *world) checkAtStop(g int, last bool) {
	acked, disk, files := w.ackedAtReturn, w.diskAtReturn, w.filesAtReturn
	if after, _ := w.diskStamps(); len(after) != len(disk) {
		w.violate("files-change-after-shutdown-returned", "generation %d: %d records were in chunk files when Shutdown returned, %d once every goroutine had come to rest: chunks are still being saved or removed after the agent reported its shutdown complete", g, len(disk), len(after))
	}
	nAck, nDisk, nLost := 0, 0, 0
	for _, l := range w.lines {
		if !l.accepted {
			continue
		}
		if l.drop {
			if acked[l.stamp] || disk[l.stamp] {
				w.violate("filtered-record-delivered", "record %s is dropped by the configured filter but was delivered or queued", l.stamp)
			}
			continue
		}
		switch {
		case acked[l.stamp]:
			nAck++
		case disk[l.stamp]:
			nDisk++
		default:
			nLost++
			if w.p.prop == "C18" {
				w.violate("record-only-in-memory", "when the shutdown of generation %d returns, record %s is neither acknowledged nor in a chunk file although a queue directory is available", g, l.stamp)
			}
			if w.p.prop == "C01" || w.p.prop == "" {
				if w.p.queueCap > 0 && nLost <= w.droppedTotal(g)*w.p.chunkRecs {
					// a documented queue overflow, counted in the dropped-chunk metric
					continue
				}
				w.violate("record-lost", "after the graceful stop of generation %d record %s (connection %d, app %s) is neither acknowledged by the upstream nor in a chunk file of the on-disk queue (dropped_chunks_total so far: %d)", g, l.stamp, l.conn, l.app, w.droppedTotal(g))
			}
		}
	}
	if w.p.twoPairs && (w.p.prop == "C01" || w.p.prop == "C18") {
		// "for each configured output": the same for the second output pair
		for _, l := range w.lines {
			if l.accepted && !l.drop && !w.ackedAtReturn2[l.stamp] && !w.diskAtReturn2[l.stamp] {
				nLost++
				w.violate("record-lost:second-output", "after the graceful stop of generation %d record %s is neither acknowledged by the upstream of output out2 nor in a chunk file of its queue", g, l.stamp)
			}
		}
		if last {
			for _, l := range w.lines {
				if l.accepted && !l.drop && !w.ackedAtReturn2[l.stamp] {
					w.violate("not-delivered-at-end:second-output", "record %s was never acknowledged by the upstream of output out2", l.stamp)
				}
			}
		}
	}
	if w.p.prop == "C01" {
		// discards are permitted only as documented queue / disk-limit overflows: no scenario but the overflow ones comes near
		// a limit (queue capacity 50, size limit 200 KB against a few hundred bytes)
		if dropped := w.bufferDropped(g); dropped > 0 && w.p.queueCap == 0 && !w.p.noDir {
			w.violate("unjustified-drop", "generation %d: buffer dropped_chunks_total = %d although neither the queue capacity (50 chunks) nor the size limit (200 KB) was near", g, dropped)
		}
	}
	if last && (w.p.prop == "C01" || w.p.prop == "") {
		for _, l := range w.lines {
			if l.accepted && !l.drop && !acked[l.stamp] {
				if w.p.queueCap > 0 && nLost <= w.droppedTotal(g)*w.p.chunkRecs {
					continue
				}
				w.violate("not-delivered-at-end", "record %s was never acknowledged although the last generation ran against a healthy upstream to the drain horizon", l.stamp)
			}
		}
	}
	if w.p.prop == "C18" {
		// the whole shutdown sequence below the listener (sinks closed, Orchestrator.Shutdown: pipeline channels closed, workers
		// flush, buffers destroyed, clients stopped) returns within the longest documented chain of timeouts
		bound := defs.BufferShutDownTimeout + 3*defs.IntermediateChannelTimeout
		if w.stopTook > bound {
			w.violate("stop-too-slow", "the shutdown of generation %d took %v of virtual time, bound %v", g, w.stopTook, bound)
		}
	}
	if w.p.prop == "C05" {
		w.checkOrder()
	}
	if w.p.prop == "C19" {
		w.checkMetrics(g, acked, files)
	}
	w.outcome = append(w.outcome, fmt.Sprintf("g%d[ack=%d disk=%d lost=%d trans=%d]", g, nAck, nDisk, nLost, len(w.trans)))
	if w.p.rich {
		// vacuity guard of the statement-granularity scenarios: the order in which the records of the different connections
		// reach the upstream is part of the outcome, so "many executions, one outcome" cannot hide that nothing overlapped
		var order []string
		for _, t := range w.trans {
			order = append(order, strings.Join(t.stamps, "+"))
		}
		w.outcome = append(w.outcome, "arrival="+strings.Join(order, ","))
	}
}

// checkOrder is C05: per (connection, key set) the first complete deliveries appear in arrival order.
func (w *world) checkOrder() {
	first := map[string]int{}
	for i, t := range w.trans {
		for j, s := range t.stamps {
			if _, ok := first[s]; !ok {
				first[s] = i*1000 + j
			}
		}
	}
	type key struct {
		conn int
		app  string
	}
	lastPos := map[key]int{}
	lastStamp := map[key]string{}
	for _, l := range w.lines {
		if l.drop || !l.accepted {
			continue
		}
		pos, ok := first[l.stamp]
		if !ok {
			continue
		}
		k := key{l.conn, l.app}
		if prev, seen := lastPos[k]; seen && pos < prev {
			w.violate("delivery-order", "connection %d key %s: record %s was first delivered before %s which arrived earlier", l.conn, l.app, l.stamp, lastStamp[k])
		}
		if pos > lastPos[k] || lastStamp[k] == "" {
			lastPos[k] = pos
			lastStamp[k] = l.stamp
		}
	}
}

// checkMetrics is C19: the balance equations of DESIGN.md Appendix A.5 at quiescence after the stop of generation g.
func (w *world) checkMetrics(g int, acked map[string]bool, files int) {
	loader := w.loaders[g]
	var m map[string]float64
	if gs, ok := loader.GetMetricGatherer().(prometheus.Gatherers); ok && len(gs) > 0 {
		m = hutil.Metrics(gs[len(gs)-1]) // the pipeline metric factory (the default registry is not needed)
	} else {
		m = hutil.Metrics(loader.GetMetricGatherer())
	}
	for k, v := range hutil.Metrics(w.inputMFs[g]) {
		m[k] = v
	}
	for k, v := range hutil.Metrics(w.mfs[g]) {
		m[k] = v
	}
	if *flagDump {
		keys := make([]string, 0, len(m))
		for k := range m {
			if strings.HasPrefix(k, "g") && m[k] != 0 {
				keys = append(keys, k)
			}
		}
		sort.Strings(keys)
		for _, k := range keys {
			fmt.Fprintf(os.Stderr, "METRIC gen%d %s = %v\n", g, k, m[k])
		}
	}
	pre := fmt.Sprintf("g%d_", g)
	inPre := fmt.Sprintf("g%din_input_", g)
	// the lines of this generation
	var cur []*lineRec
	for _, l := range w.lines {
		if l.accepted && l.gen == g {
			cur = append(cur, l)
		}
	}
	// input level: passed + dropped = lines handed to the parser (count and bytes)
	nLines, nBytes := 0, 0
	for _, l := range cur {
		nLines++
		nBytes += l.bytes
	}
	nBad, nBadBytes, nOverLong := 0, 0, 0
	if g == 0 {
		nBad, nBadBytes, nOverLong = w.badLines, w.badBytes, w.overLong
	}
	nLines += nBad
	nBytes += nBadBytes
	inPassed := int(hutil.Sum(m, inPre+"passed_records_total"))
	inDropped := int(hutil.Sum(m, inPre+"dropped_records_total"))
	inPassedB := int(hutil.Sum(m, inPre+"passed_record_bytes_total"))
	inDroppedB := int(hutil.Sum(m, inPre+"dropped_record_bytes_total"))
	if inPassed+inDropped != nLines {
		w.violate("metrics:input-count", "generation %d: input passed %d + dropped %d != %d lines handed to the parser", g, inPassed, inDropped, nLines)
	}
	if inPassedB+inDroppedB != nBytes {
		w.violate("metrics:input-bytes", "generation %d: input passed bytes %d + dropped bytes %d != %d bytes handed to the parser", g, inPassedB, inDroppedB, nBytes)
	}
	// pipeline level: sum over key sets of passed + dropped = input passed
	pPassed := int(hutil.Sum(m, pre+"process_passed_records_total"))
	pDropped := int(hutil.Sum(m, pre+"process_dropped_records_total"))
	if pPassed+pDropped != inPassed {
		w.violate("metrics:process-count", "generation %d: pipeline passed %d + dropped %d != input passed %d", g, pPassed, pDropped, inPassed)
	}
	if inDropped != nBad || inDroppedB != nBadBytes {
		w.violate("metrics:input-dropped", "generation %d: input dropped %d records / %d bytes, %d malformed lines / %d bytes were handed to the parser", g, inDropped, inDroppedB, nBad, nBadBytes)
	}
	if ovf := int(hutil.Sum(m, inPre+"labelled_records_total", `label="overflow"`)); ovf != nOverLong {
		w.violate("metrics:input-overflow", "generation %d: labelled_records_total{label=overflow} = %d, %d lines with an over-long message were handed to the parser", g, ovf, nOverLong)
	}
	wantDropped := 0
	for _, l := range cur {
		if l.drop {
			wantDropped++
		}
	}
	if pDropped != wantDropped {
		w.violate("metrics:process-dropped", "generation %d: pipeline dropped %d, the filter matched %d records", g, pDropped, wantDropped)
	}
	labelled := int(hutil.Sum(m, pre+"process_labelled_records_total", `label="filtered"`))
	if labelled != wantDropped {
		w.violate("metrics:label-filtered", "generation %d: labelled_records_total{label=filtered} = %d, the filter matched %d records", g, labelled, wantDropped)
	}
	// attribution: per key set (app) the passed+dropped counters carry the records of that app
	byApp := map[string]int{}
	for _, l := range cur {
		byApp[l.app]++
	}
	apps := make([]string, 0, len(byApp))
	for a := range byApp {
		apps = append(apps, a)
	}
	sort.Strings(apps)
	for _, a := range apps {
		frag := fmt.Sprintf(`key_app=%q`, a)
		got := int(hutil.Sum(m, pre+"process_passed_records_total", frag) + hutil.Sum(m, pre+"process_dropped_records_total", frag))
		if got != byApp[a] {
			w.violate("metrics:key-attribution", "generation %d: counters labelled key_app=%s account for %d records, %d records of that key set were received", g, a, got, byApp[a])
		}
	}
	// attribution by the metric key fields (host, and source when configured)
	type mk struct{ app, host, source string }
	byMK := map[mk]int{}
	filteredMK := map[mk]int{}
	withSource := strings.Contains(w.p.metricKeys, "source")
	for _, l := range cur {
		k := mk{app: l.app, host: l.host}
		if withSource {
			k.source = l.source
		}
		byMK[k]++
		if l.drop {
			filteredMK[k]++
		}
	}
	mks := make([]mk, 0, len(byMK))
	for k := range byMK {
		mks = append(mks, k)
	}
	sort.Slice(mks, func(i, j int) bool { return fmt.Sprint(mks[i]) < fmt.Sprint(mks[j]) })
	for _, k := range mks {
		frags := []string{fmt.Sprintf(`key_app=%q`, k.app), fmt.Sprintf(`key_host=%q`, k.host)}
		if withSource {
			frags = append(frags, fmt.Sprintf(`key_source=%q`, k.source))
		}
		got := int(hutil.Sum(m, pre+"process_passed_records_total", frags...) + hutil.Sum(m, pre+"process_dropped_records_total", frags...))
		if got != byMK[k] {
			w.violate("metrics:metric-key-attribution", "generation %d: counters labelled %v account for %d records, %d records with these label values were received", g, frags, got, byMK[k])
		}
		// the custom (labelled) counters are attributed to the same label values
		lfrags := append([]string{`label="filtered"`}, frags...)
		if got := int(hutil.Sum(m, pre+"process_labelled_records_total", lfrags...)); got != filteredMK[k] {
			w.violate("metrics:label-attribution", "generation %d: labelled_records_total%v = %d, the filter matched %d records with these label values", g, lfrags, got, filteredMK[k])
		}
	}
	// buffer level, summed over pipelines: accepted + recovered = consumed + leftover + dropped + pending
	bIn := int(hutil.Sum(m, pre+"process_buffer_input_chunks_total"))
	bCons := int(hutil.Sum(m, pre+"process_buffer_consumed_chunks_total"))
	bLeft := int(hutil.Sum(m, pre+"process_buffer_leftover_chunks_total"))
	bDrop := int(hutil.Sum(m, pre+"process_buffer_dropped_chunks_total"))
	bPend := int(hutil.Sum(m, pre+"process_buffer_pending_chunks"))
	if bIn != bCons+bLeft+bDrop+bPend {
		w.violate("metrics:buffer-balance", "generation %d: buffer input %d != consumed %d + leftover %d + dropped %d + pending %d", g, bIn, bCons, bLeft, bDrop, bPend)
	}
	chunksMade := int(hutil.Sum(m, pre+"process_chunks_total"))
	persistent := int(hutil.Sum(m, pre+"process_buffer_persistent_chunks"))
	if persistent != files {
		w.violate("metrics:persistent-chunks", "generation %d: persistent_chunks gauge %d, %d chunk files in the queue directories", g, persistent, files)
	}
	if bLeft+bPend != files {
		w.violate("metrics:left-on-disk", "generation %d: leftover %d + pending %d chunks, %d chunk files on disk", g, bLeft, bPend, files)
	}
	// output level vs what the upstream saw in this generation
	fwd, ackd, sentOK, ackSeen := 0, 0, 0, 0
	for i, e := range w.envs {
		if w.envGen[i] != g {
			continue
		}
		vp := fmt.Sprintf("g%dv_vout%d_", g, i)
		fwd += int(hutil.Sum(m, vp+"forwarded_chunks_total"))
		ackd += int(hutil.Sum(m, vp+"acknowledged_chunks_total"))
		for _, c := range e.Conns {
			sentOK += len(c.SentOK)
			ackSeen += len(c.Acked)
		}
	}
	if ackd != bCons {
		w.violate("metrics:ack-vs-consumed", "generation %d: output acknowledged %d chunks, buffer consumed %d", g, ackd, bCons)
	}
	attempts := 0
	nconns := 0
	for i, e := range w.envs {
		if w.envGen[i] != g {
			continue
		}
		attempts += int(hutil.Sum(m, fmt.Sprintf("g%dv_vout%d_", g, i)+"forward_attempts_total"))
		nconns += len(e.Conns)
	}
	if !(attempts >= fwd && fwd >= ackd) {
		w.violate("metrics:forward-chain", "generation %d: forward attempts %d >= forwarded %d >= acknowledged %d does not hold", g, attempts, fwd, ackd)
	}
	// a chunk counts as forwarded when it is handed to the acknowledger; per connection only the LAST completely transmitted
	// chunk can miss that step (stop or acknowledger end in between), and only if it was not acknowledged on that connection
	tol := 0
	for i, e := range w.envs {
		if w.envGen[i] != g {
			continue
		}
		for _, c := range e.Conns {
			if n := len(c.SentOK); n > 0 {
				acked := false
				for _, a := range c.Acked {
					if a == c.SentOK[n-1] {
						acked = true
					}
				}
				if !acked {
					tol++
				}
			}
		}
	}
	if sentOK-fwd > tol {
		w.violate("metrics:forwarded-vs-upstream", "generation %d: the upstream received %d chunks completely, only %d are counted as forwarded; at most %d (last chunk of a connection, never acknowledged there) can have missed the hand-over to the acknowledger", g, sentOK, fwd, tol)
	}
	if sentOK-fwd > nconns {
		w.violate("metrics:forwarded-vs-upstream", "generation %d: the upstream received %d chunks completely on %d connections but only %d are counted as forwarded", g, sentOK, nconns, fwd)
	}
	if ackd > ackSeen || fwd > sentOK {
		w.violate("metrics:output-vs-upstream", "generation %d: output forwarded %d / acknowledged %d chunks, the upstream received %d completely and acknowledged %d", g, fwd, ackd, sentOK, ackSeen)
	}
	// chunks created = chunks the buffers took in, minus those recovered from disk at the start of the generation
	recovered := len(w.filesAtStart[g])
	if chunksMade != bIn-recovered {
		w.violate("metrics:chunks-made", "generation %d: process_chunks_total = %d, the buffers count %d input chunks of which %d were files found at startup", g, chunksMade, bIn, recovered)
	}
	// every chunk created in this generation that the harness has seen (transmitted or in a file): if that is all of them,
	// the byte counter is their total size
	made := map[string]bool{}
	for _, t := range w.trans {
		made[t.chunk] = true
	}
	for id := range w.chunkFileIDs() {
		made[id] = true
	}
	madeBytes, nMade := 0, 0
	for id := range made {
		if w.filesAtStart[g][id] || w.chunkGen[id] != g {
			continue
		}
		nMade++
		madeBytes += w.chunkSize[id]
	}
	if nMade == chunksMade {
		if cb := int(hutil.Sum(m, pre+"process_chunk_bytes_total")); cb != madeBytes {
			w.violate("metrics:chunk-bytes", "generation %d: process_chunk_bytes_total = %d, the %d chunks created hold %d bytes", g, cb, nMade, madeBytes)
		}
	}
	// nothing is pending once the agent has stopped
	for i := range w.envs {
		if w.envGen[i] != g {
			continue
		}
		vp := fmt.Sprintf("g%dv_vout%d_", g, i)
		if pa := int(hutil.Sum(m, vp+"queued_chunks", `type="pendingAck"`)); pa != 0 {
			w.violate("metrics:pending-ack-after-stop", "generation %d: output %d reports queued_chunks{type=pendingAck} = %d after the agent has stopped", g, i, pa)
		}
	}
	// bytes acknowledged = sizes of the chunks the upstream acknowledged and the client accepted as such
	ackBytes, wantAckBytes := 0, 0
	for i, e := range w.envs {
		if w.envGen[i] != g {
			continue
		}
		ackBytes += int(hutil.Sum(m, fmt.Sprintf("g%dv_vout%d_", g, i)+"acknowledged_chunk_bytes_total"))
		seen := map[string]bool{}
		for _, c := range e.Conns {
			for _, id := range c.Acked {
				if !seen[id] {
					seen[id] = true
					wantAckBytes += w.chunkSize[id]
				}
			}
		}
	}
	if ackd == ackSeen && ackBytes != wantAckBytes {
		w.violate("metrics:ack-bytes", "generation %d: acknowledged_chunk_bytes_total = %d, the %d chunks the upstream acknowledged hold %d bytes", g, ackBytes, ackSeen, wantAckBytes)
	}
}

func scenarios(prop string) []*explore.Scenario {
	var out []*explore.Scenario
	add := func(p params, quick, thorough int) {
		p.prop = prop
		p.delayB = true
		b := map[string]int{}
		if quick > -2 {
			b["quick"] = quick
		}
		if thorough > -2 {
			b["thorough"] = thorough
		}
		out = append(out, &explore.Scenario{Name: p.name, Bound: b, Run: makeRun(p), MinOutcomes: minOutcomes(p), SkipExhausted: p.rich})
	}
	full := fakeup.Options{ConnectAlt: 2, SendAlt: 3, PingAlt: 1, AckAlt: 4, LateDelay: 25 * time.Second}
	L := func(app string) op { return op{kind: "line", app: app} }
	D := func(app string) op { return op{kind: "line", app: app, drop: true} }
	// three records over two key sets on two connections, one restart
	a := params{name: "2conn-3rec/restart", conns: [][]op{{L("appA"), L("appB")}, {L("appA")}}, gens: 2, chunkRecs: 1, memCap: 2, opt: full, flushAlt: true, advances: 1}
	add(a, 1, 2)
	// spill forced, two records per chunk, filter variant
	b := params{name: "2conn-5rec-filter/spill/restart", conns: [][]op{{L("appA"), D("appA"), L("appA")}, {L("appB"), L("appA")}}, gens: 2, chunkRecs: 2, memCap: 0, opt: full, flushAlt: true, advances: 1}
	add(b, 1, 2)
	// three generations
	c := params{name: "1conn-3rec/3gens", conns: [][]op{{L("appA"), L("appA"), L("appB")}}, gens: 3, chunkRecs: 1, memCap: 2, opt: full, flushAlt: false, advances: 1}
	add(c, 1, 2)
	// one key set, four chunks, acknowledger queue of one: the sender can be blocked handing a transmitted chunk over
	w1 := params{name: "1conn-4rec-1key/ackwindow1/restart", conns: [][]op{{L("appA"), L("appA"), L("appA"), L("appA")}}, gens: 2, chunkRecs: 1, memCap: 4, ackWindow: 1, opt: full, flushAlt: false, advances: 1}
	add(w1, 1, 2)
	if prop == "C01" || prop == "C19" {
		// batch boundaries: with two records per batch a connection carrying two key sets ends exactly when one key set's
		// per-connection buffer was flushed by size while the other key set still has a record pending (and the mirror image)
		for i, ops := range [][]op{
			{L("appB"), L("appA"), L("appA")},
			{L("appA"), L("appB"), L("appA"), L("appB"), L("appA")},
			{L("appA"), L("appA"), L("appB"), {kind: "settle"}, L("appB"), L("appA"), L("appB")},
		} {
			bb := params{name: fmt.Sprintf("2key-batch-boundary/%d", i), conns: [][]op{ops}, gens: 2, chunkRecs: 1, memCap: 2, opt: full, flushAlt: true, advances: 1, sinkBatch: 2}
			add(bb, 1, 2)
			// the same boundary reached by bytes: a batch is flushed once it holds more than one record's worth of bytes
			by := bb
			by.name = fmt.Sprintf("2key-bytes-boundary/%d", i)
			by.sinkBatch, by.sinkBytes = 0, 150
			add(by, 1, 2)
		}
	}
	if prop == "C01" || prop == "C05" || prop == "C18" || prop == "C19" {
		// a failed session is followed by the next one inside the same generation: retry interval below the 1 s tick
		rt := params{name: "2conn-3rec/retry-within-generation", conns: [][]op{{L("appA"), L("appB")}, {L("appA")}}, gens: 2, chunkRecs: 1, memCap: 2, opt: full, retryInterval: 300 * time.Millisecond, idleBeforeStop: 2 * time.Second, advances: 1}
		add(rt, 1, 2)
		rt4 := params{name: "1conn-4rec-1key/retry-within-generation", conns: [][]op{{L("appA"), L("appA"), L("appA"), L("appA")}}, gens: 2, chunkRecs: 1, memCap: 4, opt: full, retryInterval: 300 * time.Millisecond, idleBeforeStop: 2 * time.Second, advances: 1}
		add(rt4, 1, 2)
		// the backlog variant: mixed saved / unsaved leftovers are resent inside the generation
		rb := params{name: "backlog-then-new-traffic/retry-within-generation", conns: [][]op{{L("appA"), L("appA"), L("appB")}}, conns1: [][]op{{L("appA"), L("appB")}}, gens: 3, chunkRecs: 1, memCap: 2, gen0Down: true, opt: full, retryInterval: 300 * time.Millisecond, idleBeforeStop: 2 * time.Second, advances: 1}
		add(rb, 1, 2)
	}
	if prop == "C01" || prop == "C18" || prop == "C19" {
		// soft reconnects: sessions older than one second are ended softly while ACKs fail / stay out
		sr := params{name: "2conn-3rec/soft-reconnect", conns: [][]op{{L("appA"), L("appB")}, {L("appA")}}, gens: 2, chunkRecs: 1, memCap: 2, opt: full, sessionMaxAge: time.Second, retryInterval: 300 * time.Millisecond, idleBeforeStop: 3 * time.Second, advances: 1}
		add(sr, 1, 2)
		// the first ACK read fails by script (not charged): the resend stage is entered at cost 0, one more fault fits the bound
		fr := full
		fr.FirstAckReset = true
		f2 := params{name: "1conn-4rec-1key/first-ack-reset/retry-within-generation", conns: [][]op{{L("appA"), L("appA"), L("appA"), L("appA")}}, gens: 2, chunkRecs: 1, memCap: 4, opt: fr, retryInterval: 300 * time.Millisecond, idleBeforeStop: 2 * time.Second, advances: 1}
		add(f2, 1, 2)
		// pings on an idle session, failing or not
		pg := full
		pg.PingAlt = 2
		pp := params{name: "2conn-3rec/pings", conns: [][]op{{L("appA"), L("appB")}, {L("appA")}}, gens: 2, chunkRecs: 1, memCap: 2, opt: pg, pingInterval: 400 * time.Millisecond, retryInterval: 300 * time.Millisecond, idleBeforeStop: 2 * time.Second, advances: 1}
		add(pp, 1, 2)
	}
	if prop == "C05" {
		// the singleton orchestrator keeps the arrival order of every connection (one pipeline, batches handed over in order)
		so := params{name: "singleton/2conn-2key-2rec/order", conns: [][]op{{L("appA"), L("appB"), L("appA"), L("appB")}, {L("appA"), L("appB"), L("appA"), L("appB")}}, gens: 2, chunkRecs: 2, memCap: 0, opt: full, flushAlt: true, singleton: true, advances: 1}
		add(so, 1, 2)
		sb := params{name: "singleton/batch-boundary/order", conns: [][]op{{L("appA"), L("appB"), L("appA"), L("appB"), L("appA")}}, gens: 2, chunkRecs: 1, memCap: 2, opt: full, flushAlt: true, singleton: true, sinkBatch: 2, advances: 1}
		add(sb, 1, 2)
	}
	if prop == "C01" || prop == "C18" {
		// the singleton orchestrator (one pipeline for all key sets)
		sg := params{name: "singleton/2conn-3rec/restart", conns: [][]op{{L("appA"), L("appB")}, {L("appA")}}, gens: 2, chunkRecs: 1, memCap: 2, opt: full, flushAlt: true, singleton: true, advances: 1}
		add(sg, 1, 2)
		sb := params{name: "singleton/batch-boundary", conns: [][]op{{L("appA"), L("appB"), L("appA"), L("appB"), L("appA")}}, gens: 2, chunkRecs: 1, memCap: 2, opt: full, flushAlt: true, singleton: true, sinkBatch: 2, advances: 1}
		add(sb, 1, 2)
		// two output/buffer pairs: every record is owed to each output
		tp := params{name: "two-outputs/2conn-3rec/restart", conns: [][]op{{L("appA"), L("appB")}, {L("appA")}}, gens: 2, chunkRecs: 2, memCap: 2, opt: full, flushAlt: true, twoPairs: true, advances: 1}
		add(tp, 1, 2)
		// ... and with a byte limit that two records of the first output fit but two of the second do not: at a flush one
		// output has nothing buffered while the other holds a partial chunk
		tb := params{name: "two-outputs/byte-limit/1conn-5rec", conns: [][]op{{L("appA"), L("appA"), L("appA"), L("appA"), L("appA")}}, gens: 2, chunkRecs: 100, chunkBytes: 250, memCap: 2, opt: full, flushAlt: true, twoPairs: true, advances: 1}
		add(tb, 1, 2)
		// no usable queue directory and a healthy upstream: everything is acknowledged when the shutdown returns
		nd := params{name: "nodir/healthy/2conn-3rec", conns: [][]op{{L("appA"), L("appB")}, {L("appA")}}, gens: 2, chunkRecs: 2, memCap: 2, opt: fakeup.Options{}, flushAlt: true, noDir: true, advances: 1}
		add(nd, 1, 2)
	}
	if prop == "C01" {
		// (the counters of the overflow regime are decided at the buffer level, C19 part 2)
		// documented discard: the queue capacity (2 chunks) overflows while the upstream is down; every lost record is
		// covered by the dropped-chunk counter
		ovf := params{name: "queue-overflow/1conn-6rec-1key", conns: [][]op{{L("appA"), L("appA"), L("appA"), L("appA"), L("appA"), L("appA")}}, gens: 3, chunkRecs: 1, memCap: 0, gen0Down: true, queueCap: 2, opt: full, advances: 1}
		add(ovf, 1, 2)
	}
	if *flagFine {
		out = nil
		fineScenarios(prop, add)
		return out
	}
	if prop == "C06" {
		// routing and tagging in the composed agent with pooled-size records of two key sets: the pipeline's tag and ID must
		// not depend on input buffers that are recycled later (one-variable tag template and two-part template)
		out = nil
		PA := func(app string) op { return op{kind: "line", app: app, pad: 1100} }
		for _, tt := range []string{"$app", "t.$app"} {
			r := params{name: "pooled-keys/tag=" + tt, conns: [][]op{{PA("appAA"), {kind: "settle"}, PA("appBB"), {kind: "settle"}, L("appAA"), L("appBB"), {kind: "settle"}, PA("appAA")}}, gens: 2, chunkRecs: 1, memCap: 2, opt: full, tagTemplate: tt, advances: 1}
			add(r, 1, 2)
		}
		return out
	}
	if prop == "C17" {
		out = nil
		for _, v := range []string{"identical", "transform-changed", "yaml-error", "unknown-field", "keys-changed", "maxfields-changed", "output-pair-added"} {
			r := params{name: "reload/" + v, conns: [][]op{{L("appA"), L("appB"), L("appA")}, {L("appA")}}, gens: 1, chunkRecs: 1, memCap: 2, opt: fakeup.Options{}, reload: v, advances: 0}
			// bound 2 of one such scenario is ~700k executions: the thorough tier goes there for the two valid reloads and keeps
			// bound 1 for the refused ones, so that its time budget is spread over all scenarios
			if v == "identical" || v == "transform-changed" {
				add(r, 1, 2)
			} else {
				add(r, 1, 1)
			}
		}
		// the real flush tick does work: the clients pause for longer than the flush interval between records
		S := op{kind: "settle"}
		tk := params{name: "reload-tick/transform-changed", conns: [][]op{{L("appA"), S, L("appB"), S, L("appA")}, {L("appA"), S, L("appA")}}, gens: 1, chunkRecs: 1, memCap: 2, opt: fakeup.Options{}, reload: "transform-changed", advances: 0}
		add(tk, 1, 2)
		// the singleton orchestrator under reload, incl. take-over of its queue
		sg := params{name: "reload-singleton/transform-changed", conns: [][]op{{L("appA"), L("appB"), L("appA")}, {L("appA")}}, gens: 1, chunkRecs: 1, memCap: 2, opt: fakeup.Options{}, reload: "transform-changed", singleton: true, advances: 0}
		add(sg, 1, 1)
		st := sg
		st.name = "reload-singleton-takeover/identical"
		st.reload = "identical"
		st.conns = [][]op{{L("appA"), L("appB")}}
		st.oldDown = true
		add(st, 1, 1)
		// two output/buffer pairs: the queues of BOTH outputs are taken over
		tp := params{name: "reload-takeover-two-outputs/identical", conns: [][]op{{L("appA"), L("appB")}}, gens: 1, chunkRecs: 1, memCap: 2, opt: fakeup.Options{}, reload: "identical", oldDown: true, twoPairs: true, advances: 0}
		add(tp, 1, 1)
		t2 := tp
		t2.name = "reload-takeover-second-output-only/identical"
		t2.oldDownOut2 = true
		add(t2, 1, 1)
		// key values that need escaping in the pipeline ID / queue directory name
		ek := params{name: "reload-takeover-escaped-keys/identical", conns: [][]op{{L("app%A,x"), L("app,%2C")}}, gens: 1, chunkRecs: 1, memCap: 2, opt: fakeup.Options{}, reload: "identical", oldDown: true, advances: 0}
		add(ek, 1, 1)
		// two signals: failed then successful reload, successful then failed, successful twice
		for _, pair := range [][2]string{{"yaml-error", "transform-changed"}, {"transform-changed", "unknown-field"}, {"identical", "transform-changed"}} {
			th := params{name: "reload-twice/" + pair[0] + "+" + pair[1], conns: [][]op{{L("appA"), L("appB"), L("appA")}, {L("appA")}}, gens: 1, chunkRecs: 1, memCap: 2, opt: fakeup.Options{}, reload: pair[0], secondHUP: pair[1], advances: 0}
			add(th, 1, 1)
		}
		for _, v := range []string{"identical", "transform-changed"} {
			r := params{name: "reload-takeover/" + v, conns: [][]op{{L("appA"), L("appB")}}, gens: 1, chunkRecs: 1, memCap: 2, opt: fakeup.Options{}, reload: v, oldDown: true, advances: 0}
			add(r, 1, 2)
		}
		return out
	}
	if prop == "C19" {
		// two metric-key tuples whose plain concatenations coincide: ('ab','c') and ('a','bc')
		M := func(host, source string) op { return op{kind: "line", app: "appA", host: host, source: source} }
		e := params{name: "metric-key-tuples", conns: [][]op{{M("ab", "c"), M("a", "bc"), M("ab", "c")}}, gens: 2, chunkRecs: 1, memCap: 2, opt: full, metricKeys: "[host, source]", advances: 1}
		add(e, 0, 1)
		// pooled-size records (over 1024 bytes) of different hosts through one pipeline: label values must not alias the
		// recycled input buffers
		P := func(host string) op { return op{kind: "line", app: "appA", host: host, pad: 1100} }
		// malformed lines (each shape twice in a row, on both connections) and an over-long message between well-formed records
		B := func(shape string) op { return op{kind: "bad", shape: shape} }
		inf := params{name: "input-faults", conns: [][]op{
			{L("appA"), B("no-pri"), B("no-pri"), L("appB"), B("bad-pri"), B("bad-pri"), {kind: "overlong", app: "appA"}},
			{B("missing-fields"), B("missing-fields"), L("appA"), B("bad-utf8"), B("bad-utf8")}},
			gens: 2, chunkRecs: 2, memCap: 2, opt: full, advances: 1}
		add(inf, 1, 2)
		// ACKs for unknown IDs and out of order
		odd := full
		odd.AckAlt = 6
		ao := params{name: "1conn-4rec-1key/ack-unknown-and-out-of-order", conns: [][]op{{L("appA"), L("appA"), L("appA"), L("appA")}}, gens: 2, chunkRecs: 1, memCap: 4, opt: odd, advances: 1}
		add(ao, 1, 2)
		// filtered (labelled) records of two hosts, pooled-size, with pauses in which the input buffers are recycled
		PD := func(host string, drop bool) op { return op{kind: "line", app: "appA", host: host, pad: 1100, drop: drop} }
		lf := params{name: "pooled-filtered-hosts", conns: [][]op{{PD("alpha00", true), {kind: "settle"}, PD("bravo00", false), {kind: "settle"}, PD("bravo00", true), PD("alpha00", true), {kind: "settle"}, PD("charl00", true)}}, gens: 2, chunkRecs: 1, memCap: 2, opt: full, advances: 1}
		add(lf, 0, 1)
		f := params{name: "pooled-records-hosts", conns: [][]op{{P("alpha00"), {kind: "settle"}, P("bravo00"), {kind: "settle"}, P("alpha00"), P("charl00"), {kind: "settle"}, P("bravo00")}}, gens: 2, chunkRecs: 1, memCap: 2, opt: full, advances: 1}
		add(f, 0, 1)
	}
	if prop == "C05" || prop == "C01" {
		// backlog: the upstream is down in generation 0, everything stays queued; after the restart a new connection sends
		// records of the same key sets while the backlog is being recovered
		k := params{name: "backlog-then-new-traffic", conns: [][]op{{L("appA"), L("appA"), L("appB")}}, conns1: [][]op{{L("appA"), L("appB")}}, gens: 3, chunkRecs: 1, memCap: 2, gen0Down: true, opt: full, flushAlt: false, advances: 1}
		add(k, 1, 2)
	}
	if prop == "C05" {
		d := params{name: "2conn-2key-2rec/order", conns: [][]op{{L("appA"), L("appB"), L("appA"), L("appB")}, {L("appA"), L("appB"), L("appA"), L("appB")}}, gens: 2, chunkRecs: 2, memCap: 0, opt: full, flushAlt: true, advances: 1}
		add(d, 1, 2)
	}
	return out
}

// fineScenarios: the composed agent built with statement-granularity scheduling points in the input, transform, rewrite,
// base, orchestrate and util packages (instr -fine). Two or three connections carry records whose every field differs from
// connection to connection; the oracle is differential (each delivered record equals the one of the sequential reference run)
// plus all the oracles of the property the scenarios are run for (routing and tag for C06, counters for C19).
func fineScenarios(prop string, add func(p params, quick, thorough int)) {
	R := func(app string, k int) op {
		return op{kind: "line", app: app, host: fmt.Sprintf("host%d", k), source: fmt.Sprintf("src%d", k), class: fmt.Sprintf("Klass%d", k),
			task: fmt.Sprintf("task-%d%d%d", k, k, k), extra: fmt.Sprintf("from user%d@corp%d.example.com tab\\t%d", k, k, k)}
	}
	healthy := fakeup.Options{}
	// two connections, one record each, different key sets: the connection threads overlap in parser, extractions and key-set lookup
	add(params{name: "fine/2conn-1rec-2key", rich: true, conns: [][]op{{R("appA", 1)}, {R("appB", 2)}}, gens: 1, chunkRecs: 1, memCap: 2, opt: healthy, metricKeys: "[host, class]"}, 1, 1)
	// (bound 2 of one such scenario is ~35 million executions of ~5000 steps: the thorough tier widens the traffic instead)
	// the same key set from both connections: the pipeline of appA gets batches of both, the per-connection key-set caches collide
	add(params{name: "fine/2conn-2rec-1key", rich: true, conns: [][]op{{R("appA", 1), R("appA", 3)}, {R("appA", 2), R("appA", 4)}}, gens: 1, chunkRecs: 2, memCap: 2, opt: healthy, metricKeys: "[host, class]"}, 1, 1)
	// two key sets on each connection, crossed: both pipelines transform at the same time as both connection threads
	add(params{name: "fine/2conn-2rec-2key-crossed", rich: true, conns: [][]op{{R("appA", 1), R("appB", 3)}, {R("appB", 2), R("appA", 4)}}, gens: 1, chunkRecs: 1, memCap: 2, opt: healthy, metricKeys: "[host, class]"}, 1, 1)
	// a filtered record and a malformed line among them: drop counters and input drop counters under overlap
	add(params{name: "fine/2conn-drop-and-bad", rich: true, conns: [][]op{{R("appA", 1), {kind: "bad", shape: "no-pri"}, R("appA", 3)}, {{kind: "line", app: "appA", drop: true, host: "host2", class: "Klass2", task: "task-2"}, R("appB", 4)}}, gens: 1, chunkRecs: 1, memCap: 2, opt: healthy, metricKeys: "[host]"}, 1, 1)
	// a pipeline worker serializes and RELEASES a record (record and buffers go back to the pools) while another connection is
	// in the middle of parsing: the second connection is accepted after the first has flushed a record, so its thread is
	// younger than the worker, the worker runs first by default and one deviation stops it anywhere inside its work
	add(params{name: "fine/release-while-parsing", rich: true, lateStart: true, conns: [][]op{{R("appA", 1), {kind: "settle-start"}, R("appA", 3)}, {R("appB", 2), R("appB", 4)}}, gens: 1, chunkRecs: 1, memCap: 2, opt: healthy, metricKeys: "[host, class]"}, 1, 1)
	// thorough only: three records per connection over two key sets, pooled-size records among them
	add(params{name: "fine/2conn-3rec-2key-pooled", rich: true, conns: [][]op{{R("appA", 1), func() op { o := R("appB", 3); o.pad = 1100; return o }(), R("appA", 5)}, {func() op { o := R("appB", 2); o.pad = 1100; return o }(), R("appA", 4), R("appB", 6)}}, gens: 1, chunkRecs: 2, memCap: 2, opt: healthy, metricKeys: "[host, class]"}, -2, 1)
	if prop != "C19" {
		// three connections (thorough only at bound 1: the third thread multiplies the points)
		add(params{name: "fine/3conn-1rec", rich: true, conns: [][]op{{R("appA", 1)}, {R("appB", 2)}, {R("appA", 3)}}, gens: 1, chunkRecs: 1, memCap: 2, opt: healthy, metricKeys: "[host, class]"}, -2, 1)
	}
}

func main() {
	prop := "C01"
	for i, a := range os.Args {
		if a == "-prop" && i+1 < len(os.Args) {
			prop = os.Args[i+1]
		}
	}
	flag.String("prop", "C01", "property id (C01, C05, C19)")
	for _, a := range os.Args {
		if a == "-fine" || a == "-fine=true" {
			*flagFine = true
		}
	}
	logger.SetLogLevel(logger.InfoLevel)
	logger.SetOutput(logs)
	bconfig.VerifAddOutputType("verifFluentd", func() bconfig.LogOutputConfig { return &verifOutput{} })
	explore.Main(&explore.Config{
		Property:  prop,
		Level:     "model_checking",
		Scenarios: scenarios(prop),
		Rule: "stateless DFS (delay bounding) over schedules of the composed real agent below the socket — parsing receiver sinks played by connection threads, byKeySet orchestrator, pipeline workers, " +
			"hybrid buffers, ClientWorkers over scripted upstreams — with flush ticks after each line, upstream answers (refuse, reset, blocked write, silent/late ACK) and the moment of each graceful stop as " +
			"explorer choices; 2-3 generations on the same queue directory, the last one healthy and drained; distinct_nontrivial = distinct per-generation (acked/on-disk/lost/transmissions) outcomes",
		Assumptions: []string{
			"A-time; connection threads call the sink exactly as tcplinelistener.runConnection does (Accept*, Flush on ticks, final Flush + Close); the TCP socket and framer are covered by C08",
			"the output's connection layer is replaced by a scripted ClosableClientConnection through PipelineArgs.NewConsumerOverride; chunks are decoded with the output's own ChunkDecoder",
			"bounds: <=5 records, 2 key sets, <=2 connections, <=3 generations, deviation bound 1 (quick) / 2 (thorough)",
		},
	})
}
