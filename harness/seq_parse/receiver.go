package main

// Receiver part of C09: the component that owns the parser and its counters in production. bsupport.NewLogParsingReceiver
// creates, per connection, one parser (through the LogParserConstructor; here sysloginput.Config.NewParser, the observation
// point named in the property) and one LogInputCounterSet on the input's metric creator ("input_" prefix, protocol=syslog),
// and it is the only caller of UpdateMetrics. The harness never calls UpdateMetrics here: it feeds Accept / Flush / Close the
// way the listener does ("Flush is also to be called right before Close(), after all Accept() calls") and reads the
// input_* metrics of the shared registry.
//
// Enumerated: every sequence of up to 4 (thorough: 6) steps over {good line, over-long message, three kinds of rejected
// line, Flush} on a connection x {alone, a second connection doing the same interleaved step by step, a second connection
// that delivered only rejected lines and closed before} x {intermediate buffer limits as shipped, 2 records, 150 bytes}.
//
// Oracle: the published input_* values never exceed what was handed in; once a connection is closed everything it handed
// in is published (count and bytes, passed / dropped / overflow), exactly the sum over all connections at the end; the
// records handed downstream are exactly the lines that parse, once, in order, and are faithful when read after the end.
// When the values appear BEFORE the connection ends is not stated anywhere: not checked.

import (
	"fmt"

	"github.com/relex/gotils/logger"
	"github.com/relex/gotils/promexporter/promreg"
	"github.com/relex/slog-agent/base"
	"github.com/relex/slog-agent/base/bsupport"
	"github.com/relex/slog-agent/defs"

	"slogverif/seq"
)

type recSink struct {
	got        []*base.LogRecord
	closed     bool
	lateAccept bool
}

func (s *recSink) Accept(buf []*base.LogRecord) {
	if s.closed {
		s.lateAccept = true
	}
	s.got = append(s.got, buf...) // "The buffer is NOT usable after the function exits": the pointers are copied out
}
func (s *recSink) Tick()  {}
func (s *recSink) Close() { s.closed = true }

type recReceiver struct{ sinks []*recSink }

func (r *recReceiver) NewSink(string, base.ClientNumber) base.BufferReceiverSink {
	s := &recSink{}
	r.sinks = append(r.sinks, s)
	return s
}

func readMetrics(mc promreg.MetricCreator) metrics {
	return metrics{
		passed:        mc.AddOrGetCounter("passed_records_total", "", nil, nil).Get(),
		passedBytes:   mc.AddOrGetCounter("passed_record_bytes_total", "", nil, nil).Get(),
		dropped:       mc.AddOrGetCounter("dropped_records_total", "", nil, nil).Get(),
		droppedBytes:  mc.AddOrGetCounter("dropped_record_bytes_total", "", nil, nil).Get(),
		overflow:      mc.AddOrGetLazyCounterVec("labelled_records_total", "", []string{"label"}, nil).WithLabelValues("overflow").Get(),
		overflowBytes: mc.AddOrGetLazyCounterVec("labelled_record_bytes_total", "", []string{"label"}, nil).WithLabelValues("overflow").Get(),
	}
}

func (m metrics) String() string {
	return fmt.Sprintf("passed %d/%dB dropped %d/%dB overflow %d/%dB", m.passed, m.passedBytes, m.dropped, m.droppedBytes, m.overflow, m.overflowBytes)
}

// tally: what a set of lines must show in the counters. The side of a line comes from the reference: well-formed (or
// MSG-less) lines pass, a decimal PRI above 191 is rejected, everything else the reference calls "outside the
// faithfulness claim" may be on either side but is counted once with its length.
type tally struct {
	lines, bytes            uint64 // everything handed in
	passed, passedBytes     uint64 // lines that must pass
	dropped, droppedBytes   uint64 // lines that must be rejected
	overflow, overflowBytes uint64 // over-long messages of lines that must pass
	undecided               uint64
}

func (t *tally) addLine(line string, L int) (mustPass bool) {
	n := uint64(len(line))
	t.lines++
	t.bytes += n
	switch ref := refParse(line); ref.class {
	case clsWellFormed, clsNoMsg:
		t.passed++
		t.passedBytes += n
		if len(ref.msg) > L {
			t.overflow++
			t.overflowBytes += n
		}
		return true
	case clsPriTooLarge:
		t.dropped++
		t.droppedBytes += n
	default:
		t.undecided++
	}
	return false
}

func (t *tally) add(o tally) {
	t.lines += o.lines
	t.bytes += o.bytes
	t.passed += o.passed
	t.passedBytes += o.passedBytes
	t.dropped += o.dropped
	t.droppedBytes += o.droppedBytes
	t.overflow += o.overflow
	t.overflowBytes += o.overflowBytes
	t.undecided += o.undecided
}

// notMoreThan: the published values do not exceed what the lines of t can account for
func (m metrics) notMoreThan(t tally) bool {
	return m.passed+m.dropped <= t.lines && m.passedBytes+m.droppedBytes <= t.bytes && m.overflow <= t.overflow && m.overflowBytes <= t.overflowBytes &&
		m.passed <= t.lines-t.dropped && m.dropped <= t.lines-t.passed
}

// covers: the published values hold at least everything the lines of t must show
func (m metrics) covers(t tally) bool {
	return m.passed+m.dropped >= t.lines && m.passedBytes+m.droppedBytes >= t.bytes && m.passed >= t.passed && m.passedBytes >= t.passedBytes &&
		m.dropped >= t.dropped && m.droppedBytes >= t.droppedBytes && m.overflow >= t.overflow && m.overflowBytes >= t.overflowBytes
}

func (t tally) String() string {
	return fmt.Sprintf("%d lines/%dB, of which must pass %d/%dB, must be rejected %d/%dB, either %d; over-long %d/%dB", t.lines, t.bytes, t.passed, t.passedBytes, t.dropped, t.droppedBytes, t.undecided, t.overflow, t.overflowBytes)
}

const receiverOps = "gosmpF"

// receiverLine: the line of step op, unique per connection and position.
func receiverLine(op byte, conn, n, L int) string {
	tag := fmt.Sprintf("c%d#%d", conn, n)
	switch op {
	case 'g':
		return buildLine(fmt.Sprintf("<%d>1", (conn*50+n)%192), typicalTokens, tag+" an ordinary message é")
	case 'o':
		return buildLine(fmt.Sprintf("<%d>1", (conn*50+n)%192), nilTokens, tag+" "+buildMessage(kinds[1], 1, 0, L+7))
	case 's':
		return tag + " short"
	case 'm':
		return "<13>1 2020-01-02T03:04:05Z " + tag + "-only-three-tokens-and-nothing-more"
	case 'p':
		return buildLine("<999>1", typicalTokens, tag+" too large a PRI")
	}
	panic("receiverLine: " + string(op))
}

type rstep struct {
	conn int
	op   byte // one of receiverOps, or 'C' = Close
}

func receiverTimeline(ops string, mode int) []rstep {
	var tl []rstep
	switch mode {
	case 0:
		for i := range ops {
			tl = append(tl, rstep{0, ops[i]})
		}
		tl = append(tl, rstep{0, 'F'}, rstep{0, 'C'})
	case 1:
		for i := range ops {
			tl = append(tl, rstep{0, ops[i]}, rstep{1, ops[i]})
		}
		tl = append(tl, rstep{0, 'F'}, rstep{0, 'C'}, rstep{1, 'F'}, rstep{1, 'C'})
	case 2:
		tl = append(tl, rstep{1, 's'}, rstep{1, 'p'}, rstep{1, 'F'}, rstep{1, 'm'}, rstep{1, 'F'}, rstep{1, 'C'})
		for i := range ops {
			tl = append(tl, rstep{0, ops[i]})
		}
		tl = append(tl, rstep{0, 'F'}, rstep{0, 'C'})
	}
	return tl
}

func checkReceiver(ops string, mode, variant int) (string, string) {
	const L = 64
	setLimits(L)
	savedPool, savedN, savedB := defs.InputLogMinRecordBytesToPool, defs.IntermediateBufferMaxNumLogs, defs.IntermediateBufferMaxTotalBytes
	defer func() {
		defs.InputLogMinRecordBytesToPool, defs.IntermediateBufferMaxNumLogs, defs.IntermediateBufferMaxTotalBytes = savedPool, savedN, savedB
	}()
	defs.InputLogMinRecordBytesToPool = 16
	switch variant {
	case 1:
		defs.IntermediateBufferMaxNumLogs = 2
	case 2:
		defs.IntermediateBufferMaxTotalBytes = 150
	}

	e := envs[envComposite]
	mf := promreg.NewMetricFactory("c09r_", nil, nil)
	mc := mf.AddOrGetPrefix("input_", []string{"protocol"}, []string{"syslog"})
	alloc := base.NewLogAllocator(e.schema, 1)
	cfg := e.inputConfig()
	createParser := func(l logger.Logger, ic *base.LogInputCounterSet) base.LogParser {
		p, err := cfg.NewParser(l, alloc, e.schema, ic)
		if err != nil {
			panic(err)
		}
		return p
	}
	out := &recReceiver{}
	recv := bsupport.NewLogParsingReceiver(logger.Root(), createParser, out, mc)

	type rconn struct {
		sink      base.MessageReceiverSink
		out       *recSink
		n         int
		delivered []string // lines that must arrive downstream, in order
		sum       tally
		closed    bool
	}
	nconn := 1
	if mode > 0 {
		nconn = 2
	}
	conns := make([]*rconn, nconn)
	for c := range conns {
		conns[c] = &rconn{sink: recv.NewSink(fmt.Sprintf("10.0.0.1:%d", 1001+c), base.ClientNumber(c+1))}
		conns[c].out = out.sinks[c]
	}
	var handed, closedSum tally
	tl := receiverTimeline(ops, mode)
	describe := func(upTo int) string {
		s := ""
		for i := 0; i <= upTo; i++ {
			s += fmt.Sprintf(" c%d:%c", tl[i].conn+1, tl[i].op)
		}
		return "steps (g good line, o over-long message, s/m/p rejected lines, F Flush, C Close):" + s
	}
	for i, st := range tl {
		c := conns[st.conn]
		switch st.op {
		case 'F':
			c.sink.Flush()
		case 'C':
			c.sink.Close()
			c.closed = true
			closedSum.add(c.sum)
		default:
			line := receiverLine(st.op, st.conn, c.n, L)
			c.n++
			buf := []byte(line)
			c.sink.Accept(buf)
			for j := range buf {
				buf[j] = '#' // "The message slice is NOT usable after the function exits"
			}
			handed.addLine(line, L)
			if c.sum.addLine(line, L) {
				c.delivered = append(c.delivered, line)
			}
		}
		pub := readMetrics(mc)
		if !pub.notMoreThan(handed) {
			return "receiver:overcount", fmt.Sprintf("the input_ metrics show more than was handed in: published %v, handed in %v; %s", pub, handed, describe(i))
		}
		if st.op == 'C' && !pub.covers(closedSum) {
			return "receiver:account-after-close", fmt.Sprintf("connection %d was flushed and closed but the input_ metrics lack what it handed in: published %v, closed connections handed in %v (all connections so far: %v); %s",
				st.conn+1, pub, closedSum, handed, describe(i))
		}
	}
	pub := readMetrics(mc)
	if !pub.notMoreThan(handed) || !pub.covers(handed) {
		return "receiver:account-after-close", fmt.Sprintf("all connections closed: published %v, handed in %v; %s", pub, handed, describe(len(tl)-1))
	}
	arrived := 0
	for _, c := range conns {
		arrived += len(c.out.got)
	}
	if uint64(arrived) != pub.passed {
		return "receiver:account-wrong-side", fmt.Sprintf("all connections closed: %d records arrived downstream but passed=%d (%v); %s", arrived, pub.passed, pub, describe(len(tl)-1))
	}
	for ci, c := range conns {
		if c.out.lateAccept || !c.out.closed {
			return "receiver:delivery", fmt.Sprintf("connection %d: downstream sink closed=%v, records after its Close=%v; %s", ci+1, c.out.closed, c.out.lateAccept, describe(len(tl)-1))
		}
		if uint64(len(c.out.got)) < uint64(len(c.delivered)) || uint64(len(c.out.got)) > uint64(len(c.delivered))+c.sum.undecided {
			return "receiver:delivery", fmt.Sprintf("connection %d: %d records arrived downstream, %d lines must parse (%d more may); %s", ci+1, len(c.out.got), len(c.delivered), c.sum.undecided, describe(len(tl)-1))
		}
		seen := map[*base.LogRecord]bool{}
		k := 0 // next line that must have arrived
		for ri, rec := range c.out.got {
			if rec == nil || seen[rec] {
				return "receiver:delivery", fmt.Sprintf("connection %d: record %d downstream is nil or a record that was already delivered; %s", ci+1, ri+1, describe(len(tl)-1))
			}
			seen[rec] = true
			if k == len(c.delivered) {
				continue // the record of a line outside the faithfulness claim (its count was checked above)
			}
			line := c.delivered[k]
			if key, msg := checkRecord(e, line, refParse(line), rec, L); key != "" {
				if len(c.out.got)-ri > len(c.delivered)-k {
					continue // may be the record of a line outside the faithfulness claim: enough records left for the lines that must arrive
				}
				return "receiver:" + key, fmt.Sprintf("connection %d, record %d downstream, read after the connections were closed, compared with the line %d that must arrive: %s; %s", ci+1, ri+1, k+1, msg, describe(len(tl)-1))
			}
			k++
		}
		if k != len(c.delivered) {
			return "receiver:delivery", fmt.Sprintf("connection %d: only %d of the %d lines that parse arrived downstream in order; %s", ci+1, k, len(c.delivered), describe(len(tl)-1))
		}
	}
	return "", ""
}

func enumerateReceiver(ctx *seq.Ctx) {
	maxLen := 4
	if ctx.Thorough() {
		maxLen = 6
	}
	ctx.Group("receiver/sequences")
	for n := 0; n <= maxLen; n++ {
		idx := make([]int, n)
		for !ctx.Stop() {
			b := make([]byte, n)
			for i, x := range idx {
				b[i] = receiverOps[x]
			}
			ops := string(b)
			for mode := 0; mode < 3; mode++ {
				for variant := 0; variant < 3; variant++ {
					mode, variant := mode, variant
					name := ops
					if name == "" {
						name = "none"
					}
					id := fmt.Sprintf("receiver/%s/conn%d/buf%d", name, mode, variant)
					ctx.Case(id, true, id, func() (string, string) { return checkReceiver(ops, mode, variant) })
				}
			}
			p := n - 1
			for p >= 0 {
				idx[p]++
				if idx[p] < len(receiverOps) {
					break
				}
				idx[p] = 0
				p--
			}
			if p < 0 {
				break
			}
		}
	}
}
