package main

// Alphabet dimensions of C09: every ROLE POSITION of the line grammar (first token / each of the six header tokens /
// message; leading, inner, trailing, sole, at the message limit) x a COMPLETE alphabet: all 256 byte values, every
// character of a table of special code points (all of Latin-1, every Unicode white-space and invisible format character,
// the BOM, the ends of the UTF-8 length classes), and a menu of multi-byte pieces that mean something to line-oriented
// software (CR LF, NUL, escape sequences, brackets, a second syslog header, printf verbs ...). Plus the structured-data
// grammar: all sequences of up to three elements. The oracle is the one of every other group (checkLine): the reference
// splits on the first seven spaces and nothing else, so none of these bytes has a meaning.

import (
	"fmt"
	"strings"
	"unicode/utf8"

	"slogverif/seq"
)

type runFunc func(id string, e *env, line string, msgLimit int, tok *[6]string, msg *string)

// position-typical tokens; the structured data is bracketed so that bytes swept through it sit inside / between elements
var sweepBase = [6]string{"2020-01-02T03:04:05Z", "web-1.example.com", "my-app", "12345", "ID47", `[ex@1_k="v"][b_q="w"]`}

// specialRunes: code points >= 0x80 (single bytes are the byte sweep) that some library function treats specially.
func specialRunes() []rune {
	var rs []rune
	for r := rune(0x80); r <= 0xFF; r++ { // C1 controls (NEL 0x85), NBSP 0xA0, soft hyphen 0xAD, Latin-1 letters
		rs = append(rs, r)
	}
	rs = append(rs, 0x1680, 0x180E)           // Ogham space mark, Mongolian vowel separator
	for r := rune(0x2000); r <= 0x200F; r++ { // en quad .. hair space, zero-width space / joiners, LRM, RLM
		rs = append(rs, r)
	}
	rs = append(rs,
		0x2028, 0x2029, 0x202A, 0x202E, 0x202F, 0x205F, 0x2060, 0x3000, // line / paragraph separator, bidi, narrow NBSP, word joiner, ideographic space
		0xFEFF, 0xFFF9, 0xFFFD, 0xFFFE, 0xFFFF, // BOM, annotation anchor, replacement character, non-characters
		0x7FF, 0x800, 0xD7FF, 0xE000, 0x10000, 0x1F600, 0xE0001, 0x10FFFF, // ends of the 2-/3-/4-byte classes, around the surrogates, a tag character
	)
	return rs
}

// pieces: byte strings of more than one byte (or one byte in a role worth a name) that line-oriented code tends to treat specially
var specialPieces = []string{
	"\r\n", "\n", "\n\n", "\r", "\r\r", "\n\r", "  ", "   ", " \t", "\t", "\t ", "\x00", "\x00\x00", "\x1b[0m", "\x7f", "\x08",
	"] ", "[x] ", "[x]", "[x][y] ", "]", "[", "- ", "-", " - ", "<13>1 ", "<13>1 2020-01-02T03:04:05Z h a p m - x", "<", ">",
	`\n`, `\\`, `\`, `\]`, `"`, `'`, "%s", "%", "%!d(string=", "{}", "${x}",
	"\ufeff\ufeff", "\ufeff ", " \ufeff", "\ufeffBOM", "\xef\xbb", "\xef", "\xbb\xbf", "\xef\xbb\xbf\xef\xbb\xbf\xef",
	"\u00a0\u00a0", "\u0085 ", "\u2028\u2029", "\u00a0\u3000", "e\u0301", "\U0001F468\u200d\U0001F469", // NBSP, NEL, separators, combining mark, ZWJ sequence
}

type shape struct{ name, s string }

// messageShapes: the unit u in every role a message byte can have. L = message limit.
func messageShapes(u string, L int) []shape {
	out := []shape{
		{"lead", u + "essage body 1"},
		{"trail", "message body 2" + u},
		{"inner", "mess" + u + "age 3"},
		{"sole", u},
		{"lead2", u + u + "x"},
		{"trail2", "x" + u + u},
		{"wrap", u + "body" + u},
	}
	n := len(u)
	if L-n >= 0 {
		out = append(out,
			shape{"fit-lead", u + asciiPad(L-n, 1)},         // exactly the limit: not cut, not counted
			shape{"over-lead", u + asciiPad(L-n+1, 1)},      // limit + 1 with the unit counted in: cut and counted
			shape{"fit-trail", asciiPad(L-n, 2) + u},        // unit ends exactly at the limit, nothing behind it
			shape{"over-trail", asciiPad(L-n+1, 2) + u},     // limit + 1, the unit is the last thing and straddles the limit by one byte
			shape{"kept-last", asciiPad(L-n, 2) + u + "zz"}, // unit is the last thing that fits
		)
		for k := 1; k <= n; k++ { // the last k bytes of the unit are behind the limit (k = n: the unit is the first thing dropped)
			out = append(out, shape{fmt.Sprintf("straddle%d", k), asciiPad(L-n+k, 2) + u + "zz"})
		}
	}
	return out
}

// tokenShapes: the unit u in every role inside the header token t.
func tokenShapes(u, t string) []shape {
	return []shape{
		{"first", u + t[1:]},
		{"last", t[:len(t)-1] + u},
		{"mid", t[:len(t)/2] + u + t[len(t)/2:]},
		{"sole", u},
		{"pre", u + t},
		{"app", t + u},
	}
}

// sizedLine: a well-formed line around msg; target 0 = natural header (host "h", padded up to the minimal supported
// length), else the host token is sized so that the whole line has target bytes.
func sizedLine(msg string, target int) (string, [6]string, bool) {
	if target != 0 {
		return lineWithLength(14, msg, target)
	}
	tok := [6]string{"2020-01-02T03:04:05Z", "h", "app", "77", "mid", "-"}
	line := buildLine("<14>1", tok, msg)
	if len(line) < minSupportedLength {
		tok[1] = strings.Repeat("h", 1+minSupportedLength-len(line))
		line = buildLine("<14>1", tok, msg)
	}
	return line, tok, true
}

func unitName(u string) string {
	if len(u) == 1 {
		return fmt.Sprintf("x%02x", u[0])
	}
	if r, n := utf8.DecodeRuneInString(u); n == len(u) && r != utf8.RuneError {
		return fmt.Sprintf("U+%04X", r)
	}
	return fmt.Sprintf("%x", u)
}

func enumerateSweeps(ctx *seq.Ctx, run runFunc, L int) {
	recLimit := L + documentedRecordSlack
	comp, compCustom := envs[envComposite], envs[envCompositeCustom]

	allBytes := make([]string, 256)
	for b := range allBytes {
		allBytes[b] = string([]byte{byte(b)})
	}
	var runes []string
	for _, r := range specialRunes() {
		runes = append(runes, string(r))
	}

	// ---- message roles x alphabets; each at the natural line length and with the line exactly at the record limit
	messageSweep := func(group string, units []string) {
		ctx.Group(group)
		for _, u := range units {
			for _, sh := range messageShapes(u, L) {
				for _, target := range []int{0, recLimit} {
					if ctx.Stop() {
						return
					}
					if !ctx.Mine() {
						ctx.Skip()
						continue
					}
					line, tok, ok := sizedLine(sh.s, target)
					if !ok {
						line, tok, _ = sizedLine(sh.s, 0) // message too long for the target: natural length once more (keeps ordinals aligned)
					}
					msg := sh.s
					run(fmt.Sprintf("%s/L%d/%s/%s/t%d", group, L, unitName(u), sh.name, target), comp, line, L, &tok, &msg)
				}
			}
		}
	}
	messageSweep("sweep/byte@message", allBytes)
	messageSweep("sweep/rune@message", runes)
	messageSweep("sweep/piece@message", specialPieces)

	// ---- header token roles x alphabets
	tokenSweep := func(group string, units []string, shapesOf func(u, t string) []shape) {
		ctx.Group(group)
		for p := 0; p < 6; p++ {
			for _, u := range units {
				for _, sh := range shapesOf(u, sweepBase[p]) {
					if ctx.Stop() {
						return
					}
					if !ctx.Mine() {
						ctx.Skip()
						continue
					}
					tok := sweepBase
					tok[p] = sh.s
					msg := "[m] message after the header] - é"
					line := buildLine("<165>1", tok, msg)
					id := fmt.Sprintf("%s/L%d/p%d/%s/%s", group, L, p, unitName(u), sh.name)
					if strings.Contains(sh.s, " ") || sh.s == "" {
						run(id, compCustom, line, L, nil, nil) // the unit moves the token borders: the reference decides alone
					} else {
						run(id, compCustom, line, L, &tok, &msg)
					}
				}
			}
		}
	}
	tokenSweep("sweep/byte@token", allBytes, tokenShapes)
	tokenSweep("sweep/rune@token", runes, func(u, t string) []shape { s := tokenShapes(u, t); return []shape{s[0], s[1], s[3]} })
	tokenSweep("sweep/piece@token", specialPieces, func(u, t string) []shape { s := tokenShapes(u, t); return []shape{s[3], s[4], s[5]} })

	// ---- first token (PRI and version) x all bytes
	ctx.Group("sweep/byte@pri")
	for _, u := range allBytes {
		firsts := []shape{
			{"digit1", "<" + u + ">1"}, {"digit2", "<1" + u + ">1"}, {"digit1of2", "<" + u + "1>1"}, {"digit3", "<10" + u + ">1"},
			{"gt", "<13" + u + "1"}, {"version", "<13>" + u}, {"after-version", "<13>1" + u}, {"lt", u + "13>1"}, {"before-lt", u + "<13>1"},
		}
		for _, sh := range firsts {
			for ti, tok := range [][6]string{typicalTokens, nilTokens} {
				line := buildLine(sh.s, tok, "a message that is long enough é")
				run(fmt.Sprintf("sweep/byte@pri/L%d/%s/%s/%d", L, unitName(u), sh.name, ti), comp, line, L, nil, nil)
			}
		}
	}

	// ---- structured data: all sequences of 1..3 elements x message beginnings (and the line without MSG part)
	ctx.Group("sd-grammar")
	elements := []string{"[a]", `[b@1_k="v"]`, `[c_k="\]"]`, "x", "]", "[", "-"}
	msgs := []string{"m", "[m] x", "] x", " x", "", "- x", "x]", "\ufeffx"}
	var sds []string
	for n := 1; n <= 3; n++ {
		idx := make([]int, n)
		for {
			var sb strings.Builder
			for _, i := range idx {
				sb.WriteString(elements[i])
			}
			sds = append(sds, sb.String())
			p := n - 1
			for p >= 0 {
				idx[p]++
				if idx[p] < len(elements) {
					break
				}
				idx[p] = 0
				p--
			}
			if p < 0 {
				break
			}
		}
	}
	for si, sd := range sds {
		tok := sweepBase
		tok[5] = sd
		for mi, msg := range msgs {
			msg := msg
			run(fmt.Sprintf("sd-grammar/L%d/%d/m%d", L, si, mi), compCustom, buildLine("<165>1", tok, msg), L, &tok, &msg)
		}
		run(fmt.Sprintf("sd-grammar/L%d/%d/nomsg", L, si), compCustom, strings.TrimSuffix(buildLine("<165>1", tok, ""), " "), L, nil, nil)
	}

	// ---- one header position at a time: the whole token menu plus shapes taken from the other fields' grammars
	ctx.Group("tokens/one-position-extended")
	extra := []string{"[a][b]", "[a]", "]", "[", "--", "\ufeff", "\ufeffx", "\r", "x\r", "\x00", `"q"`, "%s", "0", "1", "-1", "<", ">", "<13>", "1", "2020-01-02T03:04:05Z", "\u00a0", "\u3000", "\x1b[31m"}
	for p := 0; p < 6; p++ {
		menu := append(tokenMenu(p), extra...)
		for mi, t := range menu {
			for bi, bg := range [][6]string{typicalTokens, nilTokens} {
				for gi, msg := range []string{"m", " lead", "", "[x] y", strings.Repeat("é", L)} {
					tok, msg := bg, msg
					tok[p] = t
					run(fmt.Sprintf("tok1/L%d/p%d/%d/%d/%d", L, p, mi, bi, gi), comp, buildLine("<165>1", tok, msg), L, &tok, &msg)
				}
			}
		}
	}

	// ---- lines without MSG part around the record limit and around the length of the excerpt quoted in warnings (200)
	ctx.Group("nomsg/lengths")
	for _, sd := range []string{"-", "[a][b]"} {
		for _, target := range []int{198, 199, 200, 201, 202, recLimit - 2, recLimit - 1, recLimit, recLimit + 1, recLimit + 2, recLimit + 300} {
			tok := [6]string{"2020-01-02T03:04:05Z", "", "app", "77", "mid", sd}
			fixed := len(buildLine("<14>1", tok, "")) - 1
			h := make([]byte, target-fixed)
			for i := range h {
				h[i] = "host-0123456789."[i%16]
			}
			tok[1] = string(h)
			line := strings.TrimSuffix(buildLine("<14>1", tok, ""), " ")
			run(fmt.Sprintf("nomsg/L%d/%s/%d", L, sd, target), comp, line, L, nil, nil)
		}
	}

	// ---- rejected / over-long lines whose 200th byte (end of the excerpt quoted in the warning) falls into a character
	ctx.Group("warning-excerpt-200")
	for _, ch := range []string{"a", "é", "€", "😀", "\xff"} {
		for start := 200 - len(ch); start <= 200; start++ { // the character begins at this offset of the line
			heads := []shape{
				{"missing-field", "<13>1 2020-01-02T03:04:05Z "},
				{"pri-999", buildLine("<999>1", sweepBase, "")},
				{"overflow", buildLine("<13>1", sweepBase, "")},
				{"bad-version", buildLine("<13>2", sweepBase, "")},
			}
			for _, h := range heads {
				if start < len(h.s) {
					continue
				}
				fill := strings.Repeat("x", start-len(h.s))
				for _, tail := range []string{"", "y", strings.Repeat("y", 40)} {
					line := h.s + fill + ch + tail
					run(fmt.Sprintf("excerpt/L%d/%s/%s/%d/%d", L, h.name, unitName(ch), start, len(tail)), comp, line, L, nil, nil)
				}
			}
		}
	}
}
