package main

// History dimensions of C09: ONE long-lived parser (as one connection has), many lines.
//  - runs: N copies of one kind of line (every way a line can fail to be well-formed, over-long messages, good lines),
//    N around 10 / 100 / 256 / 1000 / 65536, alone, framed by and interleaved with good lines, and two kinds in blocks;
//  - pool-sizes: line lengths around every power of two (the allocator pools backing buffers by 2^n) and around the pooling
//    threshold, all ordered pairs, records released or kept;
//  - sweep-history: a whole alphabet sweep through one parser.
// Oracle (checkSeries): every line moves passed+dropped by exactly one record and its length (read after UpdateMetrics,
// after every line or once at the end), the side is the one the returned record shows, the overflow label moves exactly for
// over-long messages, every record is faithful right after Parse AND - when kept - after all later lines.

import (
	"fmt"
	"strings"

	"github.com/relex/slog-agent/base"
	"github.com/relex/slog-agent/defs"

	"slogverif/seq"
)

const keepAll = -1

type seriesOpt struct {
	L int
	// lag: when a record goes back to the allocator (as the pipeline does after serialization). keepAll = never, all records
	// are re-checked at the end; 0 = right after it was checked; k > 0 = after k more records came out of the parser, the
	// record is re-checked just before (live records and recycled buffers coexist)
	lag     int
	perLine bool // read the counters after every line
	pool    int  // InputLogMinRecordBytesToPool for the case (0 = as shipped)
	prefix  string
}

func checkSeries(e *env, lines []string, o seriesOpt) (string, string) {
	L := setLimits(o.L)
	if o.pool > 0 {
		saved := defs.InputLogMinRecordBytesToPool
		defs.InputLogMinRecordBytesToPool = o.pool
		defer func() { defs.InputLogMinRecordBytesToPool = saved }()
	}
	in := newInstance(e)
	type kept struct {
		n    int
		line string
		rec  *base.LogRecord
	}
	var keep []kept
	var want metrics                 // exact expectations
	var ovSlack, ovSlackBytes uint64 // lines outside the faithfulness claim that were accepted: they may or may not count as overflow
	compare := func(n int, what string) (string, string) {
		m := in.read()
		if m.passed != want.passed || m.dropped != want.dropped {
			return o.prefix + "account:count", fmt.Sprintf("%s (line %d of %d through one parser; last line %s): passed=%d dropped=%d, handed in so far: %d returned as records, %d rejected",
				what, n+1, len(lines), show(lines[n]), m.passed, m.dropped, want.passed, want.dropped)
		}
		if m.passedBytes != want.passedBytes || m.droppedBytes != want.droppedBytes {
			return o.prefix + "account:bytes", fmt.Sprintf("%s (line %d of %d through one parser; last line %s): passed bytes=%d (expected %d) dropped bytes=%d (expected %d)",
				what, n+1, len(lines), show(lines[n]), m.passedBytes, want.passedBytes, m.droppedBytes, want.droppedBytes)
		}
		if m.overflow < want.overflow || m.overflow > want.overflow+ovSlack || m.overflowBytes < want.overflowBytes || m.overflowBytes > want.overflowBytes+ovSlackBytes {
			return o.prefix + "overflow", fmt.Sprintf("%s (line %d of %d through one parser; last line %s): overflow=%d records / %d bytes, expected %d / %d",
				what, n+1, len(lines), show(lines[n]), m.overflow, m.overflowBytes, want.overflow, want.overflowBytes)
		}
		return "", ""
	}
	for n, line := range lines {
		rec := in.parseOne(line)
		ref := refParse(line)
		if key, msg := checkRecord(e, line, ref, rec, L); key != "" {
			return o.prefix + key, fmt.Sprintf("line %d of %d through one parser: %s", n+1, len(lines), msg)
		}
		if rec != nil {
			want.passed++
			want.passedBytes += uint64(len(line))
		} else {
			want.dropped++
			want.droppedBytes += uint64(len(line))
		}
		switch {
		case ref.class == clsWellFormed && rec != nil && len(ref.msg) > L:
			want.overflow++
			want.overflowBytes += uint64(len(line))
		case ref.class == clsOther && rec != nil, ref.class == clsWellFormed && rec == nil && len(ref.msg) > L:
			// outside the faithfulness claim but accepted, or a tolerated rejection (header outside RFC 5424) of a line with an
			// over-long message: the statement does not say whether these count as overflow
			ovSlack++
			ovSlackBytes += uint64(len(line))
		}
		if rec != nil {
			if o.lag == 0 {
				in.alloc.Release(rec)
			} else {
				keep = append(keep, kept{n, line, rec})
			}
			if o.lag > 0 && len(keep) > o.lag {
				k := keep[0]
				keep = keep[1:]
				if key, msg := checkRecord(e, k.line, refParse(k.line), k.rec, L); key != "" {
					return o.prefix + "later:" + key, fmt.Sprintf("record of line %d re-read after %d more lines went through the same parser (records released %d lines late): %s", k.n+1, n-k.n, o.lag, msg)
				}
				in.alloc.Release(k.rec)
			}
		}
		if o.perLine {
			if key, msg := compare(n, "after this line"); key != "" {
				return key, msg
			}
		}
	}
	if len(lines) > 0 {
		if key, msg := compare(len(lines)-1, "after the whole series"); key != "" {
			return key, msg
		}
	}
	for _, k := range keep {
		if key, msg := checkRecord(e, k.line, refParse(k.line), k.rec, L); key != "" {
			return o.prefix + "later:" + key, fmt.Sprintf("record of line %d re-read after all %d lines went through the same parser: %s", k.n+1, len(lines), msg)
		}
	}
	return "", ""
}

// runKinds: one line per way of (not) being a well-formed line, for message limit L. The list follows the grammar
// "<" PRI ">1" SP six tokens SP MSG and the documented limits, not the parser's branches.
func runKinds(L int) []shape {
	long := func(first string) string { return buildLine(first, typicalTokens, "a message of ordinary length, é") }
	k := []shape{
		{"short", "short line"},
		{"no-lt", "garbage without any header, long enough to pass the length test"},
		{"no-space", "<13>1" + strings.Repeat("x", 40)},
		{"version-2", long("<13>2")},
		{"pri-not-a-number", long("<abc>1")},
		{"pri-empty", long("<>1")},
		{"pri-999", long("<999>1")},
		{"pri-192", long("<192>1")},
		{"pri-no-gt", long("<13")},
		{"empty-token", strings.Replace(long("<13>1"), " my-app ", "  ", 1)},
		{"header-invalid-utf8", strings.Replace(long("<13>1"), "my-app", "my\xffapp", 1)},
		{"header-oversized", strings.Replace(long("<13>1"), "my-app", strings.Repeat("A", L+documentedRecordSlack), 1)},
		{"overflow-ascii", buildLine("<14>1", typicalTokens, asciiPad(L+10, 5))},
		{"overflow-rune3", buildLine("<14>1", nilTokens, buildMessage(kinds[1], 1, 0, L+10))},
		{"overflow-invalid", buildLine("<14>1", nilTokens, buildMessage(kinds[10], 1, 0, L+10))},
		{"good", long("<165>1")},
		{"good-nil", buildLine("<0>1", nilTokens, "the shortest kind of line")},
		{"good-at-limit", buildLine("<191>1", nilTokens, asciiPad(L, 9))},
		{"no-msg", strings.TrimSuffix(buildLine("<86>1", typicalTokens, ""), " ")},
	}
	for have := 1; have <= 5; have++ { // the line ends after `have` of the six header tokens
		line := "<13>1 " + strings.Join(typicalTokens[:have], " ")
		if len(line) < minSupportedLength+3 {
			line += strings.Repeat("x", minSupportedLength+3-len(line))
		}
		k = append(k, shape{fmt.Sprintf("ends-after-token-%d", have), line})
	}
	return k
}

func repeatLine(dst []string, line string, n int) []string {
	for i := 0; i < n; i++ {
		dst = append(dst, line)
	}
	return dst
}

func enumerateRuns(ctx *seq.Ctx) {
	const L = 64
	e := envs[envComposite]
	kindsOf := runKinds(L)
	good := kindsOf[15].s
	if kindsOf[15].name != "good" {
		panic("runKinds: index of the good line moved")
	}

	one := func(id string, lines func() []string, o seriesOpt) {
		if !ctx.Mine() {
			ctx.Skip()
			return
		}
		ctx.Case(id, true, id, func() (string, string) { return checkSeries(e, lines(), o) })
	}

	// ---- runs of one kind
	ctx.Group("runs/one-kind")
	counts := []int{1, 2, 3, 9, 10, 11, 12, 13, 31, 32, 33, 100, 255, 256, 257}
	big := []int{1000, 4097}
	if ctx.Thorough() {
		big = []int{1000, 4097, 65535, 65536, 65537, 300000}
	}
	for _, kd := range kindsOf {
		kd := kd
		for _, n := range append(append([]int{}, counts...), big...) {
			n := n
			patterns := []struct {
				name  string
				lines func() []string
			}{
				{"pure", func() []string { return repeatLine(nil, kd.s, n) }},
				{"framed", func() []string { return append(repeatLine([]string{good}, kd.s, n), good) }},
				{"interleaved", func() []string {
					var l []string
					for i := 0; i < n; i++ {
						l = append(l, kd.s, good)
					}
					return l
				}},
			}
			for _, p := range patterns {
				for _, lag := range []int{keepAll, 0, 2} {
					for _, perLine := range []bool{false, true} {
						if n > 300 && (perLine || lag == keepAll || p.name == "interleaved") {
							continue // the long runs: released records, counters read once at the end
						}
						if lag == 2 && !perLine {
							continue
						}
						one(fmt.Sprintf("runs/%s/%s/n%d/lag%d/perline=%v", kd.name, p.name, n, lag, perLine), p.lines,
							seriesOpt{L: L, lag: lag, perLine: perLine, pool: 16, prefix: "runs:"})
					}
				}
			}
		}
	}

	// ---- two kinds in blocks: A^n B A^n B^n A
	ctx.Group("runs/two-kinds")
	for _, a := range kindsOf {
		for _, b := range kindsOf {
			if a.name == b.name {
				continue
			}
			for _, n := range []int{9, 10, 11} {
				a, b, n := a, b, n
				one(fmt.Sprintf("runs2/%s/%s/n%d", a.name, b.name, n), func() []string {
					l := repeatLine(nil, a.s, n)
					l = append(l, b.s)
					l = repeatLine(l, a.s, n)
					l = repeatLine(l, b.s, n)
					return append(l, a.s)
				}, seriesOpt{L: L, lag: []int{keepAll, 0, 1}[n-9], perLine: true, pool: 16, prefix: "runs:"})
			}
		}
	}

	// ---- line lengths around the powers of two and the pooling threshold, ordered pairs, through one parser
	ctx.Group("pool-sizes")
	const bigL = 8192
	var lengths []int
	for k := 5; k <= 12; k++ {
		lengths = append(lengths, 1<<k-1, 1<<k, 1<<k+1)
	}
	lineOf := func(n, occurrence int) string { // n bytes; the occurrence (one digit) changes host, PRI and message, not the length
		tok := nilTokens
		tok[1] = fmt.Sprintf("h%d.%d", n, occurrence)
		head := buildLine(fmt.Sprintf("<%d>1", 100+(n+occurrence*8)%92), tok, "")
		if len(head) > n {
			return asciiPad(n, n+occurrence) // shorter than any header: a rejected line of that length
		}
		return head + asciiPad(n-len(head), n+occurrence)
	}
	for _, pool := range []int{0, 16} { // pooling threshold as shipped (1024: 1023/1024/1025 are among the lengths) and forced low
		for _, a := range lengths {
			for _, b := range lengths {
				for _, lag := range []int{keepAll, 0, 2} {
					a, b, lag := a, b, lag
					one(fmt.Sprintf("pool/%d/%d-%d/lag%d", pool, a, b, lag), func() []string {
						return []string{lineOf(a, 0), lineOf(b, 1), lineOf(a, 2), "short", lineOf(b, 3), lineOf(a, 4), lineOf(b, 5), lineOf(a, 6)}
					}, seriesOpt{L: bigL, lag: lag, perLine: false, pool: pool, prefix: "pool:"})
				}
			}
		}
	}

	// ---- a whole alphabet through one parser: every byte value in one message role per case
	ctx.Group("sweep-history")
	nshapes := len(messageShapes("x", L))
	for si := 0; si < nshapes; si++ {
		for _, lag := range []int{keepAll, 0, 3} {
			si, lag := si, lag
			one(fmt.Sprintf("sweep-history/%d/lag%d", si, lag), func() []string {
				var l []string
				for b := 0; b < 256; b++ {
					sh := messageShapes(string([]byte{byte(b)}), L)[si]
					line, _, _ := sizedLine(sh.s, 0)
					l = append(l, line)
				}
				for _, r := range specialRunes() {
					if shs := messageShapes(string(r), L); si < len(shs) {
						line, _, _ := sizedLine(shs[si].s, 0)
						l = append(l, line)
					}
				}
				return l
			}, seriesOpt{L: L, lag: lag, perLine: true, pool: 16, prefix: "sweep-history:"})
		}
	}
}
