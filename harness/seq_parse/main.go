// Command seq_parse decides C09: syslog header parsing is faithful and every message is accounted for. Bounded-exhaustive
// enumeration of lines through the real syslogparser against the reference parser of DESIGN.md Appendix A.2 (ref.go).
// main.go: configurations, per-line oracle, the PRI / token-product / length / message groups and the older histories;
// sweep.go: alphabet sweeps over the role positions of the grammar; runs.go: run, pool-size and sweep histories through one
// parser; receiver.go: the parsing receiver that owns parser and counters in production.
package main

import (
	"fmt"
	"runtime/debug"
	"strings"
	"time"
	"unicode/utf8"

	"github.com/relex/gotils/logger"
	"github.com/relex/gotils/promexporter/promreg"
	"github.com/relex/slog-agent/base"
	"github.com/relex/slog-agent/base/bconfig"
	"github.com/relex/slog-agent/defs"
	"github.com/relex/slog-agent/input/sysloginput"
	"github.com/relex/slog-agent/input/syslogparser"
	"github.com/relex/slog-agent/transform/taddfields"
	"github.com/relex/slog-agent/transform/tdrop"
	"github.com/relex/slog-agent/util"

	"slogverif/seq"
)

// ---------------------------------------------------------------------------------------------------------------------
// configurations

type env struct {
	name       string
	fieldNames []string
	index      map[string]int
	schema     base.LogSchema
	mapping    []string // handed to NewParser (nil = default)
	mapRef     []string // what the reference expects
	// composite: the parser is built by sysloginput.Config.NewParser (the observation point named in the property: the
	// syslog parser wrapped together with the input's extraction transforms), with one extraction that writes a constant
	// into the foreign field "task"
	composite bool
}

const extractedMark = "set-by-extraction"

var (
	schemaPlain    = []string{"facility", "level", "time", "host", "app", "pid", "source", "extradata", "log"}
	schemaShuffled = []string{"class", "log", "extradata", "source", "pid", "app", "host", "time", "level", "facility", "task"}
	tokenFields    = []string{"time", "host", "app", "pid", "source", "extradata"}
)

func newEnv(name string, fields []string, mapping, mapRef []string) *env {
	e := &env{name: name, fieldNames: fields, index: map[string]int{}, schema: base.MustNewLogSchema(fields), mapping: mapping, mapRef: mapRef}
	for i, f := range fields {
		e.index[f] = i
	}
	return e
}

// the first four entries keep their positions (case ids of the older groups refer to them); 4..7 complete the product
// {default, log4j, custom, sparse} x {plain, shuffled+extended schema}; 8.. are built through sysloginput.Config.NewParser
var envs = []*env{
	newEnv("plain/default", schemaPlain, nil, severityRef),
	newEnv("plain/log4j", schemaPlain, log4jRef, log4jRef),
	newEnv("plain/custom", schemaPlain, customRef, customRef),
	newEnv("shuffled/log4j", schemaShuffled, log4jRef, log4jRef),
	newEnv("shuffled/default", schemaShuffled, nil, severityRef),
	newEnv("shuffled/custom", schemaShuffled, customRef, customRef),
	newEnv("plain/sparse", schemaPlain, sparseRef, sparseRef),
	newEnv("shuffled/sparse", schemaShuffled, sparseRef, sparseRef),
	newCompositeEnv("composite/log4j", schemaShuffled, log4jRef),
	newCompositeEnv("composite/custom", schemaShuffled, customRef),
	newCompositeEnv("composite/sparse", schemaShuffled, sparseRef),
}

const (
	envComposite       = 8 // composite/log4j
	envCompositeCustom = 9
)

func newCompositeEnv(name string, fields []string, mapping []string) *env {
	e := newEnv(name, fields, mapping, mapping)
	e.composite = true
	return e
}

// The limits the tree ships with, read before anything is scaled; documentedMsgLimit / documentedRecordSlack are what the
// documentation says about them (DESIGN.md limit table: 1 MiB, record = message + 256).
var shippedMsgLimit, shippedRecLimit = defs.InputLogMaxMessageBytes, defs.InputLogMaxRecordBytes

const (
	documentedMsgLimit    = 1 << 20
	documentedRecordSlack = 256
)

// setLimits scales both limits; msgLimit == limitsAsShipped restores the values the tree ships with and returns the
// DOCUMENTED message limit, which is what the oracle then uses.
const limitsAsShipped = -1

func setLimits(msgLimit int) int {
	if msgLimit == limitsAsShipped {
		defs.InputLogMaxMessageBytes = shippedMsgLimit
		defs.InputLogMaxRecordBytes = shippedRecLimit
		return documentedMsgLimit
	}
	defs.InputLogMaxMessageBytes = msgLimit
	defs.InputLogMaxRecordBytes = msgLimit + documentedRecordSlack
	return msgLimit
}

// ---------------------------------------------------------------------------------------------------------------------
// one parser instance with its own metrics

type instance struct {
	e       *env
	alloc   *base.LogAllocator
	parser  base.LogParser
	counter *base.LogInputCounterSet
	mf      *promreg.MetricFactory
}

func newInstance(e *env) *instance {
	mf := promreg.NewMetricFactory("c09_", nil, nil)
	counter := base.NewLogInputCounter(mf)
	alloc := base.NewLogAllocator(e.schema, 1)
	parser, err := e.newParser(alloc, counter)
	if err != nil {
		panic(err)
	}
	return &instance{e: e, alloc: alloc, parser: parser, counter: counter, mf: mf}
}

func (e *env) inputConfig() *sysloginput.Config {
	ex := []bconfig.LogTransformConfigHolder{
		{Location: "harness", Value: &taddfields.Config{Fields: map[string]string{"task": extractedMark}}},
	}
	// extraction steps with a metric label register their own labelled counters on the connection's input counter set, behind
	// the parser's "overflow": six of them (they match nothing) take the set of labels past any small initial capacity
	for i := 1; i <= 6; i++ {
		var d tdrop.Config
		text := fmt.Sprintf("type: drop\nmatch:\n  app: harness-never-matches-%d\npercentage: 100\nmetricLabel: harness-label-%d\n", i, i)
		if err := util.UnmarshalYamlString(text, &d); err != nil {
			panic(err)
		}
		ex = append(ex, bconfig.LogTransformConfigHolder{Location: "harness", Value: &d})
	}
	return &sysloginput.Config{LevelMapping: e.mapping, Extractions: ex}
}

func (e *env) newParser(alloc *base.LogAllocator, counter *base.LogInputCounterSet) (base.LogParser, error) {
	if e.composite {
		return e.inputConfig().NewParser(logger.Root(), alloc, e.schema, counter)
	}
	return syslogparser.NewParser(logger.Root(), alloc, e.schema, e.mapping, counter)
}

type metrics struct {
	passed, passedBytes, dropped, droppedBytes, overflow, overflowBytes uint64
}

func (in *instance) read() metrics {
	in.counter.UpdateMetrics()
	return readMetrics(in.mf)
}

var recvTime = time.Unix(1600000000, 123456789)

// parseOne hands one line to the parser in a private buffer, scribbles over the buffer afterwards (the receiver reuses
// its read buffer) and returns the record.
func (in *instance) parseOne(line string) *base.LogRecord {
	buf := []byte(line)
	rec := in.parser.Parse(buf, recvTime)
	for i := range buf {
		buf[i] = '#'
	}
	return rec
}

func show(s string) string {
	if len(s) > 90 {
		cut := 90
		for cut > 80 && !utf8.RuneStart(s[cut]) {
			cut--
		}
		return fmt.Sprintf("%q...(%d bytes)", s[:cut], len(s))
	}
	return fmt.Sprintf("%q", s)
}

// checkRecord compares one returned record with the reference reading of the line.
// headerOutsideRFC reports whether the header part of the line (everything in front of the message) holds invalid UTF-8 or
// is by itself longer than what a record may be once its message is cut to the message limit.
// The limits are the documented ones (msgLimit as configured by the case, record limit = message limit + 256), not the
// variables of the code under test.
func headerOutsideRFC(line string, ref refRecord, msgLimit int) bool {
	headerLen := len(line) - len(ref.msg)
	if headerLen < 0 || headerLen > len(line) {
		return false
	}
	if !utf8.ValidString(line[:headerLen]) {
		return true
	}
	msgLen := len(ref.msg)
	if msgLen > msgLimit {
		msgLen = msgLimit
	}
	return headerLen+msgLen > msgLimit+documentedRecordSlack
}

func checkRecord(e *env, line string, ref refRecord, rec *base.LogRecord, msgLimit int) (string, string) {
	switch ref.class {
	case clsPriTooLarge:
		if rec != nil {
			return "pri:out-of-range-accepted", fmt.Sprintf("line %s has a PRI above 191 but a record came back", show(line))
		}
		return "", ""
	case clsOther:
		return "", ""
	case clsNoMsg:
		if rec == nil && headerOutsideRFC(line, ref, msgLimit) {
			return "", "" // as below: a header with invalid UTF-8 or longer than a record may be: either answer
		}
		if rec == nil {
			return "faithful:no-msg-line-dropped", fmt.Sprintf("line %s is well-formed RFC 5424 without the optional MSG part (HEADER SP STRUCTURED-DATA [SP MSG]) but was dropped", show(line))
		}
	case clsWellFormed:
		if rec == nil && headerOutsideRFC(line, ref, msgLimit) {
			// RFC 5424 restricts header fields to printable US-ASCII and the record to the configured size: a header holding
			// invalid UTF-8, or a header that alone exceeds the record limit, is not a well-formed line in the sense of the
			// statement. Either answer is accepted for it: parsed faithfully (checked below) or rejected and counted (the
			// accounting oracle still applies).
			return "", ""
		}
		if rec == nil {
			return "faithful:wellformed-dropped", fmt.Sprintf("well-formed line %s was dropped", show(line))
		}
	}
	get := func(name string) string { return rec.Fields[e.index[name]] }
	if got, want := get("facility"), facilityRef[ref.pri/8]; got != want {
		return "faithful:facility", fmt.Sprintf("PRI %d: facility %q, expected %q; line %s", ref.pri, got, want, show(line))
	}
	if got, want := get("level"), e.mapRef[ref.pri%8]; got != want {
		return "faithful:level", fmt.Sprintf("PRI %d, mapping %v: level %q, expected %q; line %s", ref.pri, e.mapRef, got, want, show(line))
	}
	for i, name := range tokenFields {
		if got := get(name); got != ref.tokens[i] {
			if len(got) > 0 && strings.Trim(got, "#") == "" {
				return "alias:record-shares-input-buffer", fmt.Sprintf("field %s turned into %s after the caller reused its input buffer; line %s", name, show(got), show(line))
			}
			return "faithful:" + name, fmt.Sprintf("field %s is %s, the line has %s; line %s", name, show(got), show(ref.tokens[i]), show(line))
		}
	}
	if key, why := checkMessage(ref.msg, get("log"), msgLimit, len(line), msgLimit+documentedRecordSlack); key != "" {
		return key, fmt.Sprintf("%s: message limit %d, record limit %d, line length %d, message length %d -> %d; original message %s, got %s (valid UTF-8: %v -> %v)",
			why, msgLimit, msgLimit+documentedRecordSlack, len(line), len(ref.msg), len(get("log")), show(ref.msg), show(get("log")), utf8.ValidString(ref.msg), utf8.ValidString(get("log")))
	}
	for i, name := range e.fieldNames {
		switch name {
		case "facility", "level", "time", "host", "app", "pid", "source", "extradata", "log":
		case "task":
			if e.composite {
				if rec.Fields[i] != extractedMark {
					return "composite:extraction-not-applied", fmt.Sprintf("the parser was built by sysloginput.Config.NewParser with an extraction that sets field task to %q, but task is %s; line %s", extractedMark, show(rec.Fields[i]), show(line))
				}
				continue
			}
			fallthrough
		default:
			if rec.Fields[i] != "" {
				return "faithful:foreign-field-set", fmt.Sprintf("field %s, which the parser does not own, is %s; line %s", name, show(rec.Fields[i]), show(line))
			}
		}
	}
	return "", ""
}

// checkLine: fresh parser, one line, all oracles.
func checkLine(e *env, line string, msgLimit int, genTokens *[6]string, genMsg *string) (string, string) {
	msgLimit = setLimits(msgLimit)
	ref := refParse(line)
	if genTokens != nil && ref.class == clsWellFormed && (ref.tokens != *genTokens || ref.msg != *genMsg) {
		return "harness:reference-disagrees-with-generator", fmt.Sprintf("line %s: reference %v / %s", show(line), ref.tokens, show(ref.msg))
	}
	in := newInstance(e)
	rec := in.parseOne(line)
	m := in.read()
	// accounting: exactly once, with its byte length, as passed or dropped
	if m.passed+m.dropped != 1 {
		return "account:not-exactly-once", fmt.Sprintf("line %s: passed=%d dropped=%d", show(line), m.passed, m.dropped)
	}
	if m.passedBytes+m.droppedBytes != uint64(len(line)) {
		return "account:bytes", fmt.Sprintf("line %s of %d bytes: passed bytes=%d dropped bytes=%d", show(line), len(line), m.passedBytes, m.droppedBytes)
	}
	if (rec != nil) != (m.passed == 1) || (m.passed == 1) != (m.passedBytes > 0) {
		return "account:wrong-side", fmt.Sprintf("line %s: record returned=%v but passed=%d (%d bytes) dropped=%d (%d bytes)", show(line), rec != nil, m.passed, m.passedBytes, m.dropped, m.droppedBytes)
	}
	if key, msg := checkRecord(e, line, ref, rec, msgLimit); key != "" {
		return key, msg
	}
	// overflow label (a line rejected because its header is outside RFC 5424 / the record limit is only accounted as dropped)
	if ref.class == clsWellFormed && !(rec == nil && headerOutsideRFC(line, ref, msgLimit)) {
		wantOv := uint64(0)
		if len(ref.msg) > msgLimit {
			wantOv = 1
		}
		if m.overflow != wantOv {
			if wantOv == 1 {
				return "overflow:not-counted", fmt.Sprintf("message of %d bytes (limit %d) but overflow counter=%d; line %s", len(ref.msg), msgLimit, m.overflow, show(line))
			}
			return "overflow:counted-without-overflow", fmt.Sprintf("message of %d bytes (limit %d) but overflow counter=%d; line %s", len(ref.msg), msgLimit, m.overflow, show(line))
		}
		if m.overflowBytes != wantOv*uint64(len(line)) {
			return "overflow:bytes", fmt.Sprintf("overflow bytes=%d, line has %d bytes; line %s", m.overflowBytes, len(line), show(line))
		}
	}
	return "", ""
}

// ---------------------------------------------------------------------------------------------------------------------
// generators

func buildLine(first string, tok [6]string, msg string) string {
	var sb strings.Builder
	sb.Grow(len(first) + len(msg) + 300)
	sb.WriteString(first)
	for _, t := range tok {
		sb.WriteByte(' ')
		sb.WriteString(t)
	}
	sb.WriteByte(' ')
	sb.WriteString(msg)
	return sb.String()
}

// the structured data has two elements and an escaped closing bracket inside a value (RFC 5424 6.3: SD-ELEMENTs follow
// each other without a separator; '"', '\\' and ']' are escaped inside PARAM-VALUE); '_' stands where RFC 5424 has a space
var typicalTokens = [6]string{"2019-08-15T15:50:46.866915+03:00", "web-1.example.com", "my-app", "12345", "ID47", `[ex@32473_iut="3"_q="a\]b"][pri@32473_class="high"]`}
var nilTokens = [6]string{"-", "-", "-", "-", "-", "-"}

// token menu; %c is replaced by a letter specific to the position so that swapped fields are noticed
func tokenMenu(pos int) []string {
	c := string(rune('A' + pos))
	return []string{
		"-",                                 // 0 NILVALUE
		typicalTokens[pos],                  // 1
		c,                                   // 2 one character
		"hôst-日本-😀" + c,                     // 3 UTF-8
		strings.Repeat(c+"h", 100),          // 4 200 characters
		"<13>1",                             // 5 looks like the start of a record
		"\xff\xfe" + c,                      // 6 invalid UTF-8
		"\t\x01" + c + "\n[\"]\\",           // 7 control characters, brackets, quotes, backslash
		strings.Repeat(c+"0123456789", 100), // 8 1100 characters: the line is longer than the scaled record limit
		"é",                                 // 9 a single 2-byte character
		"a=b,c;d:e/f" + c,                   // 10 punctuation
		"-" + c,                             // 11 starts with the NIL character
	}
}

var firstTokenMenu = []string{
	"<192>1", "<193>1", "<194>1", "<195>1", "<196>1", "<197>1", "<198>1", "<199>1", "<999>1", "<1000>1", "<1000000000000>1",
	"<99999999999999999999>1", "<-1>1", "<-0>1", "<+5>1", "<1e12>1", "<>1", "<0x1>1", "<007>1", "<00>1", "<0191>1",
	"<5>", "<5>2", "<5>10", "<5>1x", "<5>>1", "<<5>1", "<5.0>1", "<٥>1", "<5", "<>", "<1", "<", "5>1", "", "<5>1\t",
}

// message contents: piece(i) is the i-th character of the kind; ASCII padding bytes depend on their position
type kind struct {
	name   string
	width  int
	pieces []string
}

var kinds = []kind{
	{"rune2", 2, []string{"é", "ß", "Ω", "ж"}},
	{"rune3", 3, []string{"€", "日", "本", "한"}},
	{"rune4", 4, []string{"😀", "𝄞", "🚀", "𐍈"}},
	{"mixed", 0, []string{"a", "é", "€", "😀", " ", "\n"}},
	{"bad-ff", 1, []string{"\xff"}},
	{"bad-continuation", 1, []string{"\x80", "\xbf"}},
	{"bad-lone-lead", 1, []string{"\xc3", "\xe2", "\xf0"}},
	{"bad-cut-rune3", 2, []string{"\xe2\x82"}},
	{"bad-surrogate", 3, []string{"\xed\xa0\x80"}},
	{"bad-overlong", 2, []string{"\xc0\x80"}},
	{"bad-mixed", 0, []string{"é", "\xff", "a", "€", "\x80"}},
	// appended (indices above are referred to elsewhere): bytes and characters that mean something to line-oriented software
	{"spaces", 1, []string{" "}},
	{"controls", 1, []string{"\r", "\x00", "\x7f", "\x1b", "\t", "\n"}},
	{"bom-and-separators", 0, []string{"\ufeff", "\u2028", "\u00a0", "\u0085"}},
}

func asciiPad(n, salt int) string {
	b := make([]byte, n)
	for i := range b {
		b[i] = "abcdefghijklmnopqrstuvwxyz0123456789 .,:"[(i+salt)%40]
	}
	return string(b)
}

// message = k ASCII bytes, then pieces until at least total-t bytes... exactly: pieces while they fit into total-t, then
// ASCII up to total. Returns "" , false if the pieces region would be empty although total-k-t > 0 cannot be filled.
func buildMessage(kd kind, k, t, total int) string {
	if total < k+t {
		return asciiPad(total, 0)
	}
	var sb strings.Builder
	sb.WriteString(asciiPad(k, 3))
	room := total - t
	for i := 0; ; i++ {
		p := kd.pieces[i%len(kd.pieces)]
		if sb.Len()+len(p) > room {
			break
		}
		sb.WriteString(p)
	}
	sb.WriteString(asciiPad(total-sb.Len(), 7))
	return sb.String()
}

// lineWithLength builds a well-formed line with the given message whose total length is target, by sizing the host
// token; returns false when that is impossible.
func lineWithLength(pri int, msg string, target int) (string, [6]string, bool) {
	tok := [6]string{"2020-01-02T03:04:05Z", "", "app", "77", "mid", "-"}
	fixed := len(buildLine(fmt.Sprintf("<%d>1", pri), tok, msg))
	hostLen := target - fixed
	if hostLen < 1 {
		return "", tok, false
	}
	h := make([]byte, hostLen)
	for i := range h {
		h[i] = "host-0123456789."[i%16]
	}
	tok[1] = string(h)
	return buildLine(fmt.Sprintf("<%d>1", pri), tok, msg), tok, true
}

func enumerate(ctx *seq.Ctx) {
	const scaled = 64
	run := func(id string, e *env, line string, msgLimit int, tok *[6]string, msg *string) {
		if !ctx.Mine() {
			ctx.Skip()
			return
		}
		nontrivial := refParse(line).class != clsOther
		ctx.Case(id, nontrivial, line, func() (string, string) { return checkLine(e, line, msgLimit, tok, msg) })
	}

	// ---- G1: every PRI 0..191 x every configuration x two token sets
	ctx.Group("pri/0-191 x mappings")
	for ei, e := range envs {
		for pri := 0; pri <= 191; pri++ {
			for ti, tok := range [][6]string{typicalTokens, nilTokens} {
				tok := tok
				msg := "Something happened here: é 1 2 3"
				line := buildLine(fmt.Sprintf("<%d>1", pri), tok, msg)
				run(fmt.Sprintf("pri/%d/%d/%d", ei, pri, ti), e, line, scaled, &tok, &msg)
			}
		}
	}

	// ---- G2: out-of-range and odd PRI spellings, other versions, lone '<'
	ctx.Group("pri/out-of-range-menu")
	for fi, first := range firstTokenMenu {
		for ti, tok := range [][6]string{typicalTokens, nilTokens} {
			for mi, msg := range []string{"a message that is long enough", ""} {
				line := buildLine(first, tok, msg)
				run(fmt.Sprintf("primenu/%d/%d/%d", fi, ti, mi), envs[1], line, scaled, nil, nil)
			}
		}
	}

	for ri, raw := range []string{"", "<", "<1", "<13>1", "<13>1 ", " ", "\n", "<13>1 - - - - - -", "<13>1 - - - - - - ", strings.Repeat("<", 40), strings.Repeat(" ", 40), strings.Repeat("<13>1 ", 8)} {
		run(fmt.Sprintf("raw/%d", ri), envs[1], raw, scaled, nil, nil)
	}

	// ---- G3: header tokens: every combination of the menu at the six positions
	nmenu := 8
	if ctx.Thorough() {
		nmenu = 12
	}
	ctx.Group(fmt.Sprintf("tokens/%d^6", nmenu))
	var menus [6][]string
	for p := 0; p < 6; p++ {
		menus[p] = tokenMenu(p)
	}
	{
		idx := [6]int{}
		msg := "msg with spaces  and\ttab\nsecond line é"
		for !ctx.Stop() {
			if ctx.Mine() {
				var tok [6]string
				for p := 0; p < 6; p++ {
					tok[p] = menus[p][idx[p]]
				}
				e := envs[1]
				if (idx[0]+idx[5])%2 == 1 {
					e = envs[3]
				}
				line := buildLine("<165>1", tok, msg)
				run(fmt.Sprintf("tok/%d.%d.%d.%d.%d.%d", idx[0], idx[1], idx[2], idx[3], idx[4], idx[5]), e, line, scaled, &tok, &msg)
			} else {
				ctx.Skip()
			}
			p := 5
			for p >= 0 {
				idx[p]++
				if idx[p] < nmenu {
					break
				}
				idx[p] = 0
				p--
			}
			if p < 0 {
				break
			}
		}
	}

	// ---- G4: around the minimal supported length, message present / empty / absent
	ctx.Group("minimal-length")
	for _, first := range []string{"<0>1", "<13>1", "<191>1"} {
		for total := 20; total <= 44; total++ {
			for _, sd := range []string{"-", "[a]"} {
				tok := nilTokens
				tok[5] = sd
				head := buildLine(first, tok, "")
				if len(head) <= total {
					msg := asciiPad(total-len(head), 1)
					run(fmt.Sprintf("minlen/%s/%s/%d", first, sd, total), envs[0], head+msg, scaled, &tok, &msg)
				}
				// without the MSG part: no space after structured data
				tok[1] = strings.Repeat("h", 1+max(0, total-len(head)))
				line := strings.TrimSuffix(buildLine(first, tok, ""), " ")
				run(fmt.Sprintf("nomsg/%s/%s/%d", first, sd, total), envs[0], line, scaled, nil, nil)
			}
		}
	}

	// ---- G5: message bodies around the message limit x total length around the record limit
	limits := []int{scaled}
	if ctx.Thorough() {
		limits = []int{scaled, 67, 5}
	}
	for _, L := range limits {
		recLimit := L + 256
		targets := []int{0, recLimit - 2, recLimit - 1, recLimit, recLimit + 1, recLimit + 2, recLimit + 300} // 0 = shortest header
		emit := func(group, id, msg string) {
			ctx.Group(group)
			for _, target := range targets {
				var line string
				var tok [6]string
				if target == 0 {
					tok = [6]string{"2020-01-02T03:04:05Z", "h", "app", "77", "mid", "-"}
					line = buildLine("<14>1", tok, msg)
					if len(line) < minSupportedLength {
						tok[1] = strings.Repeat("h", 1+minSupportedLength-len(line))
						line = buildLine("<14>1", tok, msg)
					}
				} else {
					var ok bool
					line, tok, ok = lineWithLength(14, msg, target)
					if !ok {
						continue
					}
				}
				m := msg
				where := "short-header"
				if target != 0 {
					where = fmt.Sprintf("rec%+d", target-recLimit)
				}
				run(fmt.Sprintf("%s/%s/%s", group, id, where), envs[1], line, L, &tok, &m)
			}
		}
		// ASCII, every length 0..L+12 and some beyond
		g := fmt.Sprintf("message/L%d/ascii", L)
		for n := 0; n <= L+12; n++ {
			emit(g, fmt.Sprint(n), asciiPad(n, 0))
		}
		for _, n := range []int{2 * L, recLimit - 60, recLimit - 1, recLimit, recLimit + 1, 3 * recLimit} {
			emit(g, fmt.Sprint(n), asciiPad(n, 0))
		}
		// multi-byte and invalid contents: k ASCII bytes, characters, t ASCII bytes; total length around the limit
		for _, kd := range kinds {
			g := fmt.Sprintf("message/L%d/%s", L, kd.name)
			for k := 0; k <= 4; k++ {
				for _, t := range []int{0, 1, 3} {
					lo := L - 6
					if lo < 0 {
						lo = 0
					}
					for total := lo; total <= L+9; total++ {
						emit(g, fmt.Sprintf("k%d.t%d.n%d", k, t, total), buildMessage(kd, k, t, total))
					}
					for _, total := range []int{2*L + 1, recLimit - 50, recLimit + 7} {
						emit(g, fmt.Sprintf("k%d.t%d.n%d", k, t, total), buildMessage(kd, k, t, total))
					}
				}
			}
		}
	}

	// ---- G6: the limits as shipped (the variables of defs are left as the tree initialises them; the oracle uses the
	// documented values 1 MiB / 1 MiB + 256)
	{
		L := documentedMsgLimit
		ctx.Group("message/default-1MiB")
		for _, kd := range []kind{{"ascii", 1, []string{"x"}}, kinds[0], kinds[1], kinds[2], kinds[4]} {
			for k := 0; k < 4; k++ {
				for _, total := range []int{L - 1, L, L + 1, L + 2, L + 3, L + 100, L + 256, L + 1000} {
					if kd.name == "ascii" && k > 0 {
						continue
					}
					id := fmt.Sprintf("default/%s/k%d/n%+d", kd.name, k, total-L)
					if !ctx.Mine() {
						ctx.Skip()
						continue
					}
					msg := buildMessage(kd, k, 0, total)
					tok := [6]string{"2020-01-02T03:04:05Z", "h", "app", "77", "mid", "-"}
					line := buildLine("<14>1", tok, msg)
					run(id, envs[1], line, limitsAsShipped, &tok, &msg)
				}
			}
		}
	}

	// ---- alphabet dimensions (sweep.go), run / pool / sweep histories (runs.go), the receiver that owns the counters (receiver.go)
	for _, L := range limits {
		enumerateSweeps(ctx, run, L)
	}
	enumerateRuns(ctx)
	enumerateReceiver(ctx)

	// ---- G8: all sequences of length <= 3 over the release menu on ONE parser, records released after each line
	ctx.Group("release-history")
	nm := len(releaseMenu(64))
	for a := 0; a < nm; a++ {
		for b := 0; b < nm; b++ {
			ab := []int{a, b}
			ctx.Case(fmt.Sprintf("release-history/%d-%d", a, b), true, fmt.Sprint(ab), func() (string, string) { return checkReleaseSequence(ab) })
			for c := 0; c < nm; c++ {
				abc := []int{a, b, c}
				ctx.Case(fmt.Sprintf("release-history/%d-%d-%d", a, b, c), true, fmt.Sprint(abc), func() (string, string) { return checkReleaseSequence(abc) })
			}
		}
	}

	// ---- G7: histories: one parser, many lines; totals after UpdateMetrics and earlier records stay intact
	ctx.Group("history")
	for variant := 0; variant < 6; variant++ {
		v := variant
		ctx.Case(fmt.Sprintf("history/%d", v), true, fmt.Sprintf("history variant %d", v), func() (string, string) { return checkHistory(v) })
	}
}

// releaseMenu: lines whose PRI values share their digit count pairwise, short and pooled-size, plus lines the parser
// rejects after having allocated a record (the record is released by the parser itself).
func releaseMenu(L int) []string {
	var m []string
	for _, pri := range []int{134, 131, 27, 30, 3, 5} {
		m = append(m, buildLine(fmt.Sprintf("<%d>1", pri), typicalTokens, fmt.Sprintf("short message of pri %d", pri)))
		m = append(m, buildLine(fmt.Sprintf("<%d>1", pri), typicalTokens, asciiPad(L-2, pri)))
	}
	m = append(m, "<27>1 2020-01-02T03:04:05Z only three tokens here-and-nothing-more")
	m = append(m, "<131>1 2020-01-02T03:04:05Z only three tokens here-and-nothing-more-but-longer-than-before-xxxxxxxxxx")
	return m
}

// checkReleaseSequence: ONE parser, every record is checked right after Parse and then RELEASED (as the pipeline does after
// serialization) before the next line is parsed, so pooled records and backing buffers are really reused. seq lists menu
// indices.
func checkReleaseSequence(seqIdx []int) (string, string) {
	const L = 64
	setLimits(L)
	savedPool := defs.InputLogMinRecordBytesToPool
	defs.InputLogMinRecordBytesToPool = 16
	defer func() { defs.InputLogMinRecordBytesToPool = savedPool }()
	menu := releaseMenu(L)
	e := envs[3]
	in := newInstance(e)
	for n, idx := range seqIdx {
		line := menu[idx]
		rec := in.parseOne(line)
		ref := refParse(line)
		if key, msg := checkRecord(e, line, ref, rec, L); key != "" {
			return "release-history:" + key, fmt.Sprintf("line %d of the sequence %v on one parser with records released in between: %s", n+1, seqIdx, msg)
		}
		if rec != nil {
			in.alloc.Release(rec)
		}
	}
	return "", ""
}

// checkHistory feeds a fixed list of lines (well-formed, over-long, malformed) to ONE parser in an order given by the
// variant, with UpdateMetrics called never / after every line / after every third line, keeps every record, and at the
// end compares the totals and re-checks every record (pooled backing buffers must not be shared). Pooling is switched on
// for all records by lowering InputLogMinRecordBytesToPool.
func checkHistory(variant int) (string, string) {
	const L = 64
	setLimits(L)
	savedPool := defs.InputLogMinRecordBytesToPool
	defs.InputLogMinRecordBytesToPool = 16
	defer func() { defs.InputLogMinRecordBytesToPool = savedPool }()
	var lines []string
	for pri := 0; pri <= 191; pri += 7 {
		lines = append(lines, buildLine(fmt.Sprintf("<%d>1", pri), typicalTokens, fmt.Sprintf("message number %d é", pri)))
		lines = append(lines, buildLine(fmt.Sprintf("<%d>1", pri), nilTokens, buildMessage(kinds[1], pri%3, 0, L-3+pri%9)))
		lines = append(lines, "<"+fmt.Sprint(pri)+">1 2020-01-02T03:04:05Z only three tokens here-and-nothing-more")
		lines = append(lines, buildLine("<999>1", typicalTokens, "too large a PRI"))
		l, _, _ := lineWithLength(pri, asciiPad(L+pri%5, pri), L+256+pri%3-1)
		lines = append(lines, l)
		lines = append(lines, "garbage without any header, long enough to pass the length test")
		lines = append(lines, "short")
	}
	order := make([]int, len(lines))
	for i := range order {
		switch variant % 3 {
		case 0:
			order[i] = i
		case 1:
			order[i] = len(lines) - 1 - i
		default:
			order[i] = (i * 37) % len(lines) // 37 is coprime to the number of lines (checked below)
		}
	}
	seen := make([]bool, len(lines))
	for _, o := range order {
		seen[o] = true
	}
	for i, s := range seen {
		if !s {
			return "harness:bad-permutation", fmt.Sprintf("line %d not visited (n=%d)", i, len(lines))
		}
	}
	e := envs[3]
	in := newInstance(e)
	type kept struct {
		line string
		rec  *base.LogRecord
	}
	var keep []kept
	var wantPassed, wantPassedBytes, wantDropped, wantDroppedBytes, wantOv, wantOvBytes uint64
	for n, o := range order {
		line := lines[o]
		rec := in.parseOne(line)
		if rec != nil {
			keep = append(keep, kept{line, rec})
			wantPassed++
			wantPassedBytes += uint64(len(line))
		} else {
			wantDropped++
			wantDroppedBytes += uint64(len(line))
		}
		if ref := refParse(line); ref.class == clsWellFormed && len(ref.msg) > L {
			wantOv++
			wantOvBytes += uint64(len(line))
		}
		if variant >= 3 && n%3 == 0 {
			in.counter.UpdateMetrics()
		}
	}
	m := in.read()
	if m.passed != wantPassed || m.dropped != wantDropped || m.passed+m.dropped != uint64(len(lines)) {
		return "account:history-count", fmt.Sprintf("%d lines handed in (%d records returned): passed=%d dropped=%d", len(lines), wantPassed, m.passed, m.dropped)
	}
	if m.passedBytes != wantPassedBytes || m.droppedBytes != wantDroppedBytes {
		return "account:history-bytes", fmt.Sprintf("passed bytes=%d (expected %d) dropped bytes=%d (expected %d)", m.passedBytes, wantPassedBytes, m.droppedBytes, wantDroppedBytes)
	}
	if m.overflow != wantOv || m.overflowBytes != wantOvBytes {
		return "overflow:history", fmt.Sprintf("overflow=%d/%d bytes, expected %d/%d", m.overflow, m.overflowBytes, wantOv, wantOvBytes)
	}
	for _, k := range keep {
		if key, msg := checkRecord(e, k.line, refParse(k.line), k.rec, L); key != "" {
			return "history:" + key, "after the whole history: " + msg
		}
	}
	return "", ""
}

func main() {
	logger.SetLogLevel(logger.ErrorLevel)
	// every case builds a fresh parser with its own metric registry: with the default setting the tiny live heap makes
	// the collector run thousands of times per second
	debug.SetGCPercent(800)
	debug.SetMemoryLimit(400 << 20)
	seq.Main(&seq.Config{
		Property: "C09",
		Level:    "exploration",
		Rule: "bounded-exhaustive enumeration of lines through syslogparser.NewParser(...).Parse and through sysloginput.Config.NewParser(...).Parse (composite parser with one extraction) with limits scaled to message 64 / record 320 (thorough also 67/323 and 5/261, both tiers also the limits exactly as the tree ships them, judged against the documented 1 MiB / +256): " +
			"ALL PRI 0..191 x {default, log4j, custom, sparse (empty and repeated names)} level mappings x 2 schemas (+ 3 composite configurations) x 2 token sets; a menu of 36 out-of-range / odd first tokens; every combination of an 8 (quick) / 12 (thorough) entry menu at the six header tokens " +
			"(NIL, typical incl. two SD elements with an escaped bracket, 1 char, UTF-8, 200 chars, PRI look-alike, invalid UTF-8, control characters; thorough adds 1100 chars, a single 2-byte character, punctuation, a token starting with the NIL character); lines of 20..44 bytes with and without the MSG part; message bodies of every length 0..L+12 (ASCII) and L-6..L+9 for " +
			"2-/3-/4-byte characters, 7 kinds of invalid bytes, spaces, control bytes (CR NUL DEL ESC TAB LF) and BOM / separators at every alignment (0-4 leading and 0/1/3 trailing ASCII bytes), each with the total line length at the shortest header and at record limit -2..+2 and +300; " +
			"ALPHABET SWEEPS: all 256 byte values, 167 special code points (all of Latin-1 above ASCII, every Unicode white-space / invisible format character, BOM, non-characters, ends of the UTF-8 length classes) and a menu of 54 multi-byte pieces (CR LF, NUL, escape sequences, brackets, a second header, printf verbs, partial BOMs ...) in every role of the message (leading, trailing, inner, sole, doubled, exactly at / one over the limit, as the last kept and the first dropped thing, straddling the limit by every number of bytes; line at natural length and exactly at the record limit), " +
			"in every role of each of the six header tokens (first / last / middle / sole / prepended / appended), all 256 bytes in 9 roles of the first token; all structured-data tokens of 1..3 elements over {[a], [b@1_k=\"v\"], [c_k=\"\\]\"], x, ], [, -} x 8 message beginnings and without MSG; each header position alone over an extended menu of 35 tokens; MSG-less lines around the record limit; rejected / over-long lines with a character across byte 200 (excerpt quoted in warnings); " +
			"HISTORIES through ONE parser: 24 kinds of line (every way of not being well-formed, over-long messages, good lines) in runs of 1,2,3,9..13,31..33,100,255..257,1000,4097 (thorough to 300000), pure / framed by / interleaved with good lines, and all ordered pairs of kinds in blocks of 9/10/11, records kept, released at once or 1-2 lines late, counters read after every line or once; " +
			"all ordered pairs of line lengths 2^k-1, 2^k, 2^k+1 (k=5..12) with the pooling threshold as shipped and forced low; whole alphabet sweeps through one parser; 6 histories of 196 mixed lines; all release sequences of length <= 3 over a 14-line menu; " +
			"RECEIVER: every sequence of <= 4 (thorough 6) steps over {good line, over-long message, 3 rejected kinds, Flush} through bsupport.NewLogParsingReceiver (parser from sysloginput.Config.NewParser) x {one connection, two interleaved, a rejected-only connection closed before} x {intermediate buffer as shipped, 2 records, 150 bytes}, input_ metrics read without the harness ever calling UpdateMetrics; " +
			"oracle: reference parser (split on the first seven spaces), own facility/level tables, exact cut (longest prefix that fits and ends at a character boundary) for valid UTF-8, counters read after UpdateMetrics / after Close; " +
			"non-trivial = the reference classifies the line as well-formed, MSG-less or PRI-too-large (i.e. it gets past the cheap rejections); history and receiver cases are all non-trivial",
		Assumptions: []string{
			"lines shorter than 32 bytes, PRI spellings other than 1-3 digits without leading zero, versions other than 1 and empty header tokens are outside the faithfulness claim: they may be rejected or parsed, but are counted once and must not panic",
			"a decimal PRI above 191 has no facility and must be rejected",
			"a header that holds invalid UTF-8, or that alone is longer than a record may be (message limit + 256, the documented relation), is not well-formed in the sense of the statement: parsed faithfully or rejected and counted, either is accepted (also for MSG-less lines)",
			"an over-long message that is valid UTF-8 is cut to exactly the longest prefix that fits into the limit and ends at a character boundary (statement: 'cut to the configured limit at a valid UTF-8 boundary'; DESIGN A.2); the comment 'non-ASCII bytes at the end are stripped' in config_sample.yml is read as the bytes of the one character the limit falls into",
			"when the original message is not valid UTF-8, bytes >= 0x80 may be missing from a cut message (ASCII bytes in front of the limit may not), and from an uncut one if the line is at least InputLogMaxRecordBytes long (the receiver may have cut it)",
			"the documentation does not say WHEN a connection's counters become visible: the receiver part only requires that nothing is over-counted at any time and that everything a connection handed in is published once it was flushed and closed",
			"the receive timestamp and the Unescaped mark of the record are not part of the statement and are not checked",
			"the shipped limits are judged against the documented values (1 MiB message, record = message + 256), not against the variables of the tree",
		},
		Enumerate:        enumerate,
		QuickDeadline:    4 * time.Minute,
		ThoroughDeadline: 45 * time.Minute,
	})
}
