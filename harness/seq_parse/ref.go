package main

// Reference side of C09 (DESIGN.md Appendix A.2), written from RFC 5424, the package comment of syslogparser, the field
// list in testdata/config_sample.yml and the property statement. It shares nothing with the parser under test.

import (
	"fmt"
	"strings"
	"unicode/utf8"
)

// RFC 5424 table 1 (facility keywords as listed in input/syslogprotocol's documentation comments)
var facilityRef = []string{
	"kern", "user", "mail", "daemon", "auth", "syslog", "lpr", "news", "uucp", "cron", "authpriv", "ftp",
	"ntp", "audit", "alert", "clock", "local0", "local1", "local2", "local3", "local4", "local5", "local6", "local7",
}

// level mappings: the default keywords, the log4j mapping of config_sample.yml and eight arbitrary custom names
var (
	severityRef = []string{"emerg", "alert", "crit", "err", "warn", "notice", "info", "debug"}
	log4jRef    = []string{"off", "fatal", "crit", "error", "warn", "notice", "info", "debug"}
	customRef   = []string{"L0", "l-1", "two", "III", "4", "five5", "s i x", "sévèn"}
	sparseRef   = []string{"", "same", "same", "", "x", "same", "y y", "-"} // empty and repeated names: the mapping is positional
)

type lineClass int

const (
	clsOther       lineClass = iota // not well-formed, or below the minimal supported length: only accounting and no panic
	clsWellFormed                   // faithfulness claim applies
	clsNoMsg                        // well-formed RFC 5424 line without the optional [SP MSG] part
	clsPriTooLarge                  // "<" digits ">1" header with a decimal value that has no facility: must be rejected
)

type refRecord struct {
	class  lineClass
	pri    int
	tokens [6]string // time host app pid source(msgid) extradata(sd)
	msg    string
}

const minSupportedLength = 32 // "at least the minimal supported length": the documented recogniser of A.1

// refParse splits on the first seven spaces.
func refParse(line string) refRecord {
	var r refRecord
	parts := strings.SplitN(line, " ", 8)
	if len(parts) < 7 {
		return r
	}
	first := parts[0]
	if len(first) < 4 || first[0] != '<' || !strings.HasSuffix(first, ">1") {
		return r
	}
	digits := first[1 : len(first)-2]
	if len(digits) == 0 {
		return r
	}
	val := 0
	for i := 0; i < len(digits); i++ {
		if digits[i] < '0' || digits[i] > '9' {
			return r
		}
		if val < 1000000 {
			val = val*10 + int(digits[i]-'0')
		}
	}
	for i := 1; i <= 6; i++ {
		if len(parts[i]) == 0 {
			return r // empty token: not RFC 5424 (NILVALUE is "-")
		}
	}
	if val > 191 {
		r.class = clsPriTooLarge
		return r
	}
	if len(digits) > 3 || (len(digits) > 1 && digits[0] == '0') {
		return r // PRIVAL is 1*3DIGIT without leading zeros: other spellings are outside the faithfulness claim
	}
	if len(line) < minSupportedLength {
		return r
	}
	r.pri = val
	copy(r.tokens[:], parts[1:7])
	if len(parts) == 7 {
		r.class = clsNoMsg
		return r
	}
	r.class = clsWellFormed
	r.msg = parts[7]
	return r
}

// onlyNonASCIIRemoved reports whether got can be obtained from want by deleting bytes >= 0x80 only.
func onlyNonASCIIRemoved(want, got string) bool {
	j := 0
	for i := 0; i < len(want); i++ {
		if j < len(got) && want[i] == got[j] {
			j++
			continue
		}
		if want[i] < 0x80 {
			return false
		}
	}
	return j == len(got)
}

// longestValidPrefix returns the cut position the statement asks for: the largest character boundary of the (valid
// UTF-8) message that is not behind limit. len(msg) > limit.
func longestValidPrefix(msg string, limit int) int {
	cut := limit
	for cut > 0 && !utf8.RuneStart(msg[cut]) {
		cut--
	}
	return cut
}

// checkMessage compares the message field with the message part of the line. limit = InputLogMaxMessageBytes,
// rawLen = length of the whole line, recLimit = InputLogMaxRecordBytes.
//
// Over-long message, original valid UTF-8: "cut to the configured limit at a valid UTF-8 boundary" = exactly the longest
// prefix that ends at a character boundary and is not longer than the limit (DESIGN.md A.2: "the longest prefix p of
// msg[:L] such that p is valid UTF-8", so len(p) > L-4 always). Only the bytes of the ONE character the limit falls into
// may be missing. Original not valid UTF-8: the documentation only promises that the result is not made worse
// ("non-ASCII bytes at the end are stripped"), so bytes >= 0x80 may be missing, ASCII bytes may not.
func checkMessage(msg, got string, limit, rawLen, recLimit int) (string, string) {
	validIn := utf8.ValidString(msg)
	if len(msg) <= limit {
		if got == msg {
			return "", ""
		}
		if rawLen >= recLimit && !validIn && onlyNonASCIIRemoved(msg, got) {
			return "", "" // tolerated: a record at the record limit may have been cut by the receiver; invalid bytes are stripped
		}
		return "faithful:message", "message (within the limit) differs from the message part of the line"
	}
	if len(got) > limit {
		return "truncate:longer-than-limit", "over-long message was not cut to the limit"
	}
	if validIn {
		want := msg[:longestValidPrefix(msg, limit)]
		switch {
		case got == want:
			return "", ""
		case !strings.HasPrefix(msg, got):
			return "truncate:not-a-prefix", "cut message is not a prefix of the original message"
		case !utf8.ValidString(got):
			return "truncate:invalid-utf8", "the original message is valid UTF-8 but the cut message is not (cut inside a multi-byte character)"
		default:
			// a valid prefix that is not the longest one: complete characters (or ASCII bytes) in front of the limit were removed
			return "truncate:too-short", fmt.Sprintf("the cut message is %d bytes shorter than the longest prefix of the original that fits into the limit and ends at a character boundary (%d bytes): more than the one partial character was removed", len(want)-len(got), len(want))
		}
	}
	if !strings.HasPrefix(msg, got) {
		if !onlyNonASCIIRemoved(msg[:limit], got) {
			return "truncate:not-a-prefix", "cut message is not a prefix of the original message"
		}
		return "", "" // invalid original: stripping invalid bytes is tolerated
	}
	if len(got) <= limit-4 {
		for i := len(got); i < limit; i++ {
			if msg[i] < 0x80 {
				return "truncate:too-short", "more than a partial character was removed from the end of the cut message"
			}
		}
	}
	return "", ""
}
