package main

// Reference side of C09 (DESIGN.md Appendix A.2), written from RFC 5424, the package comment of syslogparser, the field
// list in testdata/config_sample.yml and the property statement. It shares nothing with the parser under test.

import (
	"strings"
	"unicode/utf8"
)

// RFC 5424 table 1 (facility keywords as listed in input/syslogprotocol's documentation comments)
var facilityRef = []string{
	"kern", "user", "mail", "daemon", "auth", "syslog", "lpr", "news", "uucp", "cron", "authpriv", "ftp",
	"ntp", "audit", "alert", "clock", "local0", "local1", "local2", "local3", "local4", "local5", "local6", "local7",
}

// level mappings: the default keywords, the log4j mapping of config_sample.yml and eight arbitrary custom names
var (
	severityRef = []string{"emerg", "alert", "crit", "err", "warn", "notice", "info", "debug"}
	log4jRef    = []string{"off", "fatal", "crit", "error", "warn", "notice", "info", "debug"}
	customRef   = []string{"L0", "l-1", "two", "III", "4", "five5", "s i x", "sévèn"}
)

type lineClass int

const (
	clsOther       lineClass = iota // not well-formed, or below the minimal supported length: only accounting and no panic
	clsWellFormed                   // faithfulness claim applies
	clsNoMsg                        // well-formed RFC 5424 line without the optional [SP MSG] part
	clsPriTooLarge                  // "<" digits ">1" header with a decimal value that has no facility: must be rejected
)

type refRecord struct {
	class  lineClass
	pri    int
	tokens [6]string // time host app pid source(msgid) extradata(sd)
	msg    string
}

const minSupportedLength = 32 // "at least the minimal supported length": the documented recogniser of A.1

// refParse splits on the first seven spaces.
func refParse(line string) refRecord {
	var r refRecord
	parts := strings.SplitN(line, " ", 8)
	if len(parts) < 7 {
		return r
	}
	first := parts[0]
	if len(first) < 4 || first[0] != '<' || !strings.HasSuffix(first, ">1") {
		return r
	}
	digits := first[1 : len(first)-2]
	if len(digits) == 0 {
		return r
	}
	val := 0
	for i := 0; i < len(digits); i++ {
		if digits[i] < '0' || digits[i] > '9' {
			return r
		}
		if val < 1000000 {
			val = val*10 + int(digits[i]-'0')
		}
	}
	for i := 1; i <= 6; i++ {
		if len(parts[i]) == 0 {
			return r // empty token: not RFC 5424 (NILVALUE is "-")
		}
	}
	if val > 191 {
		r.class = clsPriTooLarge
		return r
	}
	if len(digits) > 3 || (len(digits) > 1 && digits[0] == '0') {
		return r // PRIVAL is 1*3DIGIT without leading zeros: other spellings are outside the faithfulness claim
	}
	if len(line) < minSupportedLength {
		return r
	}
	r.pri = val
	copy(r.tokens[:], parts[1:7])
	if len(parts) == 7 {
		r.class = clsNoMsg
		return r
	}
	r.class = clsWellFormed
	r.msg = parts[7]
	return r
}

// onlyNonASCIIRemoved reports whether got can be obtained from want by deleting bytes >= 0x80 only.
func onlyNonASCIIRemoved(want, got string) bool {
	j := 0
	for i := 0; i < len(want); i++ {
		if j < len(got) && want[i] == got[j] {
			j++
			continue
		}
		if want[i] < 0x80 {
			return false
		}
	}
	return j == len(got)
}

// checkMessage compares the message field with the message part of the line. limit = InputLogMaxMessageBytes,
// rawLen = length of the whole line, recLimit = InputLogMaxRecordBytes.
func checkMessage(msg, got string, limit, rawLen, recLimit int) (string, string) {
	validIn := utf8.ValidString(msg)
	if len(msg) <= limit {
		if got == msg {
			return "", ""
		}
		if rawLen >= recLimit && !validIn && onlyNonASCIIRemoved(msg, got) {
			return "", "" // tolerated: a record at the record limit may have been cut by the receiver; invalid bytes are stripped
		}
		return "faithful:message", "message (within the limit) differs from the message part of the line"
	}
	if len(got) > limit {
		return "truncate:longer-than-limit", "over-long message was not cut to the limit"
	}
	if !strings.HasPrefix(msg, got) {
		if validIn || !onlyNonASCIIRemoved(msg[:limit], got) {
			return "truncate:not-a-prefix", "cut message is not a prefix of the original message"
		}
		return "", "" // invalid original: stripping invalid bytes is tolerated
	}
	if validIn && !utf8.ValidString(got) {
		return "truncate:invalid-utf8", "the original message is valid UTF-8 but the cut message is not (cut inside a multi-byte character)"
	}
	if len(got) <= limit-4 {
		for i := len(got); i < limit; i++ {
			if msg[i] < 0x80 {
				return "truncate:too-short", "more than a partial character was removed from the end of the cut message"
			}
		}
	}
	return "", ""
}
