// Command seq_keys decides C06: routing, queueing and tagging follow exactly the record's own key fields.
//
// For every ordered pair of distinct key tuples over a small alphabet (empty value, separators, NUL, multi-byte) a fresh
// REAL by-key-set orchestrator (obykeyset.Config.StartOrchestrator + obase.PrepareSequentialPipeline + hybrid buffer on a
// scratch root + fluentd-forward serializer/chunk maker) receives one record of each tuple; the consumer override keeps
// every chunk unconfirmed, so Shutdown leaves the chunks in the on-disk queues. The queue directories are then read back,
// and a second orchestrator is started on the same root (recovery path) which receives one more record of each tuple.
//
// Further groups (groups.go) widen single dimensions of the same case: the escape character of the queue ID and white space
// in the values, every byte value at every position of a value, values around every length limit of the path, the root path
// given through an environment variable, substring forms of the tag template (tagref.go), two outputs of equal and of
// different types with a backlog held by both / only the first / only the second output across the restart, and key values
// living in an input buffer that is overwritten after the record was processed.
package main

import (
	"bytes"
	"compress/gzip"
	"encoding/json"
	"fmt"
	"io"
	"os"
	"path/filepath"
	"runtime/debug"
	"sort"
	"strings"
	"sync"
	"time"
	"unsafe"

	"github.com/c2h5oh/datasize"
	"github.com/relex/fluentlib/protocol/forwardprotocol"
	"github.com/relex/gotils/channels"
	"github.com/relex/gotils/logger"
	"github.com/relex/gotils/promexporter/promreg"
	"github.com/relex/slog-agent/base"
	"github.com/relex/slog-agent/base/bconfig"
	"github.com/relex/slog-agent/buffer/hybridbuffer"
	"github.com/relex/slog-agent/defs"
	"github.com/relex/slog-agent/orchestrate/obykeyset"
	"github.com/relex/slog-agent/output/datadog"
	"github.com/relex/slog-agent/output/fluentdforward"
	"github.com/vmihailenco/msgpack/v4"
	"golang.org/x/sys/unix"

	"slogverif/hutil"
	"slogverif/seq"
)

// ---------------------------------------------------------------------------------------------------------------------
// domain

var sigma = []string{"", "a", "b", "ab", ",", "a,", ".", "/", "\x00", "é"}

func tupleOver(alpha []string, n, index int) []string {
	t := make([]string, n)
	for i := n - 1; i >= 0; i-- {
		t[i] = alpha[index%len(alpha)]
		index /= len(alpha)
	}
	return t
}

func tupleOf(n, index int) []string { return tupleOver(sigma, n, index) }

func pow(b, e int) int {
	r := 1
	for i := 0; i < e; i++ {
		r *= b
	}
	return r
}

func sameTuple(a, b []string) bool {
	if len(a) != len(b) {
		return false
	}
	for i := range a {
		if a[i] != b[i] {
			return false
		}
	}
	return true
}

// feature classes of a tuple, used only to NAME the violation class (never to decide whether there is a violation)
func hasComma(t []string) bool {
	for _, v := range t {
		if strings.Contains(v, ",") {
			return true
		}
	}
	return false
}

func tupleFeature(t []string) string {
	switch {
	case len(t) == 1 && t[0] == "":
		return "single-empty-key"
	case hasComma(t):
		return "comma-in-key"
	}
	return "other"
}

// documentedIDLen is the length of the queue ID of a key set as documented at makePipelineID ("commas and percent signs inside
// values are escaped", values joined by commas). Used in the MESSAGE of the name-too-long class only.
func documentedIDLen(t []string) int {
	n := len(t) - 1
	for _, v := range t {
		n += len(v) + 2*strings.Count(v, ",") + 2*strings.Count(v, "%")
	}
	return n
}

// ---------------------------------------------------------------------------------------------------------------------
// capture

const (
	kindFF = "ff" // fluentd forward output
	kindDD = "dd" // datadog output
)

type capRecord struct {
	marker string            // value of the msg field: identifies the input record
	fields map[string]string // all top-level string fields
	tag    string            // the tag the record is delivered under: the chunk's tag (fluentd) / the event's ddtags (datadog)
}

type capChunk struct {
	id      string
	tag     string
	records []capRecord
	err     string
}

func decodeChunk(kind, id string, data []byte) capChunk {
	if kind == kindDD {
		return decodeDatadogChunk(id, data)
	}
	c := capChunk{id: id}
	var message forwardprotocol.Message
	if err := msgpack.NewDecoder(bytes.NewReader(data)).Decode(&message); err != nil {
		c.err = err.Error()
		return c
	}
	c.tag = message.Tag
	for _, e := range message.Entries {
		r := capRecord{fields: map[string]string{}, tag: message.Tag}
		for k, v := range e.Record {
			if s, ok := v.(string); ok {
				r.fields[k] = s
			}
		}
		r.marker = r.fields["msg"]
		c.records = append(c.records, r)
	}
	return c
}

// a Datadog chunk is a gzip-compressed JSON array of flat events; the tag of the pipeline is the event's "ddtags"
// ("ddtags defaults to the orchestration tag if empty or undefined in schema", config_sample.yml; the schema here has no such field)
func decodeDatadogChunk(id string, data []byte) capChunk {
	c := capChunk{id: id}
	zr, err := gzip.NewReader(bytes.NewReader(data))
	if err != nil {
		c.err = err.Error()
		return c
	}
	plain, err := io.ReadAll(zr)
	if err != nil {
		c.err = err.Error()
		return c
	}
	var events []map[string]string
	if err := json.Unmarshal(plain, &events); err != nil {
		c.err = err.Error()
		return c
	}
	for i, e := range events {
		r := capRecord{fields: e, marker: e["msg"], tag: e["ddtags"]}
		if i == 0 {
			c.tag = r.tag
		}
		c.records = append(c.records, r)
	}
	return c
}

type capture struct {
	mu        sync.Mutex
	consumers []*capConsumer
	startup   bool              // consumers created now are created by StartOrchestrator itself
	confirm   bool              // consumers confirm every chunk ...
	hold      map[string]bool   // ... except those of the outputs listed here (by output name), which never confirm
	kinds     map[string]string // output name -> kind (chunk format)
}

type capConsumer struct {
	cap     *capture
	index   int
	output  string
	startup bool
	confirm bool
	args    base.ChunkConsumerArgs
	chunks  []capChunk // guarded by cap.mu
	stopped *channels.SignalAwaitable
}

func (c *capture) newConsumer(_ logger.Logger, name string, _ base.ChunkDecoder, args base.ChunkConsumerArgs) base.ChunkConsumer {
	c.mu.Lock()
	defer c.mu.Unlock()
	cc := &capConsumer{cap: c, index: len(c.consumers), output: name, startup: c.startup, confirm: c.confirm && !c.hold[name], args: args, stopped: channels.NewSignalAwaitable()}
	c.consumers = append(c.consumers, cc)
	return cc
}

func (cc *capConsumer) Start()                      { go cc.run() }
func (cc *capConsumer) Stopped() channels.Awaitable { return cc.stopped }

func (cc *capConsumer) run() {
	var held []base.LogChunk
	defer func() {
		for _, h := range held {
			cc.args.OnChunkLeftover(h)
		}
		cc.stopped.Signal()
		cc.args.OnFinished()
	}()
	for {
		select {
		case chunk, ok := <-cc.args.InputChannel:
			if !ok {
				return
			}
			dc := decodeChunk(cc.cap.kinds[cc.output], chunk.ID, chunk.Data)
			if cc.confirm {
				// confirmed BEFORE it is shown to the harness: a harness that waits for the delivery must not race with the confirmation
				cc.args.OnChunkConsumed(chunk)
			} else {
				held = append(held, chunk)
			}
			cc.cap.mu.Lock()
			cc.chunks = append(cc.chunks, dc)
			cc.cap.mu.Unlock()
		case <-cc.args.InputClosed.Channel():
			return
		}
	}
}

// delivered returns marker -> consumer index, over all chunks seen so far by the consumers of one output ("" = all outputs)
func (c *capture) delivered(output string) map[string]int {
	c.mu.Lock()
	defer c.mu.Unlock()
	out := map[string]int{}
	for _, cc := range c.consumers {
		if output != "" && cc.output != output {
			continue
		}
		for _, ch := range cc.chunks {
			for _, r := range ch.records {
				out[r.marker] = cc.index
			}
		}
	}
	return out
}

// seen counts the (output, marker) deliveries so far
func (c *capture) seen() int {
	c.mu.Lock()
	defer c.mu.Unlock()
	n := 0
	for _, cc := range c.consumers {
		for _, ch := range cc.chunks {
			n += len(ch.records)
		}
	}
	return n
}

func (c *capture) numConsumers() int {
	c.mu.Lock()
	defer c.mu.Unlock()
	return len(c.consumers)
}

// settleLimit bounds the wait for records to reach the consumers (flush interval 1 ms); it is only ever used up when a record is lost
const settleLimit = 20 * time.Second

// waitSeen waits until the consumers have seen `want` record deliveries (or the limit passes: the oracle then reports what is missing)
func (c *capture) waitSeen(want int, limit time.Duration) {
	deadline := time.Now().Add(limit)
	for c.seen() < want && time.Now().Before(deadline) {
		time.Sleep(100 * time.Microsecond)
	}
}

// ---------------------------------------------------------------------------------------------------------------------
// on-disk observation

type queueDir struct {
	name   string // "." for the root itself
	id     string
	hasID  bool
	chunks []capChunk
}

func scanRoot(root, kind string) []queueDir {
	var out []queueDir
	readDir := func(path, name string) {
		q := queueDir{name: name}
		if data, err := os.ReadFile(filepath.Join(path, ".id")); err == nil {
			q.id, q.hasID = string(data), true
		}
		entries, _ := os.ReadDir(path)
		for _, e := range entries {
			if e.IsDir() || !strings.HasSuffix(e.Name(), "."+kind) {
				continue
			}
			data, err := os.ReadFile(filepath.Join(path, e.Name()))
			if err != nil {
				q.chunks = append(q.chunks, capChunk{id: e.Name(), err: err.Error()})
				continue
			}
			q.chunks = append(q.chunks, decodeChunk(kind, e.Name(), data))
		}
		if q.hasID || len(q.chunks) > 0 {
			out = append(out, q)
		}
	}
	readDir(root, ".")
	entries, _ := os.ReadDir(root)
	for _, e := range entries {
		if e.IsDir() {
			readDir(filepath.Join(root, e.Name()), e.Name())
		}
	}
	sort.Slice(out, func(i, j int) bool { return out[i].name < out[j].name })
	return out
}

func countChunks(dirs []queueDir) int {
	n := 0
	for _, d := range dirs {
		n += len(d.chunks)
	}
	return n
}

// ---------------------------------------------------------------------------------------------------------------------
// the system under test

// how the root path of a buffer is written in the configuration ("may contain environment variables")
const (
	rootLiteral = iota
	rootDollarVar
	rootBracedVar
)

const rootEnvVar = "SEQKEYS_STATE_DIR"

type worldCfg struct {
	n        int
	tmplText string
	scratch  string   // per-case scratch directory
	kinds    []string // one output per element
	rootForm int
}

func (c worldCfg) outputName(i int) string { return fmt.Sprintf("o%d", i) }

// rootOf is the real directory of output i's buffer
func (c worldCfg) rootOf(i int) string {
	switch {
	case len(c.kinds) > 1:
		return filepath.Join(c.scratch, c.outputName(i))
	case c.rootForm != rootLiteral:
		return filepath.Join(c.scratch, "buffer")
	}
	return c.scratch
}

// rootText is what the configuration says
func (c worldCfg) rootText(i int) string {
	rel := strings.TrimPrefix(c.rootOf(i), c.scratch)
	switch c.rootForm {
	case rootDollarVar:
		return "$" + rootEnvVar + rel
	case rootBracedVar:
		return "${" + rootEnvVar + "}" + rel
	}
	return c.rootOf(i)
}

type world struct {
	cfg    worldCfg
	n      int
	schema base.LogSchema
	keys   []string
	orcCfg *obykeyset.Config
	args   bconfig.PipelineArgs
}

func newWorld(cfg worldCfg, cap *capture) *world {
	n := cfg.n
	keys := make([]string, n)
	for i := range keys {
		keys[i] = fmt.Sprintf("k%d", i+1)
	}
	fields := append(append([]string{}, keys...), "msg", "env")
	schema := base.MustNewLogSchema(fields)
	w := &world{cfg: cfg, n: n, schema: schema, keys: keys}
	w.orcCfg = &obykeyset.Config{Keys: keys, TagTemplate: cfg.tmplText}
	if _, err := w.orcCfg.VerifyConfig(schema); err != nil {
		panic("harness: orchestration config rejected: " + err.Error())
	}
	if cfg.rootForm != rootLiteral {
		os.Setenv(rootEnvVar, cfg.scratch)
	}
	cap.kinds = map[string]string{}
	pairs := make([]bconfig.OutputBufferConfig, len(cfg.kinds))
	for i, kind := range cfg.kinds {
		var out bconfig.LogOutputConfig
		if kind == kindDD {
			dd := &datadog.Config{Upstream: datadog.UpstreamConfig{Address: "http://localhost:1/api/v2/logs", HTTPTimeout: time.Second}}
			if err := dd.VerifyConfig(schema); err != nil {
				panic("harness: output config rejected: " + err.Error())
			}
			out = dd
		} else {
			ff := &fluentdforward.Config{
				Serialization: fluentdforward.SerializationConfig{EnvironmentFields: []string{"env"}},
				MessageMode:   forwardprotocol.ModeForward,
				Upstream:      fluentdforward.UpstreamConfig{Address: "localhost:24224", MaxDuration: time.Minute},
			}
			if err := ff.VerifyConfig(schema); err != nil {
				panic("harness: output config rejected: " + err.Error())
			}
			out = ff
		}
		buf := &hybridbuffer.Config{RootPath: cfg.rootText(i), MaxBufSize: datasize.ByteSize(1 << 20)}
		if err := buf.VerifyConfig(); err != nil {
			panic("harness: buffer config rejected: " + err.Error())
		}
		cap.kinds[cfg.outputName(i)] = kind
		pairs[i] = bconfig.OutputBufferConfig{
			Name:         cfg.outputName(i),
			BufferConfig: bconfig.ConfigHolder[bconfig.ChunkBufferConfig]{Value: buf},
			OutputConfig: bconfig.ConfigHolder[bconfig.LogOutputConfig]{Value: out},
		}
	}
	w.args = bconfig.PipelineArgs{
		Schema:              schema,
		Deallocator:         base.NewLogAllocator(schema, len(cfg.kinds)),
		MetricKeyLocators:   schema.MustCreateFieldLocators([]string{"env"}),
		TransformConfigs:    nil,
		OutputBufferPairs:   pairs,
		NewConsumerOverride: cap.newConsumer,
		SendAllAtEnd:        false,
	}
	return w
}

// record builds an input record. With volatile the key values live in a buffer owned by the caller (returned), as the values
// of a parsed record live in the pooled input buffer that is recycled once the record has been processed by every output.
func (w *world) record(tuple []string, marker string, sec int64, volatile bool) (*base.LogRecord, [][]byte) {
	fields := make(base.LogFields, 0, w.n+2)
	var backing [][]byte
	for _, v := range tuple {
		b := append([]byte(nil), v...) // private copy: the record owns its bytes
		if volatile && len(b) > 0 {
			backing = append(backing, b)
			fields = append(fields, unsafe.String(&b[0], len(b)))
		} else {
			fields = append(fields, string(b))
		}
	}
	fields = append(fields, marker, "e")
	rec, _ := w.args.Deallocator.NewRecord(nil) // reference count = number of outputs, as the parser would get it
	copy(rec.Fields, fields)
	rec.Timestamp = time.Unix(1600000000+sec, 0)
	rec.RawLength = 100
	return rec, backing
}

var logCap = &hutil.LogCapture{All: true} // every line at error level and above is kept (the harness names classes by logged causes)

// keyLabelTuples returns the key tuples (key_k1..key_kn label values) of all pipelines visible in the metric registry
func keyLabelTuples(mf *promreg.MetricFactory, keys []string) [][]string {
	fams, _ := mf.Gather()
	seen := map[string]bool{}
	var out [][]string
	for _, f := range fams {
		for _, m := range f.Metric {
			t := make([]string, len(keys))
			found := 0
			for _, l := range m.Label {
				for i, k := range keys {
					if l.GetName() == "key_"+k {
						t[i] = l.GetValue()
						found++
					}
				}
			}
			if found != len(keys) {
				continue
			}
			id := fmt.Sprintf("%q", t)
			if !seen[id] {
				seen[id] = true
				out = append(out, t)
			}
		}
	}
	return out
}

// which outputs still hold their chunks (upstream down) when generation 1 shuts down
const (
	backlogAll        = iota // every output
	backlogFirstOnly         // output 0; every other output has delivered everything
	backlogSecondOnly        // output 1; output 0 has delivered everything
)

type pairCase struct {
	n        int
	tmpl     tagTemplate
	conns    int
	a, b     []string
	outputs  int
	umask    int      // != 0: the process runs with this file mode creation mask (queue directories are created 0750 / 0700)
	kinds    []string // nil: `outputs` fluentd outputs
	backlog  int
	noGen2   bool // separation only
	rootForm int
	// settle: generation 1 runs with a 1 ms flush interval and waits until every consumer has seen the records, the
	// consumer-side oracle (pipeline identity, tag, key fields) is applied before Shutdown, and a second record of each tuple
	// follows on a new connection (after the key bytes of the first were overwritten, if volatile)
	settle   bool
	volatile bool
	// quickGiveUp: generation 1 shuts down with defs.BufferShutDownTimeout = 300 ms. A pipeline WITHOUT a queue directory waits that
	// long (4 minutes by default) for its consumer to deliver what it holds; the consumers of generation 1 never deliver (upstream
	// down), so the outcome is the same and only the wait is shorter. Pipelines with a queue directory do not wait at all.
	quickGiveUp bool
	maxMsg      int // != 0: defs.InputLogMaxMessageBytes for this case (values beyond the scaled-down default)
}

func (pc pairCase) held(o int) bool {
	switch pc.backlog {
	case backlogFirstOnly:
		return o == 0
	case backlogSecondOnly:
		return o == 1
	}
	return true
}

func short(v string) string {
	if len(v) <= 40 {
		return fmt.Sprintf("%q", v)
	}
	return fmt.Sprintf("%q..%q(%d bytes)", v[:10], v[len(v)-10:], len(v))
}

func q(t []string) string {
	s := make([]string, len(t))
	for i, v := range t {
		s[i] = short(v)
	}
	return "[" + strings.Join(s, " ") + "]"
}

func qs(t []string) string  { return q(t) }
func clipq(v string) string { return short(v) }

func inList(s string, list []string) bool {
	for _, x := range list {
		if x == s {
			return true
		}
	}
	return false
}

// a record's delivery tag against the reference expansion. A Datadog event carries no ddtags when the tag is empty.
func tagOK(tag string, want []string) bool { return inList(tag, want) }

func mergeClass(a, b []string) string {
	if strings.Join(a, "") == strings.Join(b, "") {
		return "concatenations-coincide"
	}
	return "other"
}

// runPair executes one case; returns the first violation (key, msg).
func runPair(pc pairCase) (string, string) {
	if pc.umask != 0 {
		old := unix.Umask(pc.umask)
		defer unix.Umask(old)
	}
	if pc.maxMsg != 0 {
		oldMsg, oldRec := defs.InputLogMaxMessageBytes, defs.InputLogMaxRecordBytes
		defs.InputLogMaxMessageBytes, defs.InputLogMaxRecordBytes = pc.maxMsg, pc.maxMsg+256
		defer func() { defs.InputLogMaxMessageBytes, defs.InputLogMaxRecordBytes = oldMsg, oldRec }()
	}
	scratch := hutil.ScratchRoot("seqkeys")
	defer os.RemoveAll(scratch)
	logCap.Reset()
	kinds := pc.kinds
	if kinds == nil {
		for o := 0; o < pc.outputs; o++ {
			kinds = append(kinds, kindFF)
		}
	}
	nout := len(kinds)
	wc := worldCfg{n: pc.n, tmplText: pc.tmpl.text(pc.n), scratch: scratch, kinds: kinds, rootForm: pc.rootForm}
	parts := pc.tmpl.parts(pc.n)
	// A1/B1 (and A3/B3 with settle) are the records of generation 1, A2/B2 arrive after the restart
	tuples := map[string][]string{"A1": pc.a, "B1": pc.b, "A2": pc.a, "B2": pc.b, "A3": pc.a, "B3": pc.b}
	twin := map[string]string{"A1": "A2", "B1": "B2", "A3": "A2", "B3": "B2"}
	gen1Markers := []string{"A1", "B1"}
	if pc.settle {
		gen1Markers = []string{"A1", "B1", "A3", "B3"}
	}
	settle := pc.settle || pc.backlog != backlogAll // an output that delivers everything needs the time to do so

	// ---------------- generation 1: route, do not confirm, shut down
	defs.IntermediateFlushInterval = time.Second // chunks are cut by Shutdown only: one pipeline => one chunk
	if settle {
		defs.IntermediateFlushInterval = time.Millisecond
	}
	cap1 := &capture{startup: true, confirm: true, hold: map[string]bool{}}
	for o := 0; o < nout; o++ {
		if pc.held(o) {
			cap1.hold[wc.outputName(o)] = true
		}
	}
	w := newWorld(wc, cap1)
	mf1 := promreg.NewMetricFactory("g1_", nil, nil)
	orc := w.orcCfg.StartOrchestrator(logger.Root(), w.args, mf1)
	cap1.mu.Lock()
	cap1.startup = false
	cap1.mu.Unlock()
	s1 := orc.NewSink("c1", 1)
	s2 := s1
	if pc.conns == 2 {
		s2 = orc.NewSink("c2", 2)
	}
	recA, backA := w.record(pc.a, "A1", 1, pc.volatile)
	recB, backB := w.record(pc.b, "B1", 2, pc.volatile)
	s1.Accept([]*base.LogRecord{recA})
	s2.Accept([]*base.LogRecord{recB})
	s1.Close()
	if pc.conns == 2 {
		s2.Close()
	}
	if settle {
		cap1.waitSeen(2*nout, settleLimit)
	}
	if pc.settle {
		if k, m := consumerView(cap1, w, pc, parts, tuples, []string{"A1", "B1"}); k != "" {
			orc.Shutdown()
			return k, m
		}
		if pc.volatile {
			// every output has serialized both records: they are released, the input buffer that held their key values is reused
			for _, b := range append(backA, backB...) {
				for i := range b {
					b[i] = '#'
				}
			}
		}
		s3 := orc.NewSink("c5", 5)
		recA3, _ := w.record(pc.a, "A3", 5, false)
		recB3, _ := w.record(pc.b, "B3", 6, false)
		s3.Accept([]*base.LogRecord{recA3, recB3})
		s3.Close()
		cap1.waitSeen(4*nout, settleLimit)
		if k, m := consumerView(cap1, w, pc, parts, tuples, gen1Markers); k != "" {
			orc.Shutdown()
			return k, m
		}
		if k, m := checkKeyLabels(keyLabelTuples(mf1, w.keys), tuples, []string{"A1", "B1"}, "gen1"); k != "" {
			orc.Shutdown()
			return k, m
		}
	}
	if pc.quickGiveUp {
		old := defs.BufferShutDownTimeout
		defs.BufferShutDownTimeout = 300 * time.Millisecond
		orc.Shutdown()
		defs.BufferShutDownTimeout = old
	} else {
		orc.Shutdown()
	}
	if l := logCap.FirstBugLine(); l != "" {
		return "bug-log:gen1", l
	}
	npipes1 := cap1.numConsumers() / nout

	for o := 0; o < nout; o++ {
		dirs := scanRoot(wc.rootOf(o), kinds[o])
		if !pc.held(o) {
			// this output delivered (confirmed) everything before the shutdown: its records are checked at the consumer
			if k, m := consumerViewOf(cap1, wc.outputName(o), w, pc, parts, tuples, gen1Markers); k != "" {
				return k, m
			}
			if countChunks(dirs) > 0 {
				return "queue:confirmed-chunk-left-on-disk", fmt.Sprintf("output %s confirmed every chunk, but chunks remain in its queue directories after Shutdown: %s", wc.outputName(o), describeDirs(dirs))
			}
			continue
		}
		where := map[string]string{}   // marker -> dir
		inChunk := map[string]string{} // marker -> dir/chunk
		chunkTag := map[string]string{}
		for _, d := range dirs {
			for _, ch := range d.chunks {
				if ch.err != "" {
					return "chunk:undecodable", fmt.Sprintf("queued chunk %s/%s cannot be decoded: %s", d.name, ch.id, ch.err)
				}
				for _, r := range ch.records {
					if _, dup := where[r.marker]; dup {
						return "dup:gen1-record", fmt.Sprintf("record %s queued twice", r.marker)
					}
					where[r.marker] = d.name
					inChunk[r.marker] = d.name + "/" + ch.id
					chunkTag[r.marker] = r.tag
					// the record's own key values, as serialized (empty values are omitted by the serializer)
					t := tuples[r.marker]
					for i, k := range w.keys {
						if t != nil && r.fields[k] != t[i] {
							return "chunk:key-field-altered", fmt.Sprintf("record %s of tuple %s was serialized with %s=%s", r.marker, q(t), k, short(r.fields[k]))
						}
					}
				}
			}
		}
		for _, m := range gen1Markers {
			if _, ok := where[m]; !ok {
				t := tuples[m]
				if log := logCap.String(); strings.Contains(log, "file name too long") {
					// own class: the queue directory of this key set could not be created because its NAME is too long
					idLen := documentedIDLen(t)
					return "queue-dir:name-too-long", fmt.Sprintf("record %s of key set %s (value lengths %v) is in no queue directory of output %s after Shutdown: the queue directory was never created (logged: %s). "+
						"The documented queue ID of this key set (values joined by ',', ',' and '%%' escaped) has %d bytes; the directory name adds '.'+8 hash characters = %d bytes, the file system allows 255. "+
						"Minimal failing key set: ONE key field with a value of 247 ordinary bytes (e.g. 247 x 'x'); 246 bytes are stored. dirs: %s",
						m, q(t), lengths(t), wc.outputName(o), firstLineWith(log, "file name too long"), idLen, idLen+9, describeDirs(dirs))
				}
				return "lost:gen1-record", fmt.Sprintf("record %s of tuple %s is in no queue directory after Shutdown (dirs: %s)", m, q(t), describeDirs(dirs))
			}
		}
		if npipes1 == 1 || inChunk["A1"] == inChunk["B1"] {
			return "merge:one-pipeline:" + mergeClass(pc.a, pc.b), fmt.Sprintf("tuples %s and %s differ but their records were processed by ONE pipeline (pipelines created: %d; chunk of A1: %s tag %s; chunk of B1: %s tag %s; expected tags %s / %s)",
				q(pc.a), q(pc.b), npipes1, inChunk["A1"], short(chunkTag["A1"]), inChunk["B1"], short(chunkTag["B1"]), q(refTags(parts, pc.a)), q(refTags(parts, pc.b)))
		}
		if where["A1"] == where["B1"] {
			cls := "other"
			if strings.Join(pc.a, ",") == strings.Join(pc.b, ",") {
				cls = "comma-joined-ids-coincide"
			}
			return "merge:shared-queue-dir:" + cls, fmt.Sprintf("tuples %s and %s went through %d pipelines but share the queue directory %q (dirs: %s)", q(pc.a), q(pc.b), npipes1, where["A1"], describeDirs(dirs))
		}
		for _, m := range gen1Markers {
			if want := refTags(parts, tuples[m]); !tagOK(chunkTag[m], want) {
				return "tag:mismatch", fmt.Sprintf("record %s of tuple %s queued under tag %s, template %q expands to %s", m, q(tuples[m]), short(chunkTag[m]), wc.tmplText, q(want))
			}
		}
		if pc.settle && (where["A3"] != where["A1"] || where["B3"] != where["B1"]) {
			return "queue:later-record-in-other-dir", fmt.Sprintf("two records of one key set are queued in different directories: A1 in %q, A3 in %q, B1 in %q, B3 in %q", where["A1"], where["A3"], where["B1"], where["B3"])
		}
		// directory identities must be distinct too
		ids := map[string]string{}
		for _, d := range dirs {
			if len(d.chunks) == 0 {
				continue
			}
			if other, dup := ids[d.id]; dup {
				return "merge:same-dir-id", fmt.Sprintf("queue directories %q and %q carry the same id %s", other, d.name, short(d.id))
			}
			ids[d.id] = d.name
		}
	}
	if pc.noGen2 {
		return "", ""
	}
	var gen1Dirs [][]queueDir
	oldChunks := 0
	for o := 0; o < nout; o++ {
		gen1Dirs = append(gen1Dirs, scanRoot(wc.rootOf(o), kinds[o]))
		oldChunks += countChunks(gen1Dirs[o])
	}

	// ---------------- generation 2: restart on the same root(s), then one more record of each tuple
	defs.IntermediateFlushInterval = time.Millisecond
	cap2 := &capture{startup: true, confirm: true}
	w2 := newWorld(wc, cap2)
	w2.args.SendAllAtEnd = true // Shutdown returns only after every attached queue has been drained into the consumer
	mf2 := promreg.NewMetricFactory("g2_", nil, nil)
	orc2 := w2.orcCfg.StartOrchestrator(logger.Root(), w2.args, mf2)
	cap2.mu.Lock()
	cap2.startup = false
	nStartup := len(cap2.consumers)
	cap2.mu.Unlock()
	labelTuples := keyLabelTuples(mf2, w2.keys)
	t1 := orc2.NewSink("c3", 3)
	t2 := t1
	if pc.conns == 2 {
		t2 = orc2.NewSink("c4", 4)
	}
	recA2, _ := w2.record(pc.a, "A2", 3, false)
	recB2, _ := w2.record(pc.b, "B2", 4, false)
	t1.Accept([]*base.LogRecord{recA2})
	t2.Accept([]*base.LogRecord{recB2})
	t1.Close()
	if pc.conns == 2 {
		t2.Close()
	}
	// optimisation only: give the consumers a moment so that Shutdown finds nothing pending (it polls every 50 ms)
	expect := 0
	for o := 0; o < nout; o++ {
		expect += 2
		if pc.held(o) {
			expect += len(gen1Markers)
		}
	}
	cap2.waitSeen(expect, 30*time.Millisecond)
	orc2.Shutdown()
	if l := logCap.FirstBugLine(); l != "" {
		return "bug-log:gen2", l
	}
	for o := 0; o < nout; o++ {
		oname := wc.outputName(o)
		got := cap2.delivered(oname)
		for _, m := range []string{"A2", "B2"} {
			if _, ok := got[m]; !ok {
				return "lost:gen2-record", fmt.Sprintf("new record %s of tuple %s was not delivered by generation 2 (output %s)", m, q(tuples[m]), oname)
			}
		}
		if !pc.held(o) {
			for _, m := range gen1Markers {
				if _, again := got[m]; again {
					return "dup:confirmed-record-delivered-again", fmt.Sprintf("record %s was confirmed by output %s before the restart and is delivered again after it", m, oname)
				}
			}
			if got["A2"] == got["B2"] {
				return "recovery:merged-pipelines", fmt.Sprintf("after restart tuples %s and %s are served by one pipeline (output %s)", q(pc.a), q(pc.b), oname)
			}
			continue
		}
		for _, m := range gen1Markers {
			t := tuples[m]
			ci, ok := got[m]
			if !ok {
				return "recovery:chunk-never-delivered:" + tupleFeature(t), fmt.Sprintf("queued record %s of tuple %s (output %s) was not delivered after the restart although a new record of the same tuple arrived; still on disk: %s", m, q(t), oname, describeDirs(scanRoot(wc.rootOf(o), kinds[o])))
			}
			cc := cap2.consumers[ci]
			if !cc.startup {
				return "recovery:not-reattached-at-startup:" + tupleFeature(t), fmt.Sprintf("queue of tuple %s in the root of output %s (%s; root configured as %q; outputs %v, backlog held by %s) was not given a pipeline by StartOrchestrator (consumers created at startup: %d for %d queued chunks); it was picked up only when a new record of that tuple arrived",
					q(t), oname, describeDirs(gen1Dirs[o]), wc.rootText(o), kinds, backlogName(pc.backlog), nStartup, oldChunks)
			}
			// the pipeline that delivers the queued chunk is the pipeline of exactly this tuple
			if got[twin[m]] != ci {
				return "recovery:reattached-to-other-keyset", fmt.Sprintf("queued chunk of tuple %s was delivered by consumer #%d of output %s, a new record of the same tuple by consumer #%d", q(t), ci, oname, got[twin[m]])
			}
		}
		if got["A1"] == got["B1"] || got["A2"] == got["B2"] {
			return "recovery:merged-pipelines", fmt.Sprintf("after restart tuples %s and %s are served by one pipeline (output %s)", q(pc.a), q(pc.b), oname)
		}
	}
	if k, m := checkKeyLabels(labelTuples, tuples, []string{"A1", "B1"}, "restart"); k != "" {
		return k, m
	}
	// order inside the queue and tags of everything delivered
	for _, cc := range cap2.consumers {
		seenNew := false
		for _, ch := range cc.chunks {
			if ch.err != "" {
				return "chunk:undecodable", fmt.Sprintf("delivered chunk %s cannot be decoded: %s", ch.id, ch.err)
			}
			for _, r := range ch.records {
				t := tuples[r.marker]
				if want := refTags(parts, t); !tagOK(r.tag, want) {
					return "tag:mismatch-after-restart", fmt.Sprintf("record %s of tuple %s delivered under tag %s (output %s), template %q expands to %s", r.marker, q(t), short(r.tag), cc.output, wc.tmplText, q(want))
				}
				if strings.HasSuffix(r.marker, "2") {
					seenNew = true
				} else if seenNew {
					return "recovery:order", fmt.Sprintf("queued record %s delivered after the new record of the same pipeline", r.marker)
				}
			}
		}
	}
	for o := 0; o < nout; o++ {
		if left := scanRoot(wc.rootOf(o), kinds[o]); countChunks(left) > 0 {
			return "recovery:chunk-left-on-disk", fmt.Sprintf("chunks remain on disk after generation 2 drained everything (output %s): %s", wc.outputName(o), describeDirs(left))
		}
	}
	return "", ""
}

func backlogName(b int) string {
	return []string{"every output", "the first output only", "the second output only"}[b]
}

func lengths(t []string) []int {
	l := make([]int, len(t))
	for i, v := range t {
		l[i] = len(v)
	}
	return l
}

func firstLineWith(text, needle string) string {
	for _, l := range strings.Split(text, "\n") {
		if strings.Contains(l, needle) {
			if len(l) > 160 {
				l = l[:60] + " ... " + l[len(l)-90:]
			}
			return l
		}
	}
	return ""
}

func checkKeyLabels(labelTuples [][]string, tuples map[string][]string, markers []string, when string) (string, string) {
	for _, m := range markers {
		found := false
		for _, lt := range labelTuples {
			if sameTuple(lt, tuples[m]) {
				found = true
			}
		}
		if !found {
			shown := make([]string, len(labelTuples))
			for i, lt := range labelTuples {
				shown[i] = q(lt)
			}
			key := "recovery:key-labels"
			if when != "restart" {
				key = "labels:key-labels-" + when
			}
			return key, fmt.Sprintf("(%s) no pipeline carries key labels %s (pipelines: %s)", when, q(tuples[m]), strings.Join(shown, " "))
		}
	}
	return "", ""
}

// consumerView applies the consumer-side oracle to every output
func consumerView(cap *capture, w *world, pc pairCase, parts []tpart, tuples map[string][]string, markers []string) (string, string) {
	for o := range w.cfg.kinds {
		if k, m := consumerViewOf(cap, w.cfg.outputName(o), w, pc, parts, tuples, markers); k != "" {
			return k, m
		}
	}
	return "", ""
}

// consumerViewOf: what the consumers of ONE output have been handed so far: every record of `markers` arrived, the records
// of the two tuples through different pipelines (consumer instances), all records of one tuple through the same one, each under
// the tag of its own tuple and with its own key values
func consumerViewOf(cap *capture, output string, w *world, pc pairCase, parts []tpart, tuples map[string][]string, markers []string) (string, string) {
	cap.mu.Lock()
	defer cap.mu.Unlock()
	by := map[string]int{}
	tagOf := map[string]string{}
	for _, cc := range cap.consumers {
		if cc.output != output {
			continue
		}
		for _, ch := range cc.chunks {
			if ch.err != "" {
				return "chunk:undecodable", fmt.Sprintf("chunk %s handed to the consumer of output %s cannot be decoded: %s", ch.id, output, ch.err)
			}
			for _, r := range ch.records {
				t := tuples[r.marker]
				if t == nil {
					return "chunk:unknown-record", fmt.Sprintf("a record with msg=%s that was never sent reached the consumer of output %s", short(r.marker), output)
				}
				if _, dup := by[r.marker]; dup {
					return "dup:gen1-record", fmt.Sprintf("record %s handed to the consumers of output %s twice", r.marker, output)
				}
				by[r.marker] = cc.index
				tagOf[r.marker] = r.tag
				for i, k := range w.keys {
					if r.fields[k] != t[i] {
						return "chunk:key-field-altered", fmt.Sprintf("record %s of tuple %s was serialized with %s=%s (output %s)", r.marker, q(t), k, short(r.fields[k]), output)
					}
				}
			}
		}
	}
	for _, m := range markers {
		if _, ok := by[m]; !ok {
			return "lost:gen1-record-never-reached-consumer", fmt.Sprintf("record %s of tuple %s did not reach a consumer of output %s within 20 s (flush interval 1 ms)", m, q(tuples[m]), output)
		}
	}
	if by["A1"] == by["B1"] {
		return "merge:one-pipeline:" + mergeClass(pc.a, pc.b), fmt.Sprintf("tuples %s and %s differ but their records were handed to ONE consumer instance (#%d of output %s, %d consumers exist), i.e. processed by one pipeline; tags %s / %s, expected %s / %s",
			q(pc.a), q(pc.b), by["A1"], output, len(cap.consumers), short(tagOf["A1"]), short(tagOf["B1"]), q(refTags(parts, pc.a)), q(refTags(parts, pc.b)))
	}
	for _, m := range markers {
		first := m[:1] + "1"
		if by[m] != by[first] {
			return "route:later-record-to-other-pipeline", fmt.Sprintf("records %s and %s have the same key values %s but were processed by different pipelines (consumers #%d and #%d of output %s)", first, m, q(tuples[m]), by[first], by[m], output)
		}
	}
	for _, m := range markers {
		if want := refTags(parts, tuples[m]); !tagOK(tagOf[m], want) {
			return "tag:mismatch", fmt.Sprintf("record %s of tuple %s handed to the consumer of output %s under tag %s, template %q expands to %s", m, q(tuples[m]), output, short(tagOf[m]), w.cfg.tmplText, q(want))
		}
	}
	return "", ""
}

func describeDirs(dirs []queueDir) string {
	var sb strings.Builder
	for _, d := range dirs {
		fmt.Fprintf(&sb, "[dir %s id=%s:", short(d.name), short(d.id))
		for _, ch := range d.chunks {
			fmt.Fprintf(&sb, " chunk tag=%s recs=", short(ch.tag))
			for _, r := range ch.records {
				sb.WriteString(r.marker + " ")
			}
		}
		sb.WriteString("] ")
	}
	return sb.String()
}

// ---------------------------------------------------------------------------------------------------------------------

func enumerate(ctx *seq.Ctx) {
	emit := func(n, ti, conns, i, j, outputs int) {
		if !ctx.Mine() {
			ctx.Skip()
			return
		}
		tmpl := templates[ti]
		pc := pairCase{n: n, tmpl: tmpl, conns: conns, a: tupleOf(n, i), b: tupleOf(n, j), outputs: outputs}
		id := fmt.Sprintf("k%d/t%d/c%d/o%d/%d-%d", n, ti, conns, outputs, i, j)
		ctx.Case(id, true, fmt.Sprintf("keys=%d tag=%q conns=%d outputs=%d first=%s second=%s", n, tmpl.text(n), conns, outputs, q(pc.a), q(pc.b)),
			func() (string, string) { return runPair(pc) })
	}
	// the groups that widen one dimension each come first: they are small, and a deadline that cuts the run on a loaded machine
	// cuts the large pair product below, not them
	if enumerateDimensions(ctx) {
		return
	}
	// 1 and 2 key fields: every ordered pair x every template x {1,2} connections
	for n := 1; n <= 2; n++ {
		total := pow(len(sigma), n)
		for ti, tmpl := range templates {
			for conns := 1; conns <= 2; conns++ {
				ctx.Group(fmt.Sprintf("keys%d/tag=%s/conns%d", n, tmpl.name, conns))
				for i := 0; i < total; i++ {
					for j := 0; j < total; j++ {
						if ctx.Stop() {
							return
						}
						if i != j {
							emit(n, ti, conns, i, j, 1)
						}
					}
				}
			}
		}
	}
	// restrictive file mode creation masks (a daemon's usual 027 / 077): routing, queueing and above all the reattachment of
	// queued chunks at startup must not depend on the permission bits the queue directories were created with
	for _, um := range []int{0o027, 0o077} {
		ctx.Group(fmt.Sprintf("keys1/umask%03o", um))
		total := pow(len(sigma), 1)
		for i := 0; i < total; i++ {
			for j := 0; j < total; j++ {
				if i == j {
					continue
				}
				if !ctx.Mine() {
					ctx.Skip()
					continue
				}
				pc := pairCase{n: 1, tmpl: templates[0], conns: 1, a: tupleOf(1, i), b: tupleOf(1, j), outputs: 1, umask: um}
				id := fmt.Sprintf("umask%03o/k1/t0/c1/o1/%d-%d", um, i, j)
				ctx.Case(id, true, fmt.Sprintf("umask=%03o keys=1 first=%s second=%s", um, q(pc.a), q(pc.b)), func() (string, string) { return runPair(pc) })
			}
		}
	}
	// two outputs (two buffer roots), 2 key fields, one template; both outputs hold their chunks across the restart
	ctx.Group("keys2/two-outputs")
	for i := 0; i < 100; i++ {
		for j := 0; j < 100; j++ {
			if ctx.Stop() {
				return
			}
			if i != j {
				emit(2, 1, 1, i, j, 2)
			}
		}
	}
	if !ctx.Thorough() {
		return
	}
	// 3 key fields: every ordered pair on one connection and every unordered pair on two connections with the template
	// t.$k1.$k2; the other templates and connection counts on the cyclic pairs (i, i+1), so that every tuple is tagged
	// under every template both as first and as second arrival
	total := pow(len(sigma), 3)
	ctx.Group("keys3/tag=t.k1.k2/conns1/all-ordered-pairs")
	for i := 0; i < total; i++ {
		for j := 0; j < total; j++ {
			if ctx.Stop() {
				return
			}
			if i != j {
				emit(3, 1, 1, i, j, 1)
			}
		}
	}
	ctx.Group("keys3/tag=t.k1.k2/conns2/all-unordered-pairs")
	for i := 0; i < total; i++ {
		for j := i + 1; j < total; j++ {
			if ctx.Stop() {
				return
			}
			emit(3, 1, 2, i, j, 1)
		}
	}
	for ti, tmpl := range templates {
		if ti == 1 {
			continue // t.$k1.$k2 is covered by the two complete groups above
		}
		for conns := 1; conns <= 2; conns++ {
			ctx.Group(fmt.Sprintf("keys3/tag=%s/conns%d/cyclic-pairs", tmpl.name, conns))
			for i := 0; i < total; i++ {
				if ctx.Stop() {
					return
				}
				emit(3, ti, conns, i, (i+1)%total, 1)
			}
		}
	}
}

func main() {
	debug.SetGCPercent(400) // every pipeline allocates ~2 MB of buffers; collect less often
	logger.SetOutput(logCap)
	logger.SetLogLevel(logger.ErrorLevel)
	// the serializer allocates 2*InputLogMaxRecordBytes per pipeline; the records here are tiny
	defs.InputLogMaxMessageBytes = 16 * 1024
	defs.InputLogMaxRecordBytes = defs.InputLogMaxMessageBytes + 256
	// every bufferer allocates a channel of BufferMaxNumChunksInQueue chunk slots (24 MB at the default 500000)
	defs.BufferMaxNumChunksInQueue = 256
	seq.Main(&seq.Config{
		Property:         "C06",
		Level:            "exploration",
		Rule:             ruleText,
		Assumptions:      assumptions,
		Enumerate:        enumerate,
		QuickDeadline:    20 * time.Minute,
		ThoroughDeadline: 60 * time.Minute,
	})
}
