// Command seq_keys decides C06: routing, queueing and tagging follow exactly the record's own key fields.
//
// For every ordered pair of distinct key tuples over a small alphabet (empty value, separators, NUL, multi-byte) a fresh
// REAL by-key-set orchestrator (obykeyset.Config.StartOrchestrator + obase.PrepareSequentialPipeline + hybrid buffer on a
// scratch root + fluentd-forward serializer/chunk maker) receives one record of each tuple; the consumer override keeps
// every chunk unconfirmed, so Shutdown leaves the chunks in the on-disk queues. The queue directories are then read back,
// and a second orchestrator is started on the same root (recovery path) which receives one more record of each tuple.
package main

import (
	"bytes"
	"fmt"
	"golang.org/x/sys/unix"
	"os"
	"path/filepath"
	"runtime/debug"
	"sort"
	"strings"
	"sync"
	"time"

	"github.com/c2h5oh/datasize"
	"github.com/relex/fluentlib/protocol/forwardprotocol"
	"github.com/relex/gotils/channels"
	"github.com/relex/gotils/logger"
	"github.com/relex/gotils/promexporter/promreg"
	"github.com/relex/slog-agent/base"
	"github.com/relex/slog-agent/base/bconfig"
	"github.com/relex/slog-agent/buffer/hybridbuffer"
	"github.com/relex/slog-agent/defs"
	"github.com/relex/slog-agent/orchestrate/obykeyset"
	"github.com/relex/slog-agent/output/fluentdforward"
	"github.com/vmihailenco/msgpack/v4"

	"slogverif/hutil"
	"slogverif/seq"
)

// ---------------------------------------------------------------------------------------------------------------------
// domain

var sigma = []string{"", "a", "b", "ab", ",", "a,", ".", "/", "\x00", "é"}

// part of a tag template, in the harness's own representation (the reference expander never parses template text)
type tpart struct {
	lit   string
	field int // -1: literal
	first int // >0: only the first `first` characters of the value ("${name[:N]}")
}

type tagTemplate struct {
	name  string
	text  func(n int) string // template text given to the orchestrator, for n key fields
	parts func(n int) []tpart
}

// With a single key field the templates cannot mention $k2 (only key fields may be referenced); the k2 part is dropped.
var templates = []tagTemplate{
	{"k1",
		func(n int) string { return "$k1" },
		func(n int) []tpart { return []tpart{{field: 0}} }},
	{"t.k1.k2",
		func(n int) string {
			if n == 1 {
				return "t.$k1"
			}
			return "t.$k1.$k2"
		},
		func(n int) []tpart {
			if n == 1 {
				return []tpart{{lit: "t.", field: -1}, {field: 0}}
			}
			return []tpart{{lit: "t.", field: -1}, {field: 0}, {lit: ".", field: -1}, {field: 1}}
		}},
	{"k1[:1]-k2",
		func(n int) string {
			if n == 1 {
				return "${k1[:1]}-"
			}
			return "${k1[:1]}-$k2"
		},
		func(n int) []tpart {
			if n == 1 {
				return []tpart{{field: 0, first: 1}, {lit: "-", field: -1}}
			}
			return []tpart{{field: 0, first: 1}, {lit: "-", field: -1}, {field: 1}}
		}},
	{"const",
		func(n int) string { return "constant" },
		func(n int) []tpart { return []tpart{{lit: "constant", field: -1}} }},
}

// refTags is the reference expander: the acceptable tags of a tuple. "[:N]" is documented by the example
// `${color[:1]}-$type` => "R-Car" only; whether N counts bytes or characters is not documented, both are accepted.
func refTags(parts []tpart, tuple []string) []string {
	outs := []string{""}
	for _, p := range parts {
		var alts []string
		switch {
		case p.field < 0:
			alts = []string{p.lit}
		case p.first > 0:
			v := tuple[p.field]
			byBytes := v
			if len(byBytes) > p.first {
				byBytes = byBytes[:p.first]
			}
			byRunes := ""
			cnt := 0
			for _, r := range v {
				if cnt == p.first {
					break
				}
				byRunes += string(r)
				cnt++
			}
			alts = []string{byBytes}
			if byRunes != byBytes {
				alts = append(alts, byRunes)
			}
		default:
			alts = []string{tuple[p.field]}
		}
		next := make([]string, 0, len(outs)*len(alts))
		for _, o := range outs {
			for _, a := range alts {
				next = append(next, o+a)
			}
		}
		outs = next
	}
	return outs
}

func tupleOf(n, index int) []string {
	t := make([]string, n)
	for i := n - 1; i >= 0; i-- {
		t[i] = sigma[index%len(sigma)]
		index /= len(sigma)
	}
	return t
}

func pow(b, e int) int {
	r := 1
	for i := 0; i < e; i++ {
		r *= b
	}
	return r
}

func sameTuple(a, b []string) bool {
	if len(a) != len(b) {
		return false
	}
	for i := range a {
		if a[i] != b[i] {
			return false
		}
	}
	return true
}

// feature classes of a tuple, used only to NAME the violation class (never to decide whether there is a violation)
func hasComma(t []string) bool {
	for _, v := range t {
		if strings.Contains(v, ",") {
			return true
		}
	}
	return false
}

func tupleFeature(t []string) string {
	switch {
	case len(t) == 1 && t[0] == "":
		return "single-empty-key"
	case hasComma(t):
		return "comma-in-key"
	}
	return "other"
}

// ---------------------------------------------------------------------------------------------------------------------
// capture

type capRecord struct {
	marker string            // value of the msg field: identifies the input record
	fields map[string]string // all top-level string fields
}

type capChunk struct {
	id      string
	tag     string
	records []capRecord
	err     string
}

func decodeChunk(id string, data []byte) capChunk {
	c := capChunk{id: id}
	var message forwardprotocol.Message
	if err := msgpack.NewDecoder(bytes.NewReader(data)).Decode(&message); err != nil {
		c.err = err.Error()
		return c
	}
	c.tag = message.Tag
	for _, e := range message.Entries {
		r := capRecord{fields: map[string]string{}}
		for k, v := range e.Record {
			if s, ok := v.(string); ok {
				r.fields[k] = s
			}
		}
		r.marker = r.fields["msg"]
		c.records = append(c.records, r)
	}
	return c
}

type capture struct {
	mu        sync.Mutex
	consumers []*capConsumer
	startup   bool // consumers created now are created by StartOrchestrator itself
	confirm   bool
}

type capConsumer struct {
	cap     *capture
	index   int
	startup bool
	args    base.ChunkConsumerArgs
	chunks  []capChunk // guarded by cap.mu
	stopped *channels.SignalAwaitable
}

func (c *capture) newConsumer(_ logger.Logger, _ string, _ base.ChunkDecoder, args base.ChunkConsumerArgs) base.ChunkConsumer {
	c.mu.Lock()
	defer c.mu.Unlock()
	cc := &capConsumer{cap: c, index: len(c.consumers), startup: c.startup, args: args, stopped: channels.NewSignalAwaitable()}
	c.consumers = append(c.consumers, cc)
	return cc
}

func (cc *capConsumer) Start()                      { go cc.run() }
func (cc *capConsumer) Stopped() channels.Awaitable { return cc.stopped }

func (cc *capConsumer) run() {
	var held []base.LogChunk
	defer func() {
		for _, h := range held {
			cc.args.OnChunkLeftover(h)
		}
		cc.stopped.Signal()
		cc.args.OnFinished()
	}()
	for {
		select {
		case chunk, ok := <-cc.args.InputChannel:
			if !ok {
				return
			}
			dc := decodeChunk(chunk.ID, chunk.Data)
			cc.cap.mu.Lock()
			cc.chunks = append(cc.chunks, dc)
			cc.cap.mu.Unlock()
			if cc.cap.confirm {
				cc.args.OnChunkConsumed(chunk)
			} else {
				held = append(held, chunk)
			}
		case <-cc.args.InputClosed.Channel():
			return
		}
	}
}

// delivered returns marker -> consumer index, over all chunks seen so far
func (c *capture) delivered() map[string]int {
	c.mu.Lock()
	defer c.mu.Unlock()
	out := map[string]int{}
	for _, cc := range c.consumers {
		for _, ch := range cc.chunks {
			for _, r := range ch.records {
				out[r.marker] = cc.index
			}
		}
	}
	return out
}

// ---------------------------------------------------------------------------------------------------------------------
// on-disk observation

type queueDir struct {
	name   string // "." for the root itself
	id     string
	hasID  bool
	chunks []capChunk
}

func scanRoot(root string) []queueDir {
	var out []queueDir
	readDir := func(path, name string) {
		q := queueDir{name: name}
		if data, err := os.ReadFile(filepath.Join(path, ".id")); err == nil {
			q.id, q.hasID = string(data), true
		}
		entries, _ := os.ReadDir(path)
		for _, e := range entries {
			if e.IsDir() || !strings.HasSuffix(e.Name(), ".ff") {
				continue
			}
			data, err := os.ReadFile(filepath.Join(path, e.Name()))
			if err != nil {
				q.chunks = append(q.chunks, capChunk{id: e.Name(), err: err.Error()})
				continue
			}
			q.chunks = append(q.chunks, decodeChunk(e.Name(), data))
		}
		if q.hasID || len(q.chunks) > 0 {
			out = append(out, q)
		}
	}
	readDir(root, ".")
	entries, _ := os.ReadDir(root)
	for _, e := range entries {
		if e.IsDir() {
			readDir(filepath.Join(root, e.Name()), e.Name())
		}
	}
	sort.Slice(out, func(i, j int) bool { return out[i].name < out[j].name })
	return out
}

// ---------------------------------------------------------------------------------------------------------------------
// the system under test

type world struct {
	n      int
	schema base.LogSchema
	keys   []string
	orcCfg *obykeyset.Config
	args   bconfig.PipelineArgs
	root   string
}

func newWorld(n int, tmplText string, root string, cap *capture, outputs int) *world {
	keys := make([]string, n)
	for i := range keys {
		keys[i] = fmt.Sprintf("k%d", i+1)
	}
	fields := append(append([]string{}, keys...), "msg", "env")
	schema := base.MustNewLogSchema(fields)
	w := &world{n: n, schema: schema, keys: keys, root: root}
	w.orcCfg = &obykeyset.Config{Keys: keys, TagTemplate: tmplText}
	if _, err := w.orcCfg.VerifyConfig(schema); err != nil {
		panic("harness: orchestration config rejected: " + err.Error())
	}
	pairs := make([]bconfig.OutputBufferConfig, outputs)
	for i := range pairs {
		out := &fluentdforward.Config{
			Serialization: fluentdforward.SerializationConfig{EnvironmentFields: []string{"env"}},
			MessageMode:   forwardprotocol.ModeForward,
			Upstream:      fluentdforward.UpstreamConfig{Address: "localhost:24224", MaxDuration: time.Minute},
		}
		if err := out.VerifyConfig(schema); err != nil {
			panic("harness: output config rejected: " + err.Error())
		}
		buf := &hybridbuffer.Config{RootPath: filepath.Join(root, fmt.Sprintf("o%d", i)), MaxBufSize: datasize.ByteSize(1 << 20)}
		if outputs == 1 {
			buf.RootPath = root
		}
		pairs[i] = bconfig.OutputBufferConfig{
			Name:         fmt.Sprintf("o%d", i),
			BufferConfig: bconfig.ConfigHolder[bconfig.ChunkBufferConfig]{Value: buf},
			OutputConfig: bconfig.ConfigHolder[bconfig.LogOutputConfig]{Value: out},
		}
	}
	w.args = bconfig.PipelineArgs{
		Schema:              schema,
		Deallocator:         base.NewLogAllocator(schema, outputs),
		MetricKeyLocators:   schema.MustCreateFieldLocators([]string{"env"}),
		TransformConfigs:    nil,
		OutputBufferPairs:   pairs,
		NewConsumerOverride: cap.newConsumer,
		SendAllAtEnd:        false,
	}
	return w
}

func (w *world) record(tuple []string, marker string, sec int64) *base.LogRecord {
	fields := make(base.LogFields, 0, w.n+2)
	for _, v := range tuple {
		fields = append(fields, string(append([]byte(nil), v...))) // private copy: the record owns its bytes
	}
	fields = append(fields, marker, "e")
	rec, _ := w.args.Deallocator.NewRecord(nil) // reference count = number of outputs, as the parser would get it
	copy(rec.Fields, fields)
	rec.Timestamp = time.Unix(1600000000+sec, 0)
	rec.RawLength = 100
	return rec
}

var logCap = &hutil.LogCapture{}

// keyLabelTuples returns the key tuples (key_k1..key_kn label values) of all pipelines visible in the metric registry
func keyLabelTuples(mf *promreg.MetricFactory, keys []string) [][]string {
	fams, _ := mf.Gather()
	seen := map[string]bool{}
	var out [][]string
	for _, f := range fams {
		for _, m := range f.Metric {
			t := make([]string, len(keys))
			found := 0
			for _, l := range m.Label {
				for i, k := range keys {
					if l.GetName() == "key_"+k {
						t[i] = l.GetValue()
						found++
					}
				}
			}
			if found != len(keys) {
				continue
			}
			id := fmt.Sprintf("%q", t)
			if !seen[id] {
				seen[id] = true
				out = append(out, t)
			}
		}
	}
	return out
}

type pairCase struct {
	n       int
	tmpl    tagTemplate
	conns   int
	a, b    []string
	outputs int
	umask   int // != 0: the process runs with this file mode creation mask (queue directories are created 0750 / 0700)
}

func q(t []string) string { return fmt.Sprintf("%q", t) }

func inList(s string, list []string) bool {
	for _, x := range list {
		if x == s {
			return true
		}
	}
	return false
}

// runPair executes one case; returns the first violation (key, msg).
func runPair(pc pairCase) (string, string) {
	if pc.umask != 0 {
		old := unix.Umask(pc.umask)
		defer unix.Umask(old)
	}
	root := hutil.ScratchRoot("seqkeys")
	defer os.RemoveAll(root)
	logCap.Reset()
	parts := pc.tmpl.parts(pc.n)
	tuples := map[string][]string{"A1": pc.a, "B1": pc.b, "A2": pc.a, "B2": pc.b}
	twin := map[string]string{"A1": "A2", "B1": "B2"}

	// ---------------- generation 1: route, do not confirm, shut down
	defs.IntermediateFlushInterval = time.Second // chunks are cut by Shutdown only: one pipeline => one chunk
	cap1 := &capture{startup: true}
	w := newWorld(pc.n, pc.tmpl.text(pc.n), root, cap1, pc.outputs)
	orc := w.orcCfg.StartOrchestrator(logger.Root(), w.args, promreg.NewMetricFactory("g1_", nil, nil))
	cap1.mu.Lock()
	cap1.startup = false
	cap1.mu.Unlock()
	s1 := orc.NewSink("c1", 1)
	s2 := s1
	if pc.conns == 2 {
		s2 = orc.NewSink("c2", 2)
	}
	s1.Accept([]*base.LogRecord{w.record(pc.a, "A1", 1)})
	s2.Accept([]*base.LogRecord{w.record(pc.b, "B1", 2)})
	s1.Close()
	if pc.conns == 2 {
		s2.Close()
	}
	orc.Shutdown()
	if l := logCap.FirstBugLine(); l != "" {
		return "bug-log:gen1", l
	}
	npipes1 := len(cap1.consumers) / pc.outputs

	for o := 0; o < pc.outputs; o++ {
		oroot := root
		if pc.outputs > 1 {
			oroot = filepath.Join(root, fmt.Sprintf("o%d", o))
		}
		dirs := scanRoot(oroot)
		where := map[string]string{}   // marker -> dir
		inChunk := map[string]string{} // marker -> dir/chunk
		chunkTag := map[string]string{}
		for _, d := range dirs {
			for _, ch := range d.chunks {
				if ch.err != "" {
					return "chunk:undecodable", fmt.Sprintf("queued chunk %s/%s cannot be decoded: %s", d.name, ch.id, ch.err)
				}
				for _, r := range ch.records {
					if _, dup := where[r.marker]; dup {
						return "dup:gen1-record", fmt.Sprintf("record %s queued twice", r.marker)
					}
					where[r.marker] = d.name
					inChunk[r.marker] = d.name + "/" + ch.id
					chunkTag[r.marker] = ch.tag
					// the record's own key values, as serialized (empty values are omitted by the serializer)
					t := tuples[r.marker]
					for i, k := range w.keys {
						if t != nil && r.fields[k] != t[i] {
							return "chunk:key-field-altered", fmt.Sprintf("record %s of tuple %s was serialized with %s=%q", r.marker, q(t), k, r.fields[k])
						}
					}
				}
			}
		}
		for _, m := range []string{"A1", "B1"} {
			if _, ok := where[m]; !ok {
				return "lost:gen1-record", fmt.Sprintf("record %s of tuple %s is in no queue directory after Shutdown (dirs: %s)", m, q(tuples[m]), describeDirs(dirs))
			}
		}
		if npipes1 == 1 || inChunk["A1"] == inChunk["B1"] {
			cls := "other"
			if strings.Join(pc.a, "") == strings.Join(pc.b, "") {
				cls = "concatenations-coincide"
			}
			return "merge:one-pipeline:" + cls, fmt.Sprintf("tuples %s and %s differ but their records were processed by ONE pipeline (pipelines created: %d; chunk of A1: %s tag %q; chunk of B1: %s tag %q; expected tags %q / %q)",
				q(pc.a), q(pc.b), npipes1, inChunk["A1"], chunkTag["A1"], inChunk["B1"], chunkTag["B1"], refTags(parts, pc.a), refTags(parts, pc.b))
		}
		if where["A1"] == where["B1"] {
			cls := "other"
			if strings.Join(pc.a, ",") == strings.Join(pc.b, ",") {
				cls = "comma-joined-ids-coincide"
			}
			return "merge:shared-queue-dir:" + cls, fmt.Sprintf("tuples %s and %s went through %d pipelines but share the queue directory %q (dirs: %s)", q(pc.a), q(pc.b), npipes1, where["A1"], describeDirs(dirs))
		}
		for _, m := range []string{"A1", "B1"} {
			if want := refTags(parts, tuples[m]); !inList(chunkTag[m], want) {
				return "tag:mismatch", fmt.Sprintf("record %s of tuple %s queued under tag %q, template %q expands to %q", m, q(tuples[m]), chunkTag[m], pc.tmpl.text(pc.n), want)
			}
		}
		// directory identities must be distinct too
		ids := map[string]string{}
		for _, d := range dirs {
			if len(d.chunks) == 0 {
				continue
			}
			if other, dup := ids[d.id]; dup {
				return "merge:same-dir-id", fmt.Sprintf("queue directories %q and %q carry the same id %q", other, d.name, d.id)
			}
			ids[d.id] = d.name
		}
	}
	if pc.outputs > 1 {
		return "", "" // the recovery part is exercised with one output
	}
	gen1Dirs := scanRoot(root)
	oldChunks := 0
	for _, d := range gen1Dirs {
		oldChunks += len(d.chunks)
	}

	// ---------------- generation 2: restart on the same root, then one more record of each tuple
	defs.IntermediateFlushInterval = time.Millisecond
	cap2 := &capture{startup: true, confirm: true}
	w2 := newWorld(pc.n, pc.tmpl.text(pc.n), root, cap2, 1)
	w2.args.SendAllAtEnd = true // Shutdown returns only after every attached queue has been drained into the consumer
	mf2 := promreg.NewMetricFactory("g2_", nil, nil)
	orc2 := w2.orcCfg.StartOrchestrator(logger.Root(), w2.args, mf2)
	cap2.mu.Lock()
	cap2.startup = false
	nStartup := len(cap2.consumers)
	cap2.mu.Unlock()
	labelTuples := keyLabelTuples(mf2, w2.keys)
	t1 := orc2.NewSink("c3", 3)
	t2 := t1
	if pc.conns == 2 {
		t2 = orc2.NewSink("c4", 4)
	}
	t1.Accept([]*base.LogRecord{w2.record(pc.a, "A2", 3)})
	t2.Accept([]*base.LogRecord{w2.record(pc.b, "B2", 4)})
	t1.Close()
	if pc.conns == 2 {
		t2.Close()
	}
	// optimisation only: give the consumers a moment so that Shutdown finds nothing pending (it polls every 50 ms)
	deadline := time.Now().Add(30 * time.Millisecond)
	for time.Now().Before(deadline) {
		if len(cap2.delivered()) >= 4 {
			break
		}
		time.Sleep(100 * time.Microsecond)
	}
	orc2.Shutdown()
	if l := logCap.FirstBugLine(); l != "" {
		return "bug-log:gen2", l
	}
	got := cap2.delivered()
	for _, m := range []string{"A2", "B2"} {
		if _, ok := got[m]; !ok {
			return "lost:gen2-record", fmt.Sprintf("new record %s of tuple %s was not delivered by generation 2", m, q(tuples[m]))
		}
	}
	left := scanRoot(root)
	for _, m := range []string{"A1", "B1"} {
		t := tuples[m]
		ci, ok := got[m]
		if !ok {
			return "recovery:chunk-never-delivered:" + tupleFeature(t), fmt.Sprintf("queued record %s of tuple %s was not delivered after the restart although a new record of the same tuple arrived; still on disk: %s", m, q(t), describeDirs(left))
		}
		cc := cap2.consumers[ci]
		if !cc.startup {
			return "recovery:not-reattached-at-startup:" + tupleFeature(t), fmt.Sprintf("queue of tuple %s (dir id: see %s) was not given a pipeline by StartOrchestrator (pipelines created at startup: %d for %d queued chunks); it was picked up only when a new record of that tuple arrived",
				q(t), describeDirs(gen1Dirs), nStartup, oldChunks)
		}
		// the pipeline that delivers the queued chunk is the pipeline of exactly this tuple
		if got[twin[m]] != ci {
			return "recovery:reattached-to-other-keyset", fmt.Sprintf("queued chunk of tuple %s was delivered by pipeline #%d, a new record of the same tuple by pipeline #%d", q(t), ci, got[twin[m]])
		}
		found := false
		for _, lt := range labelTuples {
			if sameTuple(lt, t) {
				found = true
			}
		}
		if !found {
			return "recovery:key-labels", fmt.Sprintf("after restart no pipeline carries key labels %s (pipelines: %q)", q(t), labelTuples)
		}
	}
	if got["A1"] == got["B1"] || got["A2"] == got["B2"] {
		return "recovery:merged-pipelines", fmt.Sprintf("after restart tuples %s and %s are served by one pipeline", q(pc.a), q(pc.b))
	}
	// order inside the queue and tags of everything delivered
	for _, cc := range cap2.consumers {
		seenNew := false
		for _, ch := range cc.chunks {
			if ch.err != "" {
				return "chunk:undecodable", fmt.Sprintf("delivered chunk %s cannot be decoded: %s", ch.id, ch.err)
			}
			for _, r := range ch.records {
				t := tuples[r.marker]
				if want := refTags(parts, t); !inList(ch.tag, want) {
					return "tag:mismatch-after-restart", fmt.Sprintf("record %s of tuple %s delivered under tag %q, template %q expands to %q", r.marker, q(t), ch.tag, pc.tmpl.text(pc.n), want)
				}
				if strings.HasSuffix(r.marker, "2") {
					seenNew = true
				} else if seenNew {
					return "recovery:order", fmt.Sprintf("queued record %s delivered after the new record of the same pipeline", r.marker)
				}
			}
		}
	}
	for _, d := range left {
		if len(d.chunks) > 0 {
			return "recovery:chunk-left-on-disk", fmt.Sprintf("chunks remain on disk after generation 2 drained everything: %s", describeDirs(left))
		}
	}
	return "", ""
}

func describeDirs(dirs []queueDir) string {
	var sb strings.Builder
	for _, d := range dirs {
		fmt.Fprintf(&sb, "[dir %q id=%q:", d.name, d.id)
		for _, ch := range d.chunks {
			fmt.Fprintf(&sb, " chunk tag=%q recs=", ch.tag)
			for _, r := range ch.records {
				sb.WriteString(r.marker + " ")
			}
		}
		sb.WriteString("] ")
	}
	return sb.String()
}

// ---------------------------------------------------------------------------------------------------------------------

func enumerate(ctx *seq.Ctx) {
	emit := func(n, ti, conns, i, j, outputs int) {
		if !ctx.Mine() {
			ctx.Skip()
			return
		}
		tmpl := templates[ti]
		pc := pairCase{n: n, tmpl: tmpl, conns: conns, a: tupleOf(n, i), b: tupleOf(n, j), outputs: outputs}
		id := fmt.Sprintf("k%d/t%d/c%d/o%d/%d-%d", n, ti, conns, outputs, i, j)
		ctx.Case(id, true, fmt.Sprintf("keys=%d tag=%q conns=%d outputs=%d first=%s second=%s", n, tmpl.text(n), conns, outputs, q(pc.a), q(pc.b)),
			func() (string, string) { return runPair(pc) })
	}
	// 1 and 2 key fields: every ordered pair x every template x {1,2} connections
	for n := 1; n <= 2; n++ {
		total := pow(len(sigma), n)
		for ti, tmpl := range templates {
			for conns := 1; conns <= 2; conns++ {
				ctx.Group(fmt.Sprintf("keys%d/tag=%s/conns%d", n, tmpl.name, conns))
				for i := 0; i < total; i++ {
					for j := 0; j < total; j++ {
						if ctx.Stop() {
							return
						}
						if i != j {
							emit(n, ti, conns, i, j, 1)
						}
					}
				}
			}
		}
	}
	// restrictive file mode creation masks (a daemon's usual 027 / 077): routing, queueing and above all the reattachment of
	// queued chunks at startup must not depend on the permission bits the queue directories were created with
	for _, um := range []int{0o027, 0o077} {
		ctx.Group(fmt.Sprintf("keys1/umask%03o", um))
		total := pow(len(sigma), 1)
		for i := 0; i < total; i++ {
			for j := 0; j < total; j++ {
				if i == j {
					continue
				}
				if !ctx.Mine() {
					ctx.Skip()
					continue
				}
				pc := pairCase{n: 1, tmpl: templates[0], conns: 1, a: tupleOf(1, i), b: tupleOf(1, j), outputs: 1, umask: um}
				id := fmt.Sprintf("umask%03o/k1/t0/c1/o1/%d-%d", um, i, j)
				ctx.Case(id, true, fmt.Sprintf("umask=%03o keys=1 first=%s second=%s", um, q(pc.a), q(pc.b)), func() (string, string) { return runPair(pc) })
			}
		}
	}
	// two outputs (two buffer roots): separation only, 2 key fields, one template
	ctx.Group("keys2/two-outputs")
	for i := 0; i < 100; i++ {
		for j := 0; j < 100; j++ {
			if ctx.Stop() {
				return
			}
			if i != j {
				emit(2, 1, 1, i, j, 2)
			}
		}
	}
	if !ctx.Thorough() {
		return
	}
	// 3 key fields: every ordered pair on one connection and every unordered pair on two connections with the template
	// t.$k1.$k2; the other templates and connection counts on the cyclic pairs (i, i+1), so that every tuple is tagged
	// under every template both as first and as second arrival
	total := pow(len(sigma), 3)
	ctx.Group("keys3/tag=t.k1.k2/conns1/all-ordered-pairs")
	for i := 0; i < total; i++ {
		for j := 0; j < total; j++ {
			if ctx.Stop() {
				return
			}
			if i != j {
				emit(3, 1, 1, i, j, 1)
			}
		}
	}
	ctx.Group("keys3/tag=t.k1.k2/conns2/all-unordered-pairs")
	for i := 0; i < total; i++ {
		for j := i + 1; j < total; j++ {
			if ctx.Stop() {
				return
			}
			emit(3, 1, 2, i, j, 1)
		}
	}
	for ti, tmpl := range templates {
		if ti == 1 {
			continue // t.$k1.$k2 is covered by the two complete groups above
		}
		for conns := 1; conns <= 2; conns++ {
			ctx.Group(fmt.Sprintf("keys3/tag=%s/conns%d/cyclic-pairs", tmpl.name, conns))
			for i := 0; i < total; i++ {
				if ctx.Stop() {
					return
				}
				emit(3, ti, conns, i, (i+1)%total, 1)
			}
		}
	}
}

func main() {
	debug.SetGCPercent(400) // every pipeline allocates ~2 MB of buffers; collect less often
	logger.SetOutput(logCap)
	logger.SetLogLevel(logger.ErrorLevel)
	// the serializer allocates 2*InputLogMaxRecordBytes per pipeline; the records here are tiny
	defs.InputLogMaxMessageBytes = 16 * 1024
	defs.InputLogMaxRecordBytes = defs.InputLogMaxMessageBytes + 256
	// every bufferer allocates a channel of BufferMaxNumChunksInQueue chunk slots (24 MB at the default 500000)
	defs.BufferMaxNumChunksInQueue = 256
	seq.Main(&seq.Config{
		Property: "C06",
		Level:    "exploration",
		Rule: "every ORDERED pair of distinct key tuples over {\"\",a,b,ab,\",\",\"a,\",.,/,NUL,é} with 1 and 2 key fields x 4 tag templates x {1,2} connections (both tiers); thorough adds 3 key fields: all 999000 ordered pairs on one connection and all 499500 unordered pairs on two connections under template t.$k1.$k2, and the 1000 cyclic pairs (i,i+1) under every template x {1,2} connections. Per case a fresh real obykeyset orchestrator " +
			"(real pipeline starter, hybrid buffer on a scratch root, fluentd serializer/chunk maker, non-confirming consumer override) gets one record of each tuple, is shut down, the queue directories are decoded, " +
			"a second orchestrator is started on the same root by Config.StartOrchestrator and gets one more record of each tuple; plus all ordered pairs with 2 key fields on a two-output configuration (separation only). " +
			"Oracle: different pipelines/chunks/queue dirs, chunk tag = reference expansion for the record's own tuple, serialized key fields unchanged, queued chunk re-attached at startup to the pipeline that also receives the new record of its tuple and that carries its key_* labels. " +
			"non-trivial = every case (all reach routing, queueing and recovery)",
		Assumptions: []string{
			"key values are put into the record fields directly (any byte string the parser could extract); invalid UTF-8 values belong to C07",
			"${k1[:1]} may count bytes or characters (undocumented): both expansions are accepted",
			"with one key field the templates mentioning $k2 are used without the k2 part (a tag may only reference key fields)",
			"defs.InputLogMaxMessageBytes is scaled to 16 KiB (serializer buffer size only) and defs.BufferMaxNumChunksInQueue to 256 (channel capacity only); defs.IntermediateFlushInterval is 1 s in generation 1 (chunks cut at shutdown) and 1 ms in generation 2",
			"'re-attached at startup' is observed as: the consumer that delivers the queued chunk was created inside StartOrchestrator, not later when a record of the tuple arrived (documented intent in obykeyset/config.go)",
		},
		Enumerate:        enumerate,
		QuickDeadline:    4 * time.Minute,
		ThoroughDeadline: 60 * time.Minute,
	})
}
