package main

import (
	"fmt"
	"strings"

	"slogverif/seq"
)

// Groups that widen ONE dimension of the pair case each (the pair product over sigma stays in main.go). All of them run in both
// tiers unless stated; the case ids are stable (append only).

// the second alphabet: the two special characters of the queue ID's escaping scheme (separator and escape character), the
// escape sequences as literal values, and white space at either end of a value (a queue ID is stored in a text file)
var sigmaEsc = []string{"", "a", ",", "%", "%2C", "%25", " a", "a\n"}

// the alphabet of the substring templates: every length 0..3 and a two-byte character
var sigmaSub = []string{"", "a", "ab", "abc", "é"}

// lengths around the limits on the way of a key value: 200 = initial capacity of the lookup-key and tag buffers; 246/247 = longest
// queue ID whose directory name (ID + '.' + 8 hash characters) fits the 255 bytes of a file name; 255/256 = one-byte lengths
var longLengths = []int{199, 200, 201, 246, 247, 255, 256, 257}

// thorough: 1 KiB (pooled input buffers) and two-byte lengths
var longLengthsThorough = []int{1023, 1024, 1025, 65535, 65536, 65537}

func xs(n int) string { return strings.Repeat("x", n) }

type longShape struct {
	name string
	n    int
	pair func(L int) ([]string, []string)
}

// pairs of DIFFERENT key sets built around a length L; what they have in common is what a shortened, truncated or
// length-prefixed representation of a long value would confuse
var longShapes = []longShape{
	{"length-only", 1, func(L int) ([]string, []string) { return []string{xs(L)}, []string{xs(L + 1)} }},
	{"last-byte-only", 1, func(L int) ([]string, []string) { return []string{xs(L-1) + "a"}, []string{xs(L-1) + "b"} }},
	{"which-field", 2, func(L int) ([]string, []string) { return []string{xs(L), ""}, []string{"", xs(L)} }},
	{"boundary-moved", 2, func(L int) ([]string, []string) { return []string{xs(L), "a"}, []string{xs(L - 1), "xa"} }},
	{"escaped-vs-literal", 1, func(L int) ([]string, []string) { return []string{"%" + xs(L-1)}, []string{"%25" + xs(L-1)} }},
}

// wrapPair: two key sets that coincide if the values are joined behind a length prefix of w bytes that overflows: the first value
// of the first set has 256^w bytes (prefix all zero) and starts with the bytes that are the prefix of the second set's second value
func wrapPair(w int) ([]string, []string) {
	size := pow(256, w)
	l2 := 0
	for i := 0; i < w; i++ {
		l2 = l2<<8 | 'A'
	}
	head := strings.Repeat("A", w)
	s1 := head + xs(size-w)
	s2 := strings.Repeat("A", l2)
	return []string{s1, s2}, []string{"", s1[w:] + head + s2}
}

// stripByte: code point b (0..255) as UTF-8 - the 128 one-byte values and the Latin-1 supplement incl. the non-ASCII white space
// U+0085 and U+00A0; a lone byte >= 0x80 is not valid UTF-8 and never becomes a key value (C07) - at a position of a value, and the
// value without it
func stripByte(form int, b int) (value, partner string) {
	c := string(rune(b))
	switch form {
	case 0:
		return c, ""
	case 1:
		return "a" + c, "a"
	case 2:
		return c + "a", "a"
	}
	return "a" + c + "a", "aa"
}

var byteForms = []string{"alone", "trailing", "leading", "inside"}

type kindSet struct {
	name  string
	kinds []string
}

var kindSets = []kindSet{
	{"ff+ff", []string{kindFF, kindFF}},
	{"ff+dd", []string{kindFF, kindDD}},
	{"dd+ff", []string{kindDD, kindFF}},
}

var backlogNames = []string{"both", "first-only", "second-only"}

// enumerateDimensions returns true if the enumeration was stopped (deadline)
func enumerateDimensions(ctx *seq.Ctx) bool {
	thorough := ctx.Thorough()
	put := func(id, input string, pc pairCase) {
		if !ctx.Mine() {
			ctx.Skip()
			return
		}
		ctx.Case(id, true, input, func() (string, string) { return runPair(pc) })
	}
	describe := func(pc pairCase) string {
		return fmt.Sprintf("keys=%d tag=%q conns=%d first=%s second=%s", pc.n, pc.tmpl.text(pc.n), pc.conns, q(pc.a), q(pc.b))
	}
	// all ordered pairs of distinct tuples over an alphabet
	pairsOver := func(alpha []string, n int, f func(i, j int, a, b []string)) bool {
		total := pow(len(alpha), n)
		for i := 0; i < total; i++ {
			for j := 0; j < total; j++ {
				if ctx.Stop() {
					return true
				}
				if i != j {
					f(i, j, tupleOver(alpha, n, i), tupleOver(alpha, n, j))
				}
			}
		}
		return false
	}

	// ---- escape character of the queue ID, escape sequences as values, white space
	for n := 1; n <= 2; n++ {
		for ti, tmpl := range templates {
			for conns := 1; conns <= 2; conns++ {
				if n == 2 && !thorough && !(ti == 1 && conns == 1) {
					continue
				}
				ctx.Group(fmt.Sprintf("esc/keys%d/tag=%s/conns%d", n, tmpl.name, conns))
				if pairsOver(sigmaEsc, n, func(i, j int, a, b []string) {
					pc := pairCase{n: n, tmpl: tmpl, conns: conns, a: a, b: b, outputs: 1}
					put(fmt.Sprintf("esc/k%d/t%d/c%d/%d-%d", n, ti, conns, i, j), describe(pc), pc)
				}) {
					return true
				}
			}
		}
	}

	// ---- every character 0..255 at every position of a value (alone, trailing, leading, inside), against the value without it
	for ti := 0; ti <= 1; ti++ {
		for conns := 1; conns <= 2; conns++ {
			if !thorough && !(ti == 1 && conns == 1) {
				continue
			}
			ctx.Group(fmt.Sprintf("bytes/keys1/tag=%s/conns%d", templates[ti].name, conns))
			for form := range byteForms {
				for b := 0; b < 256; b++ {
					if ctx.Stop() {
						return true
					}
					v, partner := stripByte(form, b)
					pc := pairCase{n: 1, tmpl: templates[ti], conns: conns, a: []string{v}, b: []string{partner}, outputs: 1}
					id := fmt.Sprintf("bytes/%s/%02x", byteForms[form], b)
					if !(ti == 1 && conns == 1) {
						id = fmt.Sprintf("bytes/t%d/c%d/%s/%02x", ti, conns, byteForms[form], b)
					}
					put(id, describe(pc), pc)
				}
			}
		}
	}

	// ---- long values: the consumer-side oracle (pipeline identity) first, then the queue directories and the restart
	ctx.Group("long/lengths")
	lens := longLengths
	if thorough {
		lens = append(append([]int{}, longLengths...), longLengthsThorough...)
	}
	for _, L := range lens {
		for si, sh := range longShapes {
			if ctx.Stop() {
				return true
			}
			a, b := sh.pair(L)
			pc := pairCase{n: sh.n, tmpl: templates[1], conns: 1, a: a, b: b, outputs: 1, settle: true, quickGiveUp: true}
			if L > 8000 {
				pc.maxMsg = 256 * 1024
			}
			put(fmt.Sprintf("long/L%d/%d-%s", L, si, sh.name), fmt.Sprintf("L=%d shape=%s value lengths %v vs %v tag=%q", L, sh.name, lengths(a), lengths(b), pc.tmpl.text(sh.n)), pc)
		}
	}
	ctx.Group("long/length-prefix-wrap")
	for w := 1; w <= 2; w++ {
		if w == 2 && !thorough {
			continue
		}
		for ti := 1; ti <= 3; ti += 2 { // t.$k1.$k2 and the constant tag
			a, b := wrapPair(w)
			pc := pairCase{n: 2, tmpl: templates[ti], conns: 1, a: a, b: b, outputs: 1, settle: true, quickGiveUp: true}
			if w == 2 {
				pc.maxMsg = 256 * 1024
			}
			put(fmt.Sprintf("long/wrap%d/t%d", w, ti), fmt.Sprintf("%d-byte length prefix overflow: value lengths %v vs %v tag=%q", w, lengths(a), lengths(b), pc.tmpl.text(2)), pc)
		}
	}

	// ---- root path of the buffer given through an environment variable ("may contain environment variables")
	for _, form := range []int{rootDollarVar, rootBracedVar} {
		ctx.Group(fmt.Sprintf("envroot/keys1/form%d", form))
		if pairsOver(sigma, 1, func(i, j int, a, b []string) {
			pc := pairCase{n: 1, tmpl: templates[0], conns: 1, a: a, b: b, outputs: 1, rootForm: form}
			put(fmt.Sprintf("envroot/f%d/%d-%d", form, i, j), describe(pc)+" rootPath="+worldCfg{scratch: "<scratch>", kinds: []string{kindFF}, rootForm: form}.rootText(0), pc)
		}) {
			return true
		}
	}

	// ---- substring forms of the tag template through the whole orchestrator
	for n := 1; n <= 2; n++ {
		for ti, tmpl := range subTemplates {
			if n == 2 && !thorough && ti != 1 && ti != 4 {
				continue
			}
			ctx.Group(fmt.Sprintf("substr/keys%d/tag=%s", n, tmpl.name))
			if pairsOver(sigmaSub, n, func(i, j int, a, b []string) {
				pc := pairCase{n: n, tmpl: tmpl, conns: 1, a: a, b: b, outputs: 1}
				put(fmt.Sprintf("substr/k%d/s%d/%d-%d", n, ti, i, j), describe(pc), pc)
			}) {
				return true
			}
		}
	}
	enumerateTagBuilder(ctx)
	if ctx.Stop() {
		return true
	}

	// ---- two outputs of equal / different types x which of them holds a backlog across the restart
	for ki, ks := range kindSets {
		for bl := range backlogNames {
			ctx.Group(fmt.Sprintf("twoout/%s/backlog=%s", ks.name, backlogNames[bl]))
			if pairsOver(sigma, 1, func(i, j int, a, b []string) {
				pc := pairCase{n: 1, tmpl: templates[1], conns: 1, a: a, b: b, kinds: ks.kinds, backlog: bl}
				put(fmt.Sprintf("twoout/%d/b%d/%d-%d", ki, bl, i, j), describe(pc)+fmt.Sprintf(" outputs=%v backlog=%s", ks.kinds, backlogNames[bl]), pc)
			}) {
				return true
			}
		}
	}
	ctx.Group("twoout/ff+dd/backlog=second-only/envroot")
	if pairsOver(sigma, 1, func(i, j int, a, b []string) {
		pc := pairCase{n: 1, tmpl: templates[1], conns: 1, a: a, b: b, kinds: kindSets[1].kinds, backlog: backlogSecondOnly, rootForm: rootBracedVar}
		put(fmt.Sprintf("twoout/1/b2/env/%d-%d", i, j), describe(pc)+" outputs=[ff dd] backlog=second-only roots=${VAR}/o<i>", pc)
	}) {
		return true
	}
	if thorough {
		for ki, ks := range kindSets[1:] {
			for bl := 1; bl <= 2; bl++ {
				ctx.Group(fmt.Sprintf("twoout/keys2/%s/backlog=%s", ks.name, backlogNames[bl]))
				if pairsOver(sigma, 2, func(i, j int, a, b []string) {
					pc := pairCase{n: 2, tmpl: templates[1], conns: 1, a: a, b: b, kinds: ks.kinds, backlog: bl}
					put(fmt.Sprintf("twoout/k2/%d/b%d/%d-%d", ki+1, bl, i, j), describe(pc)+fmt.Sprintf(" outputs=%v backlog=%s", ks.kinds, backlogNames[bl]), pc)
				}) {
					return true
				}
			}
		}
	}

	// ---- key values that live in an input buffer which is overwritten once every output has serialized the record
	for _, ti := range []int{0, 1} {
		ctx.Group(fmt.Sprintf("volatile/keys1/tag=%s", templates[ti].name))
		if pairsOver(sigma, 1, func(i, j int, a, b []string) {
			pc := pairCase{n: 1, tmpl: templates[ti], conns: 1, a: a, b: b, outputs: 1, settle: true, volatile: true}
			put(fmt.Sprintf("volatile/k1/t%d/%d-%d", ti, i, j), describe(pc)+" key bytes overwritten after processing", pc)
		}) {
			return true
		}
	}
	ctx.Group("volatile/keys1/ff+dd")
	if pairsOver(sigma, 1, func(i, j int, a, b []string) {
		pc := pairCase{n: 1, tmpl: templates[0], conns: 2, a: a, b: b, kinds: kindSets[1].kinds, settle: true, volatile: true}
		put(fmt.Sprintf("volatile/k1/ffdd/%d-%d", i, j), describe(pc)+" outputs=[ff dd] key bytes overwritten after processing", pc)
	}) {
		return true
	}
	ctx.Group("volatile/keys2/cyclic-pairs")
	total := pow(len(sigma), 2)
	for _, ti := range []int{0, 1, 2} {
		for i := 0; i < total; i++ {
			if ctx.Stop() {
				return true
			}
			j := (i + 1) % total
			pc := pairCase{n: 2, tmpl: templates[ti], conns: 1, a: tupleOf(2, i), b: tupleOf(2, j), outputs: 1, settle: true, volatile: true}
			put(fmt.Sprintf("volatile/k2/t%d/%d-%d", ti, i, j), describe(pc)+" key bytes overwritten after processing", pc)
		}
	}
	return ctx.Stop()
}

const ruleText = "every ORDERED pair of distinct key tuples over {\"\",a,b,ab,\",\",\"a,\",.,/,NUL,é} with 1 and 2 key fields x 4 tag templates x {1,2} connections (both tiers); thorough adds 3 key fields: all 999000 ordered pairs on one connection and all 499500 unordered pairs on two connections under template t.$k1.$k2, and the 1000 cyclic pairs (i,i+1) under every template x {1,2} connections. Per case a fresh real obykeyset orchestrator " +
	"(real pipeline starter, hybrid buffer on a scratch root, fluentd serializer/chunk maker, non-confirming consumer override) gets one record of each tuple, is shut down, the queue directories are decoded, " +
	"a second orchestrator is started on the same root by Config.StartOrchestrator and gets one more record of each tuple; the same with all ordered pairs with 2 key fields on a two-output configuration. " +
	"Dimension groups on the same case: esc/* all ordered pairs over {\"\",a,\",\",%,%2C,%25,\" a\",\"a\\n\"} (1 key field x 4 templates x {1,2} connections; 2 key fields under t.$k1.$k2, thorough: every template and connection count); " +
	"bytes/* each of the characters U+0000..U+00FF (all 128 one-byte values; 128..255 as two-byte UTF-8, incl. the white space U+0085 and U+00A0) alone / trailing / leading / inside a value against the value without it; long/* values of 199..257 bytes (thorough: 1023..1025, 65535..65537) in 5 pair shapes and the pairs that coincide behind an overflowing 1-byte (thorough: 2-byte) length prefix, consumer-side oracle before the directory oracle; " +
	"envroot/* all 90 pairs with the root path written $VAR/.. and ${VAR}/..; substr/* 6 substring templates x all ordered pairs over {\"\",a,ab,abc,é} (2 key fields: 2 templates, thorough 6); tagbuilder/* obase.TagBuilder alone, 3 template shapes x 100 substring forms (bounds absent,-4..4) x 57 key tuples through ONE builder, every tag compared at once and again after all later builds; " +
	"twoout/* outputs {fluentd+fluentd, fluentd+datadog, datadog+fluentd} x backlog held by {both, first only, second only} across the restart x all 90 pairs (one sub-group with ${VAR} roots; thorough: 2 key fields on the mixed pairs); volatile/* key values living in a caller-owned buffer that is overwritten after every output has serialized the record, then a second record of each tuple on a new connection. " +
	"Oracle: different pipelines/chunks/queue dirs, delivery tag (fluentd tag / datadog ddtags) = reference expansion for the record's own tuple, serialized key fields unchanged, queued chunk re-attached at startup (for each output that holds one) to the pipeline that also receives the new record of its tuple and that carries its key_* labels, nothing confirmed is delivered again, nothing left on disk. " +
	"non-trivial = every case (all reach routing, queueing and recovery; tagbuilder cases reach every branch of the substring solver)"

var assumptions = []string{
	"key values are put into the record fields directly (any byte string the parser could extract); invalid UTF-8 values belong to C07",
	"substring bounds of ${k[a:b]} may count bytes or characters (undocumented): both expansions are accepted; out-of-range bounds are clamped ('no overflow', config_sample.yml), negative bounds count from the end (documented examples ${task[-1:]}, ${task[-3:-1]}, ${host[:-4]})",
	"with one key field the templates mentioning $k2 are used without the k2 part (a tag may only reference key fields)",
	"defs.InputLogMaxMessageBytes is scaled to 16 KiB (serializer buffer size only; 256 KiB for the cases with values of 64 KiB) and defs.BufferMaxNumChunksInQueue to 256 (channel capacity only); defs.IntermediateFlushInterval is 1 s in generation 1 (chunks cut at shutdown; 1 ms in the groups that wait for the consumers: long, volatile, asymmetric backlogs) and 1 ms in generation 2",
	"'re-attached at startup' is observed as: the consumer that delivers the queued chunk was created inside StartOrchestrator, not later when a record of the tuple arrived (documented intent in obykeyset/config.go)",
	"a Datadog event carries the pipeline's tag as ddtags (config_sample.yml: 'defaults to the orchestration tag if empty or undefined in schema'); no ddtags at all is accepted when the tag expands to the empty string",
	"an output that 'has delivered everything' is a consumer override that confirms every chunk; an output that 'holds a backlog' never confirms and hands its chunks back at shutdown (upstream down)",
	"long/* shuts generation 1 down with defs.BufferShutDownTimeout = 300 ms: a pipeline without queue directory waits that long (4 minutes by default) for its consumer, which never delivers in generation 1 - same outcome, shorter wait; pipelines with a queue directory do not wait",
	"the groups that wait for the consumers give a record 20 s to arrive (flush interval 1 ms)",
	"the class queue-dir:name-too-long is named by the logged cause (ENAMETOOLONG at the creation of the queue directory), the verdict is the missing record; every other missing record stays lost:gen1-record",
}
