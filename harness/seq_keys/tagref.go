package main

import (
	"fmt"
	"strings"

	"github.com/relex/slog-agent/orchestrate/obase"

	"slogverif/seq"
)

// ---------------------------------------------------------------------------------------------------------------------
// tag templates in the harness's own representation, and the reference expander (it never parses template text)

// sub is the substring form "${name[start:end]}"; either bound may be absent.
type sub struct {
	hasStart, hasEnd bool
	start, end       int
}

func (s sub) text() string {
	t := "["
	if s.hasStart {
		t += fmt.Sprint(s.start)
	}
	t += ":"
	if s.hasEnd {
		t += fmt.Sprint(s.end)
	}
	return t + "]"
}

// part of a tag template
type tpart struct {
	lit   string
	field int  // -1: literal
	sub   *sub // != nil: only this substring of the value
}

func lit(s string) tpart         { return tpart{lit: s, field: -1} }
func fld(i int) tpart            { return tpart{field: i} }
func fsub(i int, s sub) tpart    { return tpart{field: i, sub: &s} }
func upTo(end int) sub           { return sub{hasEnd: true, end: end} }
func from(start int) sub         { return sub{hasStart: true, start: start} }
func between(st, en int) sub     { return sub{hasStart: true, start: st, hasEnd: true, end: en} }
func partsText(p []tpart) string { return templateText(p, nil) }

// templateText writes the template text of parts for the given key field names (nil: k1, k2, ...)
func templateText(parts []tpart, names []string) string {
	var sb strings.Builder
	for _, p := range parts {
		switch {
		case p.field < 0:
			sb.WriteString(p.lit)
		case p.sub != nil:
			sb.WriteString("${" + fieldName(names, p.field) + p.sub.text() + "}")
		default:
			// "${name}" where the next literal would otherwise be read as part of the name
			sb.WriteString("${" + fieldName(names, p.field) + "}")
		}
	}
	return sb.String()
}

func fieldName(names []string, i int) string {
	if names != nil {
		return names[i]
	}
	return fmt.Sprintf("k%d", i+1)
}

type tagTemplate struct {
	name  string
	text  func(n int) string // template text given to the orchestrator, for n key fields
	parts func(n int) []tpart
}

// With a single key field the templates cannot mention $k2 (only key fields may be referenced); the k2 part is dropped.
// The indices of this table are part of the case ids: append only.
var templates = []tagTemplate{
	{"k1",
		func(n int) string { return "$k1" },
		func(n int) []tpart { return []tpart{fld(0)} }},
	{"t.k1.k2",
		func(n int) string {
			if n == 1 {
				return "t.$k1"
			}
			return "t.$k1.$k2"
		},
		func(n int) []tpart {
			if n == 1 {
				return []tpart{lit("t."), fld(0)}
			}
			return []tpart{lit("t."), fld(0), lit("."), fld(1)}
		}},
	{"k1[:1]-k2",
		func(n int) string {
			if n == 1 {
				return "${k1[:1]}-"
			}
			return "${k1[:1]}-$k2"
		},
		func(n int) []tpart {
			if n == 1 {
				return []tpart{fsub(0, upTo(1)), lit("-")}
			}
			return []tpart{fsub(0, upTo(1)), lit("-"), fld(1)}
		}},
	{"const",
		func(n int) string { return "constant" },
		func(n int) []tpart { return []tpart{lit("constant")} }},
}

// substring templates driven through the whole orchestrator (group substr/*); every documented shape of a bound occurs:
// negative start ("${task[-1:]}"), negative start reaching before the beginning of short values, positive start, negative end
// ("${host[:-4]}"), both bounds ("${task[-3:-1]}"), a template that is ONE variable part and templates with several parts
func fixedTemplate(name string, parts1, parts2 []tpart) tagTemplate {
	pick := func(n int) []tpart {
		if n == 1 {
			return parts1
		}
		return parts2
	}
	return tagTemplate{name, func(n int) string { return templateText(pick(n), nil) }, pick}
}

var subTemplates = []tagTemplate{
	fixedTemplate("k1[-1:]", []tpart{fsub(0, from(-1))}, []tpart{fsub(0, from(-1)), lit("."), fsub(1, from(-1))}),
	fixedTemplate("svc.k1[-3:]", []tpart{lit("svc."), fsub(0, from(-3))}, []tpart{lit("svc."), fsub(0, from(-3)), lit("/"), fsub(1, from(-3))}),
	fixedTemplate("k1[1:]", []tpart{fsub(0, from(1)), lit("!")}, []tpart{fsub(0, from(1)), lit("!"), fsub(1, from(1))}),
	fixedTemplate("k1[:-1]", []tpart{lit("h-"), fsub(0, upTo(-1))}, []tpart{lit("h-"), fsub(0, upTo(-1)), lit("-"), fsub(1, upTo(-1))}),
	fixedTemplate("k1[-3:-1]", []tpart{fsub(0, between(-3, -1))}, []tpart{fsub(0, between(-3, -1)), fld(1)}),
	fixedTemplate("k1[1:2]", []tpart{fsub(0, between(1, 2)), lit("_")}, []tpart{fsub(0, between(1, 2)), lit("_"), fsub(1, between(1, 2))}),
}

// refSlice is the documented substring: "${task[-1:]}", "${task[-3:-1]} result in \"78\" for task=56789", "${host[:-4]}",
// "may also use substring (no overflow)" (config_sample.yml) and `${color[:1]}-$type` => "R-Car" (package comment of
// stringtemplate): a negative bound counts from the end, a bound beyond either end of the value is clamped to that end
// (no overflow), an empty or inverted range gives "". Whether the bounds count bytes or characters is not documented: both
// readings are returned.
func refSlice(v string, s sub) []string {
	clamp := func(n int) (int, int) {
		start, end := 0, n
		if s.hasStart {
			start = s.start
			if start < 0 {
				start += n
			}
			if start < 0 {
				start = 0
			}
			if start > n {
				start = n
			}
		}
		if s.hasEnd {
			end = s.end
			if end < 0 {
				end += n
			}
			if end < 0 {
				end = 0
			}
			if end > n {
				end = n
			}
		}
		if start > end {
			start = end
		}
		return start, end
	}
	bs, be := clamp(len(v))
	byBytes := v[bs:be]
	runes := []rune(v)
	rs, re := clamp(len(runes))
	byRunes := string(runes[rs:re])
	if byRunes == byBytes {
		return []string{byBytes}
	}
	return []string{byBytes, byRunes}
}

// refTags is the reference expander: the acceptable tags of a tuple.
func refTags(parts []tpart, tuple []string) []string {
	outs := []string{""}
	for _, p := range parts {
		var alts []string
		switch {
		case p.field < 0:
			alts = []string{p.lit}
		case p.sub != nil:
			alts = refSlice(tuple[p.field], *p.sub)
		default:
			alts = []string{tuple[p.field]}
		}
		next := make([]string, 0, len(outs)*len(alts))
		for _, o := range outs {
			for _, a := range alts {
				next = append(next, o+a)
			}
		}
		outs = next
	}
	return outs
}

// ---------------------------------------------------------------------------------------------------------------------
// group tagbuilder/*: the tag builder of the orchestrator (obase.TagBuilder, the object newPipeline calls) driven directly:
// ONE long-lived builder per case builds the tags of a whole list of key tuples one after the other; every result is compared
// with the reference at once and AGAIN after all later calls (a tag must not live in the builder's scratch buffer).

var boundValues = []int{-4, -3, -2, -1, 0, 1, 2, 3, 4}

func allSubs() []sub {
	var out []sub
	for si := -1; si < len(boundValues); si++ {
		for ei := -1; ei < len(boundValues); ei++ {
			s := sub{}
			if si >= 0 {
				s.hasStart, s.start = true, boundValues[si]
			}
			if ei >= 0 {
				s.hasEnd, s.end = true, boundValues[ei]
			}
			out = append(out, s)
		}
	}
	return out
}

// values of the first key: every length 0..5 around the bounds, multi-byte characters at either end, the separators of the
// other roles, and values around the initial capacity of the builder's buffer (200) and beyond one-byte lengths
var tagBuilderK1 = []string{"", "a", "ab", "abc", "abcd", "abcde", "é", "aé", "éa", "日本語", ",", "%", "$k2", "${k1}",
	strings.Repeat("x", 197) + "ab", strings.Repeat("x", 198) + "ab", strings.Repeat("x", 199) + "ab", strings.Repeat("y", 255) + "ab", strings.Repeat("z", 300)}
var tagBuilderK2 = []string{"", "z", "é,"}

func enumerateTagBuilder(ctx *seq.Ctx) {
	ctx.Group("tagbuilder/substring-forms")
	shapes := []struct {
		name  string
		parts func(s sub) []tpart
	}{
		{"single-part", func(s sub) []tpart { return []tpart{fsub(0, s)} }},
		{"lit+sub+k2", func(s sub) []tpart { return []tpart{lit("x."), fsub(0, s), lit("-"), fld(1)} }},
		{"k2+sub+sub", func(s sub) []tpart { return []tpart{fld(1), fsub(0, s), fsub(1, s)} }},
	}
	for shi, sh := range shapes {
		for sbi, s := range allSubs() {
			if ctx.Stop() {
				return
			}
			if !ctx.Mine() {
				ctx.Skip()
				continue
			}
			parts := sh.parts(s)
			text := partsText(parts)
			id := fmt.Sprintf("tagbuilder/%d/%d", shi, sbi)
			ctx.Case(id, true, fmt.Sprintf("shape=%s template=%q over %d x %d key tuples through one builder", sh.name, text, len(tagBuilderK1), len(tagBuilderK2)),
				func() (string, string) { return runTagBuilder(text, parts) })
		}
	}
}

func runTagBuilder(text string, parts []tpart) (string, string) {
	tb, err := obase.NewTagBuilder(text, []string{"k1", "k2"})
	if err != nil {
		return "tagbuilder:template-rejected", fmt.Sprintf("template %q (documented substring syntax) rejected: %v", text, err)
	}
	type res struct {
		tuple []string
		tag   string
		want  []string
	}
	var all []res
	for _, v1 := range tagBuilderK1 {
		for _, v2 := range tagBuilderK2 {
			tuple := []string{string(append([]byte(nil), v1...)), string(append([]byte(nil), v2...))}
			tag := tb.Build(tuple)
			want := refTags(parts, tuple)
			if !inList(tag, want) {
				return "tag:builder-mismatch", fmt.Sprintf("template %q, key values %s: tag %s, documented expansion %s", text, qs(tuple), clipq(tag), qs(want))
			}
			all = append(all, res{tuple, tag, want})
		}
	}
	for _, r := range all {
		if !inList(r.tag, r.want) {
			return "tag:builder-result-changed-later", fmt.Sprintf("template %q, key values %s: the tag was correct when built and reads %s after later builds (expansion %s)", text, qs(r.tuple), clipq(r.tag), qs(r.want))
		}
	}
	return "", ""
}
