package main

import (
	"fmt"
	"strings"
	"time"
)

// The reference model of C13: a recogniser for ARBITRARY strings, written from the property statement and RFC 3339
// section 5.6 / 5.7 (never from the code under test). It sorts a string into one of four classes:
//
//	vValid   a valid RFC 3339 timestamp with 0-9 fraction digits and Z or a numeric offset (colon or compact form):
//	         must be accepted (no error counted) and come out as exactly the instant (secs, ns)
//	vLeap    a valid RFC 3339 leap second (23:59:60 UTC on 30 June / 31 December): must be accepted; Unix time has no
//	         leap seconds, so both conventions are right: the instant of :59 plus one second (roll over) or :59 (clamp)
//	vReject  not shaped like a date-time (empty, NIL, shorter than a date-time, wrong separators, a complete date-time
//	         followed by bytes that are not "[.digits] offset": truncated / malformed offset, trailing garbage):
//	         must be counted as an error and leave the fallback receive time in place, on every occurrence
//	vEither  shaped like a date-time but outside both claims (see Assumptions): only totality, and "an error that is
//	         counted leaves the timestamp untouched" (the error path named in the property's mechanism)
type verdict int

const (
	vValid verdict = iota
	vLeap
	vReject
	vEither
)

type model struct {
	v        verdict
	why      string
	secs, ns int64 // vValid: the instant; vLeap: the instant of the same time with :59
	off      int64 // vValid: offset east of UTC in seconds
	// vReject because of what follows a complete, in-range date-time with 0-9 fraction digits: the instant the date-time
	// would denote in UTC (used only to name the class of a wrong acceptance, never to accept one)
	hasLocal       bool
	local, localNs int64
}

func isDigit(c byte) bool { return c >= '0' && c <= '9' }

func num(s string) int64 {
	n := int64(0)
	for i := 0; i < len(s); i++ {
		n = n*10 + int64(s[i]-'0')
	}
	return n
}

func allDigits(s string) bool {
	for i := 0; i < len(s); i++ {
		if !isDigit(s[i]) {
			return false
		}
	}
	return true
}

// zoneForm recognises "Z", "+hh:mm", "+hhmm" (either sign): ok, hours, minutes, sign.
func zoneForm(z string) (ok bool, hh, mm, sign int64) {
	if z == "Z" {
		return true, 0, 0, 1
	}
	if len(z) < 5 || (z[0] != '+' && z[0] != '-') {
		return false, 0, 0, 0
	}
	sign = 1
	if z[0] == '-' {
		sign = -1
	}
	switch {
	case len(z) == 6 && z[3] == ':' && allDigits(z[1:3]) && allDigits(z[4:6]):
		return true, num(z[1:3]), num(z[4:6]), sign
	case len(z) == 5 && allDigits(z[1:5]):
		return true, num(z[1:3]), num(z[3:5]), sign
	}
	return false, 0, 0, 0
}

// badZoneClass names why a non-empty tail behind the (optional) fraction is not a zone.
func badZoneClass(z string) string {
	// a proper prefix of a zone form: the offset is cut
	if z[0] == '+' || z[0] == '-' {
		r := z[1:]
		switch {
		case len(r) <= 3 && allDigits(r): // "+", "+h", "+hh", "+hhm"
			return "truncated-offset"
		case (len(r) == 3 || len(r) == 4) && allDigits(r[:2]) && r[2] == ':' && allDigits(r[3:]): // "+hh:", "+hh:m"
			return "truncated-offset"
		}
	}
	// a complete zone followed by more bytes
	if z[0] == 'Z' {
		return "trailing-garbage"
	}
	if len(z) > 6 {
		if ok, _, _, _ := zoneForm(z[:6]); ok {
			return "trailing-garbage"
		}
	}
	if len(z) > 5 {
		if ok, _, _, _ := zoneForm(z[:5]); ok {
			return "trailing-garbage"
		}
	}
	return "malformed-offset"
}

var monthDays = [13]int64{0, 31, 28, 31, 30, 31, 30, 31, 31, 30, 31, 30, 31}

func daysIn(y, m int64) int64 {
	if m == 2 && ((y%4 == 0 && y%100 != 0) || y%400 == 0) {
		return 29
	}
	return monthDays[m]
}

// classify is the reference recogniser.
func classify(s string) model {
	switch {
	case s == "":
		return model{v: vReject, why: "empty"}
	case s == "-":
		return model{v: vReject, why: "nil-value"}
	case len(s) < 19:
		return model{v: vReject, why: "truncated"}
	case s[4] != '-' || s[7] != '-' || s[10] != 'T' || s[13] != ':' || s[16] != ':':
		return model{v: vReject, why: "wrong-separator"}
	}
	for _, r := range [][2]int{{0, 4}, {5, 7}, {8, 10}, {11, 13}, {14, 16}, {17, 19}} {
		if !allDigits(s[r[0]:r[1]]) {
			return model{v: vEither, why: "non-digit-in-a-number"}
		}
	}
	tail := s[19:]
	frac := ""
	if tail != "" && tail[0] == '.' {
		j := 1
		for j < len(tail) && isDigit(tail[j]) {
			j++
		}
		frac = tail[1:j]
		if frac == "" {
			if j == len(tail) {
				return model{v: vReject, why: "truncated-fraction"}
			}
			return model{v: vReject, why: "malformed-fraction"}
		}
		tail = tail[j:]
	}
	if tail == "" {
		return model{v: vEither, why: "no-offset"}
	}
	y, mo, d, h, mi, sec := num(s[0:4]), num(s[5:7]), num(s[8:10]), num(s[11:13]), num(s[14:16]), num(s[17:19])
	ok, zh, zm, sign := zoneForm(tail)
	if !ok {
		m := model{v: vReject, why: badZoneClass(tail)}
		if mo >= 1 && mo <= 12 && d >= 1 && d <= daysIn(y, mo) && h <= 23 && mi <= 59 && sec <= 59 && len(frac) <= 9 {
			m.hasLocal = true
			m.local, m.localNs = refInstant(y, mo, d, h, mi, sec, frac, 0)
		}
		return m
	}
	if mo < 1 || mo > 12 || d < 1 || d > daysIn(y, mo) || h > 23 || mi > 59 || sec > 60 || zh > 23 || zm > 59 {
		return model{v: vEither, why: "field-out-of-range"}
	}
	if len(frac) > 9 {
		return model{v: vEither, why: "fraction-beyond-nine-digits"}
	}
	off := sign * (zh*3600 + zm*60)
	if sec == 60 {
		secs, ns := refInstant(y, mo, d, h, mi, 59, frac, off)
		// RFC 3339 5.7: leap seconds are inserted at the end of a month, 23:59:60 UTC; every one so far on 30 June or 31 December
		tod := ((secs % 86400) + 86400) % 86400
		next := secs + 1 // 00:00:00 UTC of the following day
		if tod == 86399 && (isFirstOf(next, 7) || isFirstOf(next, 1)) {
			return model{v: vLeap, why: "leap-second", secs: secs, ns: ns, off: off}
		}
		return model{v: vEither, why: "second-60-elsewhere"}
	}
	secs, ns := refInstant(y, mo, d, h, mi, sec, frac, off)
	return model{v: vValid, secs: secs, ns: ns, off: off}
}

// isFirstOf reports whether the UTC midnight 'secs' is the first day of the given month (civil-from-days, Hinnant).
func isFirstOf(secs int64, month int64) bool {
	z := secs/86400 + 719468
	if secs%86400 != 0 {
		return false
	}
	var era int64
	if z >= 0 {
		era = z / 146097
	} else {
		era = (z - 146096) / 146097
	}
	doe := z - era*146097
	yoe := (doe - doe/1460 + doe/36524 - doe/146096) / 365
	doy := doe - (365*yoe + yoe/4 - yoe/100)
	mp := (5*doy + 2) / 153
	d := doy - (153*mp+2)/5 + 1
	m := mp + 3
	if m > 12 {
		m -= 12
	}
	return d == 1 && m == month
}

// crossCheck compares the reference with the standard library (never with the code under test) wherever the library
// accepts the form: a harness self-check, reported under its own key.
func crossCheck(text string, m model) (string, string) {
	if m.v != vValid {
		return "", ""
	}
	layout := "2006-01-02T15:04:05.999999999Z07:00"
	if !strings.HasSuffix(text, "Z") && text[len(text)-3] != ':' {
		layout = "2006-01-02T15:04:05.999999999Z0700"
	}
	t, err := time.Parse(layout, text)
	if err != nil || t.Unix() != m.secs || int64(t.Nanosecond()) != m.ns {
		return "harness:reference-disagrees-with-time.Parse", fmt.Sprintf("%q: reference says %d.%09d, time.Parse says %v (%v)", text, m.secs, m.ns, t.UTC(), err)
	}
	return "", ""
}
