package main

import (
	"fmt"
	"strings"
	"time"

	"github.com/relex/gotils/logger"
	"github.com/relex/gotils/promexporter/promreg"
	"github.com/relex/slog-agent/base"
	"github.com/relex/slog-agent/base/bsupport"
	"github.com/relex/slog-agent/base/btest"
	"github.com/relex/slog-agent/input/syslogparser"
	"github.com/relex/slog-agent/transform/tparsetime"

	"slogverif/seq"
)

// pipeline is the transform in its real surroundings: the listener's read buffer (overwritten after every Accept), the
// real parsing receiver (which stamps records with the receive time), the real syslog parser and the real record
// allocator (records longer than defs.InputLogMinRecordBytesToPool live in pooled buffers that are recycled by Release).
type pipeline struct {
	alloc   *base.LogAllocator
	sink    base.MessageReceiverSink
	out     []*base.LogRecord
	tf      base.LogTransform
	lookup  btest.LookupStubCustomerCounterFunc
	readBuf []byte
	tick    time.Time // harness clock reading taken right before the most recent NewSink / Flush call
}

func (p *pipeline) NewSink(string, base.ClientNumber) base.BufferReceiverSink { return p }
func (p *pipeline) Accept(buffer []*base.LogRecord)                           { p.out = append(p.out, buffer...) }
func (p *pipeline) Tick()                                                     {}
func (p *pipeline) Close()                                                    {}

func newPipeline() *pipeline {
	schema := base.MustNewLogSchema([]string{"facility", "level", "time", "host", "app", "pid", "source", "extradata", "log"})
	p := &pipeline{alloc: base.NewLogAllocator(schema, 1), readBuf: make([]byte, 8192)}
	createParser := func(l logger.Logger, ic *base.LogInputCounterSet) base.LogParser {
		return syslogparser.MustNewParser(l, p.alloc, schema, nil, ic)
	}
	mf := promreg.NewMetricFactory("c13_", nil, nil)
	recv := bsupport.NewLogParsingReceiver(logger.Root(), createParser, p, mf.AddOrGetPrefix("input_", nil, nil))
	reg, lookup := btest.NewStubLogCustomCounterRegistry()
	p.tf = (&tparsetime.Config{Key: "time", ErrorLabel: "badTimestamp"}).NewTransform(schema, logger.Root(), reg)
	p.lookup = lookup
	p.tick = time.Now()
	p.sink = recv.NewSink("10.0.0.1:1000", 1)
	return p
}

func (p *pipeline) flush() {
	p.tick = time.Now()
	p.sink.Flush()
}

// accept hands one syslog record to the sink as a slice of the read buffer and overwrites the buffer afterwards (the
// next read lands there). Returns the window in which the record's receive time must lie.
func (p *pipeline) accept(ts string, pad int) (lower, upper time.Time) {
	n := copy(p.readBuf, "<13>1 "+ts+" host app 1 src - ")
	for i := 0; i < pad; i++ {
		p.readBuf[n+i] = 'm'
	}
	n += pad
	lower = p.tick
	p.sink.Accept(p.readBuf[:n])
	upper = time.Now()
	for i := 0; i < n; i++ {
		p.readBuf[i] = 0xff
	}
	return lower, upper
}

// deliver flushes, takes the one record that must come out, checks its receive time, runs the transform on it and
// releases it (its buffer goes back to the pool and is handed out again for the next record of the same size class).
func (p *pipeline) deliver(h *historyJudge, i int, ts string, lower, upper time.Time) {
	p.out = p.out[:0]
	p.flush()
	if len(p.out) != 1 {
		h.add("harness:pipeline-record-count", fmt.Sprintf("step %d: %q: %d records came out of the parsing receiver, expected 1", i, ts, len(p.out)))
		return
	}
	rec := p.out[0]
	recv := rec.Timestamp
	switch {
	case recv.Before(lower):
		h.add("receive-time:stale", fmt.Sprintf("step %d: the record was stamped with a receive time %v older than the start of the last Flush / NewSink before its Accept (the fallback time of a record without a usable timestamp)", i, lower.Sub(recv)))
	case recv.After(upper):
		h.add("receive-time:in-the-future", fmt.Sprintf("step %d: the record was stamped with a receive time %v after its Accept returned", i, recv.Sub(upper)))
	}
	before, _ := p.lookup("badTimestamp")
	res := p.tf.Transform(rec)
	after, _ := p.lookup("badTimestamp")
	h.step(i, ts, obs{rec.Timestamp, after > before, res}, recv)
	p.alloc.Release(rec)
}

func (h *historyJudge) add(k, msg string) {
	if _, ok := h.msgs[k]; !ok {
		h.keys = append(h.keys, k)
		h.msgs[k] = msg
	}
}

// syslogSafe: the value can travel in the TIMESTAMP field of a syslog header (no space, valid UTF-8).
func syslogSafe(ts string) bool { return !strings.ContainsAny(ts, " \xff\x00\n") }

func enumeratePipeline(ctx *seq.Ctx) {
	// ---- the fallback is the RECEIVE time: after k idle flush ticks (nothing buffered) a record is stamped with a clock
	// reading not older than the last tick. Sizes on both sides of the pooling limit.
	ctx.Group("pipeline/receive-time")
	for _, prior := range []int{0, 1, 3} {
		for _, idle := range []int{0, 1, 2, 5} {
			for _, ts := range []string{"-", "", "2019-08-15", "2019-08-15X15:50:46Z", "2019-08-15T15:50:46+03:0", "2019-08-15T15:50:46.866915+03:00"} {
				for _, pad := range []int{16, 990, 1100} {
					id := fmt.Sprintf("recvtime/prior%d/idle%d/pad%d/%s", prior, idle, pad, ts)
					ctx.Case(id, true, id, func() (string, string) {
						useEnv(zoneEnvs[(prior+idle)%len(zoneEnvs)])
						p := newPipeline()
						h := newHistoryJudge(true)
						for i := 0; i < prior; i++ {
							lo, up := p.accept("2020-07-15T12:00:00.5+01:00", pad)
							p.deliver(h, i, "2020-07-15T12:00:00.5+01:00", lo, up)
						}
						for i := 0; i < idle; i++ {
							time.Sleep(time.Millisecond)
							p.flush()
						}
						time.Sleep(time.Millisecond)
						lo, up := p.accept(ts, pad)
						p.deliver(h, prior, ts, lo, up)
						return h.result(ctx, id, id)
					})
				}
			}
		}
	}
	// ---- all ordered pairs (a, b, a) of the menu through one pipeline, short records and pooled ones
	ctx.Group("pipeline/pairs")
	for _, pad := range []int{16, 1100} {
		for ai, a := range pairMenu {
			for bi, b := range pairMenu {
				if !syslogSafe(a) || !syslogSafe(b) {
					continue
				}
				id := fmt.Sprintf("pipepair/pad%d/%d/%d", pad, ai, bi)
				ctx.Case(id, true, fmt.Sprintf("%q, %q, %q", a, b, a), func() (string, string) {
					useEnv(zoneEnvs[(ai+bi)%len(zoneEnvs)])
					p := newPipeline()
					h := newHistoryJudge(true)
					for i, ts := range []string{a, b, a} {
						lo, up := p.accept(ts, pad)
						p.deliver(h, i, ts, lo, up)
					}
					return h.result(ctx, id, id)
				})
			}
		}
	}
	// ---- every zone spelling through one pipeline in pooled records
	ctx.Group("pipeline/zone-sweep")
	for ei, env := range zoneEnvs {
		for _, order := range []string{"asc", "stride"} {
			for _, nd := range []int{0, 6} {
				id := fmt.Sprintf("pipesweep/%s/%s/frac%d", env.name, order, nd)
				ctx.Case(id, true, id, func() (string, string) {
					useEnv(zoneEnvs[ei])
					p := newPipeline()
					h := newHistoryJudge(true)
					for i, ts := range sweepSteps(order, nd, "2020-07-15") {
						lo, up := p.accept(ts, 1100)
						p.deliver(h, i, ts, lo, up)
					}
					return h.result(ctx, id, id)
				})
			}
		}
	}
}
