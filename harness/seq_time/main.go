// Command seq_time decides C13: timestamps are parsed exactly and parsing is total. Bounded-exhaustive enumeration of
// the exported parseTime transform against an integer reference (days-from-civil arithmetic).
package main

import (
	"fmt"
	"strings"
	"time"

	"github.com/relex/gotils/logger"
	"github.com/relex/slog-agent/base"
	"github.com/relex/slog-agent/base/btest"
	"github.com/relex/slog-agent/transform/tparsetime"

	"slogverif/seq"
)

// daysFromCivil is Howard Hinnant's algorithm: days since 1970-01-01 of a proleptic Gregorian date.
func daysFromCivil(y, m, d int64) int64 {
	if m <= 2 {
		y--
	}
	var era int64
	if y >= 0 {
		era = y / 400
	} else {
		era = (y - 399) / 400
	}
	yoe := y - era*400
	mp := (m + 9) % 12
	doy := (153*mp+2)/5 + d - 1
	doe := yoe*365 + yoe/4 - yoe/100 + doy
	return era*146097 + doe - 719468
}

// refInstant returns unix seconds and nanoseconds denoted by the components; offsetSec is east of UTC.
func refInstant(y, mo, d, h, mi, s int64, fracDigits string, offsetSec int64) (int64, int64) {
	ns := int64(0)
	scale := int64(100000000)
	for i := 0; i < len(fracDigits) && i < 9; i++ {
		ns += int64(fracDigits[i]-'0') * scale
		scale /= 10
	}
	secs := daysFromCivil(y, mo, d)*86400 + h*3600 + mi*60 + s - offsetSec
	return secs, ns
}

type fixture struct {
	schema base.LogSchema
	tf     base.LogTransform
	lookup btest.LookupStubCustomerCounterFunc
}

func newFixture() *fixture {
	schema := base.MustNewLogSchema([]string{"time"})
	cfg := &tparsetime.Config{Key: "time", ErrorLabel: "timeError"}
	reg, lookup := btest.NewStubLogCustomCounterRegistry()
	return &fixture{schema: schema, tf: cfg.NewTransform(schema, logger.Root(), reg), lookup: lookup}
}

var fallback = time.Unix(1234567890, 987654321)

// parse runs the transform on one value; returns the resulting timestamp and whether an error was counted.
func (f *fixture) parse(value string) (time.Time, bool, base.FilterResult) {
	rec := f.schema.NewTestRecord2(fallback, base.LogFields{value})
	rec.RawLength = 100
	before, _ := f.lookup("timeError")
	res := f.tf.Transform(rec)
	after, _ := f.lookup("timeError")
	return rec.Timestamp, after > before, res
}

func checkExact(f *fixture, text string, secs, ns int64) (string, string) {
	f.parse(text) // first occurrence fills the time zone cache; the second one is checked
	ts, counted, res := f.parse(text)
	if res != base.PASS {
		return "not-pass", fmt.Sprintf("%q: transform returned %v", text, res)
	}
	if counted {
		return "valid-rejected", fmt.Sprintf("%q is a valid RFC 3339 timestamp but was counted as an error", text)
	}
	if ts.Unix() != secs || int64(ts.Nanosecond()) != ns {
		d := (ts.Unix()-secs)*1_000_000_000 + int64(ts.Nanosecond()) - ns
		cls := "inexact:other"
		switch {
		case d == -1:
			cls = "inexact:1ns-low"
		case d == 1:
			cls = "inexact:1ns-high"
		}
		return cls, fmt.Sprintf("%q parsed to %d.%09d, the instant denoted is %d.%09d (off by %d ns)", text, ts.Unix(), ts.Nanosecond(), secs, ns, d)
	}
	return "", ""
}

// checkRejected: the string is not shaped like a date-time: error counted, fallback time kept, no panic.
func checkRejected(f *fixture, text, why string) (string, string) {
	// the same transform instance sees the string several times (a connection repeats its timestamps; the transform
	// keeps a time zone cache): every occurrence must be rejected, not only the first
	for round := 1; round <= 3; round++ {
		ts, counted, res := f.parse(text)
		if res != base.PASS {
			return "not-pass", fmt.Sprintf("%q: transform returned %v", text, res)
		}
		if !counted || !ts.Equal(fallback) {
			cls := "malformed-accepted:" + why
			if round > 1 {
				cls += ":on-repetition"
			}
			return cls, fmt.Sprintf("%q (%s), occurrence %d through one transform instance, must be reported as an error and leave the receive time in place: counted=%v timestamp=%v", text, why, round, counted, ts.UTC())
		}
	}
	return "", ""
}

// checkTotal: any string: no panic (a panic is caught by seq and reported with its site).
func checkTotal(f *fixture, text string) (string, string) {
	_, _, res := f.parse(text)
	if res != base.PASS {
		return "not-pass", fmt.Sprintf("%q: transform returned %v", text, res)
	}
	return "", ""
}

// cutInsideOffset reports whether s[:n] ends inside the numeric offset of the valid timestamp s (sign seen, offset incomplete).
func cutInsideOffset(s string, n int) bool {
	i := strings.LastIndexAny(s, "+-")
	if i < 19 || strings.HasSuffix(s, "Z") {
		return false
	}
	return n > i && n < len(s)
}

func enumerate(ctx *seq.Ctx) {
	f := newFixture()
	// ---- exactness of fractions: ALL fractions of 1..6 digits (quick) and 1..9 digits (thorough)
	const base1 = "2019-08-15T15:50:46"
	secsBase, _ := refInstant(2019, 8, 15, 15, 50, 46, "", 3*3600)
	maxDigits := 6
	if ctx.Thorough() {
		maxDigits = 9
	}
	buf := make([]byte, 0, 64)
	for nd := 1; nd <= maxDigits && !ctx.Stop(); nd++ {
		ctx.Group(fmt.Sprintf("fraction/%d-digits/all", nd))
		limit := int64(1)
		for i := 0; i < nd; i++ {
			limit *= 10
		}
		for v := int64(0); v < limit; v++ {
			if !ctx.Mine() {
				ctx.Skip()
				continue
			}
			if ctx.Stop() {
				break
			}
			digits := fmt.Sprintf("%0*d", nd, v)
			buf = append(buf[:0], base1...)
			buf = append(buf, '.')
			buf = append(buf, digits...)
			buf = append(buf, "+03:00"...)
			text := string(buf)
			_, ns := refInstant(0, 1, 1, 0, 0, 0, digits, 0)
			ctx.Case("frac/"+digits, true, text, func() (string, string) { return checkExact(f, text, secsBase, ns) })
		}
	}
	if !ctx.Thorough() {
		// quick tier, 7-9 digits: the finite sub-domain "all digits zero outside one aligned 3-digit window" plus the 10^5
		// smallest and largest values of each length (completely enumerated, not sampled)
		for nd := 7; nd <= 9; nd++ {
			ctx.Group(fmt.Sprintf("fraction/%d-digits/windows+edges", nd))
			seen := map[string]bool{}
			emit := func(digits string) {
				if seen[digits] {
					return
				}
				seen[digits] = true
				text := base1 + "." + digits + "+03:00"
				_, ns := refInstant(0, 1, 1, 0, 0, 0, digits, 0)
				ctx.Case("frac/"+digits, true, text, func() (string, string) { return checkExact(f, text, secsBase, ns) })
			}
			for start := 0; start+3 <= nd; start++ {
				for w := 0; w < 1000; w++ {
					d := []byte(strings.Repeat("0", nd))
					copy(d[start:], fmt.Sprintf("%03d", w))
					emit(string(d))
				}
			}
			limit := int64(1)
			for i := 0; i < nd; i++ {
				limit *= 10
			}
			for v := int64(0); v < 100000; v++ {
				emit(fmt.Sprintf("%0*d", nd, v))
				emit(fmt.Sprintf("%0*d", nd, limit-1-v))
			}
		}
	}
	// ---- offsets: all +-hh:mm with hh<24, mm<60 in colon and compact form, and Z
	ctx.Group("offsets/all")
	for _, sign := range []int64{1, -1} {
		for hh := int64(0); hh < 24; hh++ {
			for mm := int64(0); mm < 60; mm++ {
				for _, colon := range []bool{true, false} {
					s := "+"
					if sign < 0 {
						s = "-"
					}
					var tz string
					if colon {
						tz = fmt.Sprintf("%s%02d:%02d", s, hh, mm)
					} else {
						tz = fmt.Sprintf("%s%02d%02d", s, hh, mm)
					}
					for _, frac := range []string{"", "5", "123", "000001", "999999999"} {
						text := "2020-02-29T23:59:59"
						if frac != "" {
							text += "." + frac
						}
						text += tz
						secs, ns := refInstant(2020, 2, 29, 23, 59, 59, frac, sign*(hh*3600+mm*60))
						ctx.Case("offset/"+text, true, text, func() (string, string) { return checkExact(f, text, secs, ns) })
					}
				}
			}
		}
	}
	// ---- dates: every month end, leap days, boundary years, with Z
	ctx.Group("dates")
	mdays := []int64{31, 28, 31, 30, 31, 30, 31, 31, 30, 31, 30, 31}
	for _, y := range []int64{1, 1600, 1900, 1969, 1970, 1999, 2000, 2019, 2020, 2038, 2100, 9999} {
		leap := (y%4 == 0 && y%100 != 0) || y%400 == 0
		for m := int64(1); m <= 12; m++ {
			last := mdays[m-1]
			if m == 2 && leap {
				last = 29
			}
			for _, d := range []int64{1, 15, last} {
				for _, hms := range [][3]int64{{0, 0, 0}, {12, 34, 56}, {23, 59, 59}} {
					for _, z := range []string{"Z", "+00:00", "-00:00", "+14:00", "-12:00"} {
						off := int64(0)
						switch z {
						case "+14:00":
							off = 14 * 3600
						case "-12:00":
							off = -12 * 3600
						}
						text := fmt.Sprintf("%04d-%02d-%02dT%02d:%02d:%02d.123456789%s", y, m, d, hms[0], hms[1], hms[2], z)
						secs, ns := refInstant(y, m, d, hms[0], hms[1], hms[2], "123456789", off)
						ctx.Case("date/"+text, true, text, func() (string, string) { return checkExact(f, text, secs, ns) })
					}
				}
			}
		}
	}
	// ---- totality: all strings over a 9-symbol alphabet up to length 6 (quick) / 7 (thorough). Every one of them is
	// shorter than the shortest date-time (19), i.e. "truncated": must be an error, counted, fallback kept.
	alphabet := "20-T:.Z+ "
	maxLen := 6
	if ctx.Thorough() {
		maxLen = 7
	}
	for l := 0; l <= maxLen && !ctx.Stop(); l++ {
		ctx.Group(fmt.Sprintf("totality/len%d", l))
		idx := make([]int, l)
		for {
			if ctx.Mine() {
				b := make([]byte, l)
				for i, x := range idx {
					b[i] = alphabet[x]
				}
				text := string(b)
				why := "truncated"
				if l == 0 {
					why = "empty"
				}
				ctx.Case("short/"+text, l > 0, text, func() (string, string) { return checkRejected(f, text, why) })
			} else {
				ctx.Skip()
			}
			i := l - 1
			for i >= 0 {
				idx[i]++
				if idx[i] < len(alphabet) {
					break
				}
				idx[i] = 0
				i--
			}
			if i < 0 {
				break
			}
		}
	}
	// ---- malformed offsets behind a complete date-time: truncated / wrong separators in the zone
	ctx.Group("offsets/malformed")
	for _, tz := range []string{"+", "-", "+0", "+03", "+03:", "+03:0", "+030", "+03-00", "+03.00", " 03:00", "+3:00", "+03:0x", "z", "UTC", "+03:00:00", "+03:000"} {
		for _, frac := range []string{"", ".5", ".123456"} {
			text := "2020-02-29T23:59:59" + frac + tz
			ctx.Case("badoffset/"+text, true, text, func() (string, string) { return checkRejected(f, text, "malformed-offset") })
		}
	}
	// ---- NIL value, every prefix of valid timestamps, wrong separators, one-edit neighbours
	ctx.Group("shape")
	ctx.Case("nil", true, "-", func() (string, string) { return checkRejected(f, "-", "nil-value") })
	seeds := []string{"2019-08-15T15:50:46.866915+03:00", "2020-09-17T16:51:47.867Z", "1999-12-31T23:59:59-0800", "2021-01-01T00:00:00Z"}
	for _, s := range seeds {
		for n := 0; n < len(s); n++ {
			text := s[:n]
			if n < 19 {
				why := "truncated"
				if n == 0 {
					why = "empty"
				}
				ctx.Case("prefix/"+text, n > 0, text, func() (string, string) { return checkRejected(f, text, why) })
			} else if cutInsideOffset(s, n) {
				// the date-time part is complete but the numeric offset is cut: a truncated timestamp
				ctx.Case("prefix/"+text, true, text, func() (string, string) { return checkRejected(f, text, "truncated-offset") })
			} else {
				ctx.Case("prefix/"+text, true, text, func() (string, string) { return checkTotal(f, text) })
			}
		}
		for _, pos := range []int{4, 7, 10, 13, 16} {
			for c := 0; c < 256; c++ {
				if byte(c) == s[pos] {
					continue
				}
				b := []byte(s)
				b[pos] = byte(c)
				text := string(b)
				ctx.Case(fmt.Sprintf("sep/%s/%d/%02x", s, pos, c), true, text, func() (string, string) { return checkRejected(f, text, "wrong-separator") })
			}
		}
		// all one-edit neighbours: substitution by any byte, deletion, insertion of any byte: never a panic
		for pos := 0; pos <= len(s); pos++ {
			for c := 0; c < 256; c++ {
				if pos < len(s) {
					b := []byte(s)
					b[pos] = byte(c)
					text := string(b)
					ctx.Case(fmt.Sprintf("edit-sub/%s/%d/%02x", s, pos, c), true, text, func() (string, string) { return checkTotal(f, text) })
				}
				text := s[:pos] + string([]byte{byte(c)}) + s[pos:]
				ctx.Case(fmt.Sprintf("edit-ins/%s/%d/%02x", s, pos, c), true, text, func() (string, string) { return checkTotal(f, text) })
			}
			if pos < len(s) {
				text := s[:pos] + s[pos+1:]
				ctx.Case(fmt.Sprintf("edit-del/%s/%d", s, pos), true, text, func() (string, string) {
					if len(text) < 19 {
						return checkRejected(f, text, "truncated")
					}
					return checkTotal(f, text)
				})
			}
		}
	}
}

func main() {
	logger.SetLogLevel(logger.ErrorLevel)
	seq.Main(&seq.Config{
		Property: "C13",
		Level:    "exploration",
		Rule: "bounded-exhaustive enumeration through the exported parseTime transform: ALL fractions of 1-6 digits (quick) / 1-9 digits (thorough; quick adds the stated finite sub-domain of 7-9 digit fractions), " +
			"all numeric offsets hh<24 mm<60 in colon and compact form x 5 fraction shapes, month ends/leap days over 12 boundary years, all strings over {2,0,-,T,:,.,Z,+,space} up to length 6/7, " +
			"every prefix, every wrong separator byte and every one-edit neighbour of 4 valid timestamps; oracle: integer days-from-civil reference; non-trivial = every case except the empty string (all reach the parser)",
		Assumptions: []string{
			"leap second :60 and digit positions holding non-digits are outside the exactness claim (only no-panic is required there)",
			"a date-time without offset is not a valid RFC 3339 timestamp: only totality is checked for it",
		},
		Enumerate:        enumerate,
		ThoroughDeadline: 90 * time.Minute,
	})
}
