// Command seq_time decides C13: timestamps are parsed exactly and parsing is total. Bounded-exhaustive enumeration of
// the exported parseTime transform against an integer reference (days-from-civil arithmetic) and a reference recogniser
// for arbitrary strings (model.go), under several process time zones (zones.go), with the value handed over as an
// immutable string and as a view of a recycled buffer, through fresh and long-lived transform instances (history.go),
// and behind the real syslog parser / parsing receiver / record allocator (pipeline.go). See README.md.
package main

import (
	"encoding/json"
	"flag"
	"fmt"
	"os"
	"strings"
	"sync"
	"time"

	"github.com/relex/gotils/logger"
	"github.com/relex/slog-agent/base"
	"github.com/relex/slog-agent/base/btest"
	"github.com/relex/slog-agent/transform/tparsetime"
	"github.com/relex/slog-agent/util"

	"slogverif/seq"
)

// daysFromCivil is Howard Hinnant's algorithm: days since 1970-01-01 of a proleptic Gregorian date.
func daysFromCivil(y, m, d int64) int64 {
	if m <= 2 {
		y--
	}
	var era int64
	if y >= 0 {
		era = y / 400
	} else {
		era = (y - 399) / 400
	}
	yoe := y - era*400
	mp := (m + 9) % 12
	doy := (153*mp+2)/5 + d - 1
	doe := yoe*365 + yoe/4 - yoe/100 + doy
	return era*146097 + doe - 719468
}

// refInstant returns unix seconds and nanoseconds denoted by the components; offsetSec is east of UTC.
func refInstant(y, mo, d, h, mi, s int64, fracDigits string, offsetSec int64) (int64, int64) {
	ns := int64(0)
	scale := int64(100000000)
	for i := 0; i < len(fracDigits) && i < 9; i++ {
		ns += int64(fracDigits[i]-'0') * scale
		scale /= 10
	}
	secs := daysFromCivil(y, mo, d)*86400 + h*3600 + mi*60 + s - offsetSec
	return secs, ns
}

type fixture struct {
	schema base.LogSchema
	tf     base.LogTransform
	lookup btest.LookupStubCustomerCounterFunc
}

func newFixture() *fixture {
	schema := base.MustNewLogSchema([]string{"time"})
	cfg := &tparsetime.Config{Key: "time", ErrorLabel: "timeError"}
	reg, lookup := btest.NewStubLogCustomCounterRegistry()
	return &fixture{schema: schema, tf: cfg.NewTransform(schema, logger.Root(), reg), lookup: lookup}
}

// fixtures are the long-lived transform instances of this worker process, one per environment.
var fixtures = make([]*fixture, len(zoneEnvs))

// envFixture installs environment ei and returns the long-lived instance that lives in it.
func envFixture(ei int) *fixture {
	useEnv(zoneEnvs[ei])
	if fixtures[ei] == nil {
		fixtures[ei] = newFixture()
	}
	return fixtures[ei]
}

// freshFixture installs environment ei and returns a new instance (empty time zone cache).
func freshFixture(ei int) *fixture {
	useEnv(zoneEnvs[ei])
	return newFixture()
}

var fallback = time.Unix(1234567890, 987654321)

// obs is what one Transform call did.
type obs struct {
	ts      time.Time
	counted bool
	res     base.FilterResult
}

func (f *fixture) transform(rec *base.LogRecord) obs {
	rec.RawLength = 100
	before, _ := f.lookup("timeError")
	res := f.tf.Transform(rec)
	after, _ := f.lookup("timeError")
	return obs{rec.Timestamp, after > before, res}
}

// parse runs the transform on one value held in an ordinary immutable string.
func (f *fixture) parse(value string) obs {
	return f.transform(f.schema.NewTestRecord2(fallback, base.LogFields{value}))
}

// scratch is this worker's "read buffer": in recycled mode every value is written to its start and the field handed to
// the transform is a view of those bytes (util.StringFromBytes, the way LogAllocator.NewRecord hands out pooled
// buffers); the next value overwrites them. Whatever the transform keeps that still points into the buffer changes
// under its feet.
var scratch = make([]byte, 1<<17)

func (f *fixture) parseRecycled(value string) obs {
	if len(value) > len(scratch) {
		scratch = make([]byte, 2*len(value))
	}
	n := copy(scratch, value)
	return f.transform(f.schema.NewTestRecord2(fallback, base.LogFields{util.StringFromBytes(scratch[:n])}))
}

// ---- the oracle clauses; tag names the situation (":first-parse", ":on-repetition", ":recycled-buffer", ...) and is
// part of the violation key

func judgeValid(text string, o obs, secs, ns int64, tag string) (string, string) {
	if o.res != base.PASS {
		return "not-pass", fmt.Sprintf("%q: transform returned %v", clipText(text), o.res)
	}
	if o.counted {
		return "valid-rejected" + tag, fmt.Sprintf("%q is a valid RFC 3339 timestamp but was counted as an error (process zone %s)", clipText(text), time.Local)
	}
	if o.ts.Unix() != secs || int64(o.ts.Nanosecond()) != ns {
		d := (o.ts.Unix()-secs)*1_000_000_000 + int64(o.ts.Nanosecond()) - ns
		cls := "inexact:other"
		switch {
		case d == -1:
			cls = "inexact:1ns-low"
		case d == 1:
			cls = "inexact:1ns-high"
		}
		return cls + tag, fmt.Sprintf("%q parsed to %d.%09d, the instant denoted is %d.%09d (off by %d ns; process zone %s)", clipText(text), o.ts.Unix(), o.ts.Nanosecond(), secs, ns, d, time.Local)
	}
	return "", ""
}

// judgeLeap: a valid leap second must be accepted; Unix time cannot express it, so :59 + 1 s (roll over into the next
// minute) and :59 (clamp) are both right, with the fraction kept.
func judgeLeap(text string, o obs, secs59, ns int64, tag string) (string, string) {
	if o.res != base.PASS {
		return "not-pass", fmt.Sprintf("%q: transform returned %v", text, o.res)
	}
	if o.counted {
		return "valid-rejected:leap-second" + tag, fmt.Sprintf("%q is a valid RFC 3339 timestamp (leap second, time-second = 00-60) but was counted as an error", text)
	}
	if (o.ts.Unix() != secs59 && o.ts.Unix() != secs59+1) || int64(o.ts.Nanosecond()) != ns {
		return "inexact:leap-second" + tag, fmt.Sprintf("%q parsed to %d.%09d, expected %d.%09d or one second earlier", text, o.ts.Unix(), o.ts.Nanosecond(), secs59+1, ns)
	}
	return "", ""
}

func judgeReject(text string, o obs, fb time.Time, why, tag string) (string, string) {
	if o.res != base.PASS {
		return "not-pass", fmt.Sprintf("%q: transform returned %v", clipText(text), o.res)
	}
	if !o.counted || !o.ts.Equal(fb) {
		return "malformed-accepted:" + why + tag, fmt.Sprintf("%q (%s) must be reported as an error and leave the receive time in place: counted=%v timestamp=%v", clipText(text), why, o.counted, o.ts.UTC())
	}
	return "", ""
}

// judgeEither: outside both claims; whatever the transform decides, an error that is counted leaves the time untouched.
func judgeEither(text string, o obs, fb time.Time, tag string) (string, string) {
	if o.res != base.PASS {
		return "not-pass", fmt.Sprintf("%q: transform returned %v", clipText(text), o.res)
	}
	if o.counted && !o.ts.Equal(fb) {
		return "error-counted-but-time-changed" + tag, fmt.Sprintf("%q was counted as an error, yet the receive time was replaced by %v", clipText(text), o.ts.UTC())
	}
	return "", ""
}

func judge(text string, m model, o obs, fb time.Time, tag string) (string, string) {
	switch m.v {
	case vValid:
		return judgeValid(text, o, m.secs, m.ns, tag)
	case vLeap:
		return judgeLeap(text, o, m.secs, m.ns, tag)
	case vReject:
		return judgeReject(text, o, fb, m.why, tag)
	}
	return judgeEither(text, o, fb, tag)
}

func clipText(s string) string {
	if len(s) > 120 {
		return fmt.Sprintf("%s...(%d bytes)...%s", s[:60], len(s), s[len(s)-40:])
	}
	return s
}

// checkExact: a valid timestamp through one instance twice; BOTH results are compared: the first parse (on a fresh
// instance: the uncached path that fills the time zone cache) and the second one (the cached path).
func checkExact(f *fixture, text string, secs, ns int64) (string, string) {
	if k, m := judgeValid(text, f.parse(text), secs, ns, ":first-parse"); k != "" {
		return k, m
	}
	return judgeValid(text, f.parse(text), secs, ns, "")
}

// checkRejected: the string is not shaped like a date-time: error counted, fallback time kept, no panic.
func checkRejected(f *fixture, text, why string) (string, string) {
	// the same transform instance sees the string several times (a connection repeats its timestamps; the transform
	// keeps a time zone cache): every occurrence must be rejected, not only the first
	for round := 1; round <= 3; round++ {
		tag := ""
		if round > 1 {
			tag = ":on-repetition"
		}
		if k, m := judgeReject(text, f.parse(text), fallback, why, tag); k != "" {
			return k, m + fmt.Sprintf(" (occurrence %d through one transform instance)", round)
		}
	}
	return "", ""
}

// checkModel: any string, judged by the reference recogniser; two (valid / either) or three (reject) occurrences.
func checkModel(f *fixture, text string) (string, string) {
	m := classify(text)
	if k, msg := crossCheck(text, m); k != "" {
		return k, msg
	}
	switch m.v {
	case vValid:
		return checkExact(f, text, m.secs, m.ns)
	case vReject:
		return checkRejected(f, text, m.why)
	}
	if k, msg := judge(text, m, f.parse(text), fallback, ":first-parse"); k != "" {
		return k, msg
	}
	return judge(text, m, f.parse(text), fallback, "")
}

// cutInsideOffset reports whether s[:n] ends inside the numeric offset of the valid timestamp s (sign seen, offset incomplete).
func cutInsideOffset(s string, n int) bool {
	i := strings.LastIndexAny(s, "+-")
	if i < 19 || strings.HasSuffix(s, "Z") {
		return false
	}
	return n > i && n < len(s)
}

// allZones calls fn for Z and every numeric offset hh<24, mm<60, both signs, colon and compact form (2881 spellings).
func allZones(fn func(tz string, off int64)) {
	fn("Z", 0)
	for _, sign := range []int64{1, -1} {
		s := "+"
		if sign < 0 {
			s = "-"
		}
		for hh := int64(0); hh < 24; hh++ {
			for mm := int64(0); mm < 60; mm++ {
				fn(fmt.Sprintf("%s%02d:%02d", s, hh, mm), sign*(hh*3600+mm*60))
				fn(fmt.Sprintf("%s%02d%02d", s, hh, mm), sign*(hh*3600+mm*60))
			}
		}
	}
}

var (
	zoneList []string // the 2881 spellings in allZones order
	zoneOffs []int64
)

func init() {
	allZones(func(tz string, off int64) { zoneList = append(zoneList, tz); zoneOffs = append(zoneOffs, off) })
}

func fmtOffset(off int, colon bool) string {
	s := "+"
	if off < 0 {
		s = "-"
		off = -off
	}
	if colon {
		return fmt.Sprintf("%s%02d:%02d", s, off/3600, off/60%60)
	}
	return fmt.Sprintf("%s%02d%02d", s, off/3600, off/60%60)
}

// replayID returns the case id of a single-case run (-case / -replay), "" in a normal run. In a single-case run the
// ordinals do not matter, so the big sweeps that cannot contain the case are not generated (a thorough replay would
// otherwise format 10^9 fractions first).
func replayID() string {
	if f := flag.Lookup("case"); f != nil && f.Value.String() != "" {
		return f.Value.String()
	}
	if f := flag.Lookup("replay"); f != nil && f.Value.String() != "" {
		var doc struct {
			CaseID string `json:"case"`
		}
		if data, err := os.ReadFile(f.Value.String()); err == nil && json.Unmarshal(data, &doc) == nil {
			return doc.CaseID
		}
	}
	return ""
}

// wanted reports whether cases whose ids start with prefix have to be generated.
func wanted(prefix string) bool {
	id := replayID()
	return id == "" || strings.HasPrefix(id, prefix)
}

func enumerate(ctx *seq.Ctx) {
	// ---- two instances used at the same time by two goroutines, from an empty state (placed first: nothing in this
	// process has parsed anything yet). Instances are per pipeline and pipelines run concurrently: they must not share
	// mutable state. An unsynchronised shared map ends the process ("fatal error: concurrent map ..."), which the
	// driver attributes to the case in flight.
	ctx.Group("isolation/two-instances-concurrent")
	for n := 0; n < 32; n++ {
		ei := n % len(zoneEnvs)
		ctx.Case(fmt.Sprintf("concurrent/%d", n), true, "all zones, ascending in one goroutine, descending in the other", func() (string, string) {
			return runConcurrent(ei)
		})
	}

	// ---- exactness of fractions: ALL fractions of 1..6 digits (quick) and 1..9 digits (thorough)
	const base1 = "2019-08-15T15:50:46"
	secsBase, _ := refInstant(2019, 8, 15, 15, 50, 46, "", 3*3600)
	maxDigits := 6
	if ctx.Thorough() {
		maxDigits = 9
	}
	buf := make([]byte, 0, 64)
	if id := replayID(); strings.HasPrefix(id, "frac/") && len(id) > 5 && len(id) <= 14 && allDigits(id[5:]) {
		// single-case run of one fraction: generate just that one
		digits := id[5:]
		text := base1 + "." + digits + "+03:00"
		_, ns := refInstant(0, 1, 1, 0, 0, 0, digits, 0)
		ctx.Group("fraction/single")
		ctx.Case(id, true, text, func() (string, string) { return checkExact(envFixture(envDefault), text, secsBase, ns) })
		maxDigits = 0
	}
	for nd := 1; nd <= maxDigits && !ctx.Stop() && wanted("frac/"); nd++ {
		ctx.Group(fmt.Sprintf("fraction/%d-digits/all", nd))
		limit := int64(1)
		for i := 0; i < nd; i++ {
			limit *= 10
		}
		for v := int64(0); v < limit; v++ {
			if !ctx.Mine() {
				ctx.Skip()
				continue
			}
			if ctx.Stop() {
				break
			}
			digits := fmt.Sprintf("%0*d", nd, v)
			buf = append(buf[:0], base1...)
			buf = append(buf, '.')
			buf = append(buf, digits...)
			buf = append(buf, "+03:00"...)
			text := string(buf)
			_, ns := refInstant(0, 1, 1, 0, 0, 0, digits, 0)
			ctx.Case("frac/"+digits, true, text, func() (string, string) { return checkExact(envFixture(envDefault), text, secsBase, ns) })
		}
	}
	if !ctx.Thorough() && wanted("frac/") && maxDigits > 0 {
		// quick tier, 7-9 digits: the finite sub-domain "all digits zero outside one aligned 3-digit window" plus the 10^5
		// smallest and largest values of each length (completely enumerated, not sampled)
		for nd := 7; nd <= 9; nd++ {
			ctx.Group(fmt.Sprintf("fraction/%d-digits/windows+edges", nd))
			seen := map[string]bool{}
			emit := func(digits string) {
				if seen[digits] {
					return
				}
				seen[digits] = true
				text := base1 + "." + digits + "+03:00"
				_, ns := refInstant(0, 1, 1, 0, 0, 0, digits, 0)
				ctx.Case("frac/"+digits, true, text, func() (string, string) { return checkExact(envFixture(envDefault), text, secsBase, ns) })
			}
			for start := 0; start+3 <= nd; start++ {
				for w := 0; w < 1000; w++ {
					d := []byte(strings.Repeat("0", nd))
					copy(d[start:], fmt.Sprintf("%03d", w))
					emit(string(d))
				}
			}
			limit := int64(1)
			for i := 0; i < nd; i++ {
				limit *= 10
			}
			for v := int64(0); v < 100000; v++ {
				emit(fmt.Sprintf("%0*d", nd, v))
				emit(fmt.Sprintf("%0*d", nd, limit-1-v))
			}
		}
	}
	// ---- fractions of every length 0..9 in front of Z, the compact form, a negative and an odd offset, in both halves of
	// the year, through fresh instances under rotating process zones
	ctx.Group("fraction/lengths-x-zones")
	for _, date := range []string{"2020-01-15T12:00:00", "2020-07-15T12:00:00"} {
		for _, z := range []string{"Z", "+0300", "-08:00", "+05:45"} {
			for nd := 0; nd <= 9; nd++ {
				seen := map[string]bool{}
				for _, pat := range []string{"000000000", "000000001", "100000000", "123456789", "499999999", "500000000", "999999999"} {
					for _, digits := range []string{pat[:nd], pat[9-nd:]} {
						if seen[digits] {
							continue
						}
						seen[digits] = true
						text := date
						if nd > 0 {
							text += "." + digits
						}
						text += z
						ei := (nd + len(z)) % len(zoneEnvs)
						ctx.Case("fraczone/"+text, true, text, func() (string, string) { return checkModel(freshFixture(ei), text) })
					}
				}
			}
		}
	}
	// ---- offsets: all +-hh:mm with hh<24, mm<60 in colon and compact form, and Z
	ctx.Group("offsets/all")
	for _, sign := range []int64{1, -1} {
		for hh := int64(0); hh < 24; hh++ {
			for mm := int64(0); mm < 60; mm++ {
				for _, colon := range []bool{true, false} {
					s := "+"
					if sign < 0 {
						s = "-"
					}
					var tz string
					if colon {
						tz = fmt.Sprintf("%s%02d:%02d", s, hh, mm)
					} else {
						tz = fmt.Sprintf("%s%02d%02d", s, hh, mm)
					}
					for _, frac := range []string{"", "5", "123", "000001", "999999999"} {
						text := "2020-02-29T23:59:59"
						if frac != "" {
							text += "." + frac
						}
						text += tz
						secs, ns := refInstant(2020, 2, 29, 23, 59, 59, frac, sign*(hh*3600+mm*60))
						ctx.Case("offset/"+text, true, text, func() (string, string) { return checkExact(envFixture(envDefault), text, secs, ns) })
					}
				}
			}
		}
	}
	// ---- environment x offset x season: every zone spelling on a winter and a summer date under every process time
	// zone, each case through a FRESH instance (the first parse is the uncached one) and twice
	envFracs := []string{"", ".123456789"}
	envDates := [][3]int64{{2020, 1, 15}, {2020, 7, 15}}
	if ctx.Thorough() {
		envFracs = []string{"", ".5", ".123", ".000001", ".123456789"}
		envDates = nil
		for m := int64(1); m <= 12; m++ {
			envDates = append(envDates, [3]int64{2020, m, 15})
		}
	}
	for ei, env := range zoneEnvs {
		ctx.Group("env/" + env.name + "/offsets-x-seasons")
		for _, date := range envDates {
			for _, frac := range envFracs {
				for zi, tz := range zoneList {
					if !ctx.Mine() {
						ctx.Skip()
						continue
					}
					text := fmt.Sprintf("%04d-%02d-%02dT12:00:00%s%s", date[0], date[1], date[2], frac, tz)
					secs, ns := refInstant(date[0], date[1], date[2], 12, 0, 0, strings.TrimPrefix(frac, "."), zoneOffs[zi])
					ctx.Case("env/"+env.name+"/"+text, true, text, func() (string, string) { return checkExact(freshFixture(ei), text, secs, ns) })
				}
			}
		}
		// the days on which the local offset changes, hour by hour, in the zone's own two offsets, UTC and a foreign offset
		if env.switch1 != "" {
			ctx.Group("env/" + env.name + "/switch-days")
			for _, day := range []string{env.switch1, env.switch2} {
				for h := 0; h < 24; h++ {
					for _, mi := range []int{0, 30, 59} {
						for _, off := range []int{env.jan, env.jul, 0, 12600} {
							for _, colon := range []bool{true, false} {
								text := fmt.Sprintf("%sT%02d:%02d:00%s", day, h, mi, fmtOffset(off, colon))
								ctx.Case("env/"+env.name+"/"+text, true, text, func() (string, string) { return checkModel(freshFixture(ei), text) })
							}
						}
						text := fmt.Sprintf("%sT%02d:%02d:00Z", day, h, mi)
						ctx.Case("env/"+env.name+"/"+text, true, text, func() (string, string) { return checkModel(freshFixture(ei), text) })
					}
				}
			}
		}
	}
	// ---- dates: every month end, leap days, boundary years, with Z and the extreme offsets, under every process time zone
	mdays := []int64{31, 28, 31, 30, 31, 30, 31, 31, 30, 31, 30, 31}
	for ei, env := range zoneEnvs {
		ctx.Group("dates/" + env.name)
		for _, y := range []int64{0, 1, 1600, 1900, 1969, 1970, 1999, 2000, 2019, 2020, 2038, 2100, 9999} {
			leap := (y%4 == 0 && y%100 != 0) || y%400 == 0
			for m := int64(1); m <= 12; m++ {
				last := mdays[m-1]
				if m == 2 && leap {
					last = 29
				}
				for _, d := range []int64{1, 15, last} {
					for _, hms := range [][3]int64{{0, 0, 0}, {12, 34, 56}, {23, 59, 59}} {
						for _, z := range []string{"Z", "+00:00", "-00:00", "+14:00", "-12:00"} {
							off := int64(0)
							switch z {
							case "+14:00":
								off = 14 * 3600
							case "-12:00":
								off = -12 * 3600
							}
							text := fmt.Sprintf("%04d-%02d-%02dT%02d:%02d:%02d.123456789%s", y, m, d, hms[0], hms[1], hms[2], z)
							secs, ns := refInstant(y, m, d, hms[0], hms[1], hms[2], "123456789", off)
							ctx.Case("date/"+env.name+"/"+text, true, text, func() (string, string) { return checkExact(envFixture(ei), text, secs, ns) })
						}
					}
				}
			}
		}
	}
	// ---- every number of the date-time over ALL its two-digit (year: four-digit) values, in range and out of range:
	// judged by the recogniser (in range: exact; out of range: outside both claims, totality only)
	ctx.Group("fields/every-value")
	fieldCase := func(text string) {
		ctx.Case("field/"+text, true, text, func() (string, string) { return checkModel(envFixture(envDefault), text) })
	}
	for y := 0; y <= 9999; y++ {
		if !ctx.Mine() {
			ctx.Skip()
			continue
		}
		fieldCase(fmt.Sprintf("%04d-03-01T00:00:00.5+05:45", y))
	}
	for v := 0; v <= 99; v++ {
		fieldCase(fmt.Sprintf("2019-08-15T15:50:46+%02d:30", v))   // offset hours
		fieldCase(fmt.Sprintf("2019-08-15T15:50:46-%02d00", v))    //
		fieldCase(fmt.Sprintf("2019-08-15T15:50:46.5-07:%02d", v)) // offset minutes
		fieldCase(fmt.Sprintf("2019-08-15T15:50:46.5+23%02d", v))  //
		for _, z := range []string{"Z", "-08:00", "+0545"} {
			fieldCase(fmt.Sprintf("2019-%02d-15T15:50:46%s", v, z))           // month
			fieldCase(fmt.Sprintf("2019-08-15T%02d:50:46.866915%s", v, z))    // hour
			fieldCase(fmt.Sprintf("2019-08-15T15:%02d:46.866%s", v, z))       // minute
			fieldCase(fmt.Sprintf("2019-08-15T15:50:%02d.123456789%s", v, z)) // second
			fieldCase(fmt.Sprintf("2019-08-15T23:59:%02d%s", v, z))           // second, end of day
			for _, ym := range []string{"1900-02", "2000-02", "2019-02", "2020-02", "2019-04", "2019-12", "2019-01"} {
				fieldCase(fmt.Sprintf("%s-%02dT12:00:00%s", ym, v, z)) // day of month, by month length and leap rule
			}
		}
	}
	// ---- leap seconds: 23:59:60 UTC at the end of June / December (valid RFC 3339: must be accepted, either Unix
	// convention), written in UTC and in offsets; :60 anywhere else is outside both claims
	ctx.Group("leap-second")
	for _, day := range []string{"2016-12-31", "2015-06-30", "1972-06-30", "2020-12-31", "2020-06-30", "2020-03-31", "2020-07-15"} {
		for _, frac := range []string{"", ".5", ".123456", ".999999999"} {
			y, mo, d := num(day[0:4]), num(day[5:7]), num(day[8:10])
			for _, off := range []int{0, 9 * 3600, -5 * 3600, 20700, -12600, 14 * 3600, -12 * 3600} {
				// the local date-time that is 23:59:59 UTC of 'day', with the second written as 60
				local := daysFromCivil(y, mo, d)*86400 + 86399 + int64(off)
				lt := time.Unix(local, 0).UTC()
				for _, colon := range []bool{true, false} {
					text := fmt.Sprintf("%04d-%02d-%02dT%02d:%02d:60%s%s", lt.Year(), int(lt.Month()), lt.Day(), lt.Hour(), lt.Minute(), frac, fmtOffset(off, colon))
					ctx.Case("leap/"+text, true, text, func() (string, string) { return checkModel(freshFixture(envDefault), text) })
				}
			}
			text := day + "T23:59:60" + frac + "Z"
			ctx.Case("leap/"+text, true, text, func() (string, string) { return checkModel(freshFixture(0), text) })
			text2 := day + "T12:34:60" + frac + "Z"
			ctx.Case("leap/"+text2, true, text2, func() (string, string) { return checkModel(freshFixture(0), text2) })
		}
	}
	// ---- totality: all strings over a 9-symbol alphabet up to length 6 (quick) / 7 (thorough). Every one of them is
	// shorter than the shortest date-time (19), i.e. "truncated": must be an error, counted, fallback kept.
	alphabet := "20-T:.Z+ "
	maxLen := 6
	if ctx.Thorough() {
		maxLen = 7
	}
	for l := 0; l <= maxLen && !ctx.Stop() && wanted("short/"); l++ {
		ctx.Group(fmt.Sprintf("totality/len%d", l))
		idx := make([]int, l)
		for {
			if ctx.Mine() {
				b := make([]byte, l)
				for i, x := range idx {
					b[i] = alphabet[x]
				}
				text := string(b)
				why := "truncated"
				if l == 0 {
					why = "empty"
				}
				ctx.Case("short/"+text, l > 0, text, func() (string, string) { return checkRejected(envFixture(envDefault), text, why) })
			} else {
				ctx.Skip()
			}
			i := l - 1
			for i >= 0 {
				idx[i]++
				if idx[i] < len(alphabet) {
					break
				}
				idx[i] = 0
				i--
			}
			if i < 0 {
				break
			}
		}
	}
	// ---- malformed offsets behind a complete date-time: truncated / wrong separators in the zone
	ctx.Group("offsets/malformed")
	for _, tz := range []string{"+", "-", "+0", "+03", "+03:", "+03:0", "+030", "+03-00", "+03.00", " 03:00", "+3:00", "+03:0x", "z", "UTC", "+03:00:00", "+03:000"} {
		for _, frac := range []string{"", ".5", ".123456"} {
			text := "2020-02-29T23:59:59" + frac + tz
			ctx.Case("badoffset/"+text, true, text, func() (string, string) { return checkRejected(envFixture(envDefault), text, "malformed-offset") })
		}
	}
	// the same menu derived mechanically: every zone form (and no zone), behind every fraction shape, followed / preceded
	// by every byte value, every proper prefix of it, and followed by another zone
	ctx.Group("offsets/malformed-mechanical")
	for _, tz := range []string{"", "Z", "+03:00", "-03:00", "+0300", "-0300"} {
		for _, frac := range []string{"", ".5", ".123456", ".123456789"} {
			head := "2020-02-29T23:59:59" + frac
			for c := 0; c < 256; c++ {
				after := head + tz + string([]byte{byte(c)})
				ctx.Case(fmt.Sprintf("zonebyte/after/%s%s/%02x", frac, tz, c), true, after, func() (string, string) { return checkModel(envFixture(envDefault), after) })
				if tz != "" {
					before := head + string([]byte{byte(c)}) + tz
					ctx.Case(fmt.Sprintf("zonebyte/before/%s%s/%02x", frac, tz, c), true, before, func() (string, string) { return checkModel(envFixture(envDefault), before) })
				}
			}
			for n := 0; n < len(tz); n++ {
				text := head + tz[:n]
				ctx.Case(fmt.Sprintf("zonebyte/prefix/%s%s/%d", frac, tz, n), true, text, func() (string, string) { return checkModel(envFixture(envDefault), text) })
			}
			for _, more := range []string{"Z", "+03:00", "0300", ":00", " ", "\n", "\x00"} {
				text := head + tz + more
				ctx.Case(fmt.Sprintf("zonebyte/more/%s%s/%q", frac, tz, more), true, text, func() (string, string) { return checkModel(envFixture(envDefault), text) })
			}
		}
	}
	// ---- NIL value, every prefix of valid timestamps, wrong separators, one-edit neighbours: every byte value at every
	// position (every role of the grammar: digit, separator, '.', sign, offset colon, Z, end), judged by the recogniser
	ctx.Group("shape")
	ctx.Case("nil", true, "-", func() (string, string) { return checkRejected(envFixture(envDefault), "-", "nil-value") })
	seeds := []string{"2019-08-15T15:50:46.866915+03:00", "2020-09-17T16:51:47.867Z", "1999-12-31T23:59:59-0800", "2021-01-01T00:00:00Z",
		"2020-02-29T23:59:59.5+05:45", "2016-12-31T23:59:60Z", "2038-01-19T03:14:07.123456789-0330"}
	for _, s := range seeds {
		for n := 0; n < len(s); n++ {
			text := s[:n]
			if n < 19 {
				why := "truncated"
				if n == 0 {
					why = "empty"
				}
				ctx.Case("prefix/"+text, n > 0, text, func() (string, string) { return checkRejected(envFixture(envDefault), text, why) })
			} else if cutInsideOffset(s, n) {
				// the date-time part is complete but the numeric offset is cut: a truncated timestamp
				ctx.Case("prefix/"+text, true, text, func() (string, string) { return checkRejected(envFixture(envDefault), text, "truncated-offset") })
			} else {
				ctx.Case("prefix/"+text, true, text, func() (string, string) { return checkModel(envFixture(envDefault), text) })
			}
		}
		for _, pos := range []int{4, 7, 10, 13, 16} {
			for c := 0; c < 256; c++ {
				if byte(c) == s[pos] {
					continue
				}
				b := []byte(s)
				b[pos] = byte(c)
				text := string(b)
				ctx.Case(fmt.Sprintf("sep/%s/%d/%02x", s, pos, c), true, text, func() (string, string) {
					return checkRejected(envFixture(envDefault), text, "wrong-separator")
				})
			}
		}
		// all one-edit neighbours: substitution by any byte, deletion, insertion of any byte
		for pos := 0; pos <= len(s); pos++ {
			for c := 0; c < 256; c++ {
				if pos < len(s) {
					b := []byte(s)
					b[pos] = byte(c)
					text := string(b)
					ctx.Case(fmt.Sprintf("edit-sub/%s/%d/%02x", s, pos, c), true, text, func() (string, string) { return checkModel(envFixture(envDefault), text) })
				}
				text := s[:pos] + string([]byte{byte(c)}) + s[pos:]
				ctx.Case(fmt.Sprintf("edit-ins/%s/%d/%02x", s, pos, c), true, text, func() (string, string) { return checkModel(envFixture(envDefault), text) })
			}
			if pos < len(s) {
				text := s[:pos] + s[pos+1:]
				ctx.Case(fmt.Sprintf("edit-del/%s/%d", s, pos), true, text, func() (string, string) { return checkModel(envFixture(envDefault), text) })
			}
		}
	}
	if ctx.Thorough() && wanted("edit2/") {
		// two-edit neighbours: every pair of positions, every pair of bytes from a class alphabet (one per role + extremes)
		ctx.Group("shape/two-edits")
		classes := []byte{'0', '9', '-', 'T', ':', '.', 'Z', '+', ' ', 'z', 0x00, 0xff}
		for _, s := range seeds {
			for p := 0; p < len(s) && !ctx.Stop(); p++ {
				for q := p + 1; q < len(s); q++ {
					for _, c1 := range classes {
						for _, c2 := range classes {
							if !ctx.Mine() {
								ctx.Skip()
								continue
							}
							b := []byte(s)
							b[p], b[q] = c1, c2
							text := string(b)
							ctx.Case(fmt.Sprintf("edit2/%s/%d/%02x/%d/%02x", s, p, c1, q, c2), true, text, func() (string, string) { return checkModel(envFixture(envDefault), text) })
						}
					}
				}
			}
		}
	}
	// ---- length: "strings of any length". Every slot of the grammar stretched to lengths around the powers of two and
	// around the nine-digit limit of the fraction, with one filler byte per class
	enumerateLong(ctx)
	// ---- histories through ONE instance, the value living in a recycled buffer (and, for comparison, in immutable strings)
	enumerateHistories(ctx)
	// ---- the transform behind the real syslog parser, parsing receiver and record allocator: pooled record buffers and
	// the fallback RECEIVE time
	enumeratePipeline(ctx)
}

// runConcurrent: two fresh instances, two goroutines, every zone spelling (one ascending, one descending), each value
// twice; every result is compared.
func runConcurrent(ei int) (string, string) {
	useEnv(zoneEnvs[ei])
	secsUTC, _ := refInstant(2020, 7, 15, 12, 0, 0, "", 0)
	var wg sync.WaitGroup
	keys := make([]string, 2)
	msgs := make([]string, 2)
	for g := 0; g < 2; g++ {
		f := newFixture()
		wg.Add(1)
		go func(g int) {
			defer wg.Done()
			site, detail := seq.Catch(func() {
				for i := range zoneList {
					j := i
					if g == 1 {
						j = len(zoneList) - 1 - i
					}
					text := "2020-07-15T12:00:00.000000001" + zoneList[j]
					if k, m := checkExact(f, text, secsUTC-zoneOffs[j], 1); k != "" && keys[g] == "" {
						keys[g], msgs[g] = k+":concurrent-instances", m
					}
				}
			})
			if site != "" {
				keys[g], msgs[g] = "panic:"+site, detail
			}
		}(g)
	}
	wg.Wait()
	for g := range keys {
		if keys[g] != "" {
			return keys[g], msgs[g]
		}
	}
	return "", ""
}

func enumerateLong(ctx *seq.Ctx) {
	lengths := []int{10, 11, 12, 13, 14, 15, 16, 17, 18, 19, 20, 21, 22, 23, 24, 25, 26, 27, 28, 29, 30, 31, 32, 33, 34, 35, 36, 37, 38, 39, 40,
		63, 64, 65, 127, 128, 129, 255, 256, 257, 511, 512, 513, 1023, 1024, 1025, 4095, 4096, 4097}
	if ctx.Thorough() {
		lengths = append(lengths, 65535, 65536, 65537, 1<<20, 1<<20+1)
	}
	fillers := []byte{'0', '9', '5', 'Z', ':', '+', '-', '.', 'T', ' ', 'a', 0x00, 0xff}
	valid := "2019-08-15T15:50:46.866915+03:00"
	ctx.Group("long")
	for _, n := range lengths {
		// the input is built by the shard that runs the case only
		add := func(slot string, build func() string) {
			id := fmt.Sprintf("long/%s/%d", slot, n)
			ctx.Case(id, true, id, func() (string, string) { return checkModel(envFixture(envDefault), build()) })
		}
		// the fraction: n digits in front of every kind of zone (valid RFC 3339 but beyond the nine digits of the claim)
		for _, pat := range []string{"0", "9", "5", "1234567890"} {
			for _, z := range []string{"Z", "+03:00", "-0800", "", "+03:0", "x"} {
				add("fraction-"+pat+"-"+z, func() string { return "2019-08-15T15:50:46." + strings.Repeat(pat, n/len(pat)+1)[:n] + z })
			}
		}
		for _, c := range fillers {
			fill := func() string { return strings.Repeat(string([]byte{c}), n) }
			add(fmt.Sprintf("all-%02x", c), fill)                                                            // the whole value is one repeated byte
			add(fmt.Sprintf("tail-%02x", c), func() string { return valid + fill() })                        // a valid timestamp and a long tail
			add(fmt.Sprintf("lead-%02x", c), func() string { return fill() + valid })                        // a long lead and a valid timestamp
			add(fmt.Sprintf("zone-%02x", c), func() string { return "2019-08-15T15:50:46+" + fill() })       // a long "offset"
			add(fmt.Sprintf("z-tail-%02x", c), func() string { return "2019-08-15T15:50:46.866Z" + fill() }) // bytes behind Z
			add(fmt.Sprintf("nofrac-%02x", c), func() string { return "2019-08-15T15:50:46" + fill() })      // bytes right behind the seconds
			add(fmt.Sprintf("year-%02x", c), func() string { return fill() + "-08-15T15:50:46Z" })           // a long year
		}
	}
}

func main() {
	logger.SetLogLevel(logger.ErrorLevel)
	seq.Main(&seq.Config{
		Property: "C13",
		Level:    "exploration",
		Rule: "bounded-exhaustive enumeration through the exported parseTime transform under 5 process time zones (hand-built zone images: UTC, two northern DST zones, a southern half-hour DST zone, +05:45), big sweeps under the CET-like one: " +
			"ALL fractions of 1-6 digits (quick) / 1-9 digits (thorough; quick adds the stated finite sub-domain of 7-9 digit fractions), fraction lengths 0-9 x zone forms, " +
			"all numeric offsets hh<24 mm<60 in colon and compact form and Z x fraction shapes, the same x winter/summer date x process zone through fresh instances (first, uncached parse compared too), the days of the local offset change hour by hour, " +
			"month ends/leap days over 13 boundary years x process zone, every value 00-99 of every two-digit number and every year 0000-9999, leap seconds, all strings over {2,0,-,T,:,.,Z,+,space} up to length 6/7, " +
			"every prefix, every wrong separator byte and every one-edit neighbour (all 256 byte values at every position) of 7 valid timestamps and every byte before/behind every zone form judged by a reference recogniser (two-edit neighbours thorough), " +
			"every grammar slot stretched to 49 lengths up to 4097 bytes (thorough 1 MiB) x 13 filler bytes, all ordered pairs (a,b,a) of a 31-value menu and whole-zone sweeps through ONE fresh instance with the value in a recycled buffer / immutable, " +
			"two instances driven concurrently, and the transform behind the real syslog parser + parsing receiver + record allocator (pooled buffers, receive time after idle flushes); " +
			"oracle: integer days-from-civil reference cross-checked against time.Parse; non-trivial = every case except the empty string (all reach the parser)",
		Assumptions: []string{
			"digit positions holding non-digits, numbers out of range (month 13, 30 February, hour 24, offset +24:00 ...), :60 anywhere but 23:59:60 UTC on 30 June / 31 December, and fractions of more than nine digits are outside both claims: no panic, and an error that is counted leaves the timestamp untouched; accepted with any value or rejected",
			"a valid leap second (23:59:60 UTC on 30 June / 31 December, in any offset) must be accepted; Unix time cannot express it: the instant of :59 plus one second or the instant of :59 are both accepted, fraction kept",
			"a date-time without offset is not a valid RFC 3339 timestamp: only totality is checked for it",
			"a complete date-time followed by bytes that are not '[.digits] offset' (cut or malformed offset, bytes behind Z or behind the offset, '.' without digits) counts as not shaped like a date-time (truncated / wrong separators): must be rejected; lower-case t / z are rejected as in RFC 5424 (the package documents the RFC 5424 profile)",
			"receive time (pipeline group): a clock reading taken not before the start of the most recent Flush / NewSink call preceding the record's Accept (MessageReceiverSink.Flush is documented as called periodically) and not after Accept returned",
			"the two-goroutine group needs real parallelism to expose shared unsynchronised state: a pass there is no proof, a process death is attributed to the case",
		},
		Enumerate:        enumerate,
		ThoroughDeadline: 90 * time.Minute,
	})
}
