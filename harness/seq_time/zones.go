package main

import (
	"encoding/binary"
	"fmt"
	"time"
)

// The process time zone is an ENVIRONMENT dimension of C13: the code under test (and time.Parse inside it) consults
// time.Local. The harness does not depend on the host's zone database: every environment below is a hand-built TZif
// image (RFC 8536, version 2) with one transition long before year 0 and a POSIX TZ footer carrying the DST rule, loaded
// with time.LoadLocationFromTZData and installed by assigning time.Local (a worker runs its cases on one goroutine).
// The images are shaped like the zone files that start with their standard offset (CET, EST5EDT, ...): the local
// offset at year 0 - the date time.Parse gives a bare zone - is the standard (northern zones) or the daylight-saving
// offset (the southern zone).
type zoneEnv struct {
	name             string
	jan              int // seconds east of UTC in January 2020
	jul              int // seconds east of UTC in July 2020 (== jan without DST)
	loc              *time.Location
	switch1, switch2 string // the two days of 2020 on which the local offset changes ("" without DST)
}

func tzifBlock(size int, first int64, abbr []byte, types [][2]int) []byte {
	b := []byte("TZif2")
	b = append(b, make([]byte, 15)...)
	for _, n := range []int{0, 0, 0, 1, len(types), len(abbr)} { // isutcnt isstdcnt leapcnt timecnt typecnt charcnt
		b = binary.BigEndian.AppendUint32(b, uint32(n))
	}
	if size == 4 {
		b = binary.BigEndian.AppendUint32(b, uint32(int32(first)))
	} else {
		b = binary.BigEndian.AppendUint64(b, uint64(first))
	}
	b = append(b, 0) // the transition enters type 0 (standard time)
	for i, t := range types {
		b = binary.BigEndian.AppendUint32(b, uint32(int32(t[0])))
		isdst := byte(0)
		if i > 0 {
			isdst = 1
		}
		b = append(b, isdst, byte(t[1]))
	}
	return append(b, abbr...)
}

func mkZone(name, stdAbbr string, stdOff int, dstAbbr string, dstOff int, posix string) *time.Location {
	abbr := append([]byte(stdAbbr), 0)
	types := [][2]int{{stdOff, 0}}
	if dstAbbr != "" {
		types = append(types, [2]int{dstOff, len(abbr)})
		abbr = append(append(abbr, dstAbbr...), 0)
	}
	data := tzifBlock(4, -1<<31, abbr, types)
	data = append(data, tzifBlock(8, -1<<40, abbr, types)...)
	data = append(data, '\n')
	data = append(data, posix...)
	data = append(data, '\n')
	loc, err := time.LoadLocationFromTZData(name, data)
	if err != nil {
		panic("seq_time: cannot build the zone image " + name + ": " + err.Error())
	}
	return loc
}

var zoneEnvs = []*zoneEnv{
	{name: "UTC", jan: 0, jul: 0, loc: mkZone("UTC", "UTC", 0, "", 0, "UTC0")},
	{name: "CET", jan: 3600, jul: 7200, loc: mkZone("CET", "CET", 3600, "CEST", 7200, "CET-1CEST,M3.5.0,M10.5.0/3"), switch1: "2020-03-29", switch2: "2020-10-25"},
	{name: "EST5EDT", jan: -18000, jul: -14400, loc: mkZone("EST5EDT", "EST", -18000, "EDT", -14400, "EST5EDT,M3.2.0,M11.1.0"), switch1: "2020-03-08", switch2: "2020-11-01"},
	{name: "LordHowe", jan: 39600, jul: 37800, loc: mkZone("LordHowe", "+1030", 37800, "+11", 39600, "<+1030>-10:30<+11>-11,M10.1.0,M4.1.0"), switch1: "2020-04-05", switch2: "2020-10-04"},
	{name: "Kathmandu", jan: 20700, jul: 20700, loc: mkZone("Kathmandu", "+0545", 20700, "", 0, "<+0545>-5:45")},
}

// envDefault is the environment of the big sweeps: a DST zone, never UTC, so that any confusion of time.Local with the
// zone written in the timestamp shows (the fraction sweep's date, 15 August, lies in its daylight-saving half).
const envDefault = 1

func init() {
	// self-check of the hand-built images (the harness, not the code under test): the offsets in both halves of 2020
	for _, z := range zoneEnvs {
		_, jan := time.Date(2020, 1, 15, 12, 0, 0, 0, z.loc).Zone()
		_, jul := time.Date(2020, 7, 15, 12, 0, 0, 0, z.loc).Zone()
		if jan != z.jan || jul != z.jul {
			panic(fmt.Sprintf("seq_time: zone image %s gives offsets %d/%d, expected %d/%d", z.name, jan, jul, z.jan, z.jul))
		}
	}
}

// useEnv makes z the process time zone.
func useEnv(z *zoneEnv) { time.Local = z.loc }
