package main

import (
	"fmt"
	"time"

	"slogverif/seq"
)

// pairMenu: values of every class of the recogniser; several share their length (and the position of their zone) but
// not their instant, their offset or their class, so that state kept by the instance between two calls shows.
var pairMenu = []string{
	// valid
	"2019-08-15T15:50:46.866915+03:00",
	"2024-01-02T03:04:05.000001+03:00",
	"2024-01-02T03:04:05.000001-08:00",
	"2019-08-15T15:50:47.866916-08:00",
	"2020-09-17T16:51:47.867Z",
	"2021-03-04T05:06:07.008Z",
	"1999-12-31T23:59:59-0800",
	"2000-01-01T00:00:00+0530",
	"2021-01-01T00:00:00Z",
	"2022-02-02T02:02:02Z",
	"2020-02-29T23:59:59+01:00",
	"2020-07-15T12:00:00+01:00",
	"2020-07-15T12:00:01-05:00",
	"2020-01-15T12:00:02+11:00",
	"2020-07-15T12:00:00.123456789+05:45",
	"2020-01-15T12:00:03.987654321+05:45",
	"2020-01-15T12:00:04.987654322-05:45",
	// not shaped like a date-time
	"",
	"-",
	"2019-08-15",
	"2019-08-15_15:50:46.866915+03:00",
	"2019-08-15T15:50:46.866915+03:0x",
	"2020-09-17T16:51:47.86ZZ",
	"2021-01-01T00:00:00z",
	"2020-02-29T23:59:59+01:0",
	"2019-08-15T15:50:46.866915+03:00x",
	// outside both claims
	"2021-01-01T00:00:00",
	"2021-01-01T00:00:00.5",
	"2019-08-15T15:50:46.8669150001+03:00",
	"2020-13-01T00:00:00Z",
	// leap second
	"2016-12-31T23:59:60Z",
}

const aliasKey = "recycled-buffer:offset-of-earlier-record"

// historyJudge accumulates the verdicts of the steps of one history through one instance.
type historyJudge struct {
	recycled bool
	seen     map[int64]bool // offsets of the valid records parsed so far
	keys     []string
	msgs     map[string]string
}

func newHistoryJudge(recycled bool) *historyJudge {
	return &historyJudge{recycled: recycled, seen: map[int64]bool{}, msgs: map[string]string{}}
}

// step judges one observation. In recycled mode a timestamp whose date-time and fraction were read correctly but
// interpreted in the offset of an EARLIER record of the same history (a valid one read with the wrong offset, or a
// malformed zone accepted as that offset) gets its own key (one root cause: state keyed by bytes of the recycled
// buffer); everything else keeps the ordinary keys with the mode appended.
func (h *historyJudge) step(i int, text string, o obs, fb time.Time) {
	m := classify(text)
	tag := ":history"
	if h.recycled {
		tag = ":recycled-buffer"
	}
	k, msg := judge(text, m, o, fb, tag)
	if k != "" && h.recycled && m.v == vValid && !o.counted && int64(o.ts.Nanosecond()) == m.ns {
		used := m.off - (o.ts.Unix() - m.secs)
		if used != m.off && h.seen[used] {
			k = aliasKey
			msg = fmt.Sprintf("%q (value in a recycled buffer) was read with the offset %+d s of an earlier record of the same instance instead of its own %+d s: parsed to %d, the instant denoted is %d", text, used, m.off, o.ts.Unix(), m.secs)
		}
	}
	if k != "" && h.recycled && m.v == vReject && m.hasLocal && !o.counted && int64(o.ts.Nanosecond()) == m.localNs {
		// the same root cause seen from the other side: what follows the date-time is not a zone, yet it was looked up
		// successfully and stood for the offset of an earlier record
		if used := m.local - o.ts.Unix(); h.seen[used] {
			k = aliasKey
			msg = fmt.Sprintf("%q (value in a recycled buffer; %s) was accepted and read with the offset %+d s of an earlier record of the same instance: parsed to %d", text, m.why, used, o.ts.Unix())
		}
	}
	if m.v == vValid {
		h.seen[m.off] = true
	}
	if k != "" {
		if _, ok := h.msgs[k]; !ok {
			h.keys = append(h.keys, k)
			h.msgs[k] = fmt.Sprintf("step %d: %s", i, msg)
		}
	}
}

// result returns one violation (any class other than the buffer-alias one first) and reports the others.
func (h *historyJudge) result(ctx *seq.Ctx, id, input string) (string, string) {
	if len(h.keys) == 0 {
		return "", ""
	}
	pick := 0
	for i, k := range h.keys {
		if k != aliasKey {
			pick = i
			break
		}
	}
	for i, k := range h.keys {
		if i != pick {
			ctx.Report(k, id, h.msgs[k], input)
		}
	}
	return h.keys[pick], h.msgs[h.keys[pick]]
}

func runHistory(ctx *seq.Ctx, id string, f *fixture, steps []string, recycled bool) (string, string) {
	h := newHistoryJudge(recycled)
	for i, text := range steps {
		var o obs
		if recycled {
			o = f.parseRecycled(text)
		} else {
			o = f.parse(text)
		}
		h.step(i, text, o, fallback)
	}
	return h.result(ctx, id, fmt.Sprintf("%d values through one instance, first %q", len(steps), steps[0]))
}

// sweepSteps: every zone spelling once, in the given order; the date-time and the fraction differ from step to step
// (so that a stale whole value cannot be mistaken for a stale zone).
func sweepSteps(order string, fracDigits int, date string) []string {
	n := len(zoneList)
	steps := make([]string, n)
	for k := 0; k < n; k++ {
		j := k
		switch order {
		case "desc":
			j = n - 1 - k
		case "stride":
			j = (k * 1201) % n // 1201 is coprime to 2881 = 43 * 67: a permutation
		}
		text := fmt.Sprintf("%sT12:%02d:%02d", date, (k/60)%60, k%60)
		if fracDigits > 0 {
			text += "." + fmt.Sprintf("%09d", (int64(k)*1000003+7)%1000000000)[:fracDigits]
		}
		steps[k] = text + zoneList[j]
	}
	return steps
}

func enumerateHistories(ctx *seq.Ctx) {
	modes := []struct {
		name     string
		recycled bool
	}{{"immutable", false}, {"recycled", true}}
	// all ordered pairs, as the history a, b, a through a fresh instance
	for _, mode := range modes {
		ctx.Group("history/pairs/" + mode.name)
		for ei, env := range zoneEnvs {
			for ai, a := range pairMenu {
				for bi, b := range pairMenu {
					id := fmt.Sprintf("pair/%s/%s/%d/%d", mode.name, env.name, ai, bi)
					ctx.Case(id, true, fmt.Sprintf("%q, %q, %q", a, b, a), func() (string, string) {
						return runHistory(ctx, id, freshFixture(ei), []string{a, b, a}, mode.recycled)
					})
				}
			}
		}
	}
	// every zone spelling through ONE instance
	orders := []string{"asc", "desc", "stride"}
	for _, mode := range modes {
		ctx.Group("history/zone-sweep/" + mode.name)
		for ei, env := range zoneEnvs {
			for _, order := range orders {
				for _, nd := range []int{0, 3, 9} {
					for _, date := range []string{"2020-01-15", "2020-07-15"} {
						id := fmt.Sprintf("sweep/%s/%s/%s/frac%d/%s", mode.name, env.name, order, nd, date)
						ctx.Case(id, true, id, func() (string, string) {
							return runHistory(ctx, id, freshFixture(ei), sweepSteps(order, nd, date), mode.recycled)
						})
					}
				}
			}
		}
	}
}
