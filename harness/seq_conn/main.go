// Command seq_conn is the connection level of C02 (and of the "every upstream condition" clause of C18): the two REAL
// connection implementations of the outputs - fluentdforward's forwardConnection (TCP/TLS dial, shared-key handshake,
// SendChunk, SendPing, ReadChunkAck decoding the ACK message, Close) and datadog's clientWorker (one HTTP POST per
// chunk, status handling, implicit in-order ACK, httpTimeout) - are obtained exactly the way the client worker obtains
// them (the EstablishConnectionFunc that the output's exported NewClientWorker hands to baseoutput.NewClientWorker; read
// through the overlay accessor hooks/baseoutput_export.go) and driven through the ClosableClientConnection interface
// against scripted REAL servers on the loopback interface that live in this file:
//
//   - a Fluentd Forward server (raw TCP or TLS, msgpack): scripted handshake and, per received chunk message, a scripted
//     answer (ACK with the chunk's own id, a stale id, an unknown id, an empty id, no "ack" key, garbage, nothing, reset,
//     orderly close, ACK split over two TCP segments);
//   - a Datadog-like HTTP server: per POST a scripted status or misbehaviour (never answers, never reads, connection cut
//     inside the status line / inside the body, answer later than httpTimeout, redirect).
//
// A second part puts the same real connections under the REAL baseoutput.ClientWorker (the exported constructors, started
// as the agent starts them) against the same servers acting autonomously ("worker/..." groups).
//
// Everything is enumerated: the full product of the answer menus for sequences up to length 3, message modes, chunk
// sizes, handshakes. Nothing is sampled. The reference model is written from the property and the documentation of the
// ClientConnection interface (output/baseoutput/clientprovider.go), not from the code.
//
// No verdict depends on how long something took. Short time-outs are configured only for steps in which the scripted
// upstream is going to stay silent; every other step runs with time-outs of minutes, so that a loaded machine cannot
// produce an error. "A call never returns" / "a message never arrives" is decided by a patience measured on this
// process's own clock of scheduled ticks (a starved process does not tick either), two orders of magnitude above every
// configured time-out; the stalled-case watchdog of the driver stays the last resort.
package main

import (
	"bytes"
	"compress/gzip"
	"crypto/ecdsa"
	"crypto/elliptic"
	"crypto/rand"
	"crypto/sha512"
	"crypto/tls"
	"crypto/x509"
	"crypto/x509/pkix"
	"encoding/hex"
	"encoding/json"
	"errors"
	"flag"
	"fmt"
	"io"
	"log"
	"math/big"
	"net"
	"net/http"
	"runtime/debug"
	"strings"
	"sync"
	"sync/atomic"
	"time"

	"github.com/relex/fluentlib/protocol/forwardprotocol"
	"github.com/relex/gotils/channels"
	"github.com/relex/gotils/logger"
	"github.com/relex/gotils/promexporter/promreg"
	"github.com/relex/slog-agent/base"
	"github.com/relex/slog-agent/defs"
	"github.com/relex/slog-agent/output/baseoutput"
	"github.com/relex/slog-agent/output/datadog"
	"github.com/relex/slog-agent/output/fluentdforward"
	"github.com/vmihailenco/msgpack/v4"

	"slogverif/seq"
)

var flagProp = flag.String("prop", "C02", "C02: everything; C18: only the cases with a refusing / resetting / silent / blocked upstream (termination of every call and of the stop)")

// ---------------------------------------------------------------------------------------------------------------
// patience, verdicts, guarded calls

var ticks atomic.Int64

// patienceTicks x 5 ms of this process's own scheduled clock (>= 10 s of wall time, far more on a loaded machine);
// the largest "short" time-out configured anywhere below is 150 ms.
const patienceTicks = 2000

const (
	near = 150 * time.Millisecond // time-out for a step in which the scripted upstream stays silent
	far  = 10 * time.Minute       // time-out for every other step: never expected to matter
)

func startTicker() {
	go func() {
		for {
			time.Sleep(5 * time.Millisecond)
			ticks.Add(1)
		}
	}()
}

// waitUntil polls cond; it gives up (returns false) only after patienceTicks ticks of the process's own clock.
func waitUntil(cond func() bool) bool {
	start := ticks.Load()
	for !cond() {
		if ticks.Load()-start > patienceTicks {
			return cond()
		}
		time.Sleep(500 * time.Microsecond)
	}
	return true
}

type verdict struct{ key, msg string }

func fail(key, format string, a ...any) { panic(verdict{key, fmt.Sprintf(format, a...)}) }

// soft records a violation of a class that does not stop the case: the remaining steps are still judged, and any other
// violation found there takes precedence (so that a recorded finding does not hide a different defect behind it).
var softVerdict *verdict

func soft(key, format string, a ...any) {
	if softVerdict == nil {
		softVerdict = &verdict{key, fmt.Sprintf(format, a...)}
	}
}

func judged(f func()) (key, msg string) {
	softVerdict = nil
	defer func() {
		if r := recover(); r != nil {
			if v, ok := r.(verdict); ok {
				key, msg = v.key, v.msg
				return
			}
			panic(r)
		}
		if key == "" && softVerdict != nil {
			key, msg = softVerdict.key, softVerdict.msg
		}
	}()
	f()
	return "", ""
}

// call is one invocation of the code under test on its own goroutine.
type call struct {
	what       string
	done       chan struct{}
	pkey, pmsg string
}

func start(what string, f func()) *call {
	c := &call{what: what, done: make(chan struct{})}
	go func() {
		defer close(c.done)
		defer func() {
			if r := recover(); r != nil {
				st := debug.Stack()
				c.pkey = "panic:" + seq.PanicSite(st)
				c.pmsg = fmt.Sprintf("panic in %s: %v\n%s", what, r, st)
			}
		}()
		f()
	}()
	return c
}

func (c *call) returned() bool {
	select {
	case <-c.done:
		return true
	default:
		return false
	}
}

// wait: the call must return; context says what the upstream was doing.
func (c *call) wait(context string) {
	if !waitUntil(c.returned) {
		fail("call-never-returns:"+c.what, "%s did not return (%s); waited %d ticks of the process's own 5 ms clock, every configured time-out is <= %v", c.what, context, patienceTicks, near)
	}
	if c.pkey != "" {
		fail(c.pkey, "%s", c.pmsg)
	}
}

func invoke(what, context string, f func()) { start(what, f).wait(context) }

// ---------------------------------------------------------------------------------------------------------------
// chunks made by the real chunk makers, with the records the harness put in

type sizeClass int

const (
	szSmall sizeClass = iota
	sz900K            // len(Data)/10240 == 90: the size at which base 90 s + size / (10 KiB/s) doubles the send time-out
	sz1M              // > 1 MiB
	szHuge            // larger than what the loopback socket buffers take (blocked mid-write); below the chunk limits
)

var sizeNames = []string{"small", "900K", "1M", "huge"}

type wantRec struct {
	sec uint32
	pad string
}

type want struct {
	chunk base.LogChunk
	tag   string
	recs  []wantRec
}

const alphabet = "ABCDEFGHIJKLMNOPQRSTUVWXYZabcdefghijklmnopqrstuvwxyz0123456789-_"

type prng uint64

func (p *prng) pad(n int) string {
	b := make([]byte, n)
	x := uint64(*p)
	for i := range b {
		x = x*6364136223846793005 + 1442695040888963407
		b[i] = alphabet[x>>58]
	}
	*p = prng(x)
	return string(b)
}

// ffRecord: a Forward event [EventTime(sec, nsec=size), {"p": padding}] of exactly size bytes, encoded by hand.
func ffRecord(sec uint32, size int, p *prng) ([]byte, string) {
	b := make([]byte, 0, size)
	ns := uint32(size)
	b = append(b, 0x92, 0xd7, 0x00, byte(sec>>24), byte(sec>>16), byte(sec>>8), byte(sec), byte(ns>>24), byte(ns>>16), byte(ns>>8), byte(ns))
	var pad string
	switch {
	case size >= 15 && size <= 46:
		pad = p.pad(size - 15)
		b = append(b, 0x81, 0xa1, 'p', 0xa0|byte(len(pad)))
	case size >= 47 && size-17 < 65536:
		pad = p.pad(size - 17)
		b = append(b, 0x81, 0xa1, 'p', 0xda, byte(len(pad)>>8), byte(len(pad)))
	default:
		panic(fmt.Sprintf("harness bug: no Forward event of %d bytes", size))
	}
	b = append(b, pad...)
	if len(b) != size {
		panic("harness bug: ffRecord size")
	}
	return b, pad
}

func ddRecord(idx uint32, size int, p *prng) ([]byte, string) {
	head := fmt.Sprintf(`{"i":"%07d","p":"`, idx)
	n := size - len(head) - 2
	if n < 0 {
		panic("harness bug: datadog record too small")
	}
	pad := p.pad(n)
	return []byte(head + pad + `"}`), pad
}

func recordSizes(total int) []int {
	var s []int
	for total >= 60050 {
		s = append(s, 60000)
		total -= 60000
	}
	if total < 50 {
		total = 50
	}
	return append(s, total)
}

var (
	chunkCache = map[string]*want{}
	chunkIDs   = map[string]bool{}
	modes      = []forwardprotocol.MessageMode{forwardprotocol.ModeForward, forwardprotocol.ModePackedForward, forwardprotocol.ModeCompressedPackedForward}
)

// buildChunk drives a fresh real chunk maker of the output ("ff" with a message mode, or "dd") with records of the given sizes.
func buildChunk(out string, mode forwardprotocol.MessageMode, tag string, seed uint64, sizes []int) *want {
	var maker base.LogChunkMaker
	if out == "ff" {
		maker = (&fluentdforward.Config{MessageMode: mode}).NewChunkMaker(logger.Root(), tag)
	} else {
		maker = (&datadog.Config{}).NewChunkMaker(logger.Root(), tag)
	}
	w := &want{tag: tag}
	p := prng(seed*2654435761 + 12345)
	for i, n := range sizes {
		var rec []byte
		var pad string
		if out == "ff" {
			rec, pad = ffRecord(uint32(i+1), n, &p)
		} else {
			rec, pad = ddRecord(uint32(i+1), n, &p)
		}
		if maker.WriteStream(rec) != nil {
			return nil // a chunk limit was reached: the caller asks for less
		}
		w.recs = append(w.recs, wantRec{uint32(i + 1), pad})
	}
	c := maker.FlushBuffer()
	if c == nil {
		panic("harness bug: the chunk maker returned no chunk")
	}
	w.chunk = *c
	return w
}

// chunkFor returns the chunk (out, mode, size class, slot); chunks of different slots have different contents and IDs.
func chunkFor(out string, mode forwardprotocol.MessageMode, sz sizeClass, slot int) *want {
	key := fmt.Sprintf("%s/%s/%d/%d", out, mode, sz, slot)
	if w := chunkCache[key]; w != nil {
		return w
	}
	tag := fmt.Sprintf("verif.%s.s%d", sizeNames[sz], slot)
	seed := uint64(len(chunkCache)*7 + slot + 1)
	var w *want
	for try := 0; ; try++ {
		if sz == szSmall {
			w = buildChunk(out, mode, tag, seed, []int{40, 200, 1000})
		} else {
			lo, hi := 921600, 931840
			switch {
			case sz == sz1M:
				lo, hi = 1100000, 1200000
			case sz == szHuge && out == "dd":
				lo, hi = 3600000, 3900000 // the uncompressed limit (5 MiB) bounds what a compressed chunk can be
			case sz == szHuge && mode == forwardprotocol.ModeCompressedPackedForward:
				lo, hi = 4900000, 5200000 // the uncompressed limit is 7 MiB
			case sz == szHuge:
				lo, hi = 6300000, 6700000
			}
			total := (lo + hi) / 2
			for i := 0; i < 10; i++ {
				w = buildChunk(out, mode, tag, seed, recordSizes(total))
				if w == nil {
					total = total * 9 / 10
					continue
				}
				n := len(w.chunk.Data)
				if n >= lo && n < hi {
					break
				}
				total = int(float64(total) * float64((lo+hi)/2) / float64(n))
			}
			if w == nil || len(w.chunk.Data) < lo {
				panic(fmt.Sprintf("harness bug: cannot build a %s chunk of class %s", out, sizeNames[sz]))
			}
		}
		if !chunkIDs[w.chunk.ID] {
			break
		}
		if try > 100 {
			panic("harness bug: chunk IDs repeat")
		}
	}
	chunkIDs[w.chunk.ID] = true
	chunkCache[key] = w
	return w
}

// sameFF compares a message decoded by fluentlib's reference decoder with what the harness wrote into the chunk.
func sameFF(m *forwardprotocol.Message, w *want, mode forwardprotocol.MessageMode) string {
	if m.Tag != w.tag {
		return fmt.Sprintf("tag %q, wanted %q", m.Tag, w.tag)
	}
	if m.Option.Chunk != w.chunk.ID {
		return fmt.Sprintf("chunk option %q, wanted %q", m.Option.Chunk, w.chunk.ID)
	}
	if (m.Option.Compressed == "gzip") != (mode == forwardprotocol.ModeCompressedPackedForward) {
		return fmt.Sprintf("compressed option %q in mode %s", m.Option.Compressed, mode)
	}
	if len(m.Entries) != len(w.recs) {
		return fmt.Sprintf("%d records, wanted %d", len(m.Entries), len(w.recs))
	}
	for i, e := range m.Entries {
		if uint32(e.Time.Unix()) != w.recs[i].sec {
			return fmt.Sprintf("record %d has time %d, wanted %d", i, e.Time.Unix(), w.recs[i].sec)
		}
		if s, _ := e.Record["p"].(string); s != w.recs[i].pad {
			return fmt.Sprintf("record %d has a different payload (%d bytes, wanted %d)", i, len(s), len(w.recs[i].pad))
		}
	}
	return ""
}

// sameDD decodes a request body (gzip + JSON array) independently and compares it with the chunk's records.
func sameDD(body []byte, w *want) string {
	zr, err := gzip.NewReader(bytes.NewReader(body))
	if err != nil {
		return "not gzip: " + err.Error()
	}
	plain, err := io.ReadAll(zr)
	if err != nil {
		return "gzip stream broken: " + err.Error()
	}
	var recs []struct {
		I string `json:"i"`
		P string `json:"p"`
	}
	if err := json.Unmarshal(plain, &recs); err != nil {
		return "not a JSON array of records: " + err.Error()
	}
	if len(recs) != len(w.recs) {
		return fmt.Sprintf("%d records, wanted %d", len(recs), len(w.recs))
	}
	for i, r := range recs {
		if r.I != fmt.Sprintf("%07d", w.recs[i].sec) || r.P != w.recs[i].pad {
			return fmt.Sprintf("record %d differs", i)
		}
	}
	return ""
}

// ---------------------------------------------------------------------------------------------------------------
// the Fluentd Forward server

type hsKind int

const (
	hsNone            hsKind = iota // no handshake required, none performed
	hsOK                            // HELO, PING checked, PONG with the right digest and auth_result=true
	hsWrongKey                      // PONG whose digest was computed with another shared key
	hsAuthFail                      // PONG with auth_result=false and a reason
	hsSilent                        // accepts, never sends HELO
	hsHeloSilent                    // HELO, reads PING, never sends PONG
	hsGarbageHelo                   // first message has type "OLEH"
	hsGarbagePong                   // PONG has type "GNOP"
	hsMalformed                     // bytes that are not msgpack
	hsFin                           // orderly close right after accept
	hsRst                           // reset right after accept
	hsUnsolicitedHelo               // the server wants a handshake, the client was configured without a secret
	hsTLSSilent                     // TCP accept, never a TLS handshake (only with tls)
)

var hsNames = []string{"none", "ok", "wrong-key", "auth-fail", "silent", "helo-then-silent", "garbage-helo", "garbage-pong", "malformed", "fin-on-accept", "rst-on-accept", "unsolicited-helo", "tls-silent"}

const sharedKey = "verif-shared-key"

type ffMsg struct {
	id   string
	ping bool
	bad  string // why the message is not the chunk the harness handed to SendChunk ("" if it is)
}

type ffConn struct {
	srv       *ffServer
	idx       int
	raw       net.Conn
	c         net.Conn
	dec       *msgpack.Decoder
	mu        sync.Mutex
	msgs      []ffMsg
	readEnded bool
	readErr   error
	broken    bool // the server reset the connection: TCP may discard what was written before
	drain     chan struct{}
}

type ffServer struct {
	ln     net.Listener
	addr   string
	mode   forwardprotocol.MessageMode
	useTLS bool
	hsFor  func(i int) hsKind
	noRead bool                     // connections start reading only when told (blocked mid-write)
	slow   bool                     // read in small pieces with pauses
	onMsg  func(c *ffConn, m ffMsg) // autonomous answering (worker groups); runs on the connection's reader goroutine
	mu     sync.Mutex
	expect map[string]*want
	conns  []*ffConn
	closed bool
}

var (
	tlsOnce sync.Once
	tlsConf *tls.Config
)

func serverTLS() *tls.Config {
	tlsOnce.Do(func() {
		key, err := ecdsa.GenerateKey(elliptic.P256(), rand.Reader)
		if err != nil {
			panic(err)
		}
		tmpl := &x509.Certificate{SerialNumber: big.NewInt(1), Subject: pkix.Name{CommonName: "verif"}, NotBefore: time.Now().Add(-time.Hour), NotAfter: time.Now().Add(240 * time.Hour),
			KeyUsage: x509.KeyUsageDigitalSignature, ExtKeyUsage: []x509.ExtKeyUsage{x509.ExtKeyUsageServerAuth}, IPAddresses: []net.IP{net.ParseIP("127.0.0.1")}}
		der, err := x509.CreateCertificate(rand.Reader, tmpl, tmpl, &key.PublicKey, key)
		if err != nil {
			panic(err)
		}
		tlsConf = &tls.Config{Certificates: []tls.Certificate{{Certificate: [][]byte{der}, PrivateKey: key}}}
	})
	return tlsConf
}

func newFFServer(mode forwardprotocol.MessageMode, hsFor func(int) hsKind) *ffServer {
	ln, err := net.Listen("tcp", "127.0.0.1:0")
	if err != nil {
		panic(err)
	}
	return &ffServer{ln: ln, addr: ln.Addr().String(), mode: mode, hsFor: hsFor, expect: map[string]*want{}}
}

func (s *ffServer) run() { go s.acceptLoop() }

func (s *ffServer) acceptLoop() {
	for {
		raw, err := s.ln.Accept()
		if err != nil {
			return
		}
		s.mu.Lock()
		if s.closed {
			s.mu.Unlock()
			raw.Close()
			return
		}
		c := &ffConn{srv: s, idx: len(s.conns), raw: raw, c: raw, drain: make(chan struct{})}
		if s.noRead {
			raw.(*net.TCPConn).SetReadBuffer(4096)
		}
		kind := s.hsFor(c.idx)
		if s.useTLS && kind != hsTLSSilent {
			c.c = tls.Server(raw, serverTLS())
		}
		s.conns = append(s.conns, c)
		s.mu.Unlock()
		go c.serve(kind)
	}
}

func (s *ffServer) expectChunk(w *want) {
	s.mu.Lock()
	s.expect[w.chunk.ID] = w
	s.mu.Unlock()
}

func (s *ffServer) nConns() int {
	s.mu.Lock()
	defer s.mu.Unlock()
	return len(s.conns)
}

func (s *ffServer) conn(i int) *ffConn {
	s.mu.Lock()
	defer s.mu.Unlock()
	return s.conns[i]
}

func (s *ffServer) close() {
	s.mu.Lock()
	s.closed = true
	conns := append([]*ffConn(nil), s.conns...)
	s.mu.Unlock()
	s.ln.Close()
	for _, c := range conns {
		c.reset()
	}
}

func sha512hex(s string) string {
	h := sha512.Sum512([]byte(s))
	return hex.EncodeToString(h[:])
}

func mustPack(v any) []byte {
	b, err := msgpack.Marshal(v)
	if err != nil {
		panic(err)
	}
	return b
}

type slowReader struct{ r io.Reader }

func (s slowReader) Read(p []byte) (int, error) {
	if len(p) > 32768 {
		p = p[:32768]
	}
	time.Sleep(200 * time.Microsecond)
	return s.r.Read(p)
}

func (c *ffConn) serve(kind hsKind) {
	var r io.Reader = c.c
	if c.srv.slow {
		r = slowReader{c.c}
	}
	c.dec = msgpack.NewDecoder(r)
	if t, ok := c.c.(*tls.Conn); ok && kind != hsFin && kind != hsRst {
		if err := t.Handshake(); err != nil { // the transport layer is healthy; the script is about what follows
			c.mu.Lock()
			c.readEnded, c.readErr = true, err
			c.mu.Unlock()
			return
		}
	}
	if !c.handshake(kind) {
		return // the connection stays as it is until the case ends
	}
	if c.srv.noRead {
		<-c.drain
		c.raw.(*net.TCPConn).SetReadBuffer(4 << 20)
	}
	for {
		var m forwardprotocol.Message
		if err := c.dec.Decode(&m); err != nil {
			c.mu.Lock()
			c.readEnded, c.readErr = true, err
			c.mu.Unlock()
			return
		}
		var fm ffMsg
		if m.Option.Chunk == "" && m.Tag == "internal.ping" && len(m.Entries) == 0 {
			fm.ping = true
		} else {
			fm.id = m.Option.Chunk
			c.srv.mu.Lock()
			w := c.srv.expect[fm.id]
			c.srv.mu.Unlock()
			if w == nil {
				fm.bad = fmt.Sprintf("a message with the unknown chunk id %q", fm.id)
			} else {
				fm.bad = sameFF(&m, w, c.srv.mode)
			}
		}
		c.mu.Lock()
		c.msgs = append(c.msgs, fm)
		c.mu.Unlock()
		if c.srv.onMsg != nil {
			c.srv.onMsg(c, fm)
		}
	}
}

func (c *ffConn) handshake(kind hsKind) bool {
	nonce := "nonce-of-the-scripted-server"
	helo := forwardprotocol.Helo{Type: "HELO", Options: forwardprotocol.HeloOptions{Nonce: nonce, Auth: "", KeepAlive: true}}
	switch kind {
	case hsNone:
		return true
	case hsSilent, hsTLSSilent:
		return false
	case hsFin:
		c.c.Close()
		return false
	case hsRst:
		c.reset()
		return false
	case hsMalformed:
		c.c.Write([]byte{0xc1, 0xc1, 0xc1})
		return false
	case hsGarbageHelo:
		helo.Type = "OLEH"
		c.c.Write(mustPack(&helo))
		return false
	case hsUnsolicitedHelo:
		c.c.Write(mustPack(&helo))
		return true // whatever the client sends next is recorded
	}
	c.c.Write(mustPack(&helo))
	var ping forwardprotocol.Ping
	if err := c.dec.Decode(&ping); err != nil || ping.Type != "PING" {
		return false
	}
	if kind == hsHeloSilent {
		return false
	}
	pong := forwardprotocol.Pong{Type: "PONG", AuthResult: true, ServerHostname: "scripted-upstream"}
	key := sharedKey
	switch kind {
	case hsWrongKey:
		key = "another-shared-key"
	case hsAuthFail:
		pong.AuthResult, pong.Reason = false, "scripted rejection"
	case hsGarbagePong:
		pong.Type = "GNOP"
	}
	pong.SharedKeyHexdigest = sha512hex(ping.SharedKeySalt + pong.ServerHostname + nonce + key)
	c.c.Write(mustPack(&pong))
	return kind == hsOK
}

func (c *ffConn) reset() {
	c.mu.Lock()
	c.broken = true
	c.mu.Unlock()
	if t, ok := c.raw.(*net.TCPConn); ok {
		t.SetLinger(0)
	}
	c.raw.Close()
}

func (c *ffConn) nMsgs() int {
	c.mu.Lock()
	defer c.mu.Unlock()
	return len(c.msgs)
}

func (c *ffConn) msg(i int) ffMsg {
	c.mu.Lock()
	defer c.mu.Unlock()
	return c.msgs[i]
}

func (c *ffConn) ended() (bool, error) {
	c.mu.Lock()
	defer c.mu.Unlock()
	return c.readEnded, c.readErr
}

// ---------------------------------------------------------------------------------------------------------------
// the ACK answers of the Fluentd server

type ffAns int

const (
	aOwn ffAns = iota
	aStale
	aUnknown
	aEmptyID
	aNoKey
	aMalformed
	aSilentDeadline
	aSilentClose
	aRst
	aFin
	aSplit
)

var ffAnsNames = []string{"own", "stale", "unknown", "empty-id", "no-ack-key", "malformed", "silent-until-deadline", "silent-until-close", "reset", "fin", "own-split"}

// ends reports whether the connection is over after this answer (the client has to abort it and reconnect).
func (a ffAns) ends() bool { return a >= aMalformed && a <= aFin }

const unknownID = "1600000000000000000-00000042.ff"

// ackFor: the bytes the server writes, and the id they carry (valid: a well-formed ACK message was written).
func ackFor(a ffAns, own, prev string) (b []byte, id string, valid bool) {
	switch a {
	case aOwn, aSplit:
		return mustPack(&forwardprotocol.Ack{Ack: own}), own, true
	case aStale:
		return mustPack(&forwardprotocol.Ack{Ack: prev}), prev, true
	case aUnknown:
		return mustPack(&forwardprotocol.Ack{Ack: unknownID}), unknownID, true
	case aEmptyID:
		return mustPack(&forwardprotocol.Ack{Ack: ""}), "", true
	case aNoKey:
		return []byte{0x80}, "", true
	case aMalformed:
		return []byte{0xc1, 0xc1, 0xc1}, "", false
	}
	return nil, "", false
}

// refConn is the reference model of one connection: the chunks completely transmitted on it and not yet acknowledged by
// the upstream, oldest first (documentation of ClientConnection.ReadChunkAck: "" designates the first of them).
type refConn struct{ pending []*want }

func (r *refConn) byID(id string) *want {
	for _, w := range r.pending {
		if id != "" && w.chunk.ID == id {
			return w
		}
	}
	return nil
}

func (r *refConn) designatedByClient(id string) *want {
	if id == "" {
		if len(r.pending) == 0 {
			return nil
		}
		return r.pending[0]
	}
	return r.byID(id)
}

func (r *refConn) remove(w *want) {
	for i, p := range r.pending {
		if p == w {
			r.pending = append(r.pending[:i:i], r.pending[i+1:]...)
			return
		}
	}
}

// judgeAck: what ReadChunkAck returned against what the upstream really wrote.
func (r *refConn) judgeAck(a ffAns, valid bool, sentID string, broken bool, gotID string, err error) {
	up := (*want)(nil)
	if valid {
		up = r.byID(sentID)
	}
	if err != nil {
		if up != nil && !broken {
			fail("ack-error-though-upstream-acknowledged", "the upstream wrote a well-formed ACK for the pending chunk %s (answer %s) on a healthy connection, ReadChunkAck returned the error: %v", sentID, ffAnsNames[a], err)
		}
		return
	}
	cl := r.designatedByClient(gotID)
	switch {
	case cl == up && (gotID == "" || !valid || sentID == "" || gotID == sentID):
	case !valid:
		fail("ack-without-upstream-answer", "the upstream wrote no ACK message (answer %s), ReadChunkAck returned (%q, nil), which designates %s", ffAnsNames[a], gotID, descr(cl))
	case valid && sentID == "" && gotID == "":
		soft("ack-without-id-taken-as-in-order-ack", "the upstream's answer carries no chunk id (answer %s), ReadChunkAck returned (%q, nil): to the client worker that is the acknowledgement of %s", ffAnsNames[a], gotID, descr(cl))
	default:
		fail("ack-id-not-the-upstreams", "the upstream acknowledged id %q (answer %s: %s), ReadChunkAck returned (%q, nil), which designates %s", sentID, ffAnsNames[a], descr(up), gotID, descr(cl))
	}
	if up != nil {
		r.remove(up)
	}
}

func descr(w *want) string {
	if w == nil {
		return "no pending chunk"
	}
	return "the pending chunk " + w.chunk.ID
}

// ---------------------------------------------------------------------------------------------------------------
// obtaining the real connections

func consumerArgs() base.ChunkConsumerArgs {
	return base.ChunkConsumerArgs{
		InputChannel:    make(chan base.LogChunk),
		InputClosed:     channels.NewSignalAwaitable(),
		OnChunkConsumed: func(base.LogChunk) {},
		OnChunkLeftover: func(base.LogChunk) {},
		OnFinished:      func() {},
	}
}

func ffOpener(addr, secret string, useTLS bool) baseoutput.EstablishConnectionFunc {
	consumer := fluentdforward.NewClientWorker(logger.Root(), consumerArgs(), fluentdforward.UpstreamConfig{Address: addr, TLS: useTLS, Secret: secret, MaxDuration: time.Hour}, promreg.NewMetricFactory("c_", nil, nil))
	open := baseoutput.VerifConnectionOpener(consumer)
	if open == nil {
		panic("harness bug: fluentdforward.NewClientWorker did not return a *baseoutput.ClientWorker")
	}
	return open
}

func ddOpener(url string, httpTimeout time.Duration) baseoutput.EstablishConnectionFunc {
	consumer := datadog.NewClientWorker(logger.Root(), consumerArgs(), promreg.NewMetricFactory("c_", nil, nil), datadog.UpstreamConfig{Address: url, HTTPTimeout: httpTimeout})
	open := baseoutput.VerifConnectionOpener(consumer)
	if open == nil {
		panic("harness bug: datadog.NewClientWorker did not return a *baseoutput.ClientWorker")
	}
	return open
}

func openConn(open baseoutput.EstablishConnectionFunc, context string) (conn baseoutput.ClosableClientConnection, err error) {
	invoke("open", context, func() { conn, err = open() })
	if (conn == nil) == (err == nil) {
		fail("open-result-inconsistent", "the connection opener returned (%v, %v)", conn, err)
	}
	return
}

func isTimeout(err error) bool {
	var ne net.Error
	return errors.As(err, &ne) && ne.Timeout()
}

// ---------------------------------------------------------------------------------------------------------------
// Fluentd, direct: ACK scripts

type ffStep struct {
	ans ffAns
	sz  sizeClass
}

func fmtSteps(steps []ffStep) string {
	p := make([]string, len(steps))
	for i, s := range steps {
		p[i] = ffAnsNames[s.ans]
		if s.sz != szSmall {
			p[i] += "@" + sizeNames[s.sz]
		}
	}
	return strings.Join(p, ",")
}

type ffDriver struct {
	srv    *ffServer
	open   baseoutput.EstablishConnectionFunc
	conn   baseoutput.ClosableClientConnection
	sc     *ffConn
	ref    *refConn
	nOpen  int
	seen   int // messages of the current connection already looked at
	mode   forwardprotocol.MessageMode
	prevID string
}

func (d *ffDriver) connect() {
	defs.ForwarderHandshakeTimeout, defs.ForwarderConnectionTimeout = far, far
	conn, err := openConn(d.open, "healthy upstream")
	if err != nil {
		fail("open-failed-though-upstream-accepts", "connection %d to a listening, correctly answering upstream: %v", d.nOpen+1, err)
	}
	if !waitUntil(func() bool { return d.srv.nConns() > d.nOpen }) {
		fail("harness:accept-missing", "the server never saw connection %d", d.nOpen+1)
	}
	d.conn, d.sc, d.ref, d.seen = conn, d.srv.conn(d.nOpen), &refConn{}, 0
	d.nOpen++
}

func (d *ffDriver) abort(context string) {
	if d.conn != nil {
		c := d.conn
		invoke("fluentd.Close", context, func() { c.Close() })
		d.conn = nil
	}
}

// awaitMessage: SendChunk / SendPing returned nil, so the upstream must (come to) hold one more complete message.
func (d *ffDriver) awaitMessage(what string) ffMsg {
	if !waitUntil(func() bool { e, _ := d.sc.ended(); return d.sc.nMsgs() > d.seen || e }) || d.sc.nMsgs() <= d.seen {
		_, err := d.sc.ended()
		fail("send-ok-but-incomplete", "%s returned nil, but the reading upstream holds no further complete message on this open connection (reader state: %v)", what, err)
	}
	m := d.sc.msg(d.seen)
	d.seen++
	return m
}

func (d *ffDriver) send(w *want) {
	d.srv.expectChunk(w)
	var err error
	invoke("fluentd.SendChunk", "healthy, reading upstream", func() { err = d.conn.SendChunk(w.chunk, time.Now().Add(far)) })
	if err != nil {
		fail("send-failed-on-healthy-connection", "SendChunk of %d bytes with a deadline %v ahead to a reading upstream: %v", len(w.chunk.Data), far, err)
	}
	m := d.awaitMessage("SendChunk")
	if m.ping || m.bad != "" {
		fail("send-ok-but-incomplete", "SendChunk returned nil, the upstream decoded something else than the chunk: ping=%v %s", m.ping, m.bad)
	}
	d.ref.pending = append(d.ref.pending, w)
}

func (d *ffDriver) ping() {
	var err error
	invoke("fluentd.SendPing", "healthy, reading upstream", func() { err = d.conn.SendPing(time.Now().Add(far)) })
	if err != nil {
		fail("send-failed-on-healthy-connection", "SendPing with a deadline %v ahead to a reading upstream: %v", far, err)
	}
	if m := d.awaitMessage("SendPing"); !m.ping {
		fail("send-ok-but-incomplete", "SendPing returned nil, the upstream decoded a message that is not an empty ping (chunk id %q %s)", m.id, m.bad)
	}
}

// read performs one ReadChunkAck for answer a (already written / performed by the server unless it is a silence).
func (d *ffDriver) read(a ffAns, valid bool, sentID string) (failed bool) {
	deadline := far
	if a == aSilentDeadline {
		deadline = near
	}
	var id string
	var err error
	conn := d.conn
	c := start("fluentd.ReadChunkAck", func() { id, err = conn.ReadChunkAck(time.Now().Add(deadline)) })
	if a == aSilentClose {
		time.Sleep(time.Millisecond) // either order of Close and the blocking read must end the read
		d.abort("while ReadChunkAck waits for a silent upstream")
	}
	c.wait("upstream answer: " + ffAnsNames[a])
	d.sc.mu.Lock()
	broken := d.sc.broken
	d.sc.mu.Unlock()
	d.ref.judgeAck(a, valid, sentID, broken, id, err)
	return err != nil
}

func runFFAck(mode forwardprotocol.MessageMode, hs hsKind, steps []ffStep, burst, withPing bool) (string, string) {
	return judged(func() {
		srv := newFFServer(mode, func(int) hsKind { return hs })
		srv.run()
		defer srv.close()
		secret := ""
		if hs == hsOK {
			secret = sharedKey
		}
		d := &ffDriver{srv: srv, open: ffOpener(srv.addr, secret, false), mode: mode, prevID: unknownID[:20] + "00000007.ff"}
		defer func() {
			if d.conn != nil {
				d.conn.Close()
			}
		}()
		if burst {
			d.connect()
			ws := make([]*want, len(steps))
			for i, st := range steps {
				ws[i] = chunkFor("ff", mode, st.sz, i)
				if withPing {
					d.ping()
				}
				d.send(ws[i])
			}
			// all answers up to the first one that ends the connection go out in ONE write (two if an answer is split)
			var buf []byte
			type sent struct {
				id    string
				valid bool
			}
			var plan []sent
			cut := -1
			last := ffAns(-1)
			for i, st := range steps {
				b, id, valid := ackFor(st.ans, ws[i].chunk.ID, d.prevID)
				if st.ans == aSplit && cut < 0 {
					cut = len(buf) + len(b)/2
				}
				buf = append(buf, b...)
				plan = append(plan, sent{id, valid})
				d.prevID = ws[i].chunk.ID
				last = st.ans
				if st.ans.ends() {
					break
				}
			}
			if cut >= 0 {
				d.sc.c.Write(buf[:cut])
				time.Sleep(10 * time.Millisecond)
				d.sc.c.Write(buf[cut:])
			} else if len(buf) > 0 {
				d.sc.c.Write(buf)
			}
			switch last {
			case aRst:
				d.sc.reset()
			case aFin:
				d.sc.c.Close()
			}
			for i, p := range plan {
				if d.read(steps[i].ans, p.valid, p.id) {
					break
				}
			}
			d.abort("end of the case")
			return
		}
		for i, st := range steps {
			if d.conn == nil {
				d.connect()
			}
			w := chunkFor("ff", mode, st.sz, i)
			if withPing {
				d.ping()
			}
			d.send(w)
			b, id, valid := ackFor(st.ans, w.chunk.ID, d.prevID)
			d.prevID = w.chunk.ID
			switch {
			case st.ans == aSplit:
				d.sc.c.Write(b[:len(b)/2])
				time.Sleep(10 * time.Millisecond)
				d.sc.c.Write(b[len(b)/2:])
			case len(b) > 0:
				d.sc.c.Write(b)
			case st.ans == aRst:
				d.sc.reset()
			case st.ans == aFin:
				d.sc.c.Close()
			}
			if d.read(st.ans, valid, id) {
				d.abort("after a failed ReadChunkAck")
			}
		}
		d.abort("end of the case")
	})
}

// ---------------------------------------------------------------------------------------------------------------
// Fluentd, direct: handshakes, refusing upstream, TLS

func runFFHandshake(mode forwardprotocol.MessageMode, clientSecret bool, useTLS bool, hs hsKind, refused bool) (string, string) {
	return judged(func() {
		srv := newFFServer(mode, func(int) hsKind { return hs })
		srv.useTLS = useTLS
		if refused {
			srv.ln.Close() // nobody listens on the address any more
		} else {
			srv.run()
		}
		defer srv.close()
		secret := ""
		if clientSecret {
			secret = sharedKey
		}
		open := ffOpener(srv.addr, secret, useTLS)
		defs.ForwarderHandshakeTimeout, defs.ForwarderConnectionTimeout = far, far
		switch hs {
		case hsSilent, hsHeloSilent:
			defs.ForwarderHandshakeTimeout = near
		case hsTLSSilent:
			defs.ForwarderConnectionTimeout = near
		}
		context := "handshake behaviour of the upstream: " + hsNames[hs]
		if refused {
			context = "nobody listens on the address"
		}
		conn, err := openConn(open, context)
		defs.ForwarderHandshakeTimeout, defs.ForwarderConnectionTimeout = far, far
		mustFail := refused || (clientSecret && hs != hsOK) || hs == hsTLSSilent
		if mustFail {
			if err == nil {
				conn.Close()
				fail("handshake-rejected-but-connected", "%s (client configured with a shared key: %v, tls: %v): the opener returned a usable connection", context, clientSecret, useTLS)
			}
			return
		}
		if hs == hsNone || hs == hsOK {
			if err != nil {
				fail("open-failed-though-upstream-accepts", "%s, time-outs of %v: %v", context, far, err)
			}
		}
		if err != nil {
			return
		}
		defer conn.Close()
		// hsNone / hsOK: the connection works; the other kinds (client without a secret): nothing may be reported as acknowledged
		if !waitUntil(func() bool { return srv.nConns() > 0 }) {
			fail("harness:accept-missing", "the server never saw the connection")
		}
		d := &ffDriver{srv: srv, open: open, conn: conn, sc: srv.conn(0), ref: &refConn{}, nOpen: 1, mode: mode}
		w := chunkFor("ff", mode, szSmall, 0)
		if hs == hsNone || hs == hsOK {
			d.ping()
			d.send(w)
			b, id, valid := ackFor(aOwn, w.chunk.ID, "")
			d.sc.c.Write(b)
			d.read(aOwn, valid, id)
			d.abort("end of the case")
			return
		}
		// the upstream closed, reset, went silent or sent handshake messages the client did not ask for
		srv.expectChunk(w)
		var serr error
		invoke("fluentd.SendChunk", context, func() { serr = conn.SendChunk(w.chunk, time.Now().Add(near)) })
		if serr == nil {
			d.ref.pending = append(d.ref.pending, w)
			d.read(aSilentDeadline, false, "")
		}
		d.abort("end of the case")
	})
}

// ---------------------------------------------------------------------------------------------------------------
// Fluentd, direct: an upstream that does not read (blocked mid-write)

var blockedNote string

func runFFBlockedWrite(mode forwardprotocol.MessageMode, byClose bool) (string, string) {
	blockedNote = "no verdict reached"
	return judged(func() {
		srv := newFFServer(mode, func(int) hsKind { return hsNone })
		srv.noRead = true
		srv.run()
		defer srv.close()
		d := &ffDriver{srv: srv, open: ffOpener(srv.addr, "", false), mode: mode}
		d.connect()
		defer func() {
			if d.conn != nil {
				d.conn.Close()
			}
		}()
		w := chunkFor("ff", mode, szHuge, 0)
		srv.expectChunk(w)
		deadline := near
		if byClose {
			deadline = far
		}
		var err error
		conn := d.conn
		c := start("fluentd.SendChunk", func() { err = conn.SendChunk(w.chunk, time.Now().Add(deadline)) })
		if byClose {
			time.Sleep(20 * time.Millisecond)
			d.abort("while SendChunk is blocked: the upstream does not read")
		}
		c.wait("the upstream accepted the connection and does not read")
		// now the upstream reads whatever arrived
		close(d.sc.drain)
		if err != nil {
			blockedNote = "SendChunk was blocked and ended with an error"
			d.abort("after the failed SendChunk")
			return
		}
		blockedNote = "the chunk fitted into the socket buffers, SendChunk returned nil"
		if byClose {
			return // closed by the harness itself: what arrives is whatever the kernel had taken
		}
		m := d.awaitMessage("SendChunk (to an upstream that read only afterwards)")
		if m.bad != "" || m.ping {
			fail("send-ok-but-incomplete", "SendChunk returned nil, the upstream decoded something else than the chunk: %s", m.bad)
		}
		d.abort("end of the case")
	})
}

// runFFSend: size sequences on one connection, prompt or slow reader, one answer for the last chunk.
func runFFSend(mode forwardprotocol.MessageMode, sizes []sizeClass, last ffAns, slow bool) (string, string) {
	steps := make([]ffStep, len(sizes))
	for i, sz := range sizes {
		steps[i] = ffStep{aOwn, sz}
	}
	steps[len(steps)-1].ans = last
	if !slow {
		return runFFAck(mode, hsNone, steps, false, false)
	}
	return judged(func() {
		srv := newFFServer(mode, func(int) hsKind { return hsNone })
		srv.slow = true
		srv.run()
		defer srv.close()
		d := &ffDriver{srv: srv, open: ffOpener(srv.addr, "", false), mode: mode, prevID: unknownID}
		d.connect()
		defer func() {
			if d.conn != nil {
				d.conn.Close()
			}
		}()
		for i, st := range steps {
			w := chunkFor("ff", mode, st.sz, i)
			d.send(w)
			b, id, valid := ackFor(aOwn, w.chunk.ID, "")
			d.sc.c.Write(b)
			d.read(aOwn, valid, id)
		}
		d.abort("end of the case")
	})
}

// ---------------------------------------------------------------------------------------------------------------
// the Datadog-like HTTP server

type ddKind int

const (
	kStatus    ddKind = iota
	kRedirect         // 301 with a Location on the same server; the target answers 200 to whatever arrives
	kNever            // reads the request, never answers
	kNeverRead        // reads the header only, never answers
	kCutStatus        // connection closed inside the status line
	kCutBody          // 500 with Content-Length 100, 5 bytes of body, connection closed
	kDelay            // answers 202, but only 3 x httpTimeout later
)

type ddAns struct {
	name   string
	kind   ddKind
	status int
}

func (a ddAns) blocks() bool { return a.kind == kNever || a.kind == kNeverRead || a.kind == kDelay }

func ddMenu() []ddAns {
	m := []ddAns{}
	for _, s := range []int{200, 202, 204, 301, 400, 403, 404, 408, 413, 429, 500, 502, 503} {
		m = append(m, ddAns{fmt.Sprint(s), kStatus, s})
	}
	return append(m,
		ddAns{"301-location", kRedirect, 301},
		ddAns{"never-answers", kNever, 0},
		ddAns{"never-reads", kNeverRead, 0},
		ddAns{"cut-in-status-line", kCutStatus, 0},
		ddAns{"cut-in-500-body", kCutBody, 500},
		ddAns{"202-after-3x-timeout", kDelay, 202})
}

func ddQuickMenu() []ddAns {
	var m []ddAns
	for _, a := range ddMenu() {
		switch a.name {
		case "202", "301-location", "403", "429", "503", "never-answers", "cut-in-status-line", "202-after-3x-timeout":
			m = append(m, a)
		}
	}
	return m
}

type ddReq struct {
	method, path string
	ans          ddAns
	body         []byte
	bodyErr      error
	bodyRead     bool
	status       int // the status the server decided to send (0: none)
}

type ddServer struct {
	ln       net.Listener
	hs       *http.Server
	url      string
	script   []ddAns
	mu       sync.Mutex
	log      []*ddReq
	posts    int
	release  chan struct{}
	onAnswer func() // called after each scripted POST was handled up to the point where the script says stop
}

func newDDServer(script []ddAns) *ddServer {
	ln, err := net.Listen("tcp", "127.0.0.1:0")
	if err != nil {
		panic(err)
	}
	s := &ddServer{ln: ln, script: script, release: make(chan struct{}), url: "http://" + ln.Addr().String() + "/api/v2/logs"}
	s.hs = &http.Server{Handler: s, ErrorLog: log.New(io.Discard, "", 0)}
	go s.hs.Serve(ln)
	return s
}

func (s *ddServer) close() {
	close(s.release)
	s.hs.Close()
}

func (s *ddServer) logLen() int {
	s.mu.Lock()
	defer s.mu.Unlock()
	return len(s.log)
}

func (s *ddServer) nPosts() int {
	s.mu.Lock()
	defer s.mu.Unlock()
	return s.posts
}

func (s *ddServer) since(mark int) []ddReq {
	s.mu.Lock()
	defer s.mu.Unlock()
	out := []ddReq{}
	for _, e := range s.log[mark:] {
		out = append(out, *e)
	}
	return out
}

func (s *ddServer) ServeHTTP(w http.ResponseWriter, r *http.Request) {
	e := &ddReq{method: r.Method, path: r.URL.Path}
	if r.URL.Path == "/redirected" {
		e.ans = ddAns{"redirect-target", kStatus, 200}
		body, err := io.ReadAll(r.Body)
		e.body, e.bodyErr, e.bodyRead, e.status = body, err, true, 200
		s.mu.Lock()
		s.log = append(s.log, e)
		s.mu.Unlock()
		w.WriteHeader(200)
		return
	}
	s.mu.Lock()
	e.ans = ddAns{"202", kStatus, 202} // behind the script the upstream is healthy
	if s.posts < len(s.script) {
		e.ans = s.script[s.posts]
	}
	s.posts++
	s.log = append(s.log, e)
	s.mu.Unlock()
	if e.ans.kind != kNeverRead {
		body, err := io.ReadAll(r.Body)
		s.mu.Lock()
		e.body, e.bodyErr, e.bodyRead = body, err, true
		s.mu.Unlock()
	}
	decide := func(status int) {
		s.mu.Lock()
		e.status = status
		s.mu.Unlock()
	}
	cut := func(text string) {
		conn, _, err := w.(http.Hijacker).Hijack()
		if err != nil {
			panic(err)
		}
		conn.Write([]byte(text))
		conn.Close()
	}
	switch e.ans.kind {
	case kStatus:
		decide(e.ans.status)
		w.WriteHeader(e.ans.status)
		if e.ans.status >= 300 {
			io.WriteString(w, `{"errors":["scripted answer"]}`)
		}
	case kRedirect:
		decide(301)
		w.Header().Set("Location", "/redirected")
		w.WriteHeader(301)
	case kNever, kNeverRead:
		select {
		case <-s.release:
		case <-r.Context().Done():
		}
	case kCutStatus:
		cut("HTTP/1.1 20")
	case kCutBody:
		decide(500)
		cut("HTTP/1.1 500 Internal Server Error\r\nContent-Type: text/plain\r\nContent-Length: 100\r\n\r\nshort")
	case kDelay:
		select {
		case <-s.release:
			return
		case <-time.After(3 * near):
		}
		decide(202)
		w.WriteHeader(202)
	}
}

// ackedBy: did the upstream decide a 2xx for a POST whose body is completely this chunk, among the logged requests?
func ackedBy(reqs []ddReq, w *want) (acked bool, wrongBody string, redirected bool) {
	for _, e := range reqs {
		if e.path == "/redirected" {
			redirected = true
			continue
		}
		if e.status >= 200 && e.status < 300 {
			switch {
			case e.method != http.MethodPost:
				wrongBody = "method " + e.method
			case !e.bodyRead || e.bodyErr != nil:
				wrongBody = fmt.Sprintf("body not received completely: %v", e.bodyErr)
			case !bytes.Equal(e.body, w.chunk.Data):
				wrongBody = fmt.Sprintf("body of %d bytes is not the chunk's data (%d bytes)", len(e.body), len(w.chunk.Data))
			case sameDD(e.body, w) != "":
				wrongBody = sameDD(e.body, w)
			default:
				acked = true
			}
		}
	}
	return
}

func fmtDD(script []ddAns) string {
	p := make([]string, len(script))
	for i, a := range script {
		p[i] = a.name
	}
	return strings.Join(p, ",")
}

// runDDDirect: one chunk per scripted answer through the real Datadog connection.
func runDDDirect(script []ddAns, sizes []sizeClass) (string, string) {
	for attempt := 0; ; attempt++ {
		key, msg, again := ddDirectAttempt(script, sizes)
		if !again || attempt == 4 {
			return key, msg
		}
	}
}

func ddDirectAttempt(script []ddAns, sizes []sizeClass) (key, msg string, again bool) {
	key, msg = judged(func() {
		srv := newDDServer(script)
		defer srv.close()
		timeout := far
		for _, a := range script {
			if a.blocks() {
				timeout = near
			}
		}
		open := ddOpener(srv.url, timeout)
		conn, err := openConn(open, "datadog")
		if err != nil {
			fail("open-failed-though-upstream-accepts", "datadog opener: %v", err)
		}
		for j, a := range script {
			w := chunkFor("dd", "", sizes[j], j)
			mark := srv.logLen()
			posts := srv.nPosts()
			var serr error
			c := start("datadog.SendChunk", func() { serr = conn.SendChunk(w.chunk, time.Now().Add(far)) })
			if a.blocks() {
				// Close() while the call is blocked at the silent upstream: afterwards the call must return
				waitUntil(func() bool { return srv.nPosts() > posts || c.returned() })
				invoke("datadog.Close", "while SendChunk waits for the answer", func() { conn.Close() })
			}
			c.wait(fmt.Sprintf("answer %s, httpTimeout %v", a.name, timeout))
			delivered := false
			if serr == nil {
				var id string
				var aerr error
				invoke("datadog.ReadChunkAck", "after a successful SendChunk", func() { id, aerr = conn.ReadChunkAck(time.Now().Add(far)) })
				delivered = aerr == nil
				if delivered && id != "" && id != w.chunk.ID {
					fail("ack-id-not-the-upstreams", "ReadChunkAck returned the id %q after sending chunk %s", id, w.chunk.ID)
				}
				serr = aerr
			}
			reqs := srv.since(mark)
			acked, wrong, redirected := ackedBy(reqs, w)
			switch {
			case delivered && !acked && wrong != "":
				fail("send-ok-but-incomplete", "step %d (answer %s): reported delivered, the 2xx answer was given to a request that does not carry the chunk: %s", j+1, a.name, wrong)
			case delivered && !acked && redirected:
				soft("delivered-after-redirect-without-resend", "step %d (answer %s): SendChunk and ReadChunkAck returned nil; the POST with the chunk was answered %s, the client then fetched the Location with a body-less GET and took the 200 of THAT request as the acknowledgement (requests seen: %s)", j+1, a.name, a.name, fmtReqs(reqs))
			case delivered && !acked:
				fail("delivered-without-2xx", "step %d (answer %s): SendChunk and ReadChunkAck returned nil although no request carrying this chunk was answered 2xx (requests seen: %s)", j+1, a.name, fmtReqs(reqs))
			case !delivered && acked && a.kind == kStatus:
				if isTimeout(serr) && timeout == near {
					again = true // the machine was slower than the short time-out this case needs for its silent steps: not judged
					return
				}
				fail("acknowledged-2xx-but-error", "step %d: the upstream answered %s to the complete chunk, the connection reported: %v", j+1, a.name, serr)
			}
			if serr != nil {
				invoke("datadog.Close", "after an error", func() { conn.Close() })
				if conn, err = openConn(open, "datadog, reopen"); err != nil {
					fail("open-failed-though-upstream-accepts", "datadog opener: %v", err)
				}
			}
		}
		var perr error
		invoke("datadog.SendPing", "end of the case", func() { perr = conn.SendPing(time.Now().Add(far)) })
		if perr != nil {
			fail("ping-failed", "SendPing on the Datadog connection: %v", perr)
		}
		invoke("datadog.Close", "end of the case", func() { conn.Close() })
	})
	return
}

func fmtReqs(reqs []ddReq) string {
	p := []string{}
	for _, e := range reqs {
		st := "no answer"
		if e.status != 0 {
			st = fmt.Sprint(e.status)
		}
		p = append(p, fmt.Sprintf("%s %s body=%dB -> %s", e.method, e.path, len(e.body), st))
	}
	return "[" + strings.Join(p, "; ") + "]"
}

// ---------------------------------------------------------------------------------------------------------------
// the real ClientWorker over the real connections ("worker" groups)

type workerRig struct {
	mu        sync.Mutex
	consumed  map[string]int
	leftover  map[string]int
	finished  int
	viol      *verdict
	softViol  *verdict                     // classes that do not end the case (see soft)
	isAcked   func(w *want) (bool, string) // has the upstream acknowledged this chunk by now? (with an explanation if not)
	byID      map[string]*want
	input     chan base.LogChunk
	closedSig *channels.SignalAwaitable
}

func newWorkerRig(n int) *workerRig {
	return &workerRig{consumed: map[string]int{}, leftover: map[string]int{}, byID: map[string]*want{}, input: make(chan base.LogChunk, n), closedSig: channels.NewSignalAwaitable()}
}

func (r *workerRig) args() base.ChunkConsumerArgs {
	return base.ChunkConsumerArgs{
		InputChannel: r.input,
		InputClosed:  r.closedSig,
		OnChunkConsumed: func(c base.LogChunk) {
			w := r.byID[c.ID]
			ok, why := false, "the chunk was never fed"
			if w != nil {
				ok, why = r.isAcked(w)
			}
			r.mu.Lock()
			r.consumed[c.ID]++
			if !ok {
				v := &verdict{"worker:consumed-without-upstream-ack", fmt.Sprintf("the client worker reported chunk %s as delivered: %s", c.ID, why)}
				switch {
				case strings.HasPrefix(why, "redirect:"):
					v.key = "worker:consumed-after-redirect-without-resend"
				case strings.HasPrefix(why, "no-id:"):
					v.key = "worker:consumed-on-ack-without-id"
				}
				if v.key != "worker:consumed-without-upstream-ack" {
					if r.softViol == nil {
						r.softViol = v
					}
				} else if r.viol == nil {
					r.viol = v
				}
			}
			r.mu.Unlock()
		},
		OnChunkLeftover: func(c base.LogChunk) {
			r.mu.Lock()
			r.leftover[c.ID]++
			r.mu.Unlock()
		},
		OnFinished: func() {
			r.mu.Lock()
			r.finished++
			r.mu.Unlock()
		},
	}
}

func (r *workerRig) feed(w *want) {
	r.byID[w.chunk.ID] = w
	r.input <- w.chunk
}

func (r *workerRig) nConsumed() int {
	r.mu.Lock()
	defer r.mu.Unlock()
	return len(r.consumed)
}

func (r *workerRig) check() {
	r.mu.Lock()
	defer r.mu.Unlock()
	if r.viol != nil {
		panic(*r.viol)
	}
	if r.softViol != nil {
		soft(r.softViol.key, "%s", r.softViol.msg)
	}
}

// finish: stop request as the buffer's feeder issues it (close the channel, then the signal), then the accounting.
func (r *workerRig) finish(consumer base.ChunkConsumer, context string) {
	close(r.input)
	r.closedSig.Signal()
	if !waitUntil(func() bool { return consumer.Stopped().Peek() }) {
		fail("worker:stop-never-completes", "after the stop request the client worker did not stop (%s); waited %d ticks of the process's own 5 ms clock, every configured time-out is <= 500 ms", context, patienceTicks)
	}
	r.check()
	queued := map[string]bool{}
	for c := range r.input {
		queued[c.ID] = true
	}
	r.mu.Lock()
	defer r.mu.Unlock()
	for id := range r.byID {
		nc, nl := r.consumed[id], r.leftover[id]
		switch {
		case queued[id] && nc+nl == 0, !queued[id] && nc+nl == 1:
		case nc+nl == 0:
			fail("worker:chunk-unresolved-at-stop", "chunk %s was taken from the queue and neither reported delivered nor handed back when the worker stopped (%s)", id, context)
		default:
			fail("worker:chunk-resolved-twice", "chunk %s: delivered %d times, handed back %d times, still queued: %v (%s)", id, nc, nl, queued[id], context)
		}
	}
	if r.finished != 1 {
		fail("worker:finished-count", "OnFinished was called %d times", r.finished)
	}
}

func workerTimeouts() {
	defs.ForwarderConnectionTimeout = far
	defs.ForwarderHandshakeTimeout = far
	defs.ForwarderBatchSendTimeoutBase = 90 * time.Second // the shipped value; the send time-out grows with the chunk size from here
	defs.ForwarderBatchSendMinimumSpeed = 10 * 1024
	defs.ForwarderBatchAckTimeout = 250 * time.Millisecond
	defs.ForwarderAckerStopTimeout = 500 * time.Millisecond
	defs.ForwarderRetryInterval = 10 * time.Millisecond
	defs.ForwarderPingInterval = 100 * time.Millisecond
}

type ffEvent struct {
	conn int
	recv bool // a complete, correct chunk message was received
	ack  bool // a well-formed ACK was written
	id   string
	noID bool
}

// runFFWorker: the real fluentdforward client worker; the upstream answers the first messages by the script and is
// healthy afterwards. early: the stop request comes as soon as the script is used up, otherwise when everything was delivered.
func runFFWorker(mode forwardprotocol.MessageMode, script []ffAns, sizes []sizeClass, early bool) (string, string) {
	return judged(func() {
		workerTimeouts()
		if len(script) == 0 {
			defs.ForwarderBatchAckTimeout = far // nothing stays silent: no short time-out anywhere
		}
		n := len(sizes)
		srv := newFFServer(mode, func(int) hsKind { return hsNone })
		var mu sync.Mutex
		var events []ffEvent
		step, lastID := 0, unknownID[:20]+"00000007.ff"
		scriptDone := false
		srv.onMsg = func(c *ffConn, m ffMsg) {
			if m.ping {
				return
			}
			mu.Lock()
			a := aOwn
			if step < len(script) {
				a = script[step]
			}
			step++
			if m.bad == "" {
				events = append(events, ffEvent{conn: c.idx, recv: true, id: m.id})
			}
			b, id, valid := ackFor(a, m.id, lastID)
			lastID = m.id
			if valid && m.bad == "" {
				events = append(events, ffEvent{conn: c.idx, ack: true, id: id, noID: id == ""})
			}
			if step >= len(script) {
				defer func() { mu.Lock(); scriptDone = true; mu.Unlock() }()
			}
			mu.Unlock()
			switch {
			case a == aSplit:
				c.c.Write(b[:len(b)/2])
				time.Sleep(10 * time.Millisecond)
				c.c.Write(b[len(b)/2:])
			case len(b) > 0:
				c.c.Write(b)
			case a == aRst:
				c.reset()
			case a == aFin:
				c.c.Close()
			}
		}
		srv.run()
		defer srv.close()
		rig := newWorkerRig(n)
		rig.isAcked = func(w *want) (bool, string) {
			mu.Lock()
			defer mu.Unlock()
			received := map[int]bool{}
			noID := false
			for _, e := range events {
				if e.recv && e.id == w.chunk.ID {
					received[e.conn] = true
				}
				if e.ack && e.id == w.chunk.ID && received[e.conn] {
					return true, ""
				}
				if e.ack && e.noID {
					noID = true
				}
			}
			if noID {
				return false, "no-id: the upstream never wrote an ACK with this chunk's id on a connection that had carried the chunk; it did write an answer without any chunk id"
			}
			return false, "the upstream never wrote an ACK with this chunk's id on a connection that had carried the chunk completely"
		}
		// an ACK that designates no pending chunk leaves that chunk waiting until the session ends: a short maximum session
		// duration lets the worker get out of that by itself
		maxDuration := 400 * time.Millisecond
		if len(script) == 0 {
			maxDuration = time.Hour
		}
		consumer := fluentdforward.NewClientWorker(logger.Root(), rig.args(), fluentdforward.UpstreamConfig{Address: srv.addr, MaxDuration: maxDuration}, promreg.NewMetricFactory("w_", nil, nil))
		for i, sz := range sizes {
			w := chunkFor("ff", mode, sz, i)
			srv.expectChunk(w)
			rig.feed(w)
		}
		consumer.Start()
		context := fmt.Sprintf("answers %s then healthy", fmtAns(script))
		if early {
			waitUntil(func() bool { mu.Lock(); defer mu.Unlock(); return scriptDone || len(script) == 0 })
			rig.finish(consumer, context+", stop as soon as the script is used up")
			return
		}
		// a healthy upstream that the client fails to use: connections opened and given up without one complete chunk
		fruitless := func() int {
			k := 0
			for i := 0; i < srv.nConns(); i++ {
				c := srv.conn(i)
				if e, _ := c.ended(); e && c.nMsgs() == 0 {
					k++
				}
			}
			return k
		}
		all := waitUntil(func() bool { return rig.nConsumed() == n || (len(script) == 0 && fruitless() >= 8) })
		rig.check()
		if !all || rig.nConsumed() != n {
			fail("worker:not-delivered-though-upstream-behaves", "%d of %d chunks (sizes %v) delivered; the upstream read everything and acknowledged every complete chunk with its own id (%s); connections given up by the client without one complete message: %d of %d", rig.nConsumed(), n, sizeList(sizes), context, fruitless(), srv.nConns())
		}
		rig.finish(consumer, context+", stop after everything was delivered")
	})
}

func fmtAns(s []ffAns) string {
	p := make([]string, len(s))
	for i, a := range s {
		p[i] = ffAnsNames[a]
	}
	return "[" + strings.Join(p, ",") + "]"
}

func sizeList(s []sizeClass) string {
	p := make([]string, len(s))
	for i, a := range s {
		p[i] = sizeNames[a]
	}
	return strings.Join(p, "+")
}

func runDDWorker(script []ddAns, sizes []sizeClass, early bool) (string, string) {
	return judged(func() {
		workerTimeouts()
		n := len(sizes)
		srv := newDDServer(script)
		defer srv.close()
		timeout := far
		for _, a := range script {
			if a.blocks() {
				timeout = near
			}
		}
		rig := newWorkerRig(n)
		rig.isAcked = func(w *want) (bool, string) {
			reqs := srv.since(0)
			acked, wrong, redirected := ackedBy(reqs, w)
			switch {
			case acked:
				return true, ""
			case redirected:
				return false, "redirect: no POST carrying this chunk was answered 2xx; the client followed a redirect with a body-less GET and took that request's 200 (requests: " + fmtReqs(reqs) + ")"
			case wrong != "":
				return false, "a 2xx was given to another request: " + wrong
			}
			return false, "no request carrying this chunk was answered 2xx (requests: " + fmtReqs(reqs) + ")"
		}
		consumer := datadog.NewClientWorker(logger.Root(), rig.args(), promreg.NewMetricFactory("w_", nil, nil), datadog.UpstreamConfig{Address: srv.url, HTTPTimeout: timeout})
		for i, sz := range sizes {
			rig.feed(chunkFor("dd", "", sz, i))
		}
		consumer.Start()
		context := fmt.Sprintf("answers [%s] then 202, httpTimeout %v", fmtDD(script), timeout)
		if early {
			waitUntil(func() bool { return srv.nPosts() >= len(script) })
			rig.finish(consumer, context+", stop as soon as the last scripted request arrived")
			return
		}
		all := waitUntil(func() bool { return rig.nConsumed() == n })
		rig.check()
		if !all {
			fail("worker:not-delivered-though-upstream-behaves", "%d of %d chunks delivered (%s); requests: %s", rig.nConsumed(), n, context, fmtReqs(srv.since(0)))
		}
		rig.finish(consumer, context+", stop after everything was delivered")
	})
}

// ---------------------------------------------------------------------------------------------------------------
// enumeration

func sequences(menu, maxLen int) [][]int {
	var out [][]int
	var rec func(prefix []int, l int)
	for l := 1; l <= maxLen; l++ {
		rec = func(prefix []int, l int) {
			if len(prefix) == l {
				out = append(out, append([]int(nil), prefix...))
				return
			}
			for i := 0; i < menu; i++ {
				rec(append(prefix, i), l)
			}
		}
		rec(nil, l)
	}
	return out
}

func enumerate(ctx *seq.Ctx) {
	c18 := *flagProp == "C18"
	add := func(id string, nontrivial, blocking bool, input string, run func() (string, string)) {
		if (c18 && !blocking) || ctx.Stop() {
			return
		}
		if c18 {
			// C18 is about termination; what was reported as delivered is judged by the C02 run of the same cases
			inner := run
			run = func() (string, string) {
				key, msg := inner()
				for _, p := range []string{"call-never-returns:", "worker:stop-never-completes", "worker:chunk-unresolved-at-stop", "worker:chunk-resolved-twice", "worker:finished-count", "panic:", "harness:"} {
					if strings.HasPrefix(key, p) {
						return key, msg
					}
				}
				return "", ""
			}
		}
		ctx.Case(id, nontrivial, input, run)
	}
	thorough := ctx.Thorough()

	// ---- Fluentd: handshakes
	ctx.Group("ff/handshake")
	type hcase struct {
		secret, tls bool
		hs          hsKind
		refused     bool
	}
	hcases := []hcase{{false, false, hsNone, true}, {true, false, hsOK, true}, {false, true, hsNone, true}}
	for _, useTLS := range []bool{false, true} {
		hcases = append(hcases, hcase{false, useTLS, hsNone, false}, hcase{true, useTLS, hsOK, false})
		for _, hs := range []hsKind{hsWrongKey, hsAuthFail, hsSilent, hsHeloSilent, hsGarbageHelo, hsGarbagePong, hsMalformed, hsFin, hsRst} {
			hcases = append(hcases, hcase{true, useTLS, hs, false})
		}
		for _, hs := range []hsKind{hsUnsolicitedHelo, hsFin, hsRst, hsMalformed} {
			hcases = append(hcases, hcase{false, useTLS, hs, false})
		}
	}
	hcases = append(hcases, hcase{false, true, hsTLSSilent, false}, hcase{true, true, hsTLSSilent, false})
	for hi, h := range hcases {
		for mi, mode := range modes {
			if !thorough && mi != hi%3 && h.hs != hsNone && h.hs != hsOK {
				continue
			}
			h, mode := h, mode
			name := hsNames[h.hs]
			if h.refused {
				name = "refused"
			}
			blocking := h.refused || (h.hs != hsNone && h.hs != hsOK)
			add(fmt.Sprintf("ff/handshake/%s/secret=%v/tls=%v/%s", mode, h.secret, h.tls, name), true, blocking, name, func() (string, string) {
				return runFFHandshake(mode, h.secret, h.tls, h.hs, h.refused)
			})
		}
	}

	// ---- Fluentd: ACK scripts (full product of the answer menu, lengths 1..3)
	scripts := sequences(len(ffAnsNames), 3)
	for _, burst := range []bool{false, true} {
		shape := "interleaved"
		if burst {
			shape = "burst"
		}
		ctx.Group("ff/ack/" + shape)
		for si, sc := range scripts {
			steps := make([]ffStep, len(sc))
			blocking := len(sc) == 1
			for i, a := range sc {
				steps[i] = ffStep{ffAns(a), szSmall}
				if !ffAns(a).ends() {
					blocking = false
				}
			}
			for mi, mode := range modes {
				for hi, hs := range []hsKind{hsNone, hsOK} {
					for pi, ping := range []bool{false, true} {
						// quick: every script once per shape, mode / handshake / ping rotating with the script; thorough: full product
						if !thorough && (mi != si%3 || hi != (si/3)%2 || pi != (si/6)%2) {
							continue
						}
						steps, mode, hs, ping, burst := steps, mode, hs, ping, burst
						add(fmt.Sprintf("ff/ack/%s/%s/hs=%s/ping=%v/%s", shape, mode, hsNames[hs], ping, fmtSteps(steps)), true, blocking, fmtSteps(steps), func() (string, string) {
							return runFFAck(mode, hs, steps, burst, ping)
						})
					}
				}
			}
		}
	}

	// ---- Fluentd: send path, sizes
	ctx.Group("ff/send")
	sizeSeqs := sequences(3, 3)
	for _, mode := range modes {
		for _, ss := range sizeSeqs {
			if !thorough && len(ss) == 3 && !(ss[0] != ss[1] && ss[1] != ss[2] && ss[0] != ss[2]) {
				continue // quick: of the length-3 size sequences only the six permutations
			}
			sizes := make([]sizeClass, len(ss))
			for i, s := range ss {
				sizes[i] = sizeClass(s)
			}
			for _, last := range []ffAns{aOwn, aUnknown, aRst} {
				for _, slow := range []bool{false, true} {
					if slow && (last != aOwn || (!thorough && len(ss) > 1)) {
						continue
					}
					mode, sizes, last, slow := mode, sizes, last, slow
					add(fmt.Sprintf("ff/send/%s/%s/last=%s/slow-reader=%v", mode, sizeList(sizes), ffAnsNames[last], slow), true, false, sizeList(sizes), func() (string, string) {
						return runFFSend(mode, sizes, last, slow)
					})
				}
			}
		}
	}
	ctx.Group("ff/blocked-write")
	for _, mode := range modes {
		for _, byClose := range []bool{false, true} {
			mode, byClose := mode, byClose
			add(fmt.Sprintf("ff/blocked-write/%s/ended-by-close=%v", mode, byClose), true, true, "huge chunk, upstream does not read", func() (string, string) {
				k, m := runFFBlockedWrite(mode, byClose)
				ctx.Note(fmt.Sprintf("ff/blocked-write/%s/ended-by-close=%v", mode, byClose), blockedNote)
				return k, m
			})
		}
	}

	// ---- Datadog: answer scripts
	ctx.Group("dd/answers")
	full, reduced := ddMenu(), ddQuickMenu()
	ddCase := func(script []ddAns) {
		blocking := false
		for _, a := range script {
			if a.blocks() || a.kind == kCutStatus || a.kind == kCutBody {
				blocking = true
			}
		}
		sizes := make([]sizeClass, len(script))
		add("dd/answers/"+fmtDD(script), true, blocking && len(script) <= 2, fmtDD(script), func() (string, string) { return runDDDirect(script, sizes) })
	}
	pick := func(menu []ddAns, idx []int) []ddAns {
		s := make([]ddAns, len(idx))
		for i, k := range idx {
			s[i] = menu[k]
		}
		return s
	}
	for _, idx := range sequences(len(full), 2) {
		ddCase(pick(full, idx))
	}
	if thorough {
		for _, idx := range sequences(len(full), 3) {
			if len(idx) == 3 {
				ddCase(pick(full, idx))
			}
		}
	} else {
		for _, idx := range sequences(len(reduced), 3) {
			if len(idx) == 3 {
				ddCase(pick(reduced, idx))
			}
		}
	}
	ctx.Group("dd/sizes")
	for _, sz := range []sizeClass{szSmall, sz900K, sz1M, szHuge} {
		for _, a := range full {
			switch a.name {
			case "202", "429", "never-reads", "cut-in-status-line", "301-location":
				sz, a := sz, a
				add(fmt.Sprintf("dd/sizes/%s/%s", sizeNames[sz], a.name), true, a.blocks(), a.name, func() (string, string) {
					return runDDDirect([]ddAns{a}, []sizeClass{sz})
				})
			}
		}
	}

	// ---- the real client worker over the real connections
	ctx.Group("worker/ff-sizes")
	for _, mode := range modes {
		for _, ss := range sizeSeqs {
			if !thorough && len(ss) == 3 {
				continue
			}
			sizes := make([]sizeClass, len(ss))
			for i, s := range ss {
				sizes[i] = sizeClass(s)
			}
			mode, sizes := mode, sizes
			add(fmt.Sprintf("worker/ff-sizes/%s/%s", mode, sizeList(sizes)), true, false, sizeList(sizes), func() (string, string) {
				return runFFWorker(mode, nil, sizes, false)
			})
		}
	}
	ctx.Group("worker/ff")
	wmenu := []ffAns{aOwn, aStale, aUnknown, aEmptyID, aNoKey, aMalformed, aSilentDeadline, aRst, aFin, aSplit}
	wreduced := []ffAns{aOwn, aStale, aUnknown, aEmptyID, aSilentDeadline, aRst}
	var wscripts [][]ffAns
	for _, a := range wmenu {
		wscripts = append(wscripts, []ffAns{a})
	}
	m2 := wreduced
	if thorough {
		m2 = wmenu
	}
	for _, a := range m2 {
		for _, b := range m2 {
			wscripts = append(wscripts, []ffAns{a, b})
		}
	}
	if thorough {
		for _, a := range wreduced {
			for _, b := range wreduced {
				for _, c := range wreduced {
					wscripts = append(wscripts, []ffAns{a, b, c})
				}
			}
		}
	}
	for si, sc := range wscripts {
		for mi, mode := range modes {
			if !thorough && mi != si%3 {
				continue
			}
			for _, early := range []bool{false, true} {
				sc, mode, early := sc, mode, early
				sizes := make([]sizeClass, len(sc)+1)
				add(fmt.Sprintf("worker/ff/%s/%s/early-stop=%v", mode, fmtAns(sc), early), true, early, fmtAns(sc), func() (string, string) {
					return runFFWorker(mode, sc, sizes, early)
				})
			}
		}
	}
	ctx.Group("worker/dd")
	var dscripts [][]ddAns
	for _, a := range full {
		dscripts = append(dscripts, []ddAns{a})
	}
	d2 := reduced
	if thorough {
		d2 = full
	}
	for _, a := range d2 {
		for _, b := range d2 {
			dscripts = append(dscripts, []ddAns{a, b})
		}
	}
	for _, sc := range dscripts {
		for _, early := range []bool{false, true} {
			sc, early := sc, early
			sizes := make([]sizeClass, len(sc)+1)
			add(fmt.Sprintf("worker/dd/%s/early-stop=%v", fmtDD(sc), early), true, early, fmtDD(sc), func() (string, string) {
				return runDDWorker(sc, sizes, early)
			})
		}
	}
}

func main() {
	logger.SetLogLevel(logger.FatalLevel)
	defs.EnableTestMode()
	startTicker()
	flag.Parse()
	prop := *flagProp
	rule := "connection level on real loopback sockets; the real connection types are obtained from the outputs' exported NewClientWorker (opener read through an overlay accessor). " +
		"Fluentd: handshake menu {none, correct, wrong key, auth failure, silent, HELO then silent, garbage HELO / PONG, malformed, close / reset on accept, unsolicited HELO, refused, TLS, TLS silent}; " +
		"ACK scripts: full product of {own id, stale id, unknown id, empty id, no ack key, malformed, silent until deadline, silent until Close, reset, orderly close, own id split in two segments} for 1..3 chunks, " +
		"answers interleaved with the sends or in one burst, with and without pings, three message modes (quick: mode/handshake/ping rotate with the script, thorough: full product); " +
		"send path: chunk size sequences over {small, ~900 KiB, > 1 MiB} x modes x {prompt, slow reader}, a huge chunk against an upstream that does not read (ended by deadline / by Close). " +
		"Datadog: full product of 19 answers {200 202 204 301 400 403 404 408 413 429 500 502 503, 301 with Location, never answers, never reads, cut in status line, cut in body, 202 after 3 x httpTimeout} for 1..2 requests, " +
		"length 3 over the full menu (thorough) or over 8 representatives (quick); sizes x 5 answers. " +
		"Worker part: the real ClientWorker of both outputs against the same servers answering a script (lengths 1..2, thorough 3) and healthy afterwards, stop after delivery or as soon as the script is used up; healthy upstream x size sequences. " +
		"Oracle: SendChunk nil => the upstream holds a complete message that decodes (independent decoder) to the chunk's records and id; ReadChunkAck (id, nil) => the chunk it designates (\"\" = oldest pending) is the one whose id the upstream wrote; " +
		"Datadog: delivered => a POST with exactly this body was answered 2xx; 2xx / own-id ACK on a healthy connection => no error; every call returns (own-clock patience, no wall-clock verdict); worker: consumed => acknowledged as above, everything delivered while the upstream behaves, stop completes, every chunk resolved once; no panic. " +
		"Non-trivial: every case (each one runs the code under test against a live socket)."
	if prop == "C18" {
		rule = "subset of the C02 connection-level enumeration with an upstream that refuses, resets, closes, stays silent, never reads or never answers: every open / SendChunk / ReadChunkAck / Close call returns and the real client worker stops after a stop request issued while the upstream misbehaves. " + rule
	}
	seq.Main(&seq.Config{
		Property: prop,
		Level:    "exploration",
		Rule:     rule,
		Assumptions: []string{
			"real threads, sockets and kernel buffers: the product of scripts x modes x sizes x handshakes is enumerated, thread schedules are whatever the runtime produces",
			"TCP cannot tell a sender whether the peer application read the data: 'SendChunk returned nil' is judged only on connections whose upstream is alive and (eventually) reads",
			"after a reset by the upstream, answers written before the reset may be discarded by TCP: an error is accepted there",
			"an ACK that names a chunk which is not pending (stale, unknown) may be returned as that id or as an error; an ACK without id must not come back as (\"\", nil), because \"\" means 'the oldest pending chunk' to the client worker",
			"a time-out error on a 2xx step of a Datadog case that needs the short httpTimeout for another step is not judged (the case is repeated up to 5 times)",
			"documentation is silent on 3xx answers: a redirect that is followed counts as delivered only if the chunk was sent again to the target",
			"no wall-clock verdict: 'never returns' means not within 2000 ticks of the process's own 5 ms clock (>= 10 s, every configured time-out <= 500 ms); the 5-minute stalled-case watchdog remains behind it",
		},
		Enumerate:  enumerate,
		MaxProcs:   8,
		WorkerArgs: []string{"-prop", prop},
	})
}
