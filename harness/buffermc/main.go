// Command buffermc model-checks the real hybridbuffer (bufferer + outputFeeder goroutine + chunk manager/operator on a
// real scratch directory) against a driver playing the pipeline worker and a scripted consumer, over several
// generations of destroy + restart on the same directory. Serves C03, the buffer parts of C05 (order oracle only) and
// C19 (metrics:* oracles only).
package main

import (
	"bytes"
	"flag"
	"fmt"
	"os"
	"path/filepath"
	"sort"
	"strings"
	"time"

	"github.com/c2h5oh/datasize"
	"github.com/relex/gotils/logger"
	"github.com/relex/gotils/promexporter/promreg"
	"github.com/relex/slog-agent/base"
	"github.com/relex/slog-agent/buffer/hybridbuffer"
	"github.com/relex/slog-agent/defs"

	"slogverif/explore"
	"slogverif/hutil"
	"slogverif/rt/vsched"
)

type params struct {
	name        string
	memCap      int
	queueCap    int
	maxBuf      int64
	dirOK       bool
	gens        [][]int // chunk sizes accepted per generation
	consumerAlt int     // consumer behaviours offered per chunk: 1 confirm only, 2 +keep, 3 +stall, 4 +finish early, 5 +hang forever
	// a queue directory left by an earlier life of the agent: prefill chunk files (1 byte each, names in creation order) and
	// stale temporary files "<name>.tmp" of interrupted saves in front of the chunks at the given positions (0-based)
	prefill  int
	staleTmp []int
	maxSteps int
	// prefilled chunk files (0-based among the chunk files, stale temporaries not counted) that are zero-length: leftovers of
	// a full disk, of an agent version that wrote in place, of a truncation by an operator
	emptyAt []int
	// what the environment does to the file of a queued, still unloaded chunk while the agent runs: "vanish" (removed by a
	// clean-up job / a second agent) or "truncate" (cut to zero length). It hits the sabotageAt-th prefilled chunk file
	// (0-based), which must lie beyond what the feeder can load while the consumer does not read (memCap+1 chunks); the
	// consumer of generation 0 starts reading only after the event
	sabotage   string
	sabotageAt int
	// the consumer may need virtual time after the stop (InputClosed) before it hands its chunks back and finishes, as the
	// real forwarder does (up to ForwarderAckerStopTimeout)
	slowStop bool
	// scripted consumer behaviour per generation instead of an explorer choice (for default-schedule scenarios)
	genAct []int
	// "send all at end" mode of NewBufferer with a usable directory (test agents, recovery tools): Destroy first waits for the
	// consumer to confirm everything, and only what is still unconfirmed after the shutdown time-out is saved
	sendAll bool
	// state keys off (large files / large backlogs: the environment hash walks the directory at every choice point)
	noStateKeys bool
}

type entry struct {
	data      []byte
	gen       int
	confirmed int
	missing   bool
	handed    int
	envLost   bool // its file was removed by the environment (not by the buffer) while it was queued unloaded
}

type world struct {
	placedTmp map[string]bool
	p         params
	root      string
	qdir      string
	ledger    map[string]*entry
	ids       []string
	viol      []string
	violKey   string
	nextID    int
	outcome   []string
	hungSeen  bool
	// the environment's file event of a sabotage scenario has happened (the consumer of generation 0 waits for it)
	sabotageDone bool
}

func (w *world) violate(key, format string, args ...any) {
	// when serving C05 only the consumer-order oracle counts (acceptance order, recovered chunks first); the rest is C03
	if propFlag == "C05" && !strings.HasPrefix(key, "order") {
		return
	}
	// when serving C19 only the counter oracles count
	if propFlag == "C19" && !strings.HasPrefix(key, "metrics:") {
		return
	}
	msg := fmt.Sprintf(format, args...)
	w.viol = append(w.viol, msg)
	if w.violKey == "" {
		w.violKey = key
	}
	vsched.Note("VIOLATION %s: %s", key, msg)
}

var propFlag = "C03"

var logs = &hutil.LogCapture{}
var flagLogs = flag.Bool("logs", false, "echo agent logs")

func matchChunkID(id string) bool { return strings.HasSuffix(id, ".ch") }

func makeData(id string, size int) []byte {
	b := make([]byte, size)
	for i := range b {
		b[i] = id[(i+2)%len(id)] ^ byte(i*7)
		if b[i] == 0 {
			b[i] = 'x'
		}
	}
	return b
}

func (w *world) files() map[string][]byte {
	out := map[string][]byte{}
	ents, err := os.ReadDir(w.qdir)
	if err != nil {
		return out
	}
	for _, e := range ents {
		if e.Name() == ".id" || e.IsDir() || w.placedTmp[e.Name()] {
			continue
		}
		data, _ := os.ReadFile(filepath.Join(w.qdir, e.Name()))
		out[e.Name()] = data
	}
	return out
}

// sizes lists the chunk files of the queue directory with their sizes without reading them
func (w *world) sizes() map[string]int64 {
	out := map[string]int64{}
	ents, err := os.ReadDir(w.qdir)
	if err != nil {
		return out
	}
	for _, e := range ents {
		if e.Name() == ".id" || e.IsDir() || w.placedTmp[e.Name()] {
			continue
		}
		if fi, ierr := e.Info(); ierr == nil {
			out[e.Name()] = fi.Size()
		}
	}
	return out
}

func (w *world) diskBytes() int64 {
	var n int64
	for _, sz := range w.sizes() {
		n += sz
	}
	return n
}

// describeDiff says how two chunk contents differ without printing them (chunks may be megabytes)
func describeDiff(got, want []byte) string {
	n := len(got)
	if len(want) < n {
		n = len(want)
	}
	at := -1
	for i := 0; i < n; i++ {
		if got[i] != want[i] {
			at = i
			break
		}
	}
	show := func(b []byte) string {
		if len(b) > 16 {
			return fmt.Sprintf("%q...", b[:16])
		}
		return fmt.Sprintf("%q", b)
	}
	if at < 0 {
		return fmt.Sprintf("%d bytes %s instead of %d bytes %s (one is a prefix of the other)", len(got), show(got), len(want), show(want))
	}
	return fmt.Sprintf("%d bytes %s instead of %d bytes %s (first difference at offset %d)", len(got), show(got), len(want), show(want), at)
}

type consumer struct {
	w      *world
	args   base.ChunkConsumerArgs
	seen   []string
	held   []base.LogChunk
	done   bool
	hung   bool // the consumer never finishes (e.g. blocked on its upstream beyond every timeout)
	events []string
	gated  bool          // does not read before the environment's file event (sabotage scenarios, generation 0)
	act    int           // scripted behaviour (-1: explorer choice)
	slow   time.Duration // virtual time taken between the stop and the hand-backs
}

// stopLatencies are the delays a slow consumer may take between the stop signal and its hand-backs: none, just above the
// shortest wait Destroy knows (2 x IntermediateChannelTimeout, the wait of the send-all mode), and just below what the real
// forwarder is granted to stop (ForwarderAckerStopTimeout). Destroy of a queue with a directory waits
// BufferShutDownTimeout + IntermediateChannelTimeout, which covers all of them.
func stopLatencies() []time.Duration {
	return []time.Duration{0, defs.IntermediateChannelTimeout*2 + time.Second, defs.ForwarderAckerStopTimeout - time.Second}
}

func (c *consumer) run() {
	w := c.w
	if c.gated {
		vsched.WaitUntil("consumer.not-reading-yet", time.Time{}, func() bool { return w.sabotageDone })
	}
	early := false
loop:
	for {
		sel := vsched.Select("consumer.select", false, vsched.RecvCase(c.args.InputChannel), vsched.RecvCase(c.args.InputClosed.Channel()))
		if sel.Index == 1 {
			break
		}
		chunk, ok := vsched.SelRecv2(&sel, c.args.InputChannel)
		if !ok {
			break
		}
		c.seen = append(c.seen, chunk.ID)
		e := w.ledger[chunk.ID]
		switch {
		case e == nil:
			w.violate("unknown-chunk", "consumer was offered unknown chunk %s", chunk.ID)
		case !bytes.Equal(e.data, chunk.Data):
			w.violate("altered", "chunk %s reached the consumer with %s", chunk.ID, describeDiff(chunk.Data, e.data))
		case e.confirmed > 0:
			w.violate("offered-after-confirm", "chunk %s offered again after it was confirmed", chunk.ID)
		}
		act := 0
		if c.act >= 0 {
			act = c.act
		} else if w.p.consumerAlt > 1 {
			act = vsched.Choose(w.p.consumerAlt, "consumer")
		}
		switch act {
		case 0:
			vsched.Note("consumer confirms %s", chunk.ID)
			if e != nil {
				e.confirmed++
				if e.confirmed > 1 {
					w.violate("confirmed-twice", "chunk %s confirmed %d times", chunk.ID, e.confirmed)
				}
			}
			c.args.OnChunkConsumed(chunk)
			c.events = append(c.events, "confirm")
		case 1:
			vsched.Note("consumer keeps %s", chunk.ID)
			c.held = append(c.held, chunk)
		case 2:
			vsched.Note("consumer stalls holding %s", chunk.ID)
			c.held = append(c.held, chunk)
			vsched.Recv(c.args.InputClosed.Channel(), "consumer.stall")
			break loop
		case 3:
			vsched.Note("consumer finishes early holding %s", chunk.ID)
			c.held = append(c.held, chunk)
			early = true
			break loop
		case 4:
			vsched.Note("consumer hangs forever holding %s", chunk.ID)
			c.held = append(c.held, chunk)
			c.hung = true
			vsched.WaitUntil("consumer.hang", time.Time{}, func() bool { return false })
		}
	}
	if w.p.slowStop && !early {
		// stopped by the buffer: a consumer with an upstream (ACKs in flight, a connection to close) takes its time
		lat := stopLatencies()
		if k := vsched.Choose(len(lat), "consumer.stop-latency"); k > 0 {
			c.slow = lat[k]
			vsched.Note("consumer needs %v to stop", c.slow)
			vsched.Sleep(c.slow, "consumer.slow-stop")
		}
	}
	for _, chunk := range c.held {
		vsched.Note("consumer hands back %s", chunk.ID)
		if e := w.ledger[chunk.ID]; e != nil {
			e.handed++
		}
		c.args.OnChunkLeftover(chunk)
		c.events = append(c.events, "handback")
	}
	c.done = true
	c.args.OnFinished()
}

func makeRun(p params) explore.RunFunc {
	return func(choose func(*vsched.ChoicePoint) int, trace bool) (explore.Verdict, *vsched.Result) {
		var verdict explore.Verdict
		logs.Reset()
		logs.Echo = *flagLogs
		defs.BufferMaxNumChunksInMemory = p.memCap
		defs.BufferMaxNumChunksInQueue = p.queueCap
		if !p.dirOK {
			defs.BufferShutDownTimeout = 1 * time.Second
		} else {
			defs.BufferShutDownTimeout = defs.ForwarderBatchAckTimeout + defs.IntermediateChannelTimeout*2
		}
		w := &world{p: p, ledger: map[string]*entry{}}
		w.root = hutil.ScratchRoot("bufmc")
		defer os.RemoveAll(w.root)
		maxSteps := 50000
		if p.maxSteps > 0 {
			maxSteps = p.maxSteps
		}
		res := vsched.Run(vsched.Options{Choose: choose, Trace: trace, MaxSteps: maxSteps, StateKeys: p.prefill < 50 && !p.noStateKeys, EnvState: w.stateHash}, func() {
			verdict = drive(w)
		})
		switch res.Status {
		case "ok":
		case "crash":
			verdict = explore.Verdict{Violation: "panic: " + firstLine(res.Detail), Key: "panic", Outcome: "crash"}
		case "deadlock":
			verdict = explore.Verdict{Violation: "deadlock (a blocked Accept or a shutdown that cannot finish): " + strings.ReplaceAll(res.Detail, "\n", "; "), Key: "deadlock", Outcome: "deadlock"}
		default:
			verdict = explore.Verdict{Violation: res.Status + ": " + res.Detail, Key: "engine:" + res.Status, Outcome: res.Status}
		}
		return verdict, res
	}
}

func firstLine(s string) string {
	if i := strings.IndexByte(s, '\n'); i >= 0 {
		return s[:i]
	}
	return s
}

func (w *world) stateHash() uint64 {
	h := uint64(1469598103934665603)
	mix := func(s string) {
		for i := 0; i < len(s); i++ {
			h ^= uint64(s[i])
			h *= 1099511628211
		}
		h ^= 0xff
		h *= 1099511628211
	}
	for _, id := range w.ids {
		e := w.ledger[id]
		mix(fmt.Sprint(id, e.confirmed, e.missing, e.handed))
	}
	names := []string{}
	for n, sz := range w.sizes() {
		names = append(names, fmt.Sprint(n, sz))
	}
	sort.Strings(names)
	mix(strings.Join(names, ","))
	mix(fmt.Sprint(len(w.viol)))
	return h
}

// passed reports whether the consumer was offered a chunk younger than id in this generation: the queue is FIFO, so the
// feeder had taken id from the queue before
func passed(seen []string, id string) bool {
	for _, s := range seen {
		if s > id {
			return true
		}
	}
	return false
}

func drive(w *world) explore.Verdict {
	p := w.p
	rootPath := filepath.Join(w.root, "buf")
	if !p.dirOK {
		os.WriteFile(filepath.Join(w.root, "notadir"), []byte("x"), 0o644)
		rootPath = filepath.Join(w.root, "notadir", "buf")
	}
	cfg := hybridbuffer.Config{RootPath: rootPath, MaxBufSize: datasize.ByteSize(p.maxBuf)}
	maxChunk := 0
	totalChunks := p.prefill
	for _, g := range p.gens {
		totalChunks += len(g)
		for _, s := range g {
			if s > maxChunk {
				maxChunk = s
			}
		}
	}
	// a queue that has room for every chunk of the whole run never overflows: then every counted drop is a chunk the
	// harness itself misses (no file, no confirmation), and the drop counter can be checked from both sides
	exactDrops := p.queueCap >= totalChunks
	for g, sizes := range p.gens {
		mf := promreg.NewMetricFactory(fmt.Sprintf("g%d_", g), nil, nil)
		buf := cfg.NewBufferer(logger.Root(), "q1", matchChunkID, mf, p.sendAll)
		w.qdir = buf.(interface{ QueueDirPath() string }).QueueDirPath()
		sabotageID := ""
		if g == 0 && p.prefill > 0 {
			w.placedTmp = map[string]bool{}
			tmpAt := map[int]bool{}
			for _, k := range p.staleTmp {
				tmpAt[k] = true
			}
			emptyAt := map[int]bool{}
			for _, k := range p.emptyAt {
				emptyAt[k] = true
			}
			ci := 0 // index among the chunk files
			for i := 0; i < p.prefill+len(p.staleTmp); i++ {
				w.nextID++
				id := fmt.Sprintf("%04d.ch", w.nextID)
				if tmpAt[i] {
					// an interrupted save of a chunk that was still in memory while newer ones had already been spilled
					w.placedTmp[id+".tmp"] = true
					os.WriteFile(filepath.Join(w.qdir, id+".tmp"), []byte("p"), 0o644)
					continue
				}
				data := makeData(id, 1)
				if emptyAt[ci] {
					data = []byte{}
				}
				if p.sabotage != "" && ci == p.sabotageAt {
					sabotageID = id
				}
				ci++
				w.ledger[id] = &entry{data: data, gen: -1}
				w.ids = append(w.ids, id)
				os.WriteFile(filepath.Join(w.qdir, id), data, 0o644)
			}
		}
		// what this generation should recover
		onDiskBefore := w.files()
		buf.Start()
		args := buf.RegisterNewConsumer()
		cons := &consumer{w: w, args: args, act: -1, gated: sabotageID != ""}
		if g < len(p.genAct) {
			cons.act = p.genAct[g]
		}
		vsched.Go("consumer", cons.run)
		allQuiet := true
		quietCheck := func(quiet bool, where string) {
			if !quiet {
				allQuiet = false
				return
			}
			if p.dirOK {
				if n := w.diskBytes(); n > p.maxBuf {
					w.violate("disk-bound", "queue files take %d bytes %s, limit %d", n, where, p.maxBuf)
				}
			}
			if allQuiet {
				inLoaded, _, out := hybridbuffer.VerifQueueState(buf)
				lim := int64(p.memCap)
				if lim < 1 {
					lim = 1
				}
				if inLoaded+int64(out) > lim {
					w.violate("memory-bound", "%d loaded chunks queued + %d in the output channel %s with BufferMaxNumChunksInMemory=%d although every Accept was issued at quiescence", inLoaded, out, where, p.memCap)
				}
			}
		}
		if sabotageID != "" {
			// the environment's file event, by default once the feeder has loaded all it can hold while nobody reads
			vsched.Lazy("driver.file-event")
			e := w.ledger[sabotageID]
			path := filepath.Join(w.qdir, sabotageID)
			switch p.sabotage {
			case "vanish":
				vsched.Note("environment removes the file of queued chunk %s", sabotageID)
				os.Remove(path)
				e.envLost = true
			case "truncate":
				vsched.Note("environment truncates the file of queued chunk %s to zero length", sabotageID)
				os.Truncate(path, 0)
				e.data = []byte{}
			default:
				panic("unknown sabotage kind " + p.sabotage)
			}
			w.sabotageDone = true
		}
		for _, sz := range sizes {
			quiet := vsched.Lazy("driver.accept")
			quietCheck(quiet, "before an Accept")
			w.nextID++
			id := fmt.Sprintf("%04d.ch", w.nextID)
			data := makeData(id, sz)
			w.ledger[id] = &entry{data: data, gen: g}
			w.ids = append(w.ids, id)
			vsched.Note("accept %s size=%d", id, sz)
			ta := vsched.Elapsed()
			buf.Accept(base.LogChunk{ID: id, Data: append([]byte(nil), data...)})
			// virtual time only moves when every goroutine is blocked (A-time: internal steps take none): any time spent
			// inside Accept means the pipeline worker waited there on a timer or on somebody else
			if d := vsched.Elapsed() - ta; d != 0 {
				w.violate("accept-blocked", "Accept of chunk %s returned only after %v of virtual time: the caller was blocked (queue capacity %d, BufferMaxNumChunksInMemory=%d)", id, d, p.queueCap, p.memCap)
			}
		}
		quiet := vsched.Lazy("driver.destroy")
		quietCheck(quiet, "before Destroy")
		vsched.Note("destroy generation %d", g)
		t0 := vsched.Elapsed()
		buf.Destroy()
		took := vsched.Elapsed() - t0
		// ---- The moment Destroy returns is the moment the agent process goes on to exit (the orchestrator reports the
		// pipeline stopped right after Destroy; nothing in production waits on Stopped()). The directory, the counters and
		// the consumer's state are taken here, before any other goroutine runs again; whatever happens later does not count.
		files := w.files()
		m := hutil.Metrics(mf)
		consDone, consHung, consSlow := cons.done, cons.hung, cons.slow
		vsched.Note("Destroy returned after %v (consumer finished=%v hung=%v)", took, consDone, consHung)
		if consHung {
			// the chunk in the hands of a consumer that never returns it is outside the buffer's reach; if it was never
			// saved it dies with the process. Everything else must still be conserved when Destroy gives up waiting.
			for _, ch := range cons.held {
				if e := w.ledger[ch.ID]; e != nil && !ch.Saved {
					e.missing = true
				}
			}
		}
		// ---- end-of-generation accounting
		pre := fmt.Sprintf("g%d_", g)
		dropped := int(hutil.Sum(m, pre+"dropped_chunks_total"))
		consumedM := int(hutil.Sum(m, pre+"consumed_chunks_total"))
		leftoverM := int(hutil.Sum(m, pre+"leftover_chunks_total"))
		inputM := int(hutil.Sum(m, pre+"input_chunks_total"))
		pendingM := int(hutil.Sum(m, pre+"pending_chunks"))
		newlyMissing := 0
		lostInQueue := 0
		confirmedNow := 0
		recovered := 0
		for _, id := range w.ids {
			e := w.ledger[id]
			if _, was := onDiskBefore[id]; was && e.gen < g {
				recovered++
			}
			if e.missing {
				continue
			}
			f, onDisk := files[id]
			switch {
			case e.confirmed > 0:
				confirmedNow++
				if onDisk {
					w.violate("confirmed-file-remains", "chunk %s was confirmed but its file is still in the queue directory", id)
				}
			case onDisk:
				if !bytes.Equal(f, e.data) {
					w.violate("file-altered", "file of chunk %s holds %s", id, describeDiff(f, e.data))
				}
			case e.envLost && !passed(cons.seen, id):
				// its file was removed by the environment while it waited unloaded in the queue, and the feeder is not known to
				// have reached it in this generation: the buffer cannot have noticed; it may or may not have counted it
				e.missing = true
				lostInQueue++
			default:
				// gone: the buffer owes a counted drop (this includes a chunk whose file the environment removed or emptied
				// once the feeder has come across it)
				e.missing = true
				newlyMissing++
			}
		}
		for id := range files {
			if w.ledger[id] == nil {
				w.violate("foreign-file", "unexpected file %s in the queue directory", id)
			}
		}
		if newlyMissing > dropped {
			key := "silent-loss"
			// classify by the consumer's hand-back, the path the property names
			handedLost := 0
			for _, id := range w.ids {
				e := w.ledger[id]
				if e.missing && e.handed > 0 && e.confirmed == 0 {
					handedLost++
				}
			}
			if handedLost >= newlyMissing-dropped {
				key = "silent-loss:handback-not-saved"
			}
			w.violate(key, "generation %d: %d chunks are neither confirmed nor on disk when Destroy returns but dropped_chunks_total=%d (consumed=%d leftover=%d input=%d pending=%d; consumer finished=%v)",
				g, newlyMissing, dropped, consumedM, leftoverM, inputM, pendingM, consDone)
		}
		if exactDrops && dropped > newlyMissing+lostInQueue {
			w.violate("drop-overcount", "generation %d: dropped_chunks_total=%d, but only %d chunks are neither confirmed nor on disk (+%d removed by the environment) and the queue (capacity %d) cannot have overflowed: chunks were counted as dropped that are still there or were delivered",
				g, dropped, newlyMissing, lostInQueue, p.queueCap)
		}
		if propFlag == "C19" && !consHung {
			// dropped_chunks_total against the chunks that really went missing (the C03 ledger oracles under their C19 names)
			if newlyMissing > dropped {
				w.violate("metrics:buffer-dropped-vs-missing", "generation %d: %d chunks are neither confirmed nor on disk when Destroy returns, dropped_chunks_total=%d", g, newlyMissing, dropped)
			}
			if exactDrops && dropped > newlyMissing+lostInQueue {
				w.violate("metrics:buffer-dropped-vs-missing", "generation %d: dropped_chunks_total=%d, only %d chunks went missing (+%d removed by the environment) and the queue cannot have overflowed", g, dropped, newlyMissing, lostInQueue)
			}
			// the buffer's counters against what the harness itself observed in this generation
			confirmedByConsumer, handedBack := 0, 0
			for _, ev := range cons.events {
				switch ev {
				case "confirm":
					confirmedByConsumer++
				case "handback":
					handedBack++
				}
			}
			// at start the queue takes the chunk files found, up to its capacity; the rest stays on disk untouched
			recovered := len(onDiskBefore)
			if recovered > p.queueCap {
				recovered = p.queueCap
			}
			untouched := len(onDiskBefore) - recovered
			if accepted := len(sizes) + recovered; inputM != accepted {
				w.violate("metrics:buffer-input-vs-accepted", "generation %d: input_chunks_total=%d, but %d chunks were accepted (%d Accept calls + %d of %d files recovered at start, queue capacity %d)", g, inputM, accepted, len(sizes), recovered, len(onDiskBefore), p.queueCap)
			}
			if consumedM != confirmedByConsumer {
				w.violate("metrics:buffer-consumed-vs-confirmed", "generation %d: consumed_chunks_total=%d, the consumer confirmed %d chunks", g, consumedM, confirmedByConsumer)
			}
			if pendingM < 0 {
				w.violate("metrics:buffer-pending-negative", "generation %d: pending_chunks=%d", g, pendingM)
			}
			if inputM != consumedM+leftoverM+dropped+pendingM {
				w.violate("metrics:buffer-balance", "generation %d: input=%d != consumed=%d + leftover=%d + dropped=%d + pending=%d", g, inputM, consumedM, leftoverM, dropped, pendingM)
			}
			if leftoverM > handedBack {
				w.violate("metrics:buffer-leftover-vs-handed-back", "generation %d: leftover_chunks_total=%d, the consumer handed back %d chunks", g, leftoverM, handedBack)
			}
			if p.dirOK {
				// after shutdown: files = left for the next start (leftover + still pending) + untouched + at most the dropped
				// ones (a chunk dropped from a full queue after it was saved keeps its file); a still pending chunk whose file
				// the environment removed is not there
				left := leftoverM + pendingM + untouched
				if onDiskNow := len(files); onDiskNow < left-lostInQueue || onDiskNow > left+dropped {
					w.violate("metrics:buffer-left-on-disk", "generation %d: leftover=%d + pending=%d + %d never taken in = %d, dropped=%d, but %d chunk files are in the queue directory after shutdown (input=%d consumed=%d)", g, leftoverM, pendingM, untouched, left, dropped, onDiskNow, inputM, consumedM)
				}
			}
		}
		// order: acceptance order, recovered first in creation order == ascending IDs
		for i := 1; i < len(cons.seen); i++ {
			if cons.seen[i-1] >= cons.seen[i] {
				w.violate("order", "consumer saw %s before %s", cons.seen[i-1], cons.seen[i])
			}
		}
		// ... also against the chunk files this generation found at startup: a file is offered only after every older file
		// (no older file is skipped at recovery), and a chunk accepted in this generation only after ALL of them
		{
			var backlog []string
			for id := range onDiskBefore {
				if w.ledger[id] != nil {
					backlog = append(backlog, id)
				}
			}
			sort.Strings(backlog)
			seenAt := map[string]int{}
			for i, id := range cons.seen {
				if _, dup := seenAt[id]; !dup {
					seenAt[id] = i
				}
			}
			inBacklog := map[string]bool{}
			for _, id := range backlog {
				inBacklog[id] = true
			}
			for i, id := range cons.seen {
				for _, older := range backlog {
					if older >= id && inBacklog[id] {
						break
					}
					if at, ok := seenAt[older]; ok && at < i {
						continue
					}
					if e := w.ledger[older]; e.envLost || len(e.data) == 0 {
						continue // a damaged entry (empty file, removed or truncated by the environment) is never offered
					}
					if inBacklog[id] {
						w.violate("order:recovery-skips-older-file", "generation %d: the consumer was offered the recovered chunk %s while the older chunk file %s, found at the same startup, had not been offered", g, id, older)
					} else if len(backlog) > p.queueCap {
						// more chunk files than the queue takes in at startup: the rest waits for a later start while new chunks go out
						w.violate("order:new-chunk-before-backlog:over-full-directory", "generation %d: the consumer was offered chunk %s, accepted in this generation, while the older chunk file %s found at startup had not been offered (%d files found, queue capacity %d: the files beyond the capacity are left for a later start)", g, id, older, len(backlog), p.queueCap)
					} else {
						w.violate("order:new-chunk-before-backlog", "generation %d: the consumer was offered chunk %s, accepted in this generation, while the older chunk file %s found at startup had not been offered (%d files found, queue capacity %d)", g, id, older, len(backlog), p.queueCap)
					}
					break
				}
			}
		}
		if p.dirOK {
			if n := w.diskBytes(); n > p.maxBuf+int64(maxChunk) {
				w.violate("disk-bound-at-end", "queue files take %d bytes after shutdown, limit %d (+%d for a concurrent save)", n, p.maxBuf, maxChunk)
			}
		}
		// Destroy waits as long as it documents, not longer: BufferShutDownTimeout + IntermediateChannelTimeout with a
		// directory; without one (send-all mode) BufferShutDownTimeout for the pending chunks (polled every 50 ms) and then
		// 2 x IntermediateChannelTimeout
		bound := defs.BufferShutDownTimeout + defs.IntermediateChannelTimeout
		if !p.dirOK || p.sendAll {
			bound = defs.BufferShutDownTimeout + defs.IntermediateChannelTimeout*2 + 100*time.Millisecond
		}
		if took > bound {
			w.violate("stop-too-slow", "Destroy took %v of virtual time, bound %v", took, bound)
		}
		// ---- is the shutdown really over when Destroy says so? (Peek is a scheduling point: asked after the accounting.
		// No virtual time passes while the driver is runnable, so a consumer still sleeping stays asleep.)
		stopped := buf.Stopped().Peek()
		switch {
		case consHung:
			// Destroy had to give up
		case !stopped:
			w.violate("shutdown-gave-up", "Destroy returned after %v while the feeder was still waiting for the consumer (finished=%v), which needs %v after the stop signal to hand back its chunks; the forwarder is granted ForwarderAckerStopTimeout=%v, and Destroy documents a wait of %v",
				took, consDone, consSlow, defs.ForwarderAckerStopTimeout, bound)
		case !consDone:
			w.violate("stopped-before-consumer", "buffer reported stopped while the consumer had not finished")
		}
		if !consHung {
			// the next generation needs the old feeder gone
			vsched.Recv(buf.Stopped().Channel(), "driver.wait-stopped")
			if stopped {
				after := w.sizes()
				same := len(after) == len(files)
				for n, d := range files {
					if sz, ok := after[n]; !ok || sz != int64(len(d)) {
						same = false
					}
				}
				if !same {
					w.violate("files-change-after-shutdown-returned", "%d chunk files when Destroy returned, %d (or other sizes) once every goroutine had come to rest: chunks are still being saved or removed after the shutdown was reported complete", len(files), len(after))
				}
			}
		}
		w.outcome = append(w.outcome, fmt.Sprintf("g%d[seen=%d conf=%d disk=%d miss=%d drop=%d hung=%v]", g, len(cons.seen), confirmedNow, len(files), newlyMissing+lostInQueue, dropped, consHung))
		if consHung {
			w.hungSeen = true
			break // the old feeder still owns the directory: no further generation
		}
	}
	if line := logs.FirstBugLine(); line != "" && !(w.hungSeen && strings.Contains(line, "couldn't stop feeder in time")) {
		i := strings.Index(line, "BUG")
		key := "bug-log:" + hutil.KeyFrom(line[i:], 40)
		if len(line) > 300 {
			line = line[:300] + "..." // the stack that follows is the harness's own
		}
		w.violate(key, "agent logged: %s", line)
	}
	v := explore.Verdict{Outcome: strings.Join(w.outcome, " ")}
	if len(w.viol) > 0 {
		v.Violation = strings.Join(w.viol, " | ")
		v.Key = w.violKey
	}
	return v
}

func scenarios() []*explore.Scenario {
	var out []*explore.Scenario
	add := func(p params, quick, thorough int) {
		b := map[string]int{}
		if quick > -2 {
			b["quick"] = quick
		}
		if thorough > -2 {
			b["thorough"] = thorough
		}
		mo := 2
		if (!p.dirOK && p.memCap == 0) || p.prefill >= 50 || len(p.genAct) > 0 {
			mo = 1
		}
		if p.sabotage != "" && (p.sabotageAt < p.memCap+1 || p.sabotageAt >= p.prefill) {
			panic("scenario " + p.name + ": the file event must hit a chunk the feeder cannot have loaded yet")
		}
		out = append(out, &explore.Scenario{Name: p.name, Bound: b, Run: makeRun(p), MinOutcomes: mo})
	}
	for _, mem := range []int{0, 2, 4} {
		for _, maxBuf := range []int64{5, 10, 1000} {
			for _, q := range []int{50, 2} {
				if q == 2 && maxBuf == 10 {
					continue
				}
				p := params{memCap: mem, queueCap: q, maxBuf: maxBuf, dirOK: true, consumerAlt: 5, slowStop: true}
				p.gens = [][]int{{4, 1, 9}, {4}}
				p.name = fmt.Sprintf("dir/mem%d/q%d/max%d/g2", mem, q, maxBuf)
				add(p, 2, 3)
			}
		}
		// a tiny queue that overflows: five accepts against queue capacity 2 with consumers that may stall
		o := params{memCap: mem, queueCap: 2, maxBuf: 1000, dirOK: true, consumerAlt: 5, slowStop: true}
		o.gens = [][]int{{4, 1, 9, 1, 4}, {1}}
		o.name = fmt.Sprintf("dir/mem%d/q2/max1000/overflow", mem)
		add(o, 1, 2)
		// many small chunks against a tiny queue AND a small size limit: dropped-but-kept files must stay accounted
		q := params{memCap: mem, queueCap: 2, maxBuf: 10, dirOK: true, consumerAlt: 3, slowStop: true}
		q.gens = [][]int{{1, 1, 1, 1, 1, 1, 1, 1, 1, 1, 1, 1, 1, 1}, {1}}
		q.name = fmt.Sprintf("dir/mem%d/q2/max10/many-small", mem)
		add(q, 1, 2)
		// longer first generation, three generations
		p := params{memCap: mem, queueCap: 50, maxBuf: 10, dirOK: true, consumerAlt: 5, slowStop: true}
		p.gens = [][]int{{4, 4, 1, 4}, {1}, {}}
		p.name = fmt.Sprintf("dir/mem%d/q50/max10/g3", mem)
		add(p, 1, 2)
		// unusable directory
		u := params{memCap: mem, queueCap: 50, maxBuf: 1000, dirOK: false, consumerAlt: 5}
		u.gens = [][]int{{4, 1, 9}}
		u.name = fmt.Sprintf("nodir/mem%d", mem)
		add(u, 2, 3)
		// unusable directory, more chunks than the in-memory window and everything around it (consumer's hands, feeder's hand)
		// can hold: "only a fixed number of chunks stay in memory" must hold without a place to spill to (the code drops)
		l := params{memCap: mem, queueCap: 50, maxBuf: 1000, dirOK: false, consumerAlt: 3}
		l.gens = [][]int{{1, 1, 1, 1, 1, 1, 1, 1, 1}}
		l.name = fmt.Sprintf("nodir/mem%d/long", mem)
		add(l, 1, 2)
	}
	// "send all at end" mode with a usable directory: the consumer may stall or hang through the shutdown with the output channel
	// full and the feeder holding one more chunk; whatever is unconfirmed when the wait is over must still be saved
	for _, mem := range []int{2, 4} {
		sa := params{memCap: mem, queueCap: 50, maxBuf: 1000, dirOK: true, consumerAlt: 5, sendAll: true}
		sa.gens = [][]int{{1, 1, 1, 1, 1, 1, 1}, {1}}
		sa.name = fmt.Sprintf("sendall/mem%d", mem)
		add(sa, 1, 2)
	}
	// a queue directory found at startup: chunk files of an earlier life, with the stale temporary file of an interrupted save
	// in front of / between / behind them (the process was killed while saving an older in-memory chunk after newer ones
	// had been spilled); one more chunk arrives after the recovery
	for k := 0; k <= 5; k++ {
		r := params{memCap: 2, queueCap: 50, maxBuf: 1000, dirOK: true, consumerAlt: 2, prefill: 5, staleTmp: []int{k}}
		r.gens = [][]int{{1}, {}}
		r.name = fmt.Sprintf("recover/n5/tmp@%d", k)
		add(r, 1, 2)
	}
	r2 := params{memCap: 2, queueCap: 50, maxBuf: 1000, dirOK: true, consumerAlt: 2, prefill: 5, staleTmp: []int{1, 3}}
	r2.gens = [][]int{{1}, {}}
	r2.name = "recover/n5/tmp@1+3"
	add(r2, 1, 2)
	// zero-length chunk files found at startup (nothing to forward): removed, counted as dropped, and the chunks around them
	// are delivered in order
	for _, at := range [][]int{{0}, {2}, {4}, {1, 3}, {0, 1, 2, 3, 4}} {
		names := []string{}
		for _, k := range at {
			names = append(names, fmt.Sprint(k))
		}
		e := params{memCap: 2, queueCap: 50, maxBuf: 1000, dirOK: true, consumerAlt: 2, prefill: 5, emptyAt: at, slowStop: true}
		e.gens = [][]int{{1}, {}}
		e.name = "recover/n5/empty@" + strings.Join(names, "+")
		add(e, 1, 2)
	}
	// the file of a queued, not yet loaded chunk vanishes or is cut to zero length while the agent runs (the consumer starts
	// reading after the event): counted as dropped once the feeder comes across it, the others unaffected
	for _, f := range []struct {
		mem  int
		kind string
		at   int
	}{{0, "vanish", 1}, {0, "vanish", 4}, {2, "vanish", 3}, {2, "vanish", 4}, {0, "truncate", 2}, {2, "truncate", 4}} {
		v := params{memCap: f.mem, queueCap: 50, maxBuf: 1000, dirOK: true, consumerAlt: 3, prefill: 5, sabotage: f.kind, sabotageAt: f.at}
		v.gens = [][]int{{1}, {}}
		v.name = fmt.Sprintf("recover/n5/mem%d/%s@%d", f.mem, f.kind, f.at)
		add(v, 1, 2)
	}
	// more chunk files than the queue takes in at startup, together exactly at the size limit: the files left on disk still
	// count against the limit when the next chunk is spilled
	for _, mem := range []int{0, 2} {
		o := params{memCap: mem, queueCap: 2, maxBuf: 10, dirOK: true, consumerAlt: 3, prefill: 10}
		o.gens = [][]int{{1, 1}, {1}}
		o.name = fmt.Sprintf("recover/overfull/mem%d/q2/max10", mem)
		add(o, 1, 2)
	}
	// large backlogs (scale boundaries of the directory scan: more entries than any plausible read batch), default schedule
	for _, n := range []int{300, 1100, 2100, 4200} {
		b := params{memCap: 2, queueCap: n + 10, maxBuf: 1 << 20, dirOK: true, consumerAlt: 1, prefill: n, maxSteps: 400 * n}
		b.gens = [][]int{{1, 1, 1}}
		b.name = fmt.Sprintf("recover/backlog%d", n)
		add(b, 0, 0)
	}
	// chunks of real size (the forwarder's chunks reach about 7.5 MiB; page, 64 KiB and 4 MiB boundaries), default schedule:
	// spilled at Accept and loaded again by the feeder (mem 0) or kept in memory and saved as hand-backs at shutdown (mem 50);
	// the consumer keeps everything in generation 0, generation 1 recovers all of it from disk and confirms it
	bigSizes := []int{4095, 4096, 4097, 65537, 1 << 20, 4 << 20, 4<<20 + 1, 5 << 20, 15 << 19, 8 << 20}
	for _, mem := range []int{0, 50} {
		b := params{memCap: mem, queueCap: 50, maxBuf: 1 << 30, dirOK: true, consumerAlt: 1, genAct: []int{1, 0}, noStateKeys: true}
		b.gens = [][]int{bigSizes, {}}
		b.name = fmt.Sprintf("big/mem%d/keep-then-recover", mem)
		add(b, 0, 0)
	}
	return out
}

func main() {
	for i, a := range os.Args {
		if a == "-prop" && i+1 < len(os.Args) {
			propFlag = os.Args[i+1]
		}
	}
	flag.String("prop", "C03", "property id (C03, C05 for the order oracle only, C19 for the metrics:* oracles only)")
	logger.SetLogLevel(logger.InfoLevel)
	logger.SetOutput(logs)
	explore.Main(&explore.Config{
		Property:  propFlag,
		Level:     "model_checking",
		Scenarios: scenarios(),
		Rule: "stateless DFS over schedules of the real hybridbuffer (driver Accept/Destroy, feeder goroutine, scripted consumer, consumer-finished waiters) and consumer behaviours " +
			"(confirm / keep+hand back / stall / finish early / hang; after the stop the consumer takes 0, 2 x IntermediateChannelTimeout + 1 s or ForwarderAckerStopTimeout - 1 s of virtual time to hand back) " +
			"on a real scratch directory, across 1-3 generations of destroy+restart; parameter grid memory window x queue capacity x size limit x directory usable; " +
			"directories found at startup with stale temporaries, zero-length chunk files, more files than the queue takes, large backlogs; the file of a queued unloaded chunk removed or emptied while the agent runs; " +
			"chunks of 4 KiB - 8 MiB on the default schedule; nine Accepts without a usable directory; " +
			"every generation is judged on the directory, counters and consumer state at the moment Destroy returns; every Accept must return in zero virtual time; " +
			"distinct_nontrivial = distinct per-generation accounting outcomes (seen/confirmed/on-disk/missing/dropped)",
		Assumptions: []string{
			"A-time (internal steps take zero virtual time)",
			"driver operations (Accept, Destroy) are issued at quiescence by default and at any scheduling point at the cost of one deviation",
			"memory bound asserted only in executions where every Accept was issued at quiescence (the code documents that the spill decision reads a stale length)",
			"the drop counter is checked from both sides (dropped_chunks_total == chunks neither confirmed nor on disk) only in scenarios whose queue capacity covers every chunk of the run; with a queue that can overflow a counted drop may keep its file, there only missing <= dropped is asserted",
			"a consumer that is stopped hands back within ForwarderAckerStopTimeout (what the forwarder is granted); a consumer that never returns is outside the buffer's reach, its unsaved chunks are not demanded; slow consumers are explored with a usable directory only (without one the harness scales BufferShutDownTimeout to 1 s)",
			"file events of the environment are limited to a chunk that is queued and not loaded: removed (then owed as a counted drop from the moment the consumer is offered a younger chunk) or cut to zero length; promext gauges and counters are not scheduling points (check-then-act windows on the byte gauge are not explored)",
			"sequentially consistent interleavings at synchronisation operations; file system is a real tmpfs directory, single runner",
		},
	})
}
