package main

// Pairs of configurations. The loader is also what runs at SIGHUP (run.Reloader: load the file again, compare it with
// the running configuration, swap the pipelines while the inputs keep their allocator, schema and parsers), and an
// accepted configuration is also instantiated on whatever an earlier configuration left in the buffer directories
// (queue directories are named after the key values; start-up recovery builds pipelines from those names).
//
//	reload/<base>/<edit>/<dir>:  old running with real pipelines, records through it, file rewritten, reload through
//	                             the real Reloader, more records produced by the OLD parser/allocator, shutdown
//	restart/<base>/<edit>/<dir>: old started with the real forwarders (unreachable upstream => chunks stay on disk),
//	                             shut down; new started on the same buffer roots, records, shutdown
//
// <dir> fwd: old = base, new = base + edit; rev: the other way round.
// Oracle: every loader call returns a value; nothing panics (a panic on a pipeline goroutine ends the worker process
// and is attributed to the case by seq); a refused reload leaves the old pipelines working; the edits the sample
// configuration documents as reloadable (nothing changed, field appended, metricKeys changed) are not refused. For all
// other edits the reload may be accepted or refused.

import (
	"fmt"
	"os"
	"path/filepath"
	"strings"
	"time"

	"github.com/relex/gotils/logger"
	"github.com/relex/gotils/promexporter/promreg"
	"github.com/relex/slog-agent/base"
	"github.com/relex/slog-agent/run"

	"slogverif/seq"
)

type outSpec struct{ name, kind string }

type pairParts struct {
	fields       []string
	maxFields    int
	address      string
	levelMapping string
	extractLen   int
	orch         string
	metricKeys   []string
	transforms   string
	outputs      []outSpec
	raw          string // non-empty: the whole document
}

func (p pairParts) clone() pairParts {
	p.fields = append([]string{}, p.fields...)
	p.metricKeys = append([]string{}, p.metricKeys...)
	p.outputs = append([]outSpec{}, p.outputs...)
	return p
}

const rootMark = "@ROOT@"

func (p pairParts) render() string {
	if p.raw != "" {
		return p.raw
	}
	var b strings.Builder
	fmt.Fprintf(&b, "schema:\n  fields: [%s]\n  maxFields: %d\n", strings.Join(p.fields, ", "), p.maxFields)
	fmt.Fprintf(&b, "inputs:\n  - type: syslog\n    address: %s\n    levelMapping: %s\n    extractions:\n      - type: extractTail\n        key: app\n        pattern: /*\n        maxLen: %d\n        destKey: vhost\n",
		p.address, p.levelMapping, p.extractLen)
	fmt.Fprintf(&b, "orchestration:\n%s\nmetricKeys: [%s]\ntransformations:\n%s\noutputBufferPairs:\n", indent(p.orch, 2), strings.Join(p.metricKeys, ", "), indent(p.transforms, 2))
	for i, o := range p.outputs {
		fmt.Fprintf(&b, "  - name: %s\n    buffer:\n      type: hybridBuffer\n      rootPath: %s/q%d\n      maxBufSize: 1MB\n    output:\n", o.name, rootMark, i)
		switch o.kind {
		case "datadog":
			b.WriteString(indent("type: datadog\nserialization:\n  hiddenFields: [pid]\nupstream:\n  address: "+unreachableDatadog+"\n  httpTimeout: 30s\n", 6) + "\n")
		default:
			b.WriteString(indent("type: fluentdForward\nserialization:\n  environmentFields: [host, app]\n  hiddenFields: [pid, task]\n  rewriteFields:\n    log:\n      - type: inline\n        field: class\n      - type: unescape\n"+
				"messageMode: "+o.kind+"\nupstream:\n  address: "+unreachableFluentd+"\n  tls: false\n  secret: guess\n  maxDuration: 30m\n", 6) + "\n")
		}
	}
	return b.String()
}

func pairBases() []struct {
	name string
	p    pairParts
} {
	common := pairParts{
		fields:    []string{"facility", "level", "time", "host", "app", "pid", "source", "extradata", "log", "class", "task", "vhost", "spare"},
		maxFields: 16, address: "localhost:5140", levelMapping: "[off, fatal, crit, error, warn, notice, info, debug]", extractLen: 100,
		metricKeys: []string{"host"},
		transforms: "- type: delFields\n  keys: [extradata]\n- type: addFields\n  fields:\n    class: c-$task\n",
	}
	k1 := common.clone()
	k1.orch = "type: byKeySet\nkeys: [app]\ntag: development.$app"
	k1.outputs = []outSpec{{"main", "CompressedPackedForward"}}
	k2 := common.clone()
	k2.orch = "type: byKeySet\nkeys: [app, level]\ntag: development.$app.$level"
	k2.outputs = []outSpec{{"main", "PackedForward"}, {"second", "datadog"}}
	s1 := common.clone()
	s1.orch = "type: singleton\ntag: development.mini"
	s1.outputs = []outSpec{{"main", "datadog"}}
	return []struct {
		name string
		p    pairParts
	}{{"byKeySet-1key-fluentd", k1}, {"byKeySet-2keys-fluentd+datadog", k2}, {"singleton-datadog", s1}}
}

type pairEdit struct {
	name       string
	reloadable bool // documented as allowed for a reload (config_sample.yml, "Reload restrictions" and schema comments)
	apply      func(p pairParts) (pairParts, bool)
}

func swapFields(p *pairParts, a, b string) {
	for i, f := range p.fields {
		switch f {
		case a:
			p.fields[i] = b
		case b:
			p.fields[i] = a
		}
	}
}

func orchKeys(p pairParts) []string {
	for _, l := range strings.Split(p.orch, "\n") {
		if strings.HasPrefix(l, "keys: [") {
			return strings.Split(strings.TrimSuffix(strings.TrimPrefix(l, "keys: ["), "]"), ", ")
		}
	}
	return nil
}

func withKeys(p pairParts, keys []string) pairParts {
	tag := "development"
	for _, k := range keys {
		tag += ".$" + k
	}
	p.orch = "type: byKeySet\nkeys: [" + strings.Join(keys, ", ") + "]\ntag: " + tag
	return p
}

var pairEdits = []pairEdit{
	{"same", true, func(p pairParts) (pairParts, bool) { return p, true }},
	{"field-appended", true, func(p pairParts) (pairParts, bool) { p.fields = append(p.fields, "extra"); return p, true }},
	{"field-appended-and-used", false, func(p pairParts) (pairParts, bool) {
		p.fields = append(p.fields, "extra")
		p.transforms += "- type: addFields\n  fields:\n    extra: x-$app\n"
		return p, true
	}},
	{"metricKeys-extended", true, func(p pairParts) (pairParts, bool) { p.metricKeys = append(p.metricKeys, "source"); return p, true }},
	{"metricKeys-replaced", true, func(p pairParts) (pairParts, bool) { p.metricKeys = []string{"vhost"}; return p, true }},
	{"unused-field-removed", false, func(p pairParts) (pairParts, bool) { p.fields = p.fields[:len(p.fields)-1]; return p, true }},
	{"transform-fields-swapped", false, func(p pairParts) (pairParts, bool) { swapFields(&p, "class", "task"); return p, true }},
	{"parser-fields-swapped", false, func(p pairParts) (pairParts, bool) { swapFields(&p, "facility", "level"); return p, true }},
	{"extracted-field-moved", false, func(p pairParts) (pairParts, bool) { swapFields(&p, "vhost", "spare"); return p, true }},
	{"maxFields+1", false, func(p pairParts) (pairParts, bool) { p.maxFields++; return p, true }},
	{"maxFields-1", false, func(p pairParts) (pairParts, bool) { p.maxFields--; return p, true }},
	{"maxFields=fields", false, func(p pairParts) (pairParts, bool) { p.maxFields = len(p.fields); return p, true }},
	{"maxFields-raised-and-filled", false, func(p pairParts) (pairParts, bool) {
		// records allocated under the old configuration have the old number of slots
		for len(p.fields) <= p.maxFields {
			p.fields = append(p.fields, fmt.Sprintf("extra%d", len(p.fields)))
		}
		p.maxFields = len(p.fields)
		p.transforms += "- type: addFields\n  fields:\n    " + p.fields[len(p.fields)-1] + ": x-$app\n"
		return p, true
	}},
	{"output-appended-datadog", false, func(p pairParts) (pairParts, bool) { p.outputs = append(p.outputs, outSpec{"added", "datadog"}); return p, true }},
	{"output-appended-fluentd", false, func(p pairParts) (pairParts, bool) { p.outputs = append(p.outputs, outSpec{"added", "Forward"}); return p, true }},
	{"output-prepended", false, func(p pairParts) (pairParts, bool) {
		p.outputs = append([]outSpec{{"added", "Forward"}}, p.outputs...)
		return p, true
	}},
	{"first-output-removed", false, func(p pairParts) (pairParts, bool) { p.outputs = p.outputs[1:]; return p, true }},
	{"outputs-reversed", false, func(p pairParts) (pairParts, bool) {
		if len(p.outputs) < 2 {
			return p, false
		}
		p.outputs[0], p.outputs[1] = p.outputs[1], p.outputs[0]
		return p, true
	}},
	{"output-type-changed", false, func(p pairParts) (pairParts, bool) {
		if p.outputs[0].kind == "datadog" {
			p.outputs[0].kind = "Forward"
		} else {
			p.outputs[0].kind = "datadog"
		}
		return p, true
	}},
	{"output-renamed", false, func(p pairParts) (pairParts, bool) { p.outputs[0].name = "renamed"; return p, true }},
	{"orchestration-type-changed", false, func(p pairParts) (pairParts, bool) {
		if strings.HasPrefix(p.orch, "type: singleton") {
			return withKeys(p, []string{"app"}), true
		}
		p.orch = "type: singleton\ntag: development.mini"
		return p, true
	}},
	{"key-appended", false, func(p pairParts) (pairParts, bool) {
		keys := orchKeys(p)
		if keys == nil {
			return p, false
		}
		return withKeys(p, append(keys, "host")), true
	}},
	{"key-prepended", false, func(p pairParts) (pairParts, bool) {
		keys := orchKeys(p)
		if keys == nil {
			return p, false
		}
		return withKeys(p, append([]string{"host"}, keys...)), true
	}},
	{"last-key-removed", false, func(p pairParts) (pairParts, bool) {
		keys := orchKeys(p)
		if len(keys) < 2 {
			return p, false
		}
		return withKeys(p, keys[:len(keys)-1]), true
	}},
	{"keys-reversed", false, func(p pairParts) (pairParts, bool) {
		keys := orchKeys(p)
		if len(keys) < 2 {
			return p, false
		}
		return withKeys(p, []string{keys[1], keys[0]}), true
	}},
	{"keys-replaced", false, func(p pairParts) (pairParts, bool) {
		if orchKeys(p) == nil {
			return p, false
		}
		return withKeys(p, []string{"source"}), true
	}},
	{"tag-changed", false, func(p pairParts) (pairParts, bool) {
		p.orch = strings.Replace(p.orch, "tag: development", "tag: production", 1)
		return p, true
	}},
	{"extraction-changed", false, func(p pairParts) (pairParts, bool) { p.extractLen = 50; return p, true }},
	{"address-changed", false, func(p pairParts) (pairParts, bool) { p.address = "localhost:5141"; return p, true }},
	{"levelMapping-changed", false, func(p pairParts) (pairParts, bool) {
		p.levelMapping = "[emerg, alert, crit, err, warning, notice, info, debug]"
		return p, true
	}},
	{"transforms-replaced", false, func(p pairParts) (pairParts, bool) {
		p.transforms = "- type: drop\n  match:\n    level: debug\n  percentage: 50\n  metricLabel: dropped\n- type: redactEmail\n  key: log\n  metricLabel: redacted\n"
		return p, true
	}},
	{"not-a-configuration", false, func(p pairParts) (pairParts, bool) { return pairParts{raw: "schema: [1, 2\n"}, true }},
	{"no-outputs", false, func(p pairParts) (pairParts, bool) { p.outputs = nil; return p, true }},
}

// pairMenu: the small menu plus records whose key values are empty or contain the characters that queue directory
// names escape (',' and '%'), so that the directories left behind have names with every number of parts
func pairMenu() []string {
	return append(smallMenu(),
		`<14>1 2020-09-17T16:51:47.867Z h1 a,b 1 s - comma in the key value`,
		`<14>1 2020-09-17T16:51:47.867Z h1 % 1 s - percent sign as the key value`,
		`<14>1 2020-09-17T16:51:47.867Z h1 a%2Cb 1 s - escaped comma in the key value`,
		`<14>1 2020-09-17T16:51:47.867Z - - 1 s - empty key values`,
		`<14>1 2020-09-17T16:51:47.867Z , ,, 1 s - only commas`,
	)
}

func enumeratePairs(ctx *seq.Ctx) {
	for _, mode := range []string{"reload", "restart"} {
		for _, b := range pairBases() {
			ctx.Group(mode + "/" + b.name)
			for _, e := range pairEdits {
				edited, ok := e.apply(b.p.clone())
				if !ok {
					continue
				}
				for _, dir := range []string{"fwd", "rev"} {
					if e.name == "same" && dir == "rev" {
						continue
					}
					if ctx.Stop() {
						return
					}
					id := mode + "/" + b.name + "/" + e.name + "/" + dir
					if !(ctx.Mine() && (onlyCase == "" || onlyCase == id)) {
						ctx.Skip()
						continue
					}
					oldText, newText := b.p.render(), edited.render()
					if dir == "rev" {
						oldText, newText = newText, oldText
					}
					mode, e := mode, e
					caseLogged(ctx, id, true, "--- old\n"+oldText+"--- new\n"+newText, func() (string, string) {
						caseSerial++
						root := filepath.Join(scratch(), fmt.Sprintf("pair%d", caseSerial))
						defer os.RemoveAll(root)
						oldT, newT := strings.ReplaceAll(oldText, rootMark, root), strings.ReplaceAll(newText, rootMark, root)
						var key, msg, outcome string
						if mode == "reload" {
							outcome, key, msg = runReload(oldT, newT, root, e.reloadable)
						} else {
							outcome, key, msg = runRestart(oldT, newT, root)
						}
						bump(ctx, "outcome/"+mode+"/"+outcome)
						return key, msg
					})
				}
			}
		}
	}
}

// loadText gives a text to the guarded loader.
func loadText(text, path string) (conf run.Config, schema base.LogSchema, outcome, key, msg string) {
	if err := os.WriteFile(path, []byte(text), 0o644); err != nil {
		return conf, schema, outViolated, "harness:write-config", err.Error()
	}
	return load(path, "")
}

func runRestart(oldText, newText, root string) (outcome, key, msg string) {
	os.MkdirAll(root, 0o755)
	path := filepath.Join(root, "config.yml")
	buffers := filepath.Join(root, "buffers")
	for i, text := range []string{oldText, newText} {
		conf, schema, outcome, key, msg := loadText(text, path)
		if outcome == outViolated {
			return outcome, key, msg
		}
		if outcome == outRejected {
			if i == 0 {
				return "old-rejected", "", ""
			}
			return "new-rejected", "", ""
		}
		site, detail := catch(func() {
			key, msg = instantiateOrchestrated(conf, schema, buffers, false, true, pairMenu())
		})
		if site != "" {
			what := "the first configuration was accepted, then starting it with the real forwarders panicked"
			if i == 1 {
				what = "the second configuration was accepted by run.ParseConfigFile, then starting it on the buffer directories left behind by the first one panicked"
			}
			return outViolated, "accepted-panic:" + classify(site, detail, conf), what + "\n" + detail
		}
		if key != "" {
			return outViolated, key, msg
		}
	}
	return "restarted", "", ""
}

func runReload(oldText, newText, root string, reloadable bool) (outcome, key, msg string) {
	os.MkdirAll(root, 0o755)
	live := filepath.Join(root, "live.yml")
	// the loader's own answer to each text (stall guard, panic capture); the reload below loads them again
	_, _, oldOutcome, key, msg := loadText(oldText, filepath.Join(root, "probe.yml"))
	if oldOutcome == outViolated {
		return oldOutcome, key, msg
	}
	if oldOutcome == outRejected {
		return "old-rejected", "", ""
	}
	_, _, newOutcome, key, msg := loadText(newText, filepath.Join(root, "probe.yml"))
	if newOutcome == outViolated {
		return newOutcome, key, msg
	}
	if err := os.WriteFile(live, []byte(oldText), 0o644); err != nil {
		return outViolated, "harness:write-config", err.Error()
	}
	var reloadErr error
	var reloader *run.Reloader
	stage := "run.NewReloaderFromConfigFile"
	site, detail := catch(func() {
		var err error
		reloader, err = run.NewReloaderFromConfigFile(live, fmt.Sprintf("c16r%d_", caseSerial))
		if err != nil {
			key, msg = "harness:reloader-rejects-accepted-file", err.Error()
			return
		}
		stage = "Reloader.StartOrchestrator"
		orch := reloader.StartOrchestrator(logger.Root()).(*run.ReloadableOrchestrator)
		// the input side of the FIRST configuration stays in use across reloads: allocator, schema, parser
		allocator, schema := reloader.PipelineArgs.Deallocator, reloader.PipelineArgs.Schema
		inputCounter := base.NewLogInputCounter(promreg.NewMetricFactory("c16ri_", nil, nil))
		parser, perr := reloader.Inputs[0].Value.NewParser(logger.Root(), allocator, schema, inputCounter)
		if perr != nil {
			key, msg = "accepted-error:input.NewParser", perr.Error()
			orch.Shutdown()
			return
		}
		now := time.Unix(1600000000, 0)
		sink := orch.NewSink("127.0.0.1:1", 1)
		feed := func() {
			var batch []*base.LogRecord
			for _, line := range pairMenu() {
				if rec := parser.Parse([]byte(line), now); rec != nil {
					batch = append(batch, rec)
				}
			}
			sink.Accept(batch)
			sink.Tick()
		}
		stage = "processing before the reload"
		feed()
		if err := os.WriteFile(live, []byte(newText), 0o644); err != nil {
			key, msg = "harness:write-config", err.Error()
			orch.Shutdown()
			return
		}
		stage = "Reloader.initiateDownstreamReload (load + compatibility check)"
		_, reloadErr = initiateReload(reloader)
		stage = "ReloadableOrchestrator.reload (what SIGHUP runs)"
		reloadNow(orch)
		stage = "processing after the reload (records of the old parser and allocator)"
		feed()
		sink.Close()
		stage = "shutdown after the reload"
		orch.Shutdown()
	})
	if site != "" {
		return outViolated, "reload-panic:" + site, fmt.Sprintf("panic in %s (reload answered: %v)\n%s", stage, reloadErr, detail)
	}
	if key != "" {
		return outViolated, key, msg
	}
	if reloadErr == nil && newOutcome == outRejected {
		return outViolated, "reload-accepts-rejected-file", "run.ParseConfigFile rejects the new file, but the reload went through"
	}
	if reloadErr != nil {
		if reloadable && newOutcome == outAccepted {
			return outViolated, "reload-refused:documented-as-reloadable", fmt.Sprintf("the sample configuration documents this edit as allowed for a reload (nothing changed / new field appended / metric keys changed), but it was refused: %v", reloadErr)
		}
		return "reload-refused", "", ""
	}
	return "reloaded", "", ""
}
