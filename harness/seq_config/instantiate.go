package main

// Loading a configuration text through the real loader entry point and - if it is accepted - building everything the
// agent builds lazily from it (see run/loader.go, orchestrate/obase/pipelines.go, test/pipeline.go) and pushing the
// record menu through.

import (
	"errors"
	"fmt"
	"net"
	"os"
	"path/filepath"
	"regexp"
	"runtime/debug"
	"strconv"
	"strings"
	"sync"
	"syscall"
	"time"

	"github.com/relex/gotils/channels"
	"github.com/relex/gotils/logger"
	"github.com/relex/gotils/promexporter/promreg"
	"github.com/relex/slog-agent/base"
	"github.com/relex/slog-agent/base/bconfig"
	"github.com/relex/slog-agent/base/bsupport"
	"github.com/relex/slog-agent/buffer/hybridbuffer"
	"github.com/relex/slog-agent/defs"
	"github.com/relex/slog-agent/input/sysloginput"
	"github.com/relex/slog-agent/orchestrate/obykeyset"
	"github.com/relex/slog-agent/output/datadog"
	"github.com/relex/slog-agent/output/fluentdforward"
	"github.com/relex/slog-agent/run"

	"slogverif/hutil"
)

var (
	scratchOnce sync.Once
	scratchDir  string
	caseSerial  int
)

// scratch returns the per-process scratch root (tmpfs when available). Worker processes remove it at exit; a worker
// that dies leaves it behind, so the coordinator sweeps stale roots of dead processes at start (see sweepScratch).
func scratch() string {
	scratchOnce.Do(func() {
		scratchDir = hutil.ScratchRoot(fmt.Sprintf("c16-%d-", os.Getpid()))
	})
	return scratchDir
}

func removeScratch() {
	if scratchDir != "" {
		os.RemoveAll(scratchDir)
	}
}

// sweepScratch removes scratch roots left by worker processes that no longer exist.
func sweepScratch() {
	for _, base := range []string{"/dev/shm", os.TempDir()} {
		matches, _ := filepath.Glob(filepath.Join(base, "c16-*"))
		for _, m := range matches {
			var pid int
			if _, err := fmt.Sscanf(filepath.Base(m), "c16-%d-", &pid); err != nil || pid <= 0 {
				continue
			}
			if _, err := os.Stat(fmt.Sprintf("/proc/%d", pid)); err == nil {
				continue
			}
			os.RemoveAll(m)
		}
	}
}

// ---------------------------------------------------------------------------------------------------------------------

var skipFrames = []string{
	"base.(*LogSchema).MustCreateFieldLocator",
	"base.MustNewLogSchema",
}

// catch runs f; if it panics it returns the first slog-agent frame below the panic that is not a generic Must* helper,
// and a description.
func catch(f func()) (site, detail string) {
	defer func() {
		if r := recover(); r != nil {
			st := debug.Stack()
			site = agentFrame(st)
			detail = fmt.Sprintf("panic: %v\n%s", r, clipStack(st))
		}
	}()
	f()
	return "", ""
}

func agentFrame(stack []byte) string {
	lines := strings.Split(string(stack), "\n")
	seenPanic := false
	for _, l := range lines {
		if strings.HasPrefix(l, "panic(") {
			seenPanic = true
			continue
		}
		if !seenPanic || !strings.Contains(l, "github.com/relex/slog-agent/") || strings.HasPrefix(l, "\t") {
			continue
		}
		fn := l
		if j := strings.LastIndex(fn, "/"); j >= 0 {
			fn = fn[j+1:]
		}
		if j := strings.LastIndex(fn, "("); j > 0 {
			fn = fn[:j]
		}
		fn = strings.TrimSuffix(fn, "[...]")
		skip := false
		for _, s := range skipFrames {
			if strings.HasPrefix(fn, s) {
				skip = true
			}
		}
		if skip {
			continue
		}
		// closures: keep the enclosing function only
		if j := strings.Index(fn, ".func"); j > 0 {
			fn = fn[:j]
		}
		return fn
	}
	return "unknown"
}

func clipStack(b []byte) string {
	lines := strings.Split(string(b), "\n")
	out := []string{}
	for _, l := range lines {
		if strings.Contains(l, "runtime/debug") || strings.Contains(l, "slogverif/seq") {
			continue
		}
		out = append(out, l)
		if len(out) > 36 {
			break
		}
	}
	return strings.Join(out, "\n")
}

var siteAlias = map[string]string{
	// '*' without the far-side boundary: the nil table is indexed from whichever end the transform scans
	"textractspecial.matchValidCharsFromStart": "textractspecial.matchValidChars",
	"textractspecial.matchValidCharsFromEnd":   "textractspecial.matchValidChars",
}

func hasDuplicate(list []string) bool {
	seen := map[string]bool{}
	for _, s := range list {
		if seen[s] {
			return true
		}
		seen[s] = true
	}
	return false
}

// classify names the root-cause class of a panic after acceptance. The frame is the default; where one cause surfaces
// at several frames (metric registration happens wherever the first metric with the label set is created) the class
// is named after the cause.
func classify(site, detail string, conf run.Config) string {
	// a record within the input limits that the accepted transformations / rewriters have grown beyond the fixed
	// serializer buffer (judged by the harness' own measure of the record at the moment it was handed to the serializer)
	if strings.HasPrefix(site, "fluentdforward.") || strings.HasPrefix(site, "fastmsgpack.") || strings.HasPrefix(site, "rewrite") {
		if serializing && (strings.Contains(detail, "out of range") || strings.Contains(detail, "slice bounds")) {
			if lastRecordBytes > defs.InputLogMaxRecordBytes {
				return "serializer-buffer-overflow:record-grown-by-configuration"
			}
			// the record itself is within the limits: the field NAMES written with every record do not fit
			if n := len(strings.Join(conf.Schema.Fields, "")); n > 4096 {
				return "serializer-buffer-overflow:field-names"
			}
		}
	}
	// Prometheus label names are [a-zA-Z_][a-zA-Z0-9_]* (Prometheus data model); the agent derives them from field names
	if strings.Contains(detail, "is not a valid label name") || strings.Contains(detail, "invalid label name") {
		switch {
		case hasNonLabelName(conf.MetricKeys):
			return "invalid-metric-label-name:metricKeys"
		case conf.Orchestration.Value != nil && hasNonLabelName(orchestrationKeys(conf)):
			return "invalid-metric-label-name:orchestration.keys"
		}
		return "invalid-metric-label-name:other"
	}
	if strings.Contains(detail, "duplicate label names") {
		switch {
		case hasDuplicate(conf.MetricKeys):
			return "duplicate-metric-label:metricKeys"
		case conf.Orchestration.Value != nil && hasDuplicate(orchestrationKeys(conf)):
			return "duplicate-metric-label:orchestration.keys"
		}
		return "duplicate-metric-label:other"
	}
	if a, ok := siteAlias[site]; ok {
		return a
	}
	return site
}

var labelNameChars = regexp.MustCompile(`^[a-zA-Z0-9_]+$`)

func hasNonLabelName(list []string) bool {
	for _, s := range list {
		if !labelNameChars.MatchString(s) {
			return true
		}
	}
	return false
}

func orchestrationKeys(conf run.Config) []string {
	if c, ok := conf.Orchestration.Value.(*obykeyset.Config); ok {
		return c.Keys
	}
	return nil
}

// ---------------------------------------------------------------------------------------------------------------------

// outcome of one evaluation
const (
	outRejected = "rejected"
	outAccepted = "accepted"
	outViolated = "violation"
)

type evalOptions struct {
	orchestrate bool // also run the real orchestrator + bufferer (background goroutines)
	listen      bool // also construct and start the real input listener(s) on the configured host, ephemeral port
	twoTags     bool // build serializers / chunk makers for an empty tag too
	real        bool // phase C: the orchestrator once more with the REAL forwarders (unreachable upstream), then a restart on what it left on disk
	bigMenu     bool // the additional limit-size records (escape-heavy, over-limit) in phase A
}

// maxInstantiableFields: above this the harness does not try to allocate records (16 bytes per field and record)
const maxInstantiableFields = 1 << 20

// evaluate is the whole oracle: the loader returns; a rejection is an error value; an accepted configuration can be
// instantiated completely and processes the record menu without a panic.
// nilHolder is the harness' own diagnosis of the mutated tree (first section holder that is absent/null) and is only
// used to name the violation class.
func evaluate(text string, nilHolder string, opt evalOptions) (outcome, key, msg string) {
	caseSerial++
	if os.Getenv("C16_TRACE") != "" {
		t0 := time.Now()
		fmt.Fprintf(os.Stderr, "trace evaluate start\n")
		defer func() { fmt.Fprintf(os.Stderr, "trace evaluate end %v\n", time.Since(t0)) }()
	}
	dir := scratch()
	path := filepath.Join(dir, "config.yml")
	if err := os.WriteFile(path, []byte(text), 0o644); err != nil {
		return outViolated, "harness:write-config", err.Error()
	}

	conf, schema, outcome, key, msg := load(path, nilHolder)
	if outcome != outAccepted {
		return outcome, key, msg
	}

	// ---- accepted: phase A, everything that can be built and run on this goroutine
	site, detail := catch(func() {
		key, msg = instantiateInline(conf, schema, opt.twoTags, opt.bigMenu)
	})
	if site != "" {
		return outViolated, "accepted-panic:" + classify(site, detail, conf), "configuration was accepted by run.ParseConfigFile, then instantiation/processing panicked\n" + detail
	}
	if key != "" {
		return outViolated, key, msg
	}

	if os.Getenv("C16_TRACE") != "" {
		fmt.Fprintf(os.Stderr, "trace phase A done\n")
	}
	// ---- phase B: the real orchestrator with pipelines and bufferers on a scratch root (background goroutines; a
	// panic there kills the worker process and is attributed to this case by seq as "fatal:...")
	if opt.orchestrate {
		root := filepath.Join(dir, fmt.Sprintf("buf%d", caseSerial))
		site, detail = catch(func() {
			key, msg = instantiateOrchestrated(conf, schema, root, opt.listen, false, smallMenu())
		})
		os.RemoveAll(root)
		if site != "" {
			return outViolated, "accepted-panic:" + classify(site, detail, conf), "configuration was accepted by run.ParseConfigFile, then starting the orchestrator/pipelines panicked\n" + detail
		}
		if key != "" {
			return outViolated, key, msg
		}
	}
	// ---- phase C: the pipelines exactly as the agent assembles them (real forwarders on the pipeline's metric factory,
	// chunks persisted at shutdown because the upstream is unreachable), then the same configuration started again on
	// the queue directories left behind (instantiation from a non-virgin disk)
	if opt.real {
		root := filepath.Join(dir, fmt.Sprintf("real%d", caseSerial))
		for round := 0; round < 2 && site == "" && key == ""; round++ {
			site, detail = catch(func() {
				key, msg = instantiateOrchestrated(conf, schema, root, false, true, smallMenu())
			})
		}
		os.RemoveAll(root)
		if site != "" {
			return outViolated, "accepted-panic:" + classify(site, detail, conf), "configuration was accepted by run.ParseConfigFile, then starting the orchestrator with the real forwarders (or restarting it on the queue directories it left) panicked\n" + detail
		}
		if key != "" {
			return outViolated, key, msg
		}
	}
	return outAccepted, "", ""
}

// load gives the file to the real loader under the stall guard and judges its answer.
func load(path string, nilHolder string) (conf run.Config, schema base.LogSchema, outcome, key, msg string) {
	res, returned, stuckAt, waited := guardedLoad(path)
	if !returned {
		return conf, schema, outViolated, "loader-does-not-return:" + stuckAt, fmt.Sprintf("run.ParseConfigFile did not return (waited %s; a load takes a few milliseconds); "+
			"it was executing %s. A loader that never answers is neither an accepted configuration nor an error value", waited, stuckAt)
	}
	if res.site != "" {
		key = "load-panic:" + res.site
		if strings.Contains(res.detail, "nil pointer dereference") && nilHolder != "" {
			key += ":nil-" + nilHolder
		}
		return conf, schema, outViolated, key, "run.ParseConfigFile did not return, it panicked\n" + res.detail
	}
	if res.err != nil {
		if os.Getenv("C16_TRACE") != "" {
			fmt.Fprintf(os.Stderr, "trace rejected: %v\n", res.err)
		}
		return conf, schema, outRejected, "", ""
	}
	if n := res.schema.GetMaxFields(); n > maxInstantiableFields {
		return conf, schema, outViolated, "accepted-unbounded:schema.maxFields", fmt.Sprintf("schema/maxFields=%d was accepted: every log record allocates maxFields string headers (%d bytes per record); "+
			"the agent cannot hold a single record (out of memory, or 'makeslice: len out of range' in base.newLogRecord)", n, uint64(n)*16)
	}
	return res.conf, res.schema, outAccepted, "", ""
}

// parseOnly loads a text once more to obtain the error value for a message.
func parseOnly(text string) (run.Config, base.LogSchema, run.ConfigStats, error) {
	path := filepath.Join(scratch(), "config-again.yml")
	if err := os.WriteFile(path, []byte(text), 0o644); err != nil {
		return run.Config{}, base.LogSchema{}, run.ConfigStats{}, err
	}
	return run.ParseConfigFile(path)
}

// ---------------------------------------------------------------------------------------------------------------------

type nopConsumer struct {
	args    base.ChunkConsumerArgs
	stopped *channels.SignalAwaitable
}

func (c *nopConsumer) Start() { go c.run() }

func (c *nopConsumer) Stopped() channels.Awaitable { return c.stopped }

func (c *nopConsumer) run() {
	defer c.args.OnFinished()
	defer c.stopped.Signal()
	sig := c.args.InputClosed.Channel()
	for {
		select {
		case chunk, ok := <-c.args.InputChannel:
			if !ok {
				return
			}
			c.args.OnChunkConsumed(chunk)
		case <-sig:
			return
		}
	}
}

func newNopConsumer(_ logger.Logger, _ string, _ base.ChunkDecoder, args base.ChunkConsumerArgs) base.ChunkConsumer {
	return &nopConsumer{args: args, stopped: channels.NewSignalAwaitable()}
}

// ---------------------------------------------------------------------------------------------------------------------

var testTags = []string{"development.test", ""}

// smallMenu: the records used for the second round of phase A and for phase B (few key sets => few pipelines)
func smallMenu() []string {
	return append(append([]string{}, recordMenu[:2]...), syntheticRecords[:6]...)
}

// the harness' own measure of the record that is being serialized (used only to name a violation class)
var (
	serializing           bool
	lastRecordBytes       int
	grownRecordSerialized bool // a record larger than defs.InputLogMaxRecordBytes was handed to a serializer in this phase A
	grownRecordBytes      int
)

func fieldBytes(record *base.LogRecord) int {
	n := 0
	for _, f := range record.Fields {
		n += len(f)
	}
	return n
}

// instantiateInline mirrors test/pipeline.go: parser(s) with extractions, transforms, serializers, chunk makers,
// forwarder objects (constructed, never started), then the record menu.
func instantiateInline(conf run.Config, schema base.LogSchema, twoTags bool, bigMenu bool) (key, msg string) {
	mf := promreg.NewMetricFactory("c16a_", nil, nil)
	nOutputs := len(conf.OutputBuffersPairs)
	grownRecordSerialized = false
	// reference counting exactly as run.Loader / LogProcessingWorker.onInput do it: one reference per output, one
	// Release on DROP, one Release after each output
	allocator := base.NewLogAllocator(schema, nOutputs)
	inputCounter := base.NewLogInputCounter(mf.AddOrGetPrefix("input_", nil, nil))

	var parsers []base.LogParser
	for i, in := range conf.Inputs {
		p, err := in.Value.NewParser(logger.Root(), allocator, schema, inputCounter)
		if err != nil {
			return "accepted-error:input.NewParser", fmt.Sprintf("accepted configuration, but inputs[%d].NewParser failed: %v", i, err)
		}
		parsers = append(parsers, p)
	}

	outputNames := make([]string, nOutputs)
	for i, pair := range conf.OutputBuffersPairs {
		outputNames[i] = pair.Name
	}
	procCounter := base.NewLogProcessCounter(mf.AddOrGetPrefix("process_", nil, nil), schema,
		schema.MustCreateFieldLocators(conf.MetricKeys), outputNames)
	transforms := bsupport.NewTransformsFromConfig(conf.Transformations, schema, logger.Root(), procCounter)

	type outputSet struct {
		serializer base.LogSerializer
		chunkMaker base.LogChunkMaker
		decoder    base.ChunkDecoder
	}
	var outputs []outputSet
	tags := testTags
	if !twoTags {
		tags = tags[:1]
	}
	for _, tag := range tags {
		for _, pair := range conf.OutputBuffersPairs {
			outputs = append(outputs, outputSet{
				serializer: pair.OutputConfig.Value.NewSerializer(logger.Root(), schema, tag),
				chunkMaker: pair.OutputConfig.Value.NewChunkMaker(logger.Root(), tag),
				decoder:    pair.OutputConfig.Value,
			})
		}
	}
	// the forwarder objects of two pipelines, never started: ALL outputs of a pipeline on the pipeline's one metric
	// creator, told apart by the "output" label only (what a pipeline of the agent does; two outputs that register the
	// same metric family with different label sets collide there)
	fmf := promreg.NewMetricFactory("c16f_", nil, nil)
	for pipeline := 0; pipeline < 2; pipeline++ {
		pmc := fmf.AddOrGetPrefix("process_", []string{"orchestrator", "pipeline"}, []string{"inline", strconv.Itoa(pipeline)})
		for _, pair := range conf.OutputBuffersPairs {
			closed := channels.NewSignalAwaitable()
			args := base.ChunkConsumerArgs{
				InputChannel:    make(chan base.LogChunk),
				InputClosed:     closed,
				OnChunkConsumed: func(base.LogChunk) {},
				OnChunkLeftover: func(base.LogChunk) {},
				OnFinished:      func() {},
			}
			fw := pair.OutputConfig.Value.NewForwarder(logger.Root(), args, pmc.AddOrGetPrefix("output_", []string{"output"}, []string{pair.Name}))
			if fw == nil {
				return "accepted-error:output.NewForwarder", "NewForwarder returned nil"
			}
			closed.Signal()
		}
	}

	process := func(record *base.LogRecord) {
		icounter := procCounter.SelectMetricKeySet(record)
		if bsupport.RunTransforms(record, transforms) == base.DROP {
			icounter.CountRecordDrop(record)
			allocator.Release(record)
			return
		}
		icounter.CountRecordPass(record)
		for i := len(outputs) - 1; i >= 0; i-- { // the outputs of the first tag last: they release the record
			out := outputs[i]
			lastRecordBytes, serializing = fieldBytes(record), true
			if lastRecordBytes > defs.InputLogMaxRecordBytes && !grownRecordSerialized {
				grownRecordSerialized, grownRecordBytes = true, lastRecordBytes
			}
			stream := out.serializer.SerializeRecord(record)
			serializing = false
			if i < nOutputs {
				allocator.Release(record)
			}
			procCounter.CountStream(i%nOutputs, stream)
			out.chunkMaker.WriteStream(stream)
		}
	}

	now := time.Unix(1600000000, 0)
	for round := 0; round < 2; round++ { // twice: sampling transforms and caches behave differently on later records
		menu := recordMenu
		if round > 0 {
			menu = smallMenu()
		} else if bigMenu {
			menu = append(append([]string{}, recordMenu...), bigRecords[1:]...)
		}
		for _, p := range parsers {
			for _, line := range menu {
				if rec := p.Parse([]byte(line), now); rec != nil {
					process(rec)
				}
			}
		}
		// records that did not come through a parser: every field empty / every field set
		for _, fill := range []string{"", "x", "2020-09-17T16:51:47.867Z", "a@b.cd [x] - y:1/2 \\n", "abc abc"} {
			rec, _ := allocator.NewRecord([]byte("0123456789"))
			rec.RawLength = 10
			rec.Timestamp = now
			for i := range schema.GetFieldNames() {
				rec.Fields[i] = strings.Clone(fill)
			}
			process(rec)
		}
	}
	for _, out := range outputs {
		if chunk := out.chunkMaker.FlushBuffer(); chunk != nil {
			if _, err := out.decoder.DecodeChunkToJSON(*chunk, []byte(",\n"), false, discard{}); err != nil {
				if grownRecordSerialized {
					// the same cause as accepted-panic:serializer-buffer-overflow:*: the value that does not fit is cut silently
					// when it is the last one written; the record is lost and leaves an empty entry in the chunk
					return "accepted-error:chunk-undecodable:record-grown-by-configuration", fmt.Sprintf("a record within the input limits was grown by the accepted transformations beyond the serializer buffer (%d bytes of field values, buffer %d); "+
						"the chunk that contains it cannot be decoded: %v", grownRecordBytes, 2*defs.InputLogMaxRecordBytes, err)
				}
				return "accepted-error:chunk-undecodable", fmt.Sprintf("the chunk built from the record menu cannot be decoded: %v", err)
			}
		}
	}
	inputCounter.UpdateMetrics()
	procCounter.UpdateMetrics()
	return "", ""
}

type discard struct{}

func (discard) Write(p []byte) (int, error) { return len(p), nil }

var unsafePath = regexp.MustCompile(`[^A-Za-z0-9_./-]`)

// unreachable: a loopback port nothing listens on (tcpmux, privileged): connections are refused at once
const (
	unreachableFluentd = "127.0.0.1:1"
	unreachableDatadog = "http://127.0.0.1:1/api/v2/logs"
)

// relocate moves the buffer roots below root and (real forwarders) points every upstream at the unreachable port:
// file-system layout and network reachability are not properties of the file. The returned function restores the values.
func relocate(conf run.Config, root string, upstreams bool) (restore func()) {
	var undo []func()
	for _, pair := range conf.OutputBuffersPairs {
		if hb, ok := pair.BufferConfig.Value.(*hybridbuffer.Config); ok {
			orig := hb.RootPath
			sub := unsafePath.ReplaceAllString(hb.RootPath, "_")
			sub = strings.ReplaceAll(sub, "..", "__")
			if len(sub) > 100 {
				sub = sub[:100]
			}
			hb.RootPath = filepath.Join(root, sub)
			undo = append(undo, func() { hb.RootPath = orig })
		}
		if !upstreams {
			continue
		}
		switch oc := pair.OutputConfig.Value.(type) {
		case *fluentdforward.Config:
			orig := oc.Upstream.Address
			oc.Upstream.Address = unreachableFluentd
			undo = append(undo, func() { oc.Upstream.Address = orig })
		case *datadog.Config:
			orig := oc.Upstream.Address
			oc.Upstream.Address = unreachableDatadog
			undo = append(undo, func() { oc.Upstream.Address = orig })
		}
	}
	return func() {
		for _, f := range undo {
			f()
		}
	}
}

// instantiateOrchestrated starts the configured orchestrator the way run.Loader does, buffer roots moved below a scratch
// directory, feeds the record menu through a sink and shuts everything down.
// real=false: a consumer override acknowledges every chunk (no network), everything is sent at the end.
// real=true: no override - obase.PrepareSequentialPipeline constructs and starts the configured forwarders on the
// pipeline's metric creator; the upstream is unreachable, so the chunks are persisted at shutdown and stay in root.
func instantiateOrchestrated(conf run.Config, schema base.LogSchema, root string, listen bool, real bool, menu []string) (key, msg string) {
	defer relocate(conf, root, real)()
	t0 := time.Now()
	trace := func(what string) {
		if os.Getenv("C16_TRACE") != "" {
			fmt.Fprintf(os.Stderr, "trace %-20s %v\n", what, time.Since(t0))
		}
	}
	allocator := base.NewLogAllocator(schema, len(conf.OutputBuffersPairs))
	args := bconfig.PipelineArgs{
		Schema:              schema,
		Deallocator:         allocator,
		MetricKeyLocators:   schema.MustCreateFieldLocators(conf.MetricKeys),
		TransformConfigs:    conf.Transformations,
		OutputBufferPairs:   conf.OutputBuffersPairs,
		NewConsumerOverride: newNopConsumer,
		SendAllAtEnd:        true,
	}
	if real {
		args.NewConsumerOverride, args.SendAllAtEnd = nil, false
	}
	mf := promreg.NewMetricFactory("c16b_", nil, nil)
	orch := conf.Orchestration.Value.StartOrchestrator(logger.Root(), args, mf)
	trace("started")

	inputCounter := base.NewLogInputCounter(mf.AddOrGetPrefix("input_", nil, nil))
	now := time.Unix(1600000000, 0)
	sink := orch.NewSink("127.0.0.1:1", 1)
	for _, in := range conf.Inputs {
		p, err := in.Value.NewParser(logger.Root(), allocator, schema, inputCounter)
		if err != nil {
			continue // reported by phase A
		}
		batch := make([]*base.LogRecord, 0, len(recordMenu))
		for _, line := range menu {
			if rec := p.Parse([]byte(line), now); rec != nil {
				batch = append(batch, rec)
			}
		}
		sink.Accept(batch)
		sink.Tick()
	}
	sink.Close()
	trace("fed")

	if listen {
		key, msg = launchInputs(conf, schema, allocator, orch)
	}
	trace("inputs stopped")
	orch.Shutdown()
	trace("shutdown")
	return key, msg
}

// launchInputs constructs and starts every configured input the way run.Loader.LaunchInputs does (which ends the process
// on the first error). The configured HOST is kept. Whether a particular port is free is not a property of the file,
// so a well-formed port number is replaced by 0 (assigned by the OS) - but an input whose configured address equals
// that of an earlier input is given the very port the earlier one was assigned: two inputs on one address can never
// both be constructed. Anything else (no port, port out of range, junk) reaches net.Listen unchanged.
func launchInputs(conf run.Config, schema base.LogSchema, allocator *base.LogAllocator, orch base.Orchestrator) (key, msg string) {
	stop := channels.NewSignalAwaitable()
	var stopped []channels.Awaitable
	imf := promreg.NewMetricFactory("c16i_", nil, nil)
	bound := map[string]string{} // configured address -> address bound for it
	for i, in := range conf.Inputs {
		sc, isSyslog := in.Value.(*sysloginput.Config)
		orig, duplicate := "", false
		if isSyslog {
			orig = sc.Address
			sc.Address, duplicate = listenAddress(orig, bound)
		}
		input, err := in.Value.NewInput(logger.Root(), allocator, schema, orch, imf, stop)
		if isSyslog {
			sc.Address = orig
		}
		if err != nil {
			if k := classifyListenError(orig, duplicate, err); k != "" {
				key, msg = k, fmt.Sprintf("accepted configuration, but inputs[%d] (address %q) cannot be constructed: %v; run.Loader.LaunchInputs ends the process with a fatal log line at this point, "+
					"after the orchestrator has been started", i, orig, err)
				break
			}
			continue // the environment (name resolution, address family), not the file
		}
		if isSyslog {
			if _, ok := bound[orig]; !ok {
				if host, _, herr := net.SplitHostPort(orig); herr == nil {
					if _, port, perr := net.SplitHostPort(input.Address()); perr == nil {
						bound[orig] = net.JoinHostPort(host, port)
					}
				}
			}
		}
		input.Start()
		stopped = append(stopped, input.Stopped())
	}
	stop.Signal()
	// patience in ticks of the process's own clock, not in wall time (the machine may be heavily loaded)
	startTicker()
	all, since := channels.AllAwaitables(stopped...), ticks.Load()
	for !all.Wait(25 * time.Millisecond) {
		if ticks.Load()-since > 4*patienceTicks {
			key, msg = "accepted-error:input-stop-timeout", fmt.Sprintf("inputs did not stop within %d ticks of the process's own 5 ms clock", 4*patienceTicks)
			break
		}
	}
	return key, msg
}

func numericPort(port string) (int, bool) {
	if port == "" {
		return 0, true
	}
	n, err := strconv.Atoi(port)
	if err != nil || (port[0] < '0' || port[0] > '9') && port[0] != '-' {
		return 0, false
	}
	return n, true
}

func listenAddress(orig string, bound map[string]string) (use string, duplicate bool) {
	host, port, err := net.SplitHostPort(orig)
	if err != nil {
		return orig, false
	}
	n, numeric := numericPort(port)
	if !numeric || n < 0 || n > 65535 {
		return orig, false
	}
	if n == 0 {
		return orig, false // every such input gets its own port
	}
	if b, ok := bound[orig]; ok {
		return b, true
	}
	return net.JoinHostPort(host, "0"), false
}

// classifyListenError names the class of an input that cannot be constructed; "" = caused by the environment.
func classifyListenError(orig string, duplicate bool, err error) string {
	var dnsErr *net.DNSError
	if errors.As(err, &dnsErr) || errors.Is(err, syscall.EADDRNOTAVAIL) || errors.Is(err, syscall.EAFNOSUPPORT) {
		return ""
	}
	if duplicate && errors.Is(err, syscall.EADDRINUSE) {
		return "accepted-unusable:inputs.same-address"
	}
	_, port, serr := net.SplitHostPort(orig)
	if serr != nil {
		return "accepted-unusable:input.address-format"
	}
	if n, numeric := numericPort(port); numeric && (n < 0 || n > 65535) {
		return "accepted-unusable:input.address-port-range"
	}
	return "accepted-unusable:input.address"
}
