package main

// Loading a configuration text through the real loader entry point and - if it is accepted - building everything the
// agent builds lazily from it (see run/loader.go, orchestrate/obase/pipelines.go, test/pipeline.go) and pushing the
// record menu through.

import (
	"fmt"
	"os"
	"path/filepath"
	"regexp"
	"runtime/debug"
	"strings"
	"sync"
	"time"

	"github.com/relex/gotils/channels"
	"github.com/relex/gotils/logger"
	"github.com/relex/gotils/promexporter/promreg"
	"github.com/relex/slog-agent/base"
	"github.com/relex/slog-agent/base/bconfig"
	"github.com/relex/slog-agent/base/bsupport"
	"github.com/relex/slog-agent/buffer/hybridbuffer"
	"github.com/relex/slog-agent/input/sysloginput"
	"github.com/relex/slog-agent/orchestrate/obykeyset"
	"github.com/relex/slog-agent/run"

	"slogverif/hutil"
)

var (
	scratchOnce sync.Once
	scratchDir  string
	caseSerial  int
)

// scratch returns the per-process scratch root (tmpfs when available). Worker processes remove it at exit; a worker
// that dies leaves it behind, so the coordinator sweeps stale roots of dead processes at start (see sweepScratch).
func scratch() string {
	scratchOnce.Do(func() {
		scratchDir = hutil.ScratchRoot(fmt.Sprintf("c16-%d-", os.Getpid()))
	})
	return scratchDir
}

func removeScratch() {
	if scratchDir != "" {
		os.RemoveAll(scratchDir)
	}
}

// sweepScratch removes scratch roots left by worker processes that no longer exist.
func sweepScratch() {
	for _, base := range []string{"/dev/shm", os.TempDir()} {
		matches, _ := filepath.Glob(filepath.Join(base, "c16-*"))
		for _, m := range matches {
			var pid int
			if _, err := fmt.Sscanf(filepath.Base(m), "c16-%d-", &pid); err != nil || pid <= 0 {
				continue
			}
			if _, err := os.Stat(fmt.Sprintf("/proc/%d", pid)); err == nil {
				continue
			}
			os.RemoveAll(m)
		}
	}
}

// ---------------------------------------------------------------------------------------------------------------------

var skipFrames = []string{
	"base.(*LogSchema).MustCreateFieldLocator",
	"base.MustNewLogSchema",
}

// catch runs f; if it panics it returns the first slog-agent frame below the panic that is not a generic Must* helper,
// and a description.
func catch(f func()) (site, detail string) {
	defer func() {
		if r := recover(); r != nil {
			st := debug.Stack()
			site = agentFrame(st)
			detail = fmt.Sprintf("panic: %v\n%s", r, clipStack(st))
		}
	}()
	f()
	return "", ""
}

func agentFrame(stack []byte) string {
	lines := strings.Split(string(stack), "\n")
	seenPanic := false
	for _, l := range lines {
		if strings.HasPrefix(l, "panic(") {
			seenPanic = true
			continue
		}
		if !seenPanic || !strings.Contains(l, "github.com/relex/slog-agent/") || strings.HasPrefix(l, "\t") {
			continue
		}
		fn := l
		if j := strings.LastIndex(fn, "/"); j >= 0 {
			fn = fn[j+1:]
		}
		if j := strings.LastIndex(fn, "("); j > 0 {
			fn = fn[:j]
		}
		fn = strings.TrimSuffix(fn, "[...]")
		skip := false
		for _, s := range skipFrames {
			if strings.HasPrefix(fn, s) {
				skip = true
			}
		}
		if skip {
			continue
		}
		// closures: keep the enclosing function only
		if j := strings.Index(fn, ".func"); j > 0 {
			fn = fn[:j]
		}
		return fn
	}
	return "unknown"
}

func clipStack(b []byte) string {
	lines := strings.Split(string(b), "\n")
	out := []string{}
	for _, l := range lines {
		if strings.Contains(l, "runtime/debug") || strings.Contains(l, "slogverif/seq") {
			continue
		}
		out = append(out, l)
		if len(out) > 36 {
			break
		}
	}
	return strings.Join(out, "\n")
}

var siteAlias = map[string]string{
	// '*' without the far-side boundary: the nil table is indexed from whichever end the transform scans
	"textractspecial.matchValidCharsFromStart": "textractspecial.matchValidChars",
	"textractspecial.matchValidCharsFromEnd":   "textractspecial.matchValidChars",
}

func hasDuplicate(list []string) bool {
	seen := map[string]bool{}
	for _, s := range list {
		if seen[s] {
			return true
		}
		seen[s] = true
	}
	return false
}

// classify names the root-cause class of a panic after acceptance. The frame is the default; where one cause surfaces
// at several frames (metric registration happens wherever the first metric with the label set is created) the class
// is named after the cause.
func classify(site, detail string, conf run.Config) string {
	if strings.Contains(detail, "duplicate label names") {
		switch {
		case hasDuplicate(conf.MetricKeys):
			return "duplicate-metric-label:metricKeys"
		case conf.Orchestration.Value != nil && hasDuplicate(orchestrationKeys(conf)):
			return "duplicate-metric-label:orchestration.keys"
		}
		return "duplicate-metric-label:other"
	}
	if a, ok := siteAlias[site]; ok {
		return a
	}
	return site
}

func orchestrationKeys(conf run.Config) []string {
	if c, ok := conf.Orchestration.Value.(*obykeyset.Config); ok {
		return c.Keys
	}
	return nil
}

// ---------------------------------------------------------------------------------------------------------------------

// outcome of one evaluation
const (
	outRejected = "rejected"
	outAccepted = "accepted"
	outViolated = "violation"
)

type evalOptions struct {
	orchestrate bool // also run the real orchestrator + bufferer (background goroutines)
	listen      bool // also construct and start the real input listener on an ephemeral port
	twoTags     bool // build serializers / chunk makers for an empty tag too
}

// maxInstantiableFields: above this the harness does not try to allocate records (16 bytes per field and record)
const maxInstantiableFields = 1 << 20

// evaluate is the whole oracle: the loader returns; a rejection is an error value; an accepted configuration can be
// instantiated completely and processes the record menu without a panic.
// nilHolder is the harness' own diagnosis of the mutated tree (first section holder that is absent/null) and is only
// used to name the violation class.
func evaluate(text string, nilHolder string, opt evalOptions) (outcome, key, msg string) {
	caseSerial++
	if os.Getenv("C16_TRACE") != "" {
		t0 := time.Now()
		fmt.Fprintf(os.Stderr, "trace evaluate start\n")
		defer func() { fmt.Fprintf(os.Stderr, "trace evaluate end %v\n", time.Since(t0)) }()
	}
	dir := scratch()
	path := filepath.Join(dir, "config.yml")
	if err := os.WriteFile(path, []byte(text), 0o644); err != nil {
		return outViolated, "harness:write-config", err.Error()
	}

	var conf run.Config
	var schema base.LogSchema
	var loadErr error
	site, detail := catch(func() {
		conf, schema, _, loadErr = run.ParseConfigFile(path)
	})
	if site != "" {
		key = "load-panic:" + site
		if strings.Contains(detail, "nil pointer dereference") && nilHolder != "" {
			key += ":nil-" + nilHolder
		}
		return outViolated, key, "run.ParseConfigFile did not return, it panicked\n" + detail
	}
	if loadErr != nil {
		return outRejected, "", ""
	}

	if n := schema.GetMaxFields(); n > maxInstantiableFields {
		return outViolated, "accepted-unbounded:schema.maxFields", fmt.Sprintf("schema/maxFields=%d was accepted: every log record allocates maxFields string headers (%d bytes per record); "+
			"the agent cannot hold a single record (out of memory, or 'makeslice: len out of range' in base.newLogRecord)", n, uint64(n)*16)
	}

	// ---- accepted: phase A, everything that can be built and run on this goroutine
	site, detail = catch(func() {
		key, msg = instantiateInline(conf, schema, opt.twoTags)
	})
	if site != "" {
		return outViolated, "accepted-panic:" + classify(site, detail, conf), "configuration was accepted by run.ParseConfigFile, then instantiation/processing panicked\n" + detail
	}
	if key != "" {
		return outViolated, key, msg
	}

	if os.Getenv("C16_TRACE") != "" {
		fmt.Fprintf(os.Stderr, "trace phase A done\n")
	}
	// ---- phase B: the real orchestrator with pipelines and bufferers on a scratch root (background goroutines; a
	// panic there kills the worker process and is attributed to this case by seq as "fatal:...")
	if opt.orchestrate {
		site, detail = catch(func() {
			key, msg = instantiateOrchestrated(conf, schema, filepath.Join(dir, fmt.Sprintf("buf%d", caseSerial)), opt.listen)
		})
		os.RemoveAll(filepath.Join(dir, fmt.Sprintf("buf%d", caseSerial)))
		if site != "" {
			return outViolated, "accepted-panic:" + classify(site, detail, conf), "configuration was accepted by run.ParseConfigFile, then starting the orchestrator/pipelines panicked\n" + detail
		}
		if key != "" {
			return outViolated, key, msg
		}
	}
	return outAccepted, "", ""
}

// parseOnly loads a text once more to obtain the error value for a message.
func parseOnly(text string) (run.Config, base.LogSchema, run.ConfigStats, error) {
	path := filepath.Join(scratch(), "config-again.yml")
	if err := os.WriteFile(path, []byte(text), 0o644); err != nil {
		return run.Config{}, base.LogSchema{}, run.ConfigStats{}, err
	}
	return run.ParseConfigFile(path)
}

// ---------------------------------------------------------------------------------------------------------------------

type nopConsumer struct {
	args    base.ChunkConsumerArgs
	stopped *channels.SignalAwaitable
}

func (c *nopConsumer) Start() { go c.run() }

func (c *nopConsumer) Stopped() channels.Awaitable { return c.stopped }

func (c *nopConsumer) run() {
	defer c.args.OnFinished()
	defer c.stopped.Signal()
	sig := c.args.InputClosed.Channel()
	for {
		select {
		case chunk, ok := <-c.args.InputChannel:
			if !ok {
				return
			}
			c.args.OnChunkConsumed(chunk)
		case <-sig:
			return
		}
	}
}

func newNopConsumer(_ logger.Logger, _ string, _ base.ChunkDecoder, args base.ChunkConsumerArgs) base.ChunkConsumer {
	return &nopConsumer{args: args, stopped: channels.NewSignalAwaitable()}
}

// ---------------------------------------------------------------------------------------------------------------------

var testTags = []string{"development.test", ""}

// smallMenu: the records used for the second round of phase A and for phase B (few key sets => few pipelines)
func smallMenu() []string {
	return append(append([]string{}, recordMenu[:2]...), syntheticRecords[:6]...)
}

// instantiateInline mirrors test/pipeline.go: parser(s) with extractions, transforms, serializers, chunk makers,
// forwarder objects (constructed, never started), then the record menu.
func instantiateInline(conf run.Config, schema base.LogSchema, twoTags bool) (key, msg string) {
	mf := promreg.NewMetricFactory("c16a_", nil, nil)
	nOutputs := len(conf.OutputBuffersPairs)
	// reference counting exactly as run.Loader / LogProcessingWorker.onInput do it: one reference per output, one
	// Release on DROP, one Release after each output
	allocator := base.NewLogAllocator(schema, nOutputs)
	inputCounter := base.NewLogInputCounter(mf.AddOrGetPrefix("input_", nil, nil))

	var parsers []base.LogParser
	for i, in := range conf.Inputs {
		p, err := in.Value.NewParser(logger.Root(), allocator, schema, inputCounter)
		if err != nil {
			return "accepted-error:input.NewParser", fmt.Sprintf("accepted configuration, but inputs[%d].NewParser failed: %v", i, err)
		}
		parsers = append(parsers, p)
	}

	outputNames := make([]string, nOutputs)
	for i, pair := range conf.OutputBuffersPairs {
		outputNames[i] = pair.Name
	}
	procCounter := base.NewLogProcessCounter(mf.AddOrGetPrefix("process_", nil, nil), schema,
		schema.MustCreateFieldLocators(conf.MetricKeys), outputNames)
	transforms := bsupport.NewTransformsFromConfig(conf.Transformations, schema, logger.Root(), procCounter)

	type outputSet struct {
		serializer base.LogSerializer
		chunkMaker base.LogChunkMaker
		decoder    base.ChunkDecoder
	}
	var outputs []outputSet
	tags := testTags
	if !twoTags {
		tags = tags[:1]
	}
	for _, tag := range tags {
		for _, pair := range conf.OutputBuffersPairs {
			outputs = append(outputs, outputSet{
				serializer: pair.OutputConfig.Value.NewSerializer(logger.Root(), schema, tag),
				chunkMaker: pair.OutputConfig.Value.NewChunkMaker(logger.Root(), tag),
				decoder:    pair.OutputConfig.Value,
			})
		}
	}
	// the forwarder object of every output (what PrepareSequentialPipeline constructs); never started
	for i, pair := range conf.OutputBuffersPairs {
		closed := channels.NewSignalAwaitable()
		args := base.ChunkConsumerArgs{
			InputChannel:    make(chan base.LogChunk),
			InputClosed:     closed,
			OnChunkConsumed: func(base.LogChunk) {},
			OnChunkLeftover: func(base.LogChunk) {},
			OnFinished:      func() {},
		}
		fw := pair.OutputConfig.Value.NewForwarder(logger.Root(), args, mf.AddOrGetPrefix(fmt.Sprintf("output%d_", i), nil, nil))
		if fw == nil {
			return "accepted-error:output.NewForwarder", "NewForwarder returned nil"
		}
		closed.Signal()
	}

	process := func(record *base.LogRecord) {
		icounter := procCounter.SelectMetricKeySet(record)
		if bsupport.RunTransforms(record, transforms) == base.DROP {
			icounter.CountRecordDrop(record)
			allocator.Release(record)
			return
		}
		icounter.CountRecordPass(record)
		for i := len(outputs) - 1; i >= 0; i-- { // the outputs of the first tag last: they release the record
			out := outputs[i]
			stream := out.serializer.SerializeRecord(record)
			if i < nOutputs {
				allocator.Release(record)
			}
			procCounter.CountStream(i%nOutputs, stream)
			out.chunkMaker.WriteStream(stream)
		}
	}

	now := time.Unix(1600000000, 0)
	for round := 0; round < 2; round++ { // twice: sampling transforms and caches behave differently on later records
		menu := recordMenu
		if round > 0 {
			menu = smallMenu()
		}
		for _, p := range parsers {
			for _, line := range menu {
				if rec := p.Parse([]byte(line), now); rec != nil {
					process(rec)
				}
			}
		}
		// records that did not come through a parser: every field empty / every field set
		for _, fill := range []string{"", "x", "2020-09-17T16:51:47.867Z", "a@b.cd [x] - y:1/2 \\n", "abc abc"} {
			rec, _ := allocator.NewRecord([]byte("0123456789"))
			rec.RawLength = 10
			rec.Timestamp = now
			for i := range schema.GetFieldNames() {
				rec.Fields[i] = strings.Clone(fill)
			}
			process(rec)
		}
	}
	for _, out := range outputs {
		if chunk := out.chunkMaker.FlushBuffer(); chunk != nil {
			if _, err := out.decoder.DecodeChunkToJSON(*chunk, []byte(",\n"), false, discard{}); err != nil {
				return "accepted-error:chunk-undecodable", fmt.Sprintf("the chunk built from the record menu cannot be decoded: %v", err)
			}
		}
	}
	inputCounter.UpdateMetrics()
	procCounter.UpdateMetrics()
	return "", ""
}

type discard struct{}

func (discard) Write(p []byte) (int, error) { return len(p), nil }

var unsafePath = regexp.MustCompile(`[^A-Za-z0-9_./-]`)

// instantiateOrchestrated starts the configured orchestrator the way run.Loader does, with a consumer override that
// acknowledges every chunk (no network), buffer roots moved below a scratch directory, feeds the record menu through a
// sink and shuts everything down.
func instantiateOrchestrated(conf run.Config, schema base.LogSchema, root string, listen bool) (key, msg string) {
	for _, pair := range conf.OutputBuffersPairs {
		if hb, ok := pair.BufferConfig.Value.(*hybridbuffer.Config); ok {
			sub := unsafePath.ReplaceAllString(hb.RootPath, "_")
			sub = strings.ReplaceAll(sub, "..", "__")
			if len(sub) > 100 {
				sub = sub[:100]
			}
			hb.RootPath = filepath.Join(root, sub)
		}
	}
	t0 := time.Now()
	trace := func(what string) {
		if os.Getenv("C16_TRACE") != "" {
			fmt.Fprintf(os.Stderr, "trace %-20s %v\n", what, time.Since(t0))
		}
	}
	allocator := base.NewLogAllocator(schema, len(conf.OutputBuffersPairs))
	args := bconfig.PipelineArgs{
		Schema:              schema,
		Deallocator:         allocator,
		MetricKeyLocators:   schema.MustCreateFieldLocators(conf.MetricKeys),
		TransformConfigs:    conf.Transformations,
		OutputBufferPairs:   conf.OutputBuffersPairs,
		NewConsumerOverride: newNopConsumer,
		SendAllAtEnd:        true,
	}
	mf := promreg.NewMetricFactory("c16b_", nil, nil)
	orch := conf.Orchestration.Value.StartOrchestrator(logger.Root(), args, mf)
	trace("started")

	inputCounter := base.NewLogInputCounter(mf.AddOrGetPrefix("input_", nil, nil))
	now := time.Unix(1600000000, 0)
	sink := orch.NewSink("127.0.0.1:1", 1)
	for _, in := range conf.Inputs {
		p, err := in.Value.NewParser(logger.Root(), allocator, schema, inputCounter)
		if err != nil {
			continue // reported by phase A
		}
		batch := make([]*base.LogRecord, 0, len(recordMenu))
		for _, line := range smallMenu() {
			if rec := p.Parse([]byte(line), now); rec != nil {
				batch = append(batch, rec)
			}
		}
		sink.Accept(batch)
		sink.Tick()
	}
	sink.Close()
	trace("fed")

	if listen {
		stop := channels.NewSignalAwaitable()
		var stopped []channels.Awaitable
		imf := promreg.NewMetricFactory("c16i_", nil, nil)
		for i, in := range conf.Inputs {
			if sc, ok := in.Value.(*sysloginput.Config); ok {
				sc.Address = "127.0.0.1:0" // whether a port can be bound is not a property of the file
			}
			input, err := in.Value.NewInput(logger.Root(), allocator, schema, orch, imf, stop)
			if err != nil {
				key, msg = "accepted-error:input.NewInput", fmt.Sprintf("accepted configuration, but inputs[%d].NewInput failed: %v", i, err)
				break
			}
			input.Start()
			stopped = append(stopped, input.Stopped())
		}
		stop.Signal()
		if !channels.AllAwaitables(stopped...).Wait(20 * time.Second) {
			key, msg = "accepted-error:input-stop-timeout", "inputs did not stop"
		}
	}
	trace("inputs stopped")
	orch.Shutdown()
	trace("shutdown")
	return key, msg
}
